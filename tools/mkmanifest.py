#!/usr/bin/env python3
"""Regenerates MANIFEST.json from the table below (single source of truth)."""
import json, os
HERE = os.path.dirname(os.path.dirname(os.path.abspath(__file__)))

CHECKS = {
 "C01": dict(
    technique="TLA+ reference semantics (Families.tla) model-checked by TLC; implementation formulas judged by TLC over all assignments (trace validation, JudgeFamilies.tla)",
    text="TLC model-checks the closed-form corollaries of the TLA+ reference semantics (FamiliesMC) and judges every formula the real generators produce on the bounded scope: for all 2^n assignments Sat(a,F) <=> Object(params, valuation(a)); larger seeded instances on proposed candidate assignments. Bounded-exhaustive, not a proof for all sizes.",
    note="Trusted: label->index-tuple projection (harness/project.py), TLC, the transcription of the documentation into Families.tla. Bounds are recorded in the evidence file.",
    ref="DESIGN.md §4 C01"),
 "C02": dict(
    technique="TLA+ reference semantics (Families.tla) model-checked by TLC; implementation formulas judged by TLC over all assignments (trace validation, JudgeFamilies.tla)",
    text="TLC model-checks closed forms of the reference semantics on all graphs with <= 4 vertices (Tseitin solution count, even-colouring criterion, clique counts with/without symmetry breaking) and judges every formula the real generators produce for all labelled graphs with <= 4 vertices (5 sampled) and all parameters in range: pointwise Sat(a,F) <=> Object for all 2^n assignments, projection equality for dominating set, sat-equivalence for the Ramsey witness; larger seeded instances on candidate assignments.",
    note="Trusted: the binding of identifiers to index tuples through the formula's variable groups (harness/project.py), TLC, the transcription of the documentation into Families.tla. Bounds recorded in the evidence file. Known finding ramlb:k!=s.",
    ref="DESIGN.md §4 C02"),
 "C03": dict(
    technique="documented axiom sets transcribed in TLA+ (Families.tla), model-checked contradictory by TLC on the small scope; implementation clause sets compared with the axiom sets and brute-forced by TLC (trace validation, JudgeFamilies.tla)",
    text="TLC proves by brute force that the transcribed axiom sets (ordering/graph ordering with all variants on all graphs <= 4 vertices, pebbling on all DAGs <= 4, stone, CPLS) are contradictory and that planted ordering is satisfiable iff the graph is connected; for every instance, small and mid-size, TLC compares the implementation's clause set (as named literals) with Axioms(params): none missing, none extra; small instances are also brute-forced for the documented satisfiability; Ramsey/van der Waerden/Pythagorean formulas are judged pointwise against good colourings over all assignments.",
    note="Trusted: identifier->index binding via variable groups, TLC, transcription of docstrings/comments into Families.tla. Unsatisfiability beyond ~16-22 variables rests on exact-axioms equality plus the textbook result. Known finding op:n=0.",
    ref="DESIGN.md §4 C03"),
 "C04": dict(
    technique="documented encodings transcribed in TLA+ (Linear.tla) and model-checked against the arithmetic/functional meaning by TLC; what the real builders add is judged by TLC over all assignments (trace validation, JudgeLinear.tla)",
    text="TLC checks for every literal list over 3 variables (length <= 4, any polarity/repetition), all six operators and constants -2..6 that clause blasting, parity encoding, OPB normalisation and the binary-mapping clauses are equivalent to their meaning (about 137k instances x 8 assignments); the real CNF and OPB builders are then called with list/tuple/range/generator arguments for all operators/constants, normalize_opb/add_constraint on random constraints, and force_* on unary, sparse and binary mappings, and TLC judges the added clauses/constraints against the meaning for all assignments.",
    note="Trusted: projection of clauses/constraints, identifier binding of mapping variables through the variable group, TLC. Literal lists up to length 4 (9 sampled), mappings up to 3x4 / 6 codes.",
    ref="DESIGN.md §4 C04"),
 "C05": dict(
    technique="gadget semantics and the documented substitution construction in TLA+ (Transform.tla); composition theorem model-checked by TLC; real transformation outputs judged by TLC over all assignments (JudgeTransform.tla)",
    text="TLC proves the composition theorem for the transcribed construction on all 463 CNFs over two variables x every gadget (arity <= 3, all thresholds, ite, flip, lifting); the real transformations are applied to the same formulas, to formulas with unused variables, to random formulas and (compression) to all small bipartite graphs, and TLC decides for every assignment of the new variables Sat(a,T(F)) <=> side condition and Sat(Induced(a),F), plus the documented variable count.",
    note="Trusted: projection of clauses, documented block layout used by Induced, TLC. Arity <= 3, <= 15 new variables.",
    ref="DESIGN.md §4 C05"),
 "C08": dict(
    technique="CNF/PB semantics in TLA+ (CnfSem.tla); pairs of formulas built by cnfgen vs pbgen (and CNF vs OPB formula class) judged by TLC over all assignments (JudgePair.tla); clause-blasting = native constraint equivalence model-checked (LinearMC)",
    text="For every formula helper shared by cnfgen and pbgen (all 32, with their option variants) and for every library generator with formula_class CNF and OPB, TLC compares variable count, variable names in order, and the truth value of both formulas on every assignment (<= 13/17 variables; candidate assignments beyond). The model-level reason (cardinality constraint = its clause blasting for all operators) is checked exhaustively by LinearMC.",
    note="Trusted: projection of clauses/constraints/labels, in-process cli() calls with mode='formula', TLC. Small parameters; named graphs and graph files.",
    ref="DESIGN.md §4 C08"),
 "C16": dict(
    technique="implementation-shaped TLA+ state machine (Graphs.tla) model-checked exhaustively by TLC; TLC-generated behaviours replayed into the real classes with every view compared after every call",
    text="TLC explores every reachable state of the implementation-shaped graph machine (vertex counts 0..3/4, all arguments incl. invalid) with invariant ViewsAgree and the no-side-effect action property; every behaviour of depth 2 (3 thorough) and thousands of deeper random walks are replayed into Graph/DirectedGraph/BipartiteGraph, comparing all views and networkx conversions with TLC's expected abstract views after each step.",
    note="Trusted: the view accessors used by the replay harness, TLC. Bounded vertex counts and history depth.",
    ref="DESIGN.md §4 C16"),
}

ALL = ["C%02d" % i for i in range(1, 21)]

def main():
    checks = []
    for pid in ALL:
        if pid not in CHECKS:
            continue
        c = CHECKS[pid]
        checks.append({
            "property_id": pid,
            "quick_cmd": "./check %s --tier quick" % pid,
            "thorough_cmd": "./check %s --tier thorough" % pid,
            "evidence_file": "/verif/evidence/%s.json" % pid,
            "replay_cmd_template": "./check %s --replay {path}" % pid,
            "engine": "tlc",
            "level_claimed": {"category": c.get("category", "model_checking"), "text": c["text"],
                              "design_ref": c["ref"]},
            "level_note": c["note"],
            "technique": c["technique"],
        })
    na = [{"property_id": p, "reason": "check not built yet in this session (planned, see DESIGN.md §4 and §7); no claim is made"}
          for p in ALL if p not in CHECKS]
    m = {
        "version": 1,
        "setup_cmd": "./setup.sh",
        "hooks": {
            "guard": "CNFGEN_VERIF",
            "enable": "environment variable CNFGEN_VERIF=1 (set by ./check); cnfgen is imported from /repo's working tree, nothing is built",
            "baseline_off_cmd": "cd /repo && env -u CNFGEN_VERIF /venv/bin/python -m pytest -ra -q -p no:cacheprovider --timeout=900 --continue-on-collection-errors",
            "source_commits": json.load(open(os.path.join(HERE, "hooks.json")))["source_commits"] if os.path.exists(os.path.join(HERE, "hooks.json")) else [],
            "add_only": True,
        },
        "engines": [{"name": "tlc", "path": "/usr/local/bin/tlc",
                     "serves_properties": [c["property_id"] for c in checks],
                     "kind_free_text": "TLC 1.8 explicit-state model checker: exhaustive runs of the TLA+ modules in /verif/spec, judge (trace) modules over artefacts recorded from the implementation, behaviour export for replay into the implementation"}],
        "checks": checks,
        "not_applicable": na,
        "notes": "All checks: ./check <id> [--tier quick|thorough]; exit 0 held / 1 VIOLATION / 2 machinery failure. Known findings in known_findings.json.",
    }
    if not na:
        m["not_applicable"] = []
    with open(os.path.join(HERE, "MANIFEST.json"), "w") as f:
        json.dump(m, f, indent=1)
        f.write("\n")

if __name__ == "__main__":
    main()
