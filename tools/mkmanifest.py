#!/usr/bin/env python3
"""Regenerates MANIFEST.json from the table below (single source of truth)."""
import json, os
HERE = os.path.dirname(os.path.dirname(os.path.abspath(__file__)))

CHECKS = {
 "C01": dict(
    technique="TLA+ reference semantics (Families.tla) model-checked by TLC; implementation formulas judged by TLC over all assignments (trace validation, JudgeFamilies.tla)",
    text="TLC model-checks the closed-form corollaries of the TLA+ reference semantics (FamiliesMC) and judges every formula the real generators produce on the bounded scope: for all 2^n assignments Sat(a,F) <=> Object(params, valuation(a)); larger seeded instances on proposed candidate assignments. Bounded-exhaustive, not a proof for all sizes.",
    note="Trusted: label->index-tuple projection (harness/project.py), TLC, the transcription of the documentation into Families.tla. Bounds are recorded in the evidence file.",
    ref="DESIGN.md §4 C01"),
 "C02": dict(
    technique="TLA+ reference semantics (Families.tla) model-checked by TLC; implementation formulas judged by TLC over all assignments (trace validation, JudgeFamilies.tla)",
    text="TLC model-checks closed forms of the reference semantics on all graphs with <= 4 vertices (Tseitin solution count, even-colouring criterion, clique counts with/without symmetry breaking) and judges every formula the real generators produce for all labelled graphs with <= 4 vertices (5 sampled) and all parameters in range: pointwise Sat(a,F) <=> Object for all 2^n assignments, projection equality for dominating set, sat-equivalence for the Ramsey witness; larger seeded instances on candidate assignments.",
    note="Trusted: the binding of identifiers to index tuples through the formula's variable groups (harness/project.py), TLC, the transcription of the documentation into Families.tla. Bounds recorded in the evidence file. Known finding ramlb:k!=s.",
    ref="DESIGN.md §4 C02"),
 "C03": dict(
    technique="documented axiom sets transcribed in TLA+ (Families.tla), model-checked contradictory by TLC on the small scope; implementation clause sets compared with the axiom sets and brute-forced by TLC (trace validation, JudgeFamilies.tla)",
    text="TLC proves by brute force that the transcribed axiom sets (ordering/graph ordering with all variants on all graphs <= 4 vertices, pebbling on all DAGs <= 4, stone, CPLS) are contradictory and that planted ordering is satisfiable iff the graph is connected; for every instance, small and mid-size, TLC compares the implementation's clause set (as named literals) with Axioms(params): none missing, none extra; small instances are also brute-forced for the documented satisfiability; Ramsey/van der Waerden/Pythagorean formulas are judged pointwise against good colourings over all assignments.",
    note="Trusted: identifier->index binding via variable groups, TLC, transcription of docstrings/comments into Families.tla. Unsatisfiability beyond ~16-22 variables rests on exact-axioms equality plus the textbook result. Known finding op:n=0.",
    ref="DESIGN.md §4 C03"),
 "C04": dict(
    technique="documented encodings transcribed in TLA+ (Linear.tla) and model-checked against the arithmetic/functional meaning by TLC; what the real builders add is judged by TLC over all assignments (trace validation, JudgeLinear.tla)",
    text="TLC checks for every literal list over 3 variables (length <= 4, any polarity/repetition), all six operators and constants -2..6 that clause blasting, parity encoding, OPB normalisation and the binary-mapping clauses are equivalent to their meaning (about 137k instances x 8 assignments); the real CNF and OPB builders are then called with list/tuple/range/generator arguments for all operators/constants, normalize_opb/add_constraint on random constraints, and force_* on unary, sparse and binary mappings, and TLC judges the added clauses/constraints against the meaning for all assignments.",
    note="Trusted: projection of clauses/constraints, identifier binding of mapping variables through the variable group, TLC. Literal lists up to length 4 (9 sampled), mappings up to 3x4 / 6 codes.",
    ref="DESIGN.md §4 C04"),
 "C05": dict(
    technique="gadget semantics and the documented substitution construction in TLA+ (Transform.tla); composition theorem model-checked by TLC; real transformation outputs judged by TLC over all assignments (JudgeTransform.tla)",
    text="TLC proves the composition theorem for the transcribed construction on all 463 CNFs over two variables x every gadget (arity <= 3, all thresholds, ite, flip, lifting); the real transformations are applied to the same formulas, to formulas with unused variables, to random formulas and (compression) to all small bipartite graphs, and TLC decides for every assignment of the new variables Sat(a,T(F)) <=> side condition and Sat(Induced(a),F), plus the documented variable count.",
    note="Trusted: projection of clauses, documented block layout used by Induced, TLC. Arity <= 3, <= 15 new variables.",
    ref="DESIGN.md §4 C05"),
 "C07": dict(
    technique="self-composition: TLA+ product of two pipeline runs under different ambient values (CliDet.tla) model-checked by TLC (SameOutput holds iff graphs are drawn after seeding, a falsy seed is honoured and the header has no ambient value; one expected counterexample per fact); pairs/triples of real processes with the same argv and seed under different hash seed, cwd and environment, with the random module wrapped, judged by TLC (JudgeDet.tla)",
    text="TLC proves SameOutput on the product model and exhibits a counterexample for each of the three implementation facts. Every random sub-command, random graph construction and modifier (gnp, gnm, gnd, glrp, glrm sparse and dense, glrd, regular, plantclique, plantbiclique, addedges, splitedges), random transformation (shuffle, xorcomp, majcomp, chains), for cnfgen, pbgen and cnfshuffle, with seeds 0, 1, 42 (thorough: also -7, 2^31-1, 10^12), is run as 2-3 fresh processes with PYTHONHASHSEED 0/12345/987654321, cwd inside /repo, inside another git repository and in /, and a padded environment; outputs are compared byte for byte and every difference is a violation, classified by TLC through the logged seeding/draw events. Library generators with a seed argument are called twice in each of two processes.",
    note="Trusted: process runner, byte comparison, the random-module wrapper (only used to classify), TLC. Observational: a dependency that never shows in the sampled runs is not excluded.",
    ref="DESIGN.md §4 C07"),
 "C08": dict(
    technique="CNF/PB semantics in TLA+ (CnfSem.tla); pairs of formulas built by cnfgen vs pbgen (and CNF vs OPB formula class) judged by TLC over all assignments (JudgePair.tla); clause-blasting = native constraint equivalence model-checked (LinearMC)",
    text="For every formula helper shared by cnfgen and pbgen (all 32, with their option variants) and for every library generator with formula_class CNF and OPB, TLC compares variable count, variable names in order, and the truth value of both formulas on every assignment (<= 13/17 variables; candidate assignments beyond). The model-level reason (cardinality constraint = its clause blasting for all operators) is checked exhaustively by LinearMC.",
    note="Trusted: projection of clauses/constraints/labels, in-process cli() calls with mode='formula', TLC. Small parameters; named graphs and graph files.",
    ref="DESIGN.md §4 C08"),
 "C06": dict(
    technique="implementation-shaped TLA+ token state machine of the DIMACS reader plus a pure writer (DimacsIO.tla / DimacsText.tla) model-checked exhaustively by TLC; TLC-generated token paths rendered to concrete texts and replayed into CNF.from_file; real writer outputs and corrupted texts lexed and judged by TLC (JudgeDimacs.tla)",
    text="TLC explores every token path of the reader machine up to 6 (quick) / 7 (thorough) symbols over comment, blank, 22 problem-line variants, integers -3..3 and a word (n <= 2) with invariants Accept => out = Denotation(whole text) and counts match and literals in range, NoDenotation => rejected, and the round trip Read(Write(F)) = F for all formulas with <= 2 variables and <= 3 clauses of width <= 2 under the four header/varnames options (including what line breaks in header fields and names expose). Every path of depth 5/6 is rendered into 3 concrete texts and read by the real CNF.from_file (outcome in TLC's allowed set, result = TLC's denotation). Hundreds of formulas x 4 options written by the real writer, and thousands of mutated/garbage texts read by the real reader, are judged by TLC. Bounded-exhaustive plus seeded sampling, not a proof for all texts.",
    note="Trusted: the harness lexer (lines end at \\n, \\r\\n or \\r; Unicode-whitespace separated tokens; Python int() decides integers; first non-blank character c/p classifies a line), the path renderer (self-checked: lex(render(path)) = path), TLC. Reading choices: any 4-token line starting with p whose last two tokens are integers >= 0 is a problem line (lenient acceptance allowed, refusal always allowed); blank lines in writer output tolerated; cnfshuffle -i is not exercised.",
    ref="DESIGN.md §4 C06"),
 "C09": dict(
    technique="signed-renaming semantics of Shuffle's three arguments in TLA+ (Shuffle.tla): Apply, validity, outcome rule; preservation/invertibility theorem and the witness-search lemma model-checked by TLC (ShuffleMC); real Shuffle / cnfshuffle / '-T shuffle' outputs judged by TLC against the witness recorded by the CNFGEN_VERIF hook, with an exhaustive TLC witness search when the hook is absent or rejected (JudgeShuffle.tla)",
    text="TLC proves for all CNFs with <= 3 variables and <= 3 clauses of width <= 2 and every valid (flips, variable permutation, clause permutation) that the documented Apply preserves the number of variables and clauses, the multiset of clause widths and the number of models and is invertible, and proves the lemma behind the judge's witness search on all 59,939 formula pairs with <= 2 variables/clauses. The real Shuffle is run on tiny formulas x all 27 argument shapes, every valid explicit triple (N, M <= 3), every short integer sequence as an explicit argument, a catalogue of invalid and wrongly typed arguments, family outputs and random CNFs up to 40 variables / 150 clauses x all 8 switch combinations x many seeds, through the library, cnfshuffle (in-process and subprocess) and cnfgen -T shuffle; TLC decides for every record that the outcome is allowed and that G = Apply(F, witness) with fixed/explicit components used exactly as given.",
    note="Trusted: clause projection, the harness DIMACS writer and lexer, TLC, and (for formulas above 5 variables / 6 clauses with random flips or permutation) the witness recorded by the hook; the witness is validated and must reproduce G exactly, so a wrong hook can cause a failure, never a false pass; without it only the implied invariants are checked for such formulas. Clauses compared as multisets of literals, positions exactly.",
    ref="DESIGN.md §4 C09"),
 "C10": dict(
    technique="TLA+ store machine (Store.tla: Insert / NewGroup / Raise) model-checked by TLC; event logs recorded by wrappers around the real store methods are replayed through the same actions and judged by TLC (trace validation, JudgeStore.tla), with the documented variable counts taken from Families.tla / Transform.tla",
    text="TLC shows that the disciplined store keeps InRange, Monotone and Fresh and that unchecked insertions can break them (so the property is about callers). For every family in both formula classes at realistic sizes, every transformation and random chains of two, and cnfgen/pbgen command lines, the per-object event log (aggregated clause insertions with largest variable and bad-literal count, group creations with first id and length, explicit raises) is validated step by step: counter is a legal successor, every new group is contiguous and above every identifier mentioned so far; at the end literals are non-zero integers within the declared count and the count equals the documented one.",
    note="Trusted: the wrappers (BaseCNF/BaseOPB.add_clause, BaseOPB.add_constraint, update_variable_number, VariablesManager._add_variable_group; exit 2 if a name disappears), aggregation of consecutive insertions, TLC. Clause data reaching the store by another route would not be seen. Sizes: php up to 30x25, op 20, vdw 60, pitfall 10-regular... see evidence.",
    ref="DESIGN.md §4 C10"),
 "C11": dict(
    technique="implementation-shaped TLA+ state machine of the variable store (Formula.tla) with abstract and closed-form definitions of every group kind, model-checked exhaustively by TLC; TLC-generated behaviours (every shape in scope, all short interleavings, random walks) replayed into the real CNF and OPB classes with every observable compared with TLC's expected value after every call",
    text="TLC checks on every reachable state of the store machine (all 1476 group shapes in scope after a gap / followed by another group; all interleavings of group creation, add_clause and update_variable_number to depth 3-5 over small alphabets) that the closed forms used by the group classes agree with the documented enumeration, that index->id and id->index are mutually inverse, that indices are in identifier order, that ranges are contiguous, disjoint and fresh, and that names are aligned. Every behaviour [gap; create shape], every history of depth 3 (thorough: 4) and hundreds to thousands of deeper random walks are replayed into cnfgen.CNF and OPB, comparing indices(), g(*index), to_index(+-id), labels, every wildcard / out-of-domain pattern of a probe universe, membership, len, number_of_variables, all_variable_labels and the varname lines of to_file with TLC's values after each call. Bounded-exhaustive in shape size and history depth.",
    note="Trusted: TLC, the transcription of the group classes' documentation into Formula.tla, the harness' rendering of abstract labels through the format strings it passed, access to the singleton group through the protected list F._groups (skipped if absent). Acceptance choices (ValueError for out-of-domain full indices / identifiers as documented; ValueError-or-empty for out-of-range wildcard patterns; word-indexed groups may refuse wildcards; binary mapping with n=0 or m=0 may refuse; identifier order for patterns) are recorded in the evidence file.",
    ref="DESIGN.md §4 C11"),
 "C12": dict(
    technique="denotation of OPB texts and LaTeX rows specified in TLA+ (OpbLatexIO.tla), model-checked by TLC against abstract writers on all tiny formulas (OpbLatexMC.tla); outputs of the real writers (library and command line) lexed independently and judged by TLC (trace validation, JudgeOpbLatex.tla)",
    text="TLC model-checks the reading side of the specification on every CNF with 2 variables and up to 3 clauses and every OPB formula with 2 variables, up to 2 constraints of up to 2 terms, coefficients 0-3: written texts denote the formula for every header/varnames/page-split combination, and mutated formulas are rejected exactly when the constraint list changed. TLC then judges every text the real writers produce for a catalogue of edge cases, cnfgen families in both classes, transformations and seeded random formulas through every entry point (to_opb, to_latex, to_file, cnfgen/pbgen in process and as subprocesses): declared counts, constraint-by-constraint coefficients, literals, relation and degree, comment-only remainder, one LaTeX row per constraint with names and polarities, square/top, pages of at most 35 rows.",
    note="Trusted: the two lexers of harness/c12.py (OPB lines/tokens; LaTeX align blocks, rows, brace matching), the projection of the formula, TLC. Names compared modulo grouping braces; un-named variables may appear as x_<i>; term order inside a row is not checked. Known finding opb:no-semicolon (open).",
    ref="DESIGN.md §4 C12"),
 "C13": dict(
    technique="implementation-shaped TLA+ state machine of the sparse/dense sampler (Sampler.tla) model-checked exhaustively by TLC (shape, outcome rule, termination, lemmas on All and the parity encoding); answers of the real RandomKCNF/RandomKXOR and of the command line judged by TLC (JudgeSampler.tla); TLC-generated draw sequences fed through a scripted random object and judged the same way",
    text="TLC explores every reachable state of the sampler design for all planted sets of at most two assignments and every m from 0 to |All|+1 (n <= 3, selected n = 4 scopes; tries bound 1-10 per requested item), with invariants acc subset of All, distinctness, Done => |result| = m, the judge's shape verdict on the result, and Fail <=> k > n or m > |All|; strict progress and deadlock-freedom give termination. Every answer of the real library and command line on the bounded scope (n <= 5 with all k, m incl. 0 / maximum / maximum+1, many seeds, planted sets in all documented representations; larger seeded instances up to 30 variables; scripted draw sequences reaching the dense fallback deterministically) is judged by TLC against the same predicates.",
    note="Trusted: the clause/DIMACS projection and the scripted random shim in harness/c13.py, TLC. XOR results are judged set-wise; model sets compared up to 10 variables. A hidden CLI planted assignment is judged existentially. The CLI's refusal of k < 1 or n < 1 is treated as allowed. Seeds of types random.seed refuses (tuple, frozenset) are not exercised.",
    ref="DESIGN.md §4 C13"),
 "C14": dict(
    technique="TLA+ denotational semantics of the kthlist/dimacs/matrix graph formats with implementation-shaped reader machines and pure writers (GraphIO.tla), model-checked exhaustively by TLC; real write/read round trips and TLC-generated / mutated texts read by the real readers are judged by TLC (JudgeGraphIO.tla): graph read = graph written, accepted graph = denotation, else ValueError",
    text="TLC explores every text of up to 6 lines over small line alphabets (vertex numbers <= 4) per format and graph type with invariants Conforms (an accepted graph is the documented denotation), Complete (strict documented texts are accepted), DagAccept and RoundTripOK (all graphs <= 3-4 vertices), about 19 M states in the thorough tier. Every graph <= 4 vertices (3x3 bipartite) and random 10-14 vertex graphs are written and read back by the real code in all advertised (type, format) pairs through StringIO, file name, from_file and the command-line graph argument. About 200 k TLC-enumerated texts and about 25 k mutated files are read by the real readers; every outcome is judged by TLC against Allowed(text).",
    note="Trusted: the lexers and graph projection in harness/c14.py (lexer o renderer = id is asserted at run time), TLC, the transcription of www/KTHlistFormat.txt / graphformats.org / DIMACS edge format into GraphIO.tla. gml/dot grammars are networkx/pydot's: only round trip and 'graph or ValueError' are decided. Where the documentation is silent both the denoted graph and ValueError are allowed.",
    ref="DESIGN.md §4 C14"),
 "C15": dict(
    technique="TLA+ specification GraphCmd.tla (legality classes, Promise per construction, modifier and save predicates, reference constructions) model-checked by TLC (GraphCmdMC, 6/9 configs); trace validation: TLC (JudgeGraphCmd) judges recorded outcomes of the real argparse graph actions, CLI runs and library constructors, including intermediate graphs per modifier and saved files read back; random choices explored by seeds and a skewed random source",
    text="The specification's closed forms and shape predicates are machine-checked against explicit constructions (named DAGs up to 7 vertices, grids/tori, all graphs up to 4 vertices for modifiers, bipartite up to 3x3). About 14k (quick) / 129k (thorough) recorded runs of make_graph_from_spec, cnfgen with graph arguments and the library constructors - every construction x argument menu around each documented bound x modifiers in several orders x save in every format x 20/200 seeds plus skewed random sources - are judged by TLC: outcome class (must succeed / may refuse / must refuse), Promise(constr,args,G), each modifier against the graph it actually received, saved file = graph handed on.",
    note="Trusted: projection of graphs through the public API, wrappers around cnfgen.clitools.graph_args.modify_* (exit 2 if they disappear), TLC. Named-graph identity by isomorphism only up to 7 vertices and by invariants beyond; sampler distributions are not checked; library calls only with arguments the command line would let through.",
    ref="DESIGN.md §4 C15"),
 "C16": dict(
    technique="implementation-shaped TLA+ state machine (Graphs.tla) model-checked exhaustively by TLC; TLC-generated behaviours replayed into the real classes with every view compared after every call",
    text="TLC explores every reachable state of the implementation-shaped graph machine (vertex counts 0..3/4, all arguments incl. invalid) with invariant ViewsAgree and the no-side-effect action property; every behaviour of depth 2 (3 thorough) and thousands of deeper random walks are replayed into Graph/DirectedGraph/BipartiteGraph, comparing all views and networkx conversions with TLC's expected abstract views after each step.",
    note="Trusted: the view accessors used by the replay harness, TLC. Bounded vertex counts and history depth.",
    ref="DESIGN.md §4 C16"),
 "C17": dict(
    technique="LibCall table in TLA+ (CliTable.tla: sub-command + options -> library generator and arguments, transformations, named graphs, output options) enumerated by TLC (spec -> code test generation); each command line is run through cnfgen / pbgen / kthlist2pebbling and the library call TLC names is run separately; TLC compares class, variables, names and clause multisets (JudgePair.tla strict mode)",
    text="TLC exports 651 formula command lines (every formula helper with a documented library generator, every option subset, small parameters, named and planted graphs), 68 transformation invocations and 8 output-option sets with the library call each stands for. Every command is run through cnfgen (and pbgen) with --seed and through the named library generator with the same seed and the graphs loaded from the file the command line saved; transformation chains of length 1-3, output options and kthlist2pebbling vs peb are compared the same way. TLC decides equality of formula class, variable count, names and the multiset of clauses / constraints.",
    note="Trusted: CLI driver (in-process cli(mode='formula')), name -> callable resolution, mirroring of --plant's random assignment, projection, TLC. Random tseitin charge patterns and the 'N d' random-regular shortcuts are not in the table.",
    ref="DESIGN.md §4 C17"),
 "C18": dict(
    technique="pipeline state machine (Cli.tla) with outcome invariants model-checked by TLC; abstract argument vectors enumerated by TLC (CliArgs.tla, spec -> code test generation) concretised and run as fresh processes; observed runs judged by TLC against the machine's terminal outcomes using the strict DIMACS / OPB readers of DimacsText.tla and OpbLatexIO.tla (JudgeCli.tla)",
    text="TLC checks on the pipeline machine that nothing is written before the Write stage, that Write is atomic with respect to failure and that an error is shielded, for all four tools and formats. CliArgs.tla yields ~3.8k argument vectors: every sub-command's valid example in every output format and with every option; each positional argument replaced by each value class (negative, 0, 1, big, huge, float, word, empty, '+3', '1e2', hex; for graph and file arguments: missing file, directory, empty / garbage / truncated / wrong-type file, unknown extension, malformed or incomplete specification, bad or impossible modifier, unwritable save target, closed stdin, blank lines); and structural perturbations (missing / extra argument, unknown option, dangling or unknown -T, bad output format, help, bad seed, no sub-command, output to a directory), for cnfgen, pbgen, cnfshuffle and kthlist2pebbling. Each is run as a process; TLC decides that the run is success (exit 0, complete formula accepted by the strict reader, valid examples must succeed), help, or a shielded command line error - never a traceback, exit 0 without a formula, partial output or unshielded text.",
    note="Trusted: concretisation of value classes, process runner (cwd=/repo, stdin closed, 25 s and 3 GB limits; runs hitting a limit are counted, not judged), the lexers of c06/c12, TLC. LaTeX output has no strict reader (only 'something was written'). Quick tier samples ~1.2k vectors, thorough runs all.",
    ref="DESIGN.md §4 C18"),
 "C19": dict(
    technique="TLA+ object-pool machine (Provenance.tla: Transform / AddClause / AddEntry) with NoAlias and the header rule model-checked by TLC; snapshots of inputs and arguments recorded around real calls judged by TLC (JudgeProvenance.tla)",
    text="TLC checks on all chains of bounded length that a step changes at most the object it names and that a new object's header is its parent's header plus one entry 'transformation k' with k least unused (also for headers that already contain numbered entries). Every real transformation (15 substitution/lifting/flip/compression kinds and shuffle) alone and in random chains of 2-3 is applied to formulas with names, headers, empty clauses, missing description: the input is snapshotted before the call, after it, and after the result has been mutated (clause, header entries, variable count), and the result header is checked against the rule; every graph, literal list (all builders, both classes, also failing calls), constraint, charges, shift pattern, planted assignments and explicit shuffle arguments are snapshotted before/after.",
    note="Trusted: snapshots through the public API, TLC. 'Keeps the original description' is read as prefix (Shuffle appends ' (reshuffled)').",
    ref="DESIGN.md §4 C19"),
 "C20": dict(
    technique="implementation-shaped TLA+ state machine of the documented solver bridge (Solver.tla) model-checked exhaustively by TLC (18 invariants, an action property on temporary files, termination); every terminal state exported by TLC (scenario rendered to concrete solver output + allowed outcome + leftover files) is replayed into the real CNF.solve()/is_satisfiable() against fake solver executables in a private PATH with an empty TMPDIR",
    text="TLC explores every reachable state of the bridge machine over the bounded scenario scope (6 formulas incl. zero variables / empty clause / unused variables; the three conventions; all 11 table names + an unsupported one; cmd None/empty/name/name+options; sameas none/valid/unknown; installed, non-executable and decoy executables; every stdout skeleton of <=3 (thorough <=4) lines over 9 (11) line kinds with every cut of TLC-chosen real models over <=2 (3) v lines in 3 print orders; result-file contents; exec failure) and checks: no temp file left at any exit, right solver and interface, (True, w) => SAT and w = solver's literals sorted by variable and w satisfies F, (False, None) <=> UNSAT, no answer/failing/missing/unsupported => RuntimeError, unknown sameas => ValueError, is_satisfiable = fst(solve). Every scenario (9.2k quick / 98.7k thorough) is replayed into the real code and its result or exception class and the scratch TMPDIR are compared for equality with TLC's outcomes.",
    note="Trusted: TLC; the shell templating of fake solvers and the projection of results / exception class names; the E2BIG trick as realisation of 'solver cannot be executed'. Assumptions: solvers are honest and speak the convention announced by the table or sameas; which installed solver answers when no cmd is given is left open; non-conforming output may be read leniently or refused with RuntimeError; SAT without a model for n>0 may give (True, []), (True, None) or RuntimeError.",
    ref="DESIGN.md §4 C20"),
}

ALL = ["C%02d" % i for i in range(1, 21)]

def main():
    checks = []
    for pid in ALL:
        if pid not in CHECKS:
            continue
        c = CHECKS[pid]
        checks.append({
            "property_id": pid,
            "quick_cmd": "./check %s --tier quick" % pid,
            "thorough_cmd": "./check %s --tier thorough" % pid,
            "evidence_file": "/verif/evidence/%s.json" % pid,
            "replay_cmd_template": "./check %s --replay {path}" % pid,
            "engine": "tlc",
            "level_claimed": {"category": c.get("category", "model_checking"), "text": c["text"],
                              "design_ref": c["ref"]},
            "level_note": c["note"],
            "technique": c["technique"],
        })
    na = [{"property_id": p, "reason": "check not built yet in this session (planned, see DESIGN.md §4 and §7); no claim is made"}
          for p in ALL if p not in CHECKS]
    m = {
        "version": 1,
        "setup_cmd": "./setup.sh",
        "hooks": {
            "guard": "CNFGEN_VERIF",
            "enable": "environment variable CNFGEN_VERIF=1 (set by ./check); cnfgen is imported from /repo's working tree, nothing is built",
            "baseline_off_cmd": "cd /repo && env -u CNFGEN_VERIF /venv/bin/python -m pytest -ra -q -p no:cacheprovider --timeout=900 --continue-on-collection-errors",
            "source_commits": json.load(open(os.path.join(HERE, "hooks.json")))["source_commits"] if os.path.exists(os.path.join(HERE, "hooks.json")) else [],
            "add_only": True,
        },
        "engines": [{"name": "tlc", "path": "/usr/local/bin/tlc",
                     "serves_properties": [c["property_id"] for c in checks],
                     "kind_free_text": "TLC 1.8 explicit-state model checker: exhaustive runs of the TLA+ modules in /verif/spec, judge (trace) modules over artefacts recorded from the implementation, behaviour export for replay into the implementation"}],
        "checks": checks,
        "not_applicable": na,
        "notes": "All checks: ./check <id> [--tier quick|thorough]; exit 0 held / 1 VIOLATION / 2 machinery failure. Known findings in known_findings.json.",
    }
    if not na:
        m["not_applicable"] = []
    with open(os.path.join(HERE, "MANIFEST.json"), "w") as f:
        json.dump(m, f, indent=1)
        f.write("\n")

if __name__ == "__main__":
    main()
