#!/usr/bin/env python3
"""Run the repository's pinned test-suite with the verification guard OFF and
compare the set of passing tests with /root/.vp/BASELINE.json (stable_pass)."""
import json, os, subprocess, sys, tempfile, xml.etree.ElementTree as ET
base = json.load(open("/root/.vp/BASELINE.json"))
want = set(base["stable_pass"])
out = tempfile.mktemp(suffix=".xml", dir="/verif/.work")
env = dict(os.environ)
env.pop("CNFGEN_VERIF", None)
cmd = ["/venv/bin/python", "-m", "pytest", "-ra", "-q", "-p", "no:cacheprovider", "--timeout=900",
       "--continue-on-collection-errors", "--junitxml=" + out]
subprocess.run(cmd, cwd="/repo", env=env, stdout=subprocess.DEVNULL, stderr=subprocess.DEVNULL)
passed = set()
for tc in ET.parse(out).getroot().iter("testcase"):
    if not any(ch.tag in ("failure", "error", "skipped") for ch in tc):
        passed.add("%s::%s" % (tc.get("classname"), tc.get("name")))
os.unlink(out)
missing = sorted(want - passed)
print("baseline: %d expected passing, %d pass now, %d missing" % (len(want), len(want & passed), len(missing)))
for m in missing[:20]:
    print("  MISSING", m)
sys.exit(1 if missing else 0)
