#!/bin/sh
# usage: tools/runall.sh [tier] [seed]   -- runs every registered check once, prints one line each
cd "$(dirname "$0")/.." || exit 2
tier=${1:-quick}; seed=${2:-0}
for c in C01 C02 C03 C04 C05 C06 C07 C08 C09 C10 C11 C12 C13 C14 C15 C16 C17 C18 C19 C20; do
  s=$(date +%s)
  out=$(./check $c --tier $tier --seed $seed 2>&1); rc=$?
  e=$(date +%s)
  echo "$c rc=$rc $((e-s))s $(echo "$out" | grep -E '^(PASS|FAIL|MACHINERY)' | tail -1 | cut -c1-160)"
  [ $rc -ne 0 ] && echo "$out" | grep -E "VIOLATION|failing clauses|MACHINERY" | head -5
done
