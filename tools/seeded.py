#!/usr/bin/env python3
"""Seeded changes: confirm them in a scratch worktree and run the checks against them.

  tools/seeded.py import <src dir with mK/{patch.diff,demo.py,meta.json}> <PROPERTY>
        copy into /verif/seeded/<PROPERTY>-<k>/
  tools/seeded.py confirm <name>|all
        scratch worktree of /repo HEAD under /tmp: demo passes clean, fails with the patch,
        the 518 baseline tests still pass with the patch; worktree removed afterwards
  tools/seeded.py run <name>|all [--tier quick] [--prop Cxx  (another property's check)] [--seed N]
        git -C /repo apply patch; ./check <property>; git -C /repo checkout -- . ; record outcome
  tools/seeded.py table
        rewrite seeded/README.md from the recorded results
"""
import json
import os
import shutil
import subprocess
import sys
import xml.etree.ElementTree as ET

VERIF = os.path.dirname(os.path.dirname(os.path.abspath(__file__)))
SEEDED = os.path.join(VERIF, "seeded")
REPO = "/repo"
# the stored patches were written against this commit of /repo; later commits there (hooks) must not
# invalidate them, so scratch worktrees are created at the base recorded in meta.json (default below)
BASE = "7657fee"


def sh(cmd, **kw):
    return subprocess.run(cmd, stdout=subprocess.PIPE, stderr=subprocess.STDOUT, text=True, **kw)


def names(arg):
    if arg == "all":
        return sorted(d for d in os.listdir(SEEDED) if os.path.isfile(os.path.join(SEEDED, d, "patch.diff")))
    return [arg]


def load_meta(name):
    with open(os.path.join(SEEDED, name, "meta.json")) as f:
        return json.load(f)


def save_meta(name, meta):
    with open(os.path.join(SEEDED, name, "meta.json"), "w") as f:
        json.dump(meta, f, indent=1, sort_keys=True)
        f.write("\n")


def cmd_import(src, prop):
    os.makedirs(SEEDED, exist_ok=True)
    for sub in sorted(os.listdir(src)):
        d = os.path.join(src, sub)
        if not os.path.isfile(os.path.join(d, "patch.diff")):
            continue
        k = 1
        while os.path.exists(os.path.join(SEEDED, "%s-%d" % (prop, k))):
            k += 1
        dst = os.path.join(SEEDED, "%s-%d" % (prop, k))
        os.makedirs(dst)
        for f in ("patch.diff", "demo.py", "meta.json"):
            shutil.copy(os.path.join(d, f), os.path.join(dst, f))
        meta = load_meta("%s-%d" % (prop, k))
        meta["property"] = prop
        meta["origin"] = "independent sub-agent given only the property text and a scratch worktree"
        meta["base"] = (sh(["git", "-C", src, "rev-parse", "--short", "HEAD"]).stdout.strip() or BASE)[:7]
        save_meta("%s-%d" % (prop, k), meta)
        print("imported", dst)


def baseline_pass(wt):
    shutil.rmtree(os.path.join(wt, "SEEDED"), ignore_errors=True)   # not part of the suite
    base = json.load(open("/root/.vp/BASELINE.json"))
    want = set(base["stable_pass"])
    out = os.path.join(wt, "junit_seeded.xml")
    env = dict(os.environ)
    env.pop("CNFGEN_VERIF", None)
    subprocess.run(["/venv/bin/python", "-m", "pytest", "-ra", "-q", "-p", "no:cacheprovider", "--timeout=900",
                    "--continue-on-collection-errors", "--junitxml=" + out], cwd=wt, env=env,
                   stdout=subprocess.DEVNULL, stderr=subprocess.DEVNULL)
    passed = set()
    for tc in ET.parse(out).getroot().iter("testcase"):
        if not any(ch.tag in ("failure", "error", "skipped") for ch in tc):
            passed.add("%s::%s" % (tc.get("classname"), tc.get("name")))
    os.unlink(out)
    return sorted(want - passed)


def cmd_confirm(name):
    d = os.path.join(SEEDED, name)
    wt = "/tmp/sc_%s" % name
    sh(["git", "-C", REPO, "worktree", "remove", "--force", wt])
    r = sh(["git", "-C", REPO, "worktree", "add", "--detach", wt, load_meta(name).get("base", BASE)])
    if r.returncode:
        print(r.stdout)
        return False
    try:
        # same relative place as where the seeding agent wrote it (some demos locate the tree
        # from their own path)
        os.makedirs(os.path.join(wt, "SEEDED", "m1"), exist_ok=True)
        demo = os.path.join(wt, "SEEDED", "m1", "demo.py")
        shutil.copy(os.path.join(d, "demo.py"), demo)
        env = dict(os.environ, PYTHONPATH=wt, PYTHONWARNINGS="ignore")
        env.pop("CNFGEN_VERIF", None)
        a = subprocess.run(["/venv/bin/python", demo], cwd=wt, env=env, stdout=subprocess.PIPE,
                           stderr=subprocess.STDOUT, text=True, timeout=900)
        ap = sh(["git", "-C", wt, "apply", os.path.join(d, "patch.diff")])
        if ap.returncode:
            print("patch does not apply:", ap.stdout)
            return False
        b = subprocess.run(["/venv/bin/python", demo], cwd=wt, env=env, stdout=subprocess.PIPE,
                           stderr=subprocess.STDOUT, text=True, timeout=900)
        missing = baseline_pass(wt)
        meta = load_meta(name)
        meta["confirmed"] = {"demo_exit_clean_tree": a.returncode, "demo_exit_with_patch": b.returncode,
                             "baseline_tests_missing_with_patch": missing,
                             "ok": a.returncode == 0 and b.returncode != 0 and not missing,
                             "how": "scratch worktree of /repo HEAD under /tmp; demo.py run before and after "
                                    "'git apply patch.diff'; pinned suite (518 stable tests) run with the patch"}
        save_meta(name, meta)
        print("%s: demo clean=%d patched=%d, baseline missing=%d -> %s"
              % (name, a.returncode, b.returncode, len(missing), "CONFIRMED" if meta["confirmed"]["ok"] else "REJECTED"))
        if b.returncode == 0:
            print(b.stdout[-500:])
        return meta["confirmed"]["ok"]
    finally:
        sh(["git", "-C", REPO, "worktree", "remove", "--force", wt])
        shutil.rmtree(wt, ignore_errors=True)


def cmd_run(name, tier="quick", in_repo=False, other=None, seed=None):
    """Run the property's check against the seeded change.  Default: the patch is applied to a
    scratch worktree of /repo HEAD and the check is pointed at it with CNFGEN_REPO (safe while other
    runs use /repo); with --in-repo the patch is applied to /repo itself and undone afterwards."""
    d = os.path.join(SEEDED, name)
    meta = load_meta(name)
    prop = other or meta["property"]
    key = tier if not other else "%s@%s" % (tier, other)
    if seed is not None:
        key += "#seed%s" % seed
    env = dict(os.environ)
    wt = None
    if in_repo:
        if sh(["git", "-C", REPO, "merge-base", "--is-ancestor", "HEAD", meta.get("base", BASE)]).returncode:
            print("refusing --in-repo: /repo HEAD is not the base this patch was written against")
            sys.exit(2)
        st = sh(["git", "-C", REPO, "status", "--porcelain"])
        if st.stdout.strip():
            print("refusing: /repo has uncommitted changes")
            sys.exit(2)
        target = REPO
    else:
        wt = "/tmp/sr_%s" % name
        sh(["git", "-C", REPO, "worktree", "remove", "--force", wt])
        # on /repo's HEAD when the patch still applies there (later repairs of /repo are then in place);
        # otherwise at the commit the patch was written against
        r = sh(["git", "-C", REPO, "worktree", "add", "--detach", wt, "HEAD"])
        if r.returncode:
            print(r.stdout)
            return
        if sh(["git", "-C", wt, "apply", "--check", os.path.join(d, "patch.diff")]).returncode:
            sh(["git", "-C", REPO, "worktree", "remove", "--force", wt])
            r = sh(["git", "-C", REPO, "worktree", "add", "--detach", wt, load_meta(name).get("base", BASE)])
            if r.returncode:
                print(r.stdout)
                return
        target = wt
        env["CNFGEN_REPO"] = wt
    ap = sh(["git", "-C", target, "apply", os.path.join(d, "patch.diff")])
    if ap.returncode:
        print("patch does not apply:", ap.stdout)
        if wt:
            sh(["git", "-C", REPO, "worktree", "remove", "--force", wt])
        return
    try:
        r = subprocess.run([os.path.join(VERIF, "check"), prop, "--tier", tier] + (["--seed", str(seed)] if seed is not None else []),
                           cwd=VERIF, stdout=subprocess.PIPE,
                           stderr=subprocess.STDOUT, text=True, timeout=7200, env=env)
    finally:
        if in_repo:
            sh(["git", "-C", REPO, "checkout", "--", "."])
        else:
            sh(["git", "-C", REPO, "worktree", "remove", "--force", wt])
            shutil.rmtree(wt, ignore_errors=True)
    viol = [l for l in r.stdout.splitlines() if l.startswith("VIOLATION")]
    clauses = [l for l in r.stdout.splitlines() if l.startswith("failing clauses:")]
    meta.setdefault("checks", {})[key] = {
        "check": "./check %s --tier %s" % (prop, tier), "applied_to": "/repo" if in_repo else "scratch worktree (CNFGEN_REPO)",
        "exit": r.returncode, "violations": len(viol),
        "first_violation": viol[0] if viol else "", "failing_clauses": clauses[0][len("failing clauses: "):] if clauses else "",
        "caught": r.returncode == 1 and bool(viol)}
    save_meta(name, meta)
    # the evidence file now describes a run on a mutated tree: restore it from the last commit
    sh(["git", "-C", VERIF, "checkout", "--", "evidence/%s.json" % prop])
    print("%s (%s, %s): exit %d, %d VIOLATION lines -> %s" % (name, prop, tier, r.returncode, len(viol),
                                                            "CAUGHT" if meta["checks"][key]["caught"] else "MISSED"))
    if r.returncode == 2:
        print(r.stdout[-1500:])


def cmd_table():
    rows = []
    for n in names("all"):
        m = load_meta(n)
        c = m.get("checks", {})
        rows.append("| %s | %s | %s | %s | %s | %s |" % (
            n, m["property"], (m.get("what_changed") or m.get("title", ""))[:110].replace("|", "/").replace("\n", " "),
            (m.get("needs_to_manifest") or "")[:110].replace("|", "/").replace("\n", " "),
            "yes" if m.get("confirmed", {}).get("ok") else "no",
            "; ".join("%s: %s%s" % (t, "caught" if v["caught"] else ("MISSED" if "@" not in t else "not flagged (another property's check)"),
                                    (" (" + v["failing_clauses"][:80] + ")") if v.get("failing_clauses") else "")
                      for t, v in sorted(c.items()))))
    with open(os.path.join(SEEDED, "README.md"), "w") as f:
        f.write("# Seeded changes\n\nEach directory holds `patch.diff` (applies to /repo HEAD), `demo.py` (exit 0 clean, "
                "exit 1 with the patch) and `meta.json`. Produced by sub-agents that saw only the property text; confirmed "
                "and run against the checks with `tools/seeded.py`.\n\n"
                "| name | property | change | needs | confirmed | checks |\n|---|---|---|---|---|---|\n")
        f.write("\n".join(rows) + "\n")
    print("wrote seeded/README.md with %d rows" % len(rows))


if __name__ == "__main__":
    a = sys.argv[1:]
    if a[0] == "import":
        cmd_import(a[1], a[2])
    elif a[0] == "confirm":
        for n in names(a[1]):
            cmd_confirm(n)
    elif a[0] == "run":
        tier = a[a.index("--tier") + 1] if "--tier" in a else "quick"
        for n in names(a[1]):
            cmd_run(n, tier, "--in-repo" in a, a[a.index("--prop") + 1] if "--prop" in a else None,
                    a[a.index("--seed") + 1] if "--seed" in a else None)
    elif a[0] == "table":
        cmd_table()
