"""Instance enumeration helpers shared by the family checks (drive only)."""
import itertools
from .exc import exc_name


def simple_graphs(n):
    """All labelled simple graphs on 1..n as sorted edge lists."""
    pairs = [(u, v) for u in range(1, n + 1) for v in range(u + 1, n + 1)]
    for mask in range(1 << len(pairs)):
        yield [list(p) for k, p in enumerate(pairs) if mask >> k & 1]


def bipartite_graphs(L, R):
    pairs = [(u, v) for u in range(1, L + 1) for v in range(1, R + 1)]
    for mask in range(1 << len(pairs)):
        yield [list(p) for k, p in enumerate(pairs) if mask >> k & 1]


def dags(n):
    """All DAGs on 1..n whose edges go upward (topologically sorted)."""
    return simple_graphs(n)


def digraphs(n):
    pairs = [(u, v) for u in range(1, n + 1) for v in range(1, n + 1) if u != v]
    for mask in range(1 << len(pairs)):
        yield [list(p) for k, p in enumerate(pairs) if mask >> k & 1]


_ORDER = {"rng": None, "nx": 0.0, "hist": 0.0, "lazy": 0.0}
_HIST = {"phase": None, "slots": [], "pos": 0}


def scramble_insertions(rng, nx=0.15, hist=0.25, lazy=0.5):
    """From now on mk_graph / mk_bipartite / mk_digraph build the same abstract graph by another history:
    the edges are inserted in a random order (and, for simple graphs, random orientation); with
    probability nx the graph is handed over as a networkx object (nodes and edges inserted in a random
    order); with probability hist (decided in build()) the generator is first run on an intermediate
    state of the very same object, which is then updated to the requested graph and used again; a complete
    bipartite graph is handed over as the lazy CompleteBipartiteGraph class with probability lazy.  The
    abstract graph handed to the specification is the same in every case."""
    _ORDER.update(rng=rng, nx=nx, hist=hist, lazy=lazy)


def _order(edges, flip=False):
    rng = _ORDER["rng"]
    es = [tuple(e) for e in edges]
    if rng is None:
        return es
    es = list(es)
    rng.shuffle(es)
    if flip:
        es = [(v, u) if rng.random() < .5 else (u, v) for u, v in es]
    return es


def _new(kind, n, r):
    from cnfgen.graphs import Graph, BipartiteGraph, DirectedGraph
    return Graph(n) if kind == "simple" else DirectedGraph(n) if kind == "digraph" else BipartiteGraph(n, r)


def _as_networkx(kind, n, r, edges):
    import networkx
    rng = _ORDER["rng"]
    if kind == "bipartite":
        X = networkx.Graph()
        lft, rgt = [(u, 0) for u in range(1, n + 1)], [(n + v, 1) for v in range(1, r + 1)]
        nodes = []                  # numbering inside a side follows the order of insertion: kept ascending
        while lft or rgt:
            src = lft if (lft and (not rgt or rng.random() < .5)) else rgt
            nodes.append(src.pop(0))
        for x, side in nodes:
            X.add_node(x, bipartite=side)
        for u, v in _order(edges):
            if rng.random() < .5:
                X.add_edge(u, n + v)
            else:
                X.add_edge(n + v, u)
        return X
    X = networkx.DiGraph() if kind == "digraph" else networkx.Graph()
    nodes = list(range(1, n + 1))
    rng.shuffle(nodes)
    X.add_nodes_from(nodes)
    X.add_edges_from(_order(edges, flip=(kind == "simple")))
    return X


def _mk(kind, n, r, edges):
    rng = _ORDER["rng"]
    target = [tuple(e) for e in edges]
    if _HIST["phase"] == "pre":
        # an intermediate state: for simple graphs one edge replaced by a non-edge (same counts) when
        # possible, otherwise one edge still missing
        inter = list(target)
        if inter:
            gone = inter.pop(rng.randrange(len(inter)))
            if kind == "simple":
                have = {frozenset(e) for e in target}
                non = [(u, v) for u in range(1, n + 1) for v in range(u + 1, n + 1) if frozenset((u, v)) not in have]
                if non and rng.random() < .7:
                    inter.append(rng.choice(non))
        G = _new(kind, n, r)
        for u, v in _order(inter, flip=(kind == "simple")):
            G.add_edge(u, v)
        _HIST["slots"].append((G, inter))
        return G
    if _HIST["phase"] == "post" and _HIST["pos"] < len(_HIST["slots"]):
        G, inter = _HIST["slots"][_HIST["pos"]]
        _HIST["pos"] += 1
        key = (lambda e: frozenset(e)) if kind == "simple" else (lambda e: tuple(e))
        want, have = {key(e) for e in target}, {key(e) for e in inter}
        for e in inter:
            if key(e) not in want:
                G.remove_edge(*e)
        for u, v in _order([e for e in target if key(e) not in have], flip=(kind == "simple")):
            G.add_edge(u, v)
        return G
    if rng is not None and _HIST["phase"] is None and kind == "bipartite" and len(target) == n * r \
            and rng.random() < _ORDER["lazy"]:
        # the complete bipartite graph as the class that stores no edge
        from cnfgen.graphs import CompleteBipartiteGraph
        return CompleteBipartiteGraph(n, r)
    if rng is not None and _HIST["phase"] is None and rng.random() < _ORDER["nx"]:
        return _as_networkx(kind, n, r, target)
    if rng is not None and kind == "simple" and n >= 2 and rng.random() < .3:
        # a graph that has grown: created smaller, enlarged by two or more vertices in one call
        G = _new(kind, rng.randint(0, n - 2), r)
        G.update_vertex_number(n)
    else:
        G = _new(kind, n, r)
    for u, v in _order(target, flip=(kind == "simple")):
        G.add_edge(u, v)
    return G


def mk_graph(n, edges):
    return _mk("simple", n, 0, edges)


def mk_bipartite(L, R, edges):
    return _mk("bipartite", L, R, edges)


def mk_digraph(n, edges):
    return _mk("digraph", n, 0, edges)


def _call(thunk):
    """The generator call; when scrambling is on, sometimes preceded by a call on an intermediate state of
    the same graph object(s)."""
    rng = _ORDER["rng"]
    if rng is None or rng.random() >= _ORDER["hist"]:
        return thunk()
    _HIST.update(phase="pre", slots=[], pos=0)
    try:
        try:
            thunk()
        except Exception:
            pass
        _HIST.update(phase="post" if _HIST["slots"] else None, pos=0)
        return thunk()
    finally:
        _HIST.update(phase=None, slots=[], pos=0)


def warm_process():
    """Before anything is judged, the process has already built things of other sizes: variable groups of
    every kind at non-zero offsets, binary mappings of many widths, larger graphs and a few larger family
    instances in both classes - nothing a generator builds later may depend on what the process did before."""
    import cnfgen
    from cnfgen.formula.opb import OPB
    for cls in (cnfgen.CNF, OPB):
        for off in (7, 3):
            for n in range(2, 21):
                W = cls()
                W.update_variable_number(off)
                W.new_combinations(n, 2)
                W.new_permutations(n, 2)
                if n <= 6:
                    W.new_combinations(n, 3)
                    W.new_words(n, 2)
                W.new_mapping(n, 3)
                W.new_block(n, 2)
                f = W.new_binary_mapping(3, n + 17)
                W.force_complete_mapping(f)
                W.force_injective_mapping(f)
                g = W.new_binary_mapping(2, n)
                W.force_complete_mapping(g)
        try:
            G9 = _new("simple", 9, 0)
            for u in range(1, 9):
                G9.add_edge(u, u + 1)
            G9.add_edge(1, 9)
            B = _new("bipartite", 9, 8)
            for u in range(1, 10):
                for v in (1 + u % 8, 1 + (u + 3) % 8):
                    B.add_edge(u, v)
            cnfgen.BinaryCliqueFormula(G9, 3, formula_class=cls)
            cnfgen.BinaryPigeonholePrinciple(9, 11, formula_class=cls)
            cnfgen.CliqueFormula(G9, 3, formula_class=cls)
            cnfgen.GraphColoringFormula(G9, 3, formula_class=cls)
            cnfgen.DominatingSet(G9, 3, formula_class=cls)
            cnfgen.TseitinFormula(G9, formula_class=cls)
            cnfgen.GraphPigeonholePrinciple(B, formula_class=cls)
            cnfgen.SubsetCardinalityFormula(B, formula_class=cls)
            cnfgen.CPLSFormula(3, 8, 4, formula_class=cls)
            cnfgen.OrderingPrinciple(7, formula_class=cls)
            cnfgen.RelativizedPigeonholePrinciple(4, 5, 4, formula_class=cls)
        except Exception as e:      # a generator that cannot build a plain instance will show in the check itself
            pass


def gid(edges):
    return "e" + "_".join("%d.%d" % (u, v) for u, v in edges) if edges else "e-"


def build(rec_id, fam, par, thunk, graph=None, extra=None):
    """Call the real generator (thunk) and project the outcome."""
    from . import project
    rec = {"id": rec_id, "fam": fam, "par": par or {"none": 0}}
    if graph is not None:
        rec["graph"] = graph
    try:
        F = _call(thunk)
    except Exception as e:  # the outcome is judged by the specification
        rec["outcome"] = exc_name(e)
        rec["nvars"] = 0
        rec["cls"] = "CNF"
        rec["clauses"] = []
        rec["grp"] = []
        rec["idx"] = []
        rec["msg"] = str(e)[:200]
    else:
        rec.update(project.formula(F))
        rec.pop("labels", None)
        rec["outcome"] = "ok"
    if extra:
        rec.update(extra)
    return rec


def weight(rec):
    n = rec.get("nvars", 0)
    if "cand" in rec:
        return len(rec["cand"]) * 4
    size = len(rec.get("clauses", rec.get("constraints", []))) + 1
    return (1 << min(n, 40)) * max(1, size // 8)
