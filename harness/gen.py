"""Instance enumeration helpers shared by the family checks (drive only)."""
import itertools


def simple_graphs(n):
    """All labelled simple graphs on 1..n as sorted edge lists."""
    pairs = [(u, v) for u in range(1, n + 1) for v in range(u + 1, n + 1)]
    for mask in range(1 << len(pairs)):
        yield [list(p) for k, p in enumerate(pairs) if mask >> k & 1]


def bipartite_graphs(L, R):
    pairs = [(u, v) for u in range(1, L + 1) for v in range(1, R + 1)]
    for mask in range(1 << len(pairs)):
        yield [list(p) for k, p in enumerate(pairs) if mask >> k & 1]


def dags(n):
    """All DAGs on 1..n whose edges go upward (topologically sorted)."""
    return simple_graphs(n)


def digraphs(n):
    pairs = [(u, v) for u in range(1, n + 1) for v in range(1, n + 1) if u != v]
    for mask in range(1 << len(pairs)):
        yield [list(p) for k, p in enumerate(pairs) if mask >> k & 1]


_ORDER = {"rng": None}


def scramble_insertions(rng):
    """From now on mk_graph / mk_bipartite / mk_digraph insert the edges in a random order (and,
    for simple graphs, random orientation): the abstract graph handed to the specification is the
    same, only the history that built the implementation's object differs."""
    _ORDER["rng"] = rng


def _order(edges, flip=False):
    rng = _ORDER["rng"]
    es = [tuple(e) for e in edges]
    if rng is None:
        return es
    es = list(es)
    rng.shuffle(es)
    if flip:
        es = [(v, u) if rng.random() < .5 else (u, v) for u, v in es]
    return es


def mk_graph(n, edges):
    from cnfgen.graphs import Graph
    G = Graph(n)
    for u, v in _order(edges, flip=True):
        G.add_edge(u, v)
    return G


def mk_bipartite(L, R, edges):
    from cnfgen.graphs import BipartiteGraph
    B = BipartiteGraph(L, R)
    for u, v in _order(edges):
        B.add_edge(u, v)
    return B


def mk_digraph(n, edges):
    from cnfgen.graphs import DirectedGraph
    D = DirectedGraph(n)
    for u, v in _order(edges):
        D.add_edge(u, v)
    return D


def gid(edges):
    return "e" + "_".join("%d.%d" % (u, v) for u, v in edges) if edges else "e-"


def build(rec_id, fam, par, thunk, graph=None, extra=None):
    """Call the real generator (thunk) and project the outcome."""
    from . import project
    rec = {"id": rec_id, "fam": fam, "par": par or {"none": 0}}
    if graph is not None:
        rec["graph"] = graph
    try:
        F = thunk()
    except Exception as e:  # the outcome is judged by the specification
        rec["outcome"] = type(e).__name__
        rec["nvars"] = 0
        rec["cls"] = "CNF"
        rec["clauses"] = []
        rec["grp"] = []
        rec["idx"] = []
        rec["msg"] = str(e)[:200]
    else:
        rec.update(project.formula(F))
        rec.pop("labels", None)
        rec["outcome"] = "ok"
    if extra:
        rec.update(extra)
    return rec


def weight(rec):
    n = rec.get("nvars", 0)
    if "cand" in rec:
        return len(rec["cand"]) * 4
    size = len(rec.get("clauses", rec.get("constraints", []))) + 1
    return (1 << min(n, 40)) * max(1, size // 8)
