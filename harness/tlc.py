"""Running TLC: model checking runs, batched judge runs, behaviour export.

Python here only drives TLC and reads what it printed.  No verdict is ever
computed in this file: a judge module prints one line

    <<"VERDICT", "<instance id>", "<ok | name of first failing clause>">>

per instance and a POSTCONDITION in the module checks that every instance got
one; this file collects the lines.
"""
import concurrent.futures as cf
import json
import os
import re
import shutil
import subprocess
import time

VERIF = os.path.dirname(os.path.dirname(os.path.abspath(__file__)))
SPEC = os.path.join(VERIF, "spec")
WORK = os.path.join(VERIF, ".work")
JAR = "/opt/veriftools/tla/tla2tools.jar:/opt/veriftools/tla/CommunityModules-deps.jar"
NCPU = os.cpu_count() or 4


class MachineryError(Exception):
    """TLC crashed, output unparsable, verdicts missing: exit status 2."""


_CREATED = []


def _cleanup():
    if os.environ.get("VERIF_KEEP_WORK"):
        return
    for d in _CREATED:
        shutil.rmtree(d, ignore_errors=True)


def workdir(name, fresh=True):
    """Scratch directory under /verif/.work, private to this process (two runs of the same check
    may overlap) and removed when the process ends (set VERIF_KEEP_WORK=1 to keep it)."""
    d = os.path.join(WORK, "%s-%d" % (name, os.getpid()))
    if fresh and os.path.isdir(d):
        shutil.rmtree(d, ignore_errors=True)
    os.makedirs(d, exist_ok=True)
    if d not in _CREATED:
        if not _CREATED:
            import atexit
            atexit.register(_cleanup)
        _CREATED.append(d)
    return d


_STATS = re.compile(r"(\d+) states generated, (\d+) distinct states found, (\d+) states left")
_VERDICT = re.compile(r'^<<\s*"VERDICT",\s*"([^"]*)",\s*"([^"]*)"\s*>>\s*$', re.M)
_DEPTH = re.compile(r"The depth of the complete state graph search is (\d+)")


def _java_cmd(module_path, cfg, workers, metadir, extra, heap="2g", deque=False):
    gc = ["-XX:+UseSerialGC"] if workers == 1 else ["-XX:+UseParallelGC", "-XX:ParallelGCThreads=%d" % min(8, int(workers))]
    # TLC unpacks its standard modules into java.io.tmpdir at every start: keep that inside the
    # run's metadir (removed afterwards) instead of littering /tmp
    cmd = ["java"] + gc + ["-XX:TieredStopAtLevel=4", "-Xmx" + heap, "-Xss64m", "-Djava.io.tmpdir=" + metadir]
    if deque:
        cmd.append("-Dtlc2.tool.queue.IStateQueue=StateDeque")
    cmd += ["-cp", JAR, "tlc2.TLC", "-workers", str(workers), "-metadir", metadir,
            "-noGenerateSpecTE", "-maxSetSize", "2200000", "-config", cfg]
    cmd += list(extra) + [module_path]
    return cmd


def run_tlc(module, cfg=None, env=None, workers=1, extra=(), timeout=3600,
            tag=None, heap="2g", cwd=None):
    """Run TLC on spec/<module>.tla. Returns dict(rc, out, generated, distinct, wall)."""
    module_path = os.path.join(SPEC, module + ".tla")
    cfg = cfg or os.path.join(SPEC, module + ".cfg")
    if not os.path.isabs(cfg):
        cfg = os.path.join(SPEC, cfg)
    tag = tag or module
    metadir = os.path.join(WORK, "meta", "%s_%d_%d" % (tag, os.getpid(), time.time_ns() % 10**9))
    os.makedirs(metadir, exist_ok=True)
    e = dict(os.environ)
    e.pop("JAVA_TOOL_OPTIONS", None)
    if env:
        e.update({k: str(v) for k, v in env.items()})
    t0 = time.time()
    try:
        p = subprocess.run(_java_cmd(module_path, cfg, workers, metadir, extra, heap),
                           stdout=subprocess.PIPE, stderr=subprocess.STDOUT, env=e,
                           timeout=timeout, cwd=cwd or SPEC, text=True, errors="replace")
        rc, out = p.returncode, p.stdout
    except subprocess.TimeoutExpired as ex:
        rc, out = 124, (ex.stdout or b"").decode("utf8", "replace") if isinstance(ex.stdout, bytes) else (ex.stdout or "")
    finally:
        shutil.rmtree(metadir, ignore_errors=True)
    gen = dist = 0
    for m in _STATS.finditer(out):
        gen, dist = int(m.group(1)), int(m.group(2))
    d = _DEPTH.search(out)
    return {"rc": rc, "out": out, "generated": gen, "distinct": dist,
            "depth": int(d.group(1)) if d else 0, "wall": time.time() - t0}


def model_check(module, cfg=None, workers=None, extra=(), timeout=3600, env=None, heap="4g"):
    """Exhaustive TLC run of a model config. Any error (invariant violated,
    deadlock, parse error) is a failure of the *specification*, i.e. machinery."""
    r = run_tlc(module, cfg, env=env, workers=workers or NCPU, extra=extra,
                timeout=timeout, tag="mc_" + module, heap=heap)
    if r["rc"] != 0 or "Model checking completed. No error has been found" not in r["out"]:
        raise MachineryError("model check of %s (%s) failed rc=%s:\n%s"
                             % (module, cfg, r["rc"], r["out"][-3000:]))
    return r


def _write_ndjson(path, records):
    with open(path, "w") as f:
        for r in records:
            f.write(json.dumps(r, separators=(",", ":"), sort_keys=True))
            f.write("\n")


def _balance(records, nshards, weight):
    """Greedy balance of records over shards by weight (largest first)."""
    shards = [[] for _ in range(nshards)]
    loads = [0] * nshards
    for r in sorted(records, key=weight, reverse=True):
        i = loads.index(min(loads))
        shards[i].append(r)
        loads[i] += max(1, weight(r))
    return [s for s in shards if s]


def judge(module, records, name, cfg=None, nshards=None, weight=None, timeout=3600,
          heap="3g", env=None):
    """Have TLC judge every record with spec/<module>.tla (a judge module: one
    step and one VERDICT line per record of IOEnv.TRACE_FILE).

    Returns (verdicts: {id: why}, stats dict). Raises MachineryError when TLC
    fails or a verdict is missing."""
    if not records:
        return {}, {"generated": 0, "distinct": 0, "wall": 0.0, "runs": 0}
    ids = [r["id"] for r in records]
    if len(set(ids)) != len(ids):
        dup = sorted(i for i in set(ids) if ids.count(i) > 1)[:5]
        raise MachineryError("duplicate instance ids: %r" % dup)
    wd = workdir(name + "_judge")
    weight = weight or (lambda r: 1)
    nshards = min(nshards or NCPU, len(records))
    shards = _balance(records, nshards, weight)
    files = []
    for k, sh in enumerate(shards):
        p = os.path.join(wd, "shard_%02d.ndjson" % k)
        _write_ndjson(p, sh)
        files.append(p)

    def one(k):
        e = {"TRACE_FILE": files[k]}
        if env:
            e.update(env)
        return run_tlc(module, cfg, env=e, workers=1,
                       tag="%s_%02d" % (name, k), timeout=timeout, heap=heap)

    t0 = time.time()
    with cf.ThreadPoolExecutor(max_workers=NCPU) as ex:
        results = list(ex.map(one, range(len(shards))))
    verdicts = {}
    gen = dist = 0
    for k, r in enumerate(results):
        found = dict(_VERDICT.findall(r["out"]))
        want = [x["id"] for x in shards[k]]
        missing = [i for i in want if i not in found]
        if r["rc"] != 0 or missing:
            os.makedirs(os.path.join(WORK, "failed"), exist_ok=True)
            keep = os.path.join(WORK, "failed", "%s_%d_shard_%02d.out" % (name, os.getpid(), k))
            with open(keep, "w") as f:
                f.write(r["out"])
            raise MachineryError(
                "judge %s shard %d rc=%s, %d/%d verdicts, first missing=%r; output kept at %s\n%s"
                % (module, k, r["rc"], len(want) - len(missing), len(want),
                   missing[:1], keep, r["out"][-2500:]))
        verdicts.update({i: found[i] for i in want})
        gen += r["generated"]
        dist += r["distinct"]
    shutil.rmtree(wd, ignore_errors=True)
    return verdicts, {"generated": gen, "distinct": dist, "wall": time.time() - t0,
                      "runs": len(shards)}


_JSONLINE = re.compile(r'^"(\{.*\}|\[.*\])"\s*$', re.M)


def export(module, cfg=None, env=None, extra=(), timeout=3600, heap="4g", workers=1):
    """Run an export config: the module prints behaviours as ToJson strings
    (one escaped JSON string per line).  Returns (list of python objects, stats)."""
    r = run_tlc(module, cfg, env=env, workers=workers, extra=extra, timeout=timeout,
                tag="ex_" + module, heap=heap)
    if r["rc"] != 0:
        raise MachineryError("export %s (%s) failed rc=%s:\n%s"
                             % (module, cfg, r["rc"], r["out"][-3000:]))
    objs = []
    for m in _JSONLINE.finditer(r["out"]):
        s = m.group(1).replace('\\"', '"').replace("\\\\", "\\")
        objs.append(json.loads(s))
    return objs, r


def sany(module):
    p = subprocess.run(["java", "-cp", JAR, "tla2sany.SANY", os.path.join(SPEC, module + ".tla")],
                       stdout=subprocess.PIPE, stderr=subprocess.STDOUT, text=True, cwd=SPEC)
    ok = p.returncode == 0 and "error" not in p.stdout.lower().replace("errors: 0", "")
    return ok, p.stdout


# ---------------------------------------------------------------------------
# unbounded checks of small integer-level modules: Apalache (inductive invariant) and TLAPS
def apalache_inductive(module, init="Init", ind="IndInv", safety=None, timeout=900):
    """Three bounded queries that together are an unbounded proof: Init => IndInv (length 0),
    IndInv /\\ Next => IndInv' (length 1 from IndInv), IndInv => safety (length 0 from IndInv); plus a
    negative control (~IndInv is not an invariant) so that a vacuous IndInv cannot pass.
    Returns wall seconds; raises MachineryError when a query fails."""
    import shutil
    t0 = time.time()
    if shutil.which("apalache-mc") is None:
        raise MachineryError("apalache-mc is not on PATH")
    out = workdir("apalache_" + module)
    src = os.path.join(SPEC, module + ".tla")
    queries = [(init, ind, 0, True), (ind, ind, 1, True)]
    if safety:
        queries.append((ind, safety, 0, True))
    queries.append((init, "NotInit", 0, False))
    for q_init, q_inv, length, expect_ok in queries:
        p = subprocess.run(["apalache-mc", "check", "--init=" + q_init, "--inv=" + q_inv, "--length=%d" % length,
                            "--out-dir=" + out, src], stdout=subprocess.PIPE, stderr=subprocess.STDOUT, text=True,
                           timeout=timeout, cwd=out, env=dict(os.environ, TMPDIR=out))
        ok = "The outcome is: NoError" in p.stdout
        if ok != expect_ok:
            raise MachineryError("apalache %s: --init=%s --inv=%s --length=%d gave %s\n%s"
                                 % (module, q_init, q_inv, length, "NoError" if ok else "an error", p.stdout[-1500:]))
    return time.time() - t0


def tlaps(module, timeout=900):
    """tlapm on a copy of the module (its cache goes to the scratch directory). Returns (obligations, wall)."""
    import shutil
    t0 = time.time()
    if shutil.which("tlapm") is None:
        raise MachineryError("tlapm is not on PATH")
    out = workdir("tlaps_" + module)
    shutil.copy(os.path.join(SPEC, module + ".tla"), out)
    p = subprocess.run(["tlapm", module + ".tla"], stdout=subprocess.PIPE, stderr=subprocess.STDOUT, text=True,
                       timeout=timeout, cwd=out, env=dict(os.environ, TMPDIR=out))
    m = re.search(r"All (\d+) obligations? proved", p.stdout)
    if p.returncode != 0 or not m:
        raise MachineryError("tlapm %s failed:\n%s" % (module, p.stdout[-2000:]))
    return int(m.group(1)), time.time() - t0
