"""C10 - every formula mentions only variables it owns, and allocates them freshly.

Store.tla is the store machine (Insert / NewGroup / Raise); TLC shows that
the disciplined machine keeps InRange and Fresh and that unchecked insertions
can break both - so the property is about the callers.  Trace validation:
wrappers around the real store methods (clause / constraint insertion,
variable-group creation, update_variable_number) record one event log per
formula object while every family, transformation, chain and command line
tool runs at realistic sizes; JudgeStore.tla replays each log through the
store actions (freshness at every group creation, counter a legal successor
at every step) and checks the final state: literals non-zero integers in
range, declared count = the documented one (Families.tla / Transform.tla).
"""
import io
import json
import numbers
import os
import random as _random

from . import common, gen, tlc, cliargs, project
from .exc import exc_name


class Recorder:
    """Event logs per formula object. Only records; judgement is TLC's."""

    def __init__(self):
        self.logs = {}
        self.keep = []
        self.depth = 0
        self.installed = False

    def log(self, F):
        k = id(F)
        if k not in self.logs:
            self.logs[k] = []
            self.keep.append(F)
        return self.logs[k]

    def insert_event(self, F, lits, checked, pre):
        mv, bad = 0, 0
        for l in lits:
            if isinstance(l, bool) or not isinstance(l, numbers.Integral) or l == 0:
                bad += 1
            else:
                mv = max(mv, abs(int(l)))
        lg = self.log(F)
        nv = int(F.number_of_variables())
        if lg and lg[-1]["t"] == "i" and lg[-1]["checked"] == checked and lg[-1]["nv"] == pre:
            e = lg[-1]
            e["maxvar"] = max(e["maxvar"], mv)
            e["bad"] += bad
            e["nv"] = nv
            e["count"] += 1
        else:
            lg.append({"t": "i", "maxvar": mv, "bad": bad, "checked": checked, "nv": nv, "count": 1, "pre": pre})

    def install(self):
        if self.installed:
            return
        from cnfgen.formula.basecnf import BaseCNF
        from cnfgen.formula.baseopb import BaseOPB
        from cnfgen.formula.variables import VariablesManager
        rec = self
        for name in ("add_clause", "update_variable_number"):
            if not hasattr(BaseCNF, name) or not hasattr(BaseOPB, name):
                raise tlc.MachineryError("public method %s disappeared" % name)
        if not hasattr(BaseOPB, "add_constraint"):
            raise tlc.MachineryError("public method add_constraint disappeared")

        def wrap_add_clause(cls):
            orig = cls.add_clause

            def add_clause(self, clause, check=True):
                data = list(clause)
                pre = int(self.number_of_variables())
                rec.depth += 1
                try:
                    r = orig(self, data, check)
                finally:
                    rec.depth -= 1
                rec.insert_event(self, data, bool(check), pre)
                return r
            cls.add_clause = add_clause

        wrap_add_clause(BaseCNF)
        wrap_add_clause(BaseOPB)
        orig_addc = BaseOPB.add_constraint

        def add_constraint(self, constraint, check=True):
            data = list(constraint)
            pre = int(self.number_of_variables())
            rec.depth += 1
            try:
                r = orig_addc(self, data, check)
            finally:
                rec.depth -= 1
            lits = [t[1] for t in data[:-2]]
            rec.insert_event(self, lits, bool(check), pre)
            return r
        BaseOPB.add_constraint = add_constraint

        def wrap_update(cls):
            orig = cls.update_variable_number

            def update_variable_number(self, new_value):
                pre = int(self.number_of_variables())
                r = orig(self, new_value)
                if rec.depth == 0:
                    rec.log(self).append({"t": "r", "k": int(new_value), "nv": int(self.number_of_variables()),
                                          "pre": pre})
                return r
            cls.update_variable_number = update_variable_number
        wrap_update(BaseCNF)
        wrap_update(BaseOPB)

        # group creation is observed at the public constructors new_* (outermost call only): the identifiers
        # handed out are read off what the call returns
        def wrap_new(name):
            orig = getattr(VariablesManager, name)

            def new_group(self, *a, **k):
                pre = int(self.number_of_variables())
                outer = rec.depth == 0
                rec.depth += 1
                try:
                    r = orig(self, *a, **k)
                finally:
                    rec.depth -= 1
                if outer:
                    if isinstance(r, numbers.Integral):
                        ids = [int(r)]
                    else:
                        try:
                            x = r()
                            ids = [int(x)] if isinstance(x, numbers.Integral) else [int(v) for v in x]
                        except Exception:
                            ids = [int(r[j]) for j in range(len(r))]
                    rec.log(self).append({"t": "g", "first": min(ids) if ids else 0, "len": len(ids),
                                          "nv": int(self.number_of_variables()), "pre": pre})
                return r
            new_group.__name__ = name
            setattr(VariablesManager, name, new_group)
        names = [n for n in dir(VariablesManager) if n.startswith("new_") and callable(getattr(VariablesManager, n))]
        if not names:
            raise tlc.MachineryError("no public new_* constructor on VariablesManager")
        for n in names:
            wrap_new(n)
        self.installed = True

    def events(self, F):
        return [dict(e) for e in self.logs.get(id(F), [])]


def families(ck):
    """(id, fam, par, graph, graph2, fn(cls)) at realistic sizes."""
    import cnfgen
    from cnfgen.families.subgraph import RamseyWitnessFormula
    from cnfgen.families.pitfall import PitfallFormula
    from cnfgen.graphs import dag_pyramid, bipartite_random_left_regular
    rng = ck.rng
    out = []

    def add(rid, fam, par, fn, graph=None, graph2=None):
        out.append((rid, fam, par, graph, graph2, fn))

    def rg(lo, hi, p):
        n = rng.randint(lo, hi)
        return n, [[u, v] for u in range(1, n + 1) for v in range(u + 1, n + 1) if rng.random() < p]

    def rb(L, R, p):
        return L, R, [[u, v] for u in range(1, L + 1) for v in range(1, R + 1) if rng.random() < p]

    reps = 1 if ck.quick else 4
    for t in range(reps):
        m, n = rng.randint(12, 30), rng.randint(10, 25)
        fun, onto = rng.random() < .5, rng.random() < .5
        add("php-%d" % t, "php", {"m": m, "n": n, "fun": fun, "onto": onto},
            lambda c, m=m, n=n, fun=fun, onto=onto: cnfgen.PigeonholePrinciple(m, n, fun, onto, formula_class=c))
        L, R, be = rb(rng.randint(6, 12), rng.randint(6, 12), .4)
        add("gphp-%d" % t, "gphp", {"fun": fun, "onto": onto},
            lambda c, L=L, R=R, be=be, fun=fun, onto=onto: cnfgen.GraphPigeonholePrinciple(gen.mk_bipartite(L, R, be), fun, onto, formula_class=c),
            {"L": L, "R": R, "edges": be})
        add("subsetcard-%d" % t, "subsetcard", {"eq": fun},
            lambda c, L=L, R=R, be=be, fun=fun: cnfgen.SubsetCardinalityFormula(gen.mk_bipartite(L, R, be), fun, formula_class=c),
            {"L": L, "R": R, "edges": be})
        bm, bn = rng.randint(5, 17), rng.randint(3, 20)
        add("bphp-%d" % t, "bphp", {"m": bm, "n": bn},
            lambda c, bm=bm, bn=bn: cnfgen.BinaryPigeonholePrinciple(bm, bn, formula_class=c))
        a, b, c_ = rng.randint(3, 7), rng.randint(3, 8), rng.randint(3, 9)
        add("rphp-%d" % t, "rphp", {"m": a, "r": b, "n": c_},
            lambda c, a=a, b=b, c_=c_: cnfgen.RelativizedPigeonholePrinciple(a, b, c_, formula_class=c))
        M, p = rng.randint(6, 11), rng.randint(2, 3)
        add("count-%d" % t, "count", {"M": M, "p": p}, lambda c, M=M, p=p: cnfgen.CountingPrinciple(M, p, formula_class=c))
        n1, e1 = rg(8, 15, .35)
        G = {"n": n1, "edges": e1}
        add("matching-%d" % t, "matching", None, lambda c, n1=n1, e1=e1: cnfgen.PerfectMatchingPrinciple(gen.mk_graph(n1, e1), formula_class=c), G)
        cn, ck_, cc = rng.randint(4, 8), rng.randint(2, 4), rng.randint(2, 4)
        add("cliquecol-%d" % t, "cliquecol", {"n": cn, "k": ck_, "c": cc},
            lambda c, cn=cn, ck_=ck_, cc=cc: cnfgen.CliqueColoring(cn, ck_, cc, formula_class=c))
        ch = [rng.random() < .5 for _ in range(n1)]
        add("tseitin-%d" % t, "tseitin", {"chmode": "list", "ch": ch},
            lambda c, n1=n1, e1=e1, ch=ch: cnfgen.TseitinFormula(gen.mk_graph(n1, e1), ch, formula_class=c), G)
        k = rng.randint(2, 5)
        add("kcolor-%d" % t, "kcolor", {"k": k, "fun": fun},
            lambda c, n1=n1, e1=e1, k=k, fun=fun: cnfgen.GraphColoringFormula(gen.mk_graph(n1, e1), k, fun, formula_class=c), G)
        cyc = [[i, i + 1] for i in range(1, n1)] + [[1, n1]]
        add("evencol-%d" % t, "evencol", None,
            lambda c, n1=n1, cyc=cyc: cnfgen.EvenColoringFormula(gen.mk_graph(n1, cyc), formula_class=c), {"n": n1, "edges": cyc})
        d = rng.randint(2, 5)
        add("domset-%d" % t, "domset", {"d": d, "alt": onto},
            lambda c, n1=n1, e1=e1, d=d, onto=onto: cnfgen.DominatingSet(gen.mk_graph(n1, e1), d, onto, formula_class=c), G)
        add("tiling-%d" % t, "tiling", None, lambda c, n1=n1, e1=e1: cnfgen.Tiling(gen.mk_graph(n1, e1), formula_class=c), G)
        n2, e2 = rg(5, 9, .5)
        n3, e3 = rg(5, 9, .5)
        add("iso-%d" % t, "iso", None,
            lambda c, n2=n2, e2=e2, n3=n3, e3=e3: cnfgen.GraphIsomorphism(gen.mk_graph(n2, e2), gen.mk_graph(n3, e3), formula_class=c),
            {"n": n2, "edges": e2}, {"n": n3, "edges": e3})
        add("auto-%d" % t, "auto", None, lambda c, n2=n2, e2=e2: cnfgen.GraphAutomorphism(gen.mk_graph(n2, e2), formula_class=c),
            {"n": n2, "edges": e2})
        hn, he = rg(3, 5, .6)
        add("subgraph-%d" % t, "subgraph", {"induced": fun, "sb": onto},
            lambda c, n1=n1, e1=e1, hn=hn, he=he, fun=fun, onto=onto:
            cnfgen.SubgraphFormula(gen.mk_graph(n1, e1), gen.mk_graph(hn, he), fun, onto, formula_class=c),
            G, {"n": hn, "edges": he})
        kk = rng.randint(3, 5)
        add("kclique-%d" % t, "kclique", {"k": kk, "sb": fun},
            lambda c, n1=n1, e1=e1, kk=kk, fun=fun: cnfgen.CliqueFormula(gen.mk_graph(n1, e1), kk, fun, formula_class=c), G)
        add("binclique-%d" % t, "binclique", {"k": kk, "sb": fun},
            lambda c, n1=n1, e1=e1, kk=kk, fun=fun: cnfgen.BinaryCliqueFormula(gen.mk_graph(n1, e1), kk, fun, formula_class=c), G)
        add("ramlb-%d" % t, "ramlb", {"k": kk, "s": kk, "sb": fun},
            lambda c, n1=n1, e1=e1, kk=kk, fun=fun: RamseyWitnessFormula(gen.mk_graph(n1, e1), kk, kk, fun, formula_class=c), G)
        on = rng.randint(8, 20)
        for total, smart, plant, knuth in ((False, False, False, 0), (True, False, False, 2), (False, True, True, 0),
                                           (False, False, True, 3)):
            add("op-%d-%d%d%d%d" % (t, total, smart, plant, knuth), "op",
                {"n": on, "total": total, "smart": smart, "plant": plant, "knuth": knuth},
                lambda c, on=on, total=total, smart=smart, plant=plant, knuth=knuth:
                cnfgen.OrderingPrinciple(on, total, smart, plant, knuth, formula_class=c))
        add("gop-%d" % t, "gop", {"total": fun, "smart": False, "plant": onto, "knuth": 0},
            lambda c, n1=n1, e1=e1, fun=fun, onto=onto: cnfgen.GraphOrderingPrinciple(gen.mk_graph(n1, e1), fun, False, onto, 0, formula_class=c), G)
        D = dag_pyramid(rng.randint(3, 5))
        de = sorted([int(u), int(v)] for u, v in D.edges())
        DG = {"n": D.number_of_vertices(), "edges": de}
        add("peb-%d" % t, "peb", None, lambda c, D=D: cnfgen.PebblingFormula(D, formula_class=c), DG)
        ns = rng.randint(3, 5)
        add("stone-%d" % t, "stone", {"nstones": ns}, lambda c, D=D, ns=ns: cnfgen.StoneFormula(D, ns, formula_class=c), DG)
        nD = D.number_of_vertices()
        B = bipartite_random_left_regular(nD, ns + 2, 3, seed=ck.seed + t)
        bb = sorted([int(u), int(v)] for u, v in B.edges())
        add("sstone-%d" % t, "sstone", None, lambda c, D=D, B=B: cnfgen.SparseStoneFormula(D, B, formula_class=c),
            DG, {"L": nD, "R": ns + 2, "edges": bb})
        ca, cb, cc2 = rng.randint(2, 3), rng.choice((2, 4, 8)), rng.choice((2, 4))
        add("cpls-%d" % t, "cpls", {"a": ca, "b": cb, "c": cc2},
            lambda c, ca=ca, cb=cb, cc2=cc2: cnfgen.CPLSFormula(ca, cb, cc2, formula_class=c))
        v, dd = rng.choice(((6, 3), (8, 3), (10, 4), (6, 2)))
        ny, nz, kk2 = rng.randint(2, 4), rng.randint(2, 4), rng.choice((2, 4))
        add("pitfall-%d" % t, "pitfall", {"v": v, "d": dd, "ny": ny, "nz": nz, "k": kk2},
            lambda c, v=v, dd=dd, ny=ny, nz=nz, kk2=kk2: PitfallFormula(v, dd, ny, nz, kk2, formula_class=c))
        rN = rng.randint(6, 10)
        add("ram-%d" % t, "ram", {"s": 3, "k": 4, "N": rN}, lambda c, rN=rN: cnfgen.RamseyNumber(3, 4, rN, formula_class=c))
        vN = rng.randint(20, 60)
        add("vdw-%d" % t, "vdw", {"N": vN, "K": [3, 4]}, lambda c, vN=vN: cnfgen.VanDerWaerden(vN, 3, 4, formula_class=c))
        add("vdw3-%d" % t, "vdw", {"N": vN, "K": [3, 4, 5]}, lambda c, vN=vN: cnfgen.VanDerWaerden(vN, 3, 4, 5, formula_class=c))
        pN = rng.randint(30, 120)
        add("ptn-%d" % t, "ptn", {"N": pN}, lambda c, pN=pN: cnfgen.PythagoreanTriples(pN, formula_class=c))
    # the degenerate corners of the parameter space (sizes 0 and 1): the documented count must hold there too
    for m, n in ((0, 0), (1, 0), (0, 1), (1, 1), (1, 2), (2, 1)):
        add("php0-%d-%d" % (m, n), "php", {"m": m, "n": n, "fun": True, "onto": True},
            lambda c, m=m, n=n: cnfgen.PigeonholePrinciple(m, n, True, True, formula_class=c))
    for m, n in ((3, 1), (1, 1), (2, 2), (1, 2), (4, 3)):
        add("bphp0-%d-%d" % (m, n), "bphp", {"m": m, "n": n},
            lambda c, m=m, n=n: cnfgen.BinaryPigeonholePrinciple(m, n, formula_class=c))
    for a, b, c_ in ((1, 1, 1), (2, 1, 1), (1, 2, 1), (1, 1, 2)):
        add("rphp0-%d%d%d" % (a, b, c_), "rphp", {"m": a, "r": b, "n": c_},
            lambda c, a=a, b=b, c_=c_: cnfgen.RelativizedPigeonholePrinciple(a, b, c_, formula_class=c))
    for M, p_ in ((1, 1), (2, 2), (3, 1), (2, 1)):
        add("count0-%d-%d" % (M, p_), "count", {"M": M, "p": p_},
            lambda c, M=M, p_=p_: cnfgen.CountingPrinciple(M, p_, formula_class=c))
    for cn, ck_, cc in ((1, 1, 1), (2, 1, 2), (3, 2, 1), (2, 2, 2)):
        add("cliquecol0-%d%d%d" % (cn, ck_, cc), "cliquecol", {"n": cn, "k": ck_, "c": cc},
            lambda c, cn=cn, ck_=ck_, cc=cc: cnfgen.CliqueColoring(cn, ck_, cc, formula_class=c))
    for n1, e1, kk in ((1, [], 1), (2, [[1, 2]], 1), (2, [], 2), (3, [[1, 2]], 2)):
        G = {"n": n1, "edges": e1}
        add("kclique0-%d-%d-%d" % (n1, len(e1), kk), "kclique", {"k": kk, "sb": False},
            lambda c, n1=n1, e1=e1, kk=kk: cnfgen.CliqueFormula(gen.mk_graph(n1, e1), kk, False, formula_class=c), G)
        add("binclique0-%d-%d-%d" % (n1, len(e1), kk), "binclique", {"k": kk, "sb": False},
            lambda c, n1=n1, e1=e1, kk=kk: cnfgen.BinaryCliqueFormula(gen.mk_graph(n1, e1), kk, False, formula_class=c), G)
        add("kcolor0-%d-%d-%d" % (n1, len(e1), kk), "kcolor", {"k": kk, "fun": True},
            lambda c, n1=n1, e1=e1, kk=kk: cnfgen.GraphColoringFormula(gen.mk_graph(n1, e1), kk, True, formula_class=c), G)
        add("tseitin0-%d-%d" % (n1, len(e1)), "tseitin", {"chmode": "list", "ch": [True] * n1},
            lambda c, n1=n1, e1=e1: cnfgen.TseitinFormula(gen.mk_graph(n1, e1), [True] * n1, formula_class=c), G)
    for ca, cb, cc2 in ((1, 1, 1), (2, 1, 2), (2, 2, 1), (1, 2, 2)):
        add("cpls0-%d%d%d" % (ca, cb, cc2), "cpls", {"a": ca, "b": cb, "c": cc2},
            lambda c, ca=ca, cb=cb, cc2=cc2: cnfgen.CPLSFormula(ca, cb, cc2, formula_class=c))
    for on in (1, 2):
        add("op0-%d" % on, "op", {"n": on, "total": False, "smart": False, "plant": False, "knuth": 0},
            lambda c, on=on: cnfgen.OrderingPrinciple(on, False, False, False, 0, formula_class=c))
    add("ram0", "ram", {"s": 1, "k": 1, "N": 1}, lambda c: cnfgen.RamseyNumber(1, 1, 1, formula_class=c))
    add("ram1", "ram", {"s": 2, "k": 1, "N": 2}, lambda c: cnfgen.RamseyNumber(2, 1, 2, formula_class=c))
    add("vdw0", "vdw", {"N": 1, "K": [2, 2]}, lambda c: cnfgen.VanDerWaerden(1, 2, 2, formula_class=c))
    add("ptn0", "ptn", {"N": 1}, lambda c: cnfgen.PythagoreanTriples(1, formula_class=c))
    return out


CHAIN_KINDS = [("xor", 2, 0), ("or", 3, 0), ("maj", 3, 0), ("eq", 2, 0), ("neq", 3, 0), ("one", 3, 0),
               ("exact", 3, 2), ("atleast", 3, 2), ("atmost", 4, 1), ("anybut", 3, 1),
               ("ite", 1, 0), ("flip", 1, 0), ("lift", 2, 0), ("shuffle", 1, 0)]


INSERT_ROUTES = [("add_clause", ()), ("add_clauses_from", ()),
                 ("add_linear", (">=", 1)), ("add_linear", ("<=", 1)), ("add_linear", ("==", 1)),
                 ("add_linear", ("!=", 1)), ("add_linear", (">", 0)), ("add_linear", ("<", 2)),
                 ("cardinality_geq", (1,)), ("cardinality_leq", (1,)), ("cardinality_eq", (1,)),
                 ("cardinality_neq", (1,)), ("add_parity", (1,)), ("add_parity", (0,)),
                 ("add_loose_majority", ()), ("add_strict_majority", ()), ("add_loose_minority", ()),
                 ("add_strict_minority", ())]


def final_listing(F):
    """largest variable mentioned and number of literals that are 0 / not integers, read off the formula"""
    mm = bad = 0
    rows = F.constraints() if project.is_opb(F) else F.clauses()
    for row in rows:
        lits = [t[1] for t in row[:-2]] if project.is_opb(F) else row
        for l in lits:
            if isinstance(l, numbers.Integral) and not isinstance(l, bool) and l != 0:
                mm = max(mm, abs(int(l)))
            else:
                bad += 1
    return {"mm": mm, "bad": bad}


# --------------------------------------------------------------------------
# the clause container (Container.tla / ContainerTrace.tla): traces of real CNF objects
CONTAINER_POOL = [[], [1], [-2, 1], [0], [1, 0, -2], [1, 1], [2, -2], [1, -1, 1], [-3, 3, -3], [4, 2], [5, -5, 2, 5],
                  [-1, -1, 1], [3, 0], [7], [2, 3, -4], [-6, 6], [1, 2, 1], [0, 0], [9, -2, 3, 1]]


def container_traces(ck):
    import cnfgen
    rng = ck.rng
    traces = []

    def carrier(c):
        k = rng.randrange(4)
        return list(c) if k == 0 else tuple(c) if k == 1 else iter(list(c)) if k == 2 else (x for x in list(c))

    for t in range(80 if ck.quick else 1500):
        ev = []
        first = [list(rng.choice(CONTAINER_POOL)) for _ in range(rng.choice((0, 0, 1, 2)))]
        try:
            F = cnfgen.CNF(first) if first else cnfgen.CNF()
            made = True
        except ValueError:
            made = False
        if not made:
            continue                    # a constructor that refuses leaves no object to observe
        def observe(e, outcome):
            e.update(res=outcome, n=int(F.number_of_variables()), m=len(F),
                     dbg=[bool(F.debug(allow_opposite=ao, allow_repetition=ar)) for ao in (False, True)
                          for ar in (False, True)])
            ev.append(e)
        if first:
            observe({"op": "add_clauses_from", "cs": first, "check": True}, "ok")
        for _ in range(rng.randint(1, 9)):
            op = rng.choice(("add_clause", "add_clause", "add_clause", "add_clauses_from", "update_variable_number"))
            check = rng.random() < .6
            if op == "add_clause":
                c = list(rng.choice(CONTAINER_POOL))
                e = {"op": op, "c": c, "check": check}
                call = lambda: F.add_clause(carrier(c), check=check)             # noqa: E731
            elif op == "add_clauses_from":
                cs = [list(rng.choice(CONTAINER_POOL)) for _ in range(rng.randint(0, 3))]
                e = {"op": op, "cs": cs, "check": check}
                call = lambda: F.add_clauses_from(carrier([carrier(c) for c in cs]), check=check)   # noqa: E731
            else:
                k = rng.choice((-1, 0, 1, 2, 5, 8, 12))
                e = {"op": op, "k": k}
                call = lambda: F.update_variable_number(k)                       # noqa: E731
            try:
                call()
                outcome = "ok"
            except ValueError:
                outcome = "ValueError"
            except Exception as x:          # judged: not an outcome of the specification
                outcome = exc_name(x)
            observe(e, outcome)
        ev.append({"op": "final", "iter": [list(c) for c in F], "items": [list(F[i]) for i in range(len(F))],
                   "view": [list(c) for c in F.clauses()]})
        traces.append({"id": "cont-%04d" % t, "events": ev})
    return traces


def validate_container(ck, wd):
    import copy
    import re as _re
    mc_cfg = "Container_mc_quick.cfg" if ck.quick else "Container_mc.cfg"
    r = tlc.model_check("Container", mc_cfg, workers=8, heap="3g")
    ck.states += r["distinct"]
    ck.transitions += r["generated"]
    ck.model_runs.append({"module": "Container", "cfg": mc_cfg, "distinct": r["distinct"],
                          "generated": r["generated"], "wall_s": round(r["wall"], 1)})
    for cfg, what in (("Container_quirk.cfg", "Invariant AgreeAlways is violated"),
                      ("Container_kept.cfg", "Action property RefusalIsNoop is violated")):
        x = tlc.run_tlc("Container", cfg, workers=2)
        if what not in x["out"]:
            raise tlc.MachineryError("%s was expected to exhibit the named deviation" % cfg)
        ck.count("expected_counterexamples_found", 1)
    traces = container_traces(ck)
    base = next(t for t in traces if len(t["events"]) >= 4)
    a = copy.deepcopy(base); a["id"] = "demo-corrupt-count"; a["events"][1]["m"] += 1
    b = copy.deepcopy(base); b["id"] = "demo-dropped-event"; del b["events"][0]
    if b["events"][0]["op"] == "final" or base["events"][0].get("m", 0) == 0 and base["events"][0]["res"] == "ok" \
            and base["events"][0]["op"] == "update_variable_number" and base["events"][0]["n"] == 0:
        b = None                       # dropping a call without effect leaves a behaviour
    c = copy.deepcopy(base); c["id"] = "demo-flipped-debug"
    c["events"][0]["dbg"] = [not x for x in c["events"][0]["dbg"]]
    demos = [d for d in (a, b, c) if d is not None]
    path = os.path.join(wd, "container_traces.json")
    with open(path, "w") as f:
        json.dump(traces + demos, f)
    r = tlc.run_tlc("ContainerTrace", "ContainerTrace.cfg", env={"TRACE_FILE": path}, workers=4, heap="3g", timeout=1800)
    ck.states += r["distinct"]
    ck.transitions += r["generated"]
    if r["rc"] != 0:
        raise tlc.MachineryError("container trace validation failed to run:\n" + r["out"][-2000:])
    accepted = set(_re.findall(r'<<"ACCEPTED", "([^"]+)">>', r["out"]))
    rejected_demos = [d["id"] for d in demos if d["id"] not in accepted]
    if len(rejected_demos) < len(demos) - 1 or "demo-corrupt-count" in accepted:
        raise tlc.MachineryError("binding demonstration: corrupted container traces were accepted: %r"
                                 % sorted(set(d["id"] for d in demos) & accepted))
    ck.count("corrupted_container_traces_rejected", len(rejected_demos))
    for tr in traces:
        ok = tr["id"] in accepted
        ck.replayed({"id": tr["id"], "fam": "container", "trace": tr}, ok,
                    "ok" if ok else "container:trace_is_not_a_behaviour_of_Container.tla")
    ck.count("container_traces_validated", len(traces))
    ck.count("container_trace_events", sum(len(t["events"]) for t in traces))
    ck.count("container_refusals_that_kept_the_clause",
             sum(1 for t in traces for k, e in enumerate(t["events"])
                 if e.get("res") == "ValueError" and e["op"] == "add_clause" and e["m"] > (t["events"][k - 1]["m"] if k else 0)))
    ck.model_runs.append({"module": "ContainerTrace", "cfg": "ContainerTrace.cfg", "distinct": r["distinct"],
                          "generated": r["generated"], "wall_s": round(r["wall"], 1)})


def main(argv=None):
    ck = common.Check("C10", argv)
    common.setup_repo_import()
    import cnfgen
    from cnfgen.formula.opb import OPB
    from cnfgen.transformations.shuffle import Shuffle
    from . import c05
    ck.model("Store", "Store_disciplined.cfg", workers=4)
    # the same machine without the bound on the arguments: inductive invariant by Apalache, proof by TLAPS
    # (both run beside the rest of the check)
    import concurrent.futures as _cf
    from . import tlc as _tlc
    _pool = _cf.ThreadPoolExecutor(max_workers=2)
    unbounded = [_pool.submit(_tlc.apalache_inductive, "StoreInd", "Init", "IndInv", "Safety"),
                 _pool.submit(_tlc.tlaps, "StoreInd")]
    rec = Recorder()
    rec.install()
    records = []

    def emit(rid, fam, par, graph, graph2, chain, F, outcome):
        r = {"id": rid, "fam": fam, "par": par or {"none": 0}, "chain": chain,
             "outcome": outcome, "events": rec.events(F) if F is not None else [],
             "final": int(F.number_of_variables()) if F is not None else 0}
        # what the final formula itself lists (public iteration), whatever route the clauses took into it
        r["listed"] = final_listing(F) if F is not None else {"mm": 0, "bad": 0}
        if graph is not None:
            r["graph"] = graph
        if graph2 is not None:
            r["graph2"] = graph2
        records.append(r)

    # warm the process: word groups, mappings and blocks of many shapes created at non-zero offsets
    # in throw-away formulas, so that nothing a family builds may depend on what the process did before
    for cls in (cnfgen.CNF, OPB):
        for off in (7, 3):
            for n in range(2, 21):
                W = cls()
                W.update_variable_number(off)
                W.new_combinations(n, 2)
                W.new_permutations(n, 2)
                if n <= 6:
                    W.new_combinations(n, 3)
                    W.new_words(n, 2)
                W.new_mapping(n, 3)
                W.new_block(n, 2)
    fams = families(ck)
    bases = []
    for rid, fam, par, graph, graph2, fn in fams:
        for cname, cls in (("CNF", cnfgen.CNF), ("OPB", OPB)):
            _random.seed(ck.seed + 5)
            try:
                F = fn(cls)
                emit("%s-%s" % (rid, cname), fam, par, graph, graph2, [], F, "ok")
                if cname == "CNF" and F.number_of_variables() <= 400 and len(F) <= 3000:
                    bases.append((rid, fam, par, graph, graph2, F))
            except Exception as e:
                emit("%s-%s" % (rid, cname), fam, par, graph, graph2, [], None, exc_name(e))
    # formulas whose last variables occur in no clause
    for t, (k, n, m) in enumerate(((3, 30, 5), (2, 25, 4), (3, 40, 8))):
        Fu = cnfgen.RandomKCNF(k, n, m, seed=ck.seed + t)
        emit("unused-%d-CNF" % t, "none", {"n0": n}, None, None, [], Fu, "ok")
        bases.append(("unused-%d" % t, "none", {"n0": n}, None, None, Fu))
    # transformations and chains of two on a few base formulas
    small = [b for b in bases if b[5].number_of_variables() <= 60 and len(b[5]) <= 150
             and max([len(c) for c in b[5].clauses()] or [0]) <= 4]
    ck.rng.shuffle(small)
    small = [b for b in small if b[0].startswith("unused-")] + [b for b in small if not b[0].startswith("unused-")]
    shuffle_modes = [("shuffle", "shuffle", "shuffle"), ("fixed", "fixed", "fixed"), ("fixed", "fixed", "shuffle"),
                     ("shuffle", "fixed", "fixed"), ("fixed", "shuffle", "fixed")]
    nsh = [0]

    def extended(rid, T):
        """The caller keeps building on a result: a clause on two further variables, a new variable, a new
        block - the whole log of that object must still be a legal history of the store."""
        n = int(T.number_of_variables())
        try:
            T.add_clause([n + 1, -(n + 2)])
            T.new_variable("late")
            T.new_block(2, label="late_{}")
            emit(rid + "-ext", "none", {"n0": n + 5}, None, None, [], T, "ok")
        except Exception as e:
            emit(rid + "-ext", "none", {"n0": n + 5}, None, None, [], None, exc_name(e))

    for rid, fam, par, graph, graph2, F in small[: (6 if ck.quick else 14)]:
        for kind, k, C in CHAIN_KINDS + [("shuffle", 1, 0)] * 4:
            if kind == "shuffle":
                nsh[0] += 1
            def app(G, kind=kind, k=k, C=C, mode=shuffle_modes[nsh[0] % 5]):
                return Shuffle(G, *mode) if kind == "shuffle" else c05.apply(kind, G, k, C, None)
            tag = kind if kind != "shuffle" else "shuffle%d" % (nsh[0] % 5)
            try:
                T1 = app(F)
                emit("%s-T-%s" % (rid, tag), fam, par, graph, graph2, [{"kind": kind, "k": k, "C": C}], T1, "ok")
                if T1.number_of_variables() <= 200:
                    extended("%s-T-%s" % (rid, tag), app(F))
            except Exception as e:
                emit("%s-T-%s" % (rid, tag), fam, par, graph, graph2, [{"kind": kind, "k": k, "C": C}], None, exc_name(e))
                continue
            if T1.number_of_variables() <= 130 and len(T1) <= 300 and max([len(c) for c in T1.clauses()] or [0]) <= 4:
                kind2, k2, C2 = ck.rng.choice(CHAIN_KINDS)
                try:
                    T2 = Shuffle(T1) if kind2 == "shuffle" else c05.apply(kind2, T1, k2, C2, None)
                    emit("%s-T-%s-%s" % (rid, tag, kind2), fam, par, graph, graph2,
                         [{"kind": kind, "k": k, "C": C}, {"kind": kind2, "k": k2, "C": C2}], T2, "ok")
                except Exception as e:
                    emit("%s-T-%s-%s" % (rid, tag, kind2), fam, par, graph, graph2,
                         [{"kind": kind, "k": k, "C": C}, {"kind": kind2, "k": k2, "C": C2}], None, exc_name(e))
    # a formula that was looked at (names listed, transformed once), then given more variables outside any
    # group, then transformed: the result must count the variables the formula has now
    import copy as _copy
    for j, (rid, fam, par, graph, graph2, F) in enumerate(small[: (4 if ck.quick else 10)]):
        for kind, k, C in (("xor", 2, 0), ("lift", 2, 0), ("ite", 1, 0), ("one", 3, 0), ("flip", 1, 0)):
            G = _copy.deepcopy(F)
            try:
                list(G.all_variable_labels())
                c05.apply("or", G, 2, 0, None)
                G.to_file(io.StringIO(), export_varnames=True) if j % 2 else None
                n = int(G.number_of_variables()) + 2
                G.update_variable_number(n)
                T = c05.apply(kind, G, k, C, None)
                emit("%s-late-%s" % (rid, kind), "none", {"n0": n}, None, None, [{"kind": kind, "k": k, "C": C}], T, "ok")
            except Exception as e:
                emit("%s-late-%s" % (rid, kind), "none", {"n0": 0}, None, None, [{"kind": kind, "k": k, "C": C}], None, exc_name(e))
    # command line tools
    cli = [(["php", "9", "7"], "php", {"m": 9, "n": 7, "fun": False, "onto": False}, []),
           (["php", "6", "5", "--functional", "-T", "xor", "2"], "php", {"m": 6, "n": 5, "fun": True, "onto": False},
            [{"kind": "xor", "k": 2, "C": 0}]),
           (["op", "9", "--total", "-T", "lift", "2", "-T", "shuffle"], "op",
            {"n": 9, "total": True, "smart": False, "plant": False, "knuth": 0},
            [{"kind": "lift", "k": 2, "C": 0}, {"kind": "shuffle", "k": 1, "C": 0}]),
           (["count", "8", "2", "-T", "ite"], "count", {"M": 8, "p": 2}, [{"kind": "ite", "k": 1, "C": 0}]),
           (["rphp", "4", "5", "6", "-T", "maj", "3"], "rphp", {"m": 4, "r": 5, "n": 6}, [{"kind": "maj", "k": 3, "C": 0}]),
           (["cpls", "2", "4", "2"], "cpls", {"a": 2, "b": 4, "c": 2}, []),
           (["ptn", "40", "-T", "flip"], "ptn", {"N": 40}, [{"kind": "flip", "k": 1, "C": 0}]),
           (["vdw", "30", "3", "4", "5"], "vdw", {"N": 30, "K": [3, 4, 5]}, []),
           (["bphp", "9", "6", "-T", "exact", "3", "2"], "bphp", {"m": 9, "n": 6}, [{"kind": "exact", "k": 3, "C": 2}]),
           (["cliquecoloring", "6", "3", "3"], "cliquecol", {"n": 6, "k": 3, "c": 3}, [])]
    # formulas read from DIMACS files that declare more variables than their clauses use
    dwd = tlc.workdir("C10dimacs")
    for t, (n, cls_) in enumerate(((8, [[1, -5], [2, 3, -4]]), (3, []), (6, [[], [6]]), (5, [[1, 2]]))):
        path = os.path.join(dwd, "d%d.cnf" % t)
        with open(path, "w") as f:
            f.write("p cnf %d %d\n" % (n, len(cls_)) + "".join(" ".join(map(str, c + [0])) + "\n" for c in cls_))
        cli.append((["dimacs", path], "none", {"n0": n}, []))
        cli.append((["dimacs", path, "-T", "xor", "2"], "none", {"n0": n}, [{"kind": "xor", "k": 2, "C": 0}]))
        cli.append((["dimacs", path, "-T", "shuffle"], "none", {"n0": n}, [{"kind": "shuffle", "k": 1, "C": 0}]))
    for j, (args, fam, par, chain) in enumerate(cli):
        for tool in ("cnfgen", "pbgen"):
            if tool == "pbgen" and chain:
                continue
            try:
                F = cliargs.call_cli(tool, [tool, "-q", "--seed", "11"] + args)
                emit("cli-%s-%d" % (tool, j), fam, par, None, None, chain, F, "ok")
            except BaseException as e:
                emit("cli-%s-%d" % (tool, j), fam, par, None, None, chain, None, exc_name(e))
    # random k-CNF / k-XOR, including requests that exhaust the rejection sampler (dense fallback)
    from math import comb
    rnd = []
    for k, n in ((2, 4), (3, 4), (2, 5), (3, 5), (3, 6), (1, 3)):
        full = comb(n, k) * 2 ** k
        for m in (0, 3, full // 2, full - 1, full):
            rnd.append(("RandomKCNF", k, n, m, None))
        fullx = comb(n, k) * 2
        for m in (0, 2, fullx - 1, fullx):
            rnd.append(("RandomKXOR", k, n, m, None))
    for k, n, npl, frac in ((3, 12, 4, .9), (2, 14, 3, .95), (3, 9, 2, 1.0), (2, 8, 1, 1.0),
                            (3, 20, 12, .85), (2, 30, 6, .9), (3, 10, 10, .97), (2, 12, 5, 1.0)):
        planted = [[ck.rng.choice((-1, 1)) * v for v in range(1, n + 1)] for _ in range(npl)]
        import itertools
        adm = sum(1 for vs in itertools.combinations(range(1, n + 1), k) for sg in itertools.product((1, -1), repeat=k)
                  if all(any((s * v) in pa for s, v in zip(sg, vs)) for pa in [set(p) for p in planted]))
        rnd.append(("RandomKCNF", k, n, int(adm * frac), planted))
    for j, (fn, k, n, m, planted) in enumerate(rnd):
        for cname, cls in (("CNF", cnfgen.CNF), ("OPB", OPB)):
            try:
                kw = {"planted_assignments": planted} if planted else {}
                F = getattr(cnfgen, fn)(k, n, m, seed=ck.seed + j, formula_class=cls, **kw)
                emit("rand-%s-%d-%d-%d-%d-%s" % (fn, k, n, m, j, cname), "none", {"n0": n}, None, None, [], F, "ok")
            except ValueError:
                pass        # a refusal (m beyond the admissible clauses) builds no formula: C13's business
            except Exception as e:
                emit("rand-%s-%d-%d-%d-%d-%s" % (fn, k, n, m, j, cname), "none", {"n0": n}, None, None, [], None, exc_name(e))
    ck.count("random_formula_objects", len(rnd) * 2)
    # histories of the store machine itself (direction A): every behaviour of Store.tla of a given
    # depth is replayed into a real CNF and a real OPB; the recorded event log is judged like the others
    hcfg = os.path.join(tlc.workdir("C10"), "store_export.cfg")
    with open(hcfg, "w") as f:
        f.write("SPECIFICATION Spec\nCONSTANTS MaxVar = 3\n  Depth = %d\n  Discipline = TRUE\nINVARIANT Emit\nCHECK_DEADLOCK FALSE\n"
                % (3 if ck.quick else 4))
    hists = ck.export("Store", hcfg)
    if len(hists) < 100:
        raise tlc.MachineryError("store histories not exported")
    for j, h in enumerate(hists):
        for cname, cls in (("CNF", cnfgen.CNF), ("OPB", OPB)):
            F = cls()
            outcome = "ok"
            try:
                for c in h:
                    if c["act"] == "insert":
                        mv = c["mv"]
                        clause = [] if mv == 0 else ([-mv] if mv == 1 else [1, -mv])
                        # a checked insertion may reach the store through any of the builders
                        routes = INSERT_ROUTES if (c["checked"] and mv > 0) else INSERT_ROUTES[:2]
                        name, args = routes[(j + len(h) * 7 + mv) % len(routes)]
                        if not hasattr(F, name):
                            name, args = "add_clause", ()
                        if name == "add_clauses_from":
                            F.add_clauses_from([clause], check=bool(c["checked"]))
                        else:
                            getattr(F, name)(clause, *args, check=bool(c["checked"]))
                    elif c["act"] == "group":
                        F.new_block(c["len"], label="b%d_{}" % j)
                    else:
                        F.update_variable_number(c["k"])
            except Exception as e:
                outcome = exc_name(e)
            emit("hist-%05d-%s" % (j, cname), "none", {"n0": h[-1]["nv"]}, None, None, [], F, outcome)
    ck.count("store_histories_replayed", len(hists) * 2)
    ck.count("formula_objects_traced", len(records))
    ck.count("events_recorded", sum(len(r["events"]) for r in records))
    ck.count("clause_insertions_aggregated", sum(e.get("count", 0) for r in records for e in r["events"]))
    for r in (records[0], records[len(records) // 2], records[-1]):
        ck.sample({k: r[k] for k in ("id", "fam", "par", "chain", "final", "events")})
    ck.judge("JudgeStore", records, cfg="JudgeStore.cfg", heap="3g")
    validate_container(ck, tlc.workdir("C10cont"))
    wall = unbounded[0].result()
    nobl, wall2 = unbounded[1].result()
    ck.model_runs.append({"module": "StoreInd", "tool": "apalache-mc", "queries": "Init=>IndInv; IndInv/\\Next=>IndInv'; "
                          "IndInv=>Safety; negative control", "wall_s": round(wall, 1)})
    ck.model_runs.append({"module": "StoreInd", "tool": "tlapm", "obligations_proved": nobl, "wall_s": round(wall2, 1)})
    ck.count("unbounded_inductive_invariant_queries", 4)
    ck.count("tlaps_obligations_proved", nobl)
    ck.assumptions += ["events are recorded by wrapping BaseCNF/BaseOPB.add_clause, BaseOPB.add_constraint, "
                       "update_variable_number and VariablesManager._add_variable_group in the harness process; "
                       "clause data reaching the store by another route would not be seen",
                       "consecutive insertions with the same check flag are aggregated (max variable, count of bad literals)"]
    return ck.finish(rule="one trace = the event log of one formula object produced by a family (both formula classes), "
                          "a transformation, a chain of two, or a command line tool; traces are distinct objects; "
                          "non-trivial = at least one group creation or insertion event")


if __name__ == "__main__":
    common.main_wrapper(main)
