"""C16 - graph objects stay consistent under any sequence of updates.

TLC (Graphs.tla) explores every history of add_edge / remove_edge /
update_vertex_number / add_edges_from calls on the implementation-shaped
model and checks ViewsAgree; the export configs print every behaviour of a
given depth (and random walks of larger depth) together with the abstract
views expected after each call.  Direction A: each behaviour is replayed into
the real Graph / DirectedGraph / BipartiteGraph and *every* public view is
compared with TLC's expectation after *every* step.
"""
import os

from . import common, tlc

KINDS = ("simple", "digraph", "bipartite")


def make(kind, n, r):
    from cnfgen.graphs import Graph, DirectedGraph, BipartiteGraph
    if kind == "simple":
        return Graph(n)
    if kind == "digraph":
        return DirectedGraph(n)
    return BipartiteGraph(n, r)


def compare_views(kind, G, exp, maxn, nx=True):
    """Returns the name of the first view that differs from TLC's expectation, or None."""
    import networkx
    n, r = exp["n"], exp["r"]
    edges = [tuple(e) for e in exp["edges"]]
    eset = set(edges)
    if kind == "bipartite":
        if G.left_order() != n or G.right_order() != r or G.number_of_vertices() != n + r:
            return "order"
    elif G.number_of_vertices() != n or G.order() != n or list(G.vertices()) != list(range(1, n + 1)):
        return "number_of_vertices"
    if G.number_of_edges() != exp["m"] or len(G.edges()) != exp["m"]:
        return "number_of_edges"
    if [tuple(e) for e in G.edges()] != edges:
        return "edges"
    for u in range(0, maxn + 2):
        for v in range(0, maxn + 2):
            want = (u, v) in eset or (kind == "simple" and (v, u) in eset)
            if bool(G.has_edge(u, v)) != want or ((u, v) in G.edges()) != want:
                return "has_edge"
    if kind == "simple":
        for v in range(1, n + 1):
            if list(G.neighbors(v)) != exp["nbr"][v - 1] or G.degree(v) != len(exp["nbr"][v - 1]):
                return "neighbors"
        if G.is_dag() or G.is_directed():
            return "is_dag"
    elif kind == "digraph":
        for v in range(1, n + 1):
            if list(G.successors(v)) != exp["nbr"][v - 1] or G.out_degree(v) != len(exp["nbr"][v - 1]):
                return "successors"
            if list(G.predecessors(v)) != exp["nbrb"][v - 1] or G.in_degree(v) != len(exp["nbrb"][v - 1]):
                return "predecessors"
        if [tuple(e) for e in G.edges_ordered_by_successors()] != sorted(edges, key=lambda e: (e[1], e[0])):
            return "edges_ordered_by_successors"
        if bool(G.is_dag()) != exp["dag"]:
            return "is_dag"
    else:
        for u in range(1, n + 1):
            if list(G.right_neighbors(u)) != exp["nbr"][u - 1] or G.right_degree(u) != len(exp["nbr"][u - 1]):
                return "right_neighbors"
        for v in range(1, r + 1):
            if list(G.left_neighbors(v)) != exp["nbrb"][v - 1] or G.left_degree(v) != len(exp["nbrb"][v - 1]):
                return "left_neighbors"
    if not nx:
        return None
    # networkx conversion preserves vertices and edges
    X = G.to_networkx()
    if kind == "bipartite":
        if sorted(X.nodes()) != list(range(1, n + r + 1)):
            return "to_networkx_nodes"
        if sorted(tuple(sorted(e)) for e in X.edges()) != sorted((u, v + n) for u, v in edges):
            return "to_networkx_edges"
        left = sorted(x for x, d in X.nodes(data=True) if d.get("bipartite") == 0)
        if left != list(range(1, n + 1)):
            return "to_networkx_sides"
    else:
        if sorted(X.nodes()) != list(range(1, n + 1)):
            return "to_networkx_nodes"
        got = sorted(tuple(e) if kind == "digraph" else tuple(sorted(e)) for e in X.edges())
        if got != sorted(edges):
            return "to_networkx_edges"
        if X.is_directed() != (kind == "digraph"):
            return "to_networkx_type"
    H = type(G).from_networkx(X)
    if kind == "bipartite":
        if (H.left_order(), H.right_order()) != (n, r):
            return "from_networkx_order"
    elif H.number_of_vertices() != n:
        return "from_networkx_order"
    if [tuple(e) for e in H.edges()] != edges:
        return "from_networkx_edges"
    return None


def replay(beh, maxn=3, nx_every_step=True):
    """Replay one TLC behaviour. Returns (ok, why)."""
    kind = beh["kind"]
    h = beh["hist"]
    n0, r0 = h[0]["args"]
    G = make(kind, n0, r0)
    why = compare_views(kind, G, h[0]["exp"], maxn)
    if why:
        return False, "step0:init:" + why
    for k, st in enumerate(h[1:], start=1):
        a, args = st["act"], st["args"]
        try:
            if a == "add_edge":
                G.add_edge(*args)
            elif a == "remove_edge":
                G.remove_edge(*args)
            elif a == "update_vertex_number":
                G.update_vertex_number(*args)
            elif a == "add_edges_from":
                G.add_edges_from([tuple(e) for e in args])
            else:
                raise tlc.MachineryError("unknown action %r" % a)
            got = "ok"
        except tlc.MachineryError:
            raise
        except Exception as e:
            got = type(e).__name__
        if got != st["res"]:
            return False, "step%d:%s%s:outcome_%s_expected_%s" % (k, a, tuple(map(str, args)), got, st["res"])
        why = compare_views(kind, G, st["exp"], maxn, nx=nx_every_step or k == len(h) - 1)
        if why:
            return False, "step%d:%s:%s" % (k, a, why)
    return True, "ok"


def _replay_short(beh):
    return replay(beh, 3, True)


def _replay_long(beh):
    return replay(beh, 3, False)


def write_cfg(path, kind, maxn, depth, batches="SomeBatches", emit=True, mc=False):
    lines = ["SPECIFICATION Spec", "CONSTANTS", '  Kind = "%s"' % kind, "  MaxN = %d" % maxn,
             "  Depth = %d" % depth, "  Batches <- %s" % batches, "CHECK_DEADLOCK FALSE"]
    if mc:
        lines += ["INVARIANT TypeOK", "INVARIANT ViewsAgree", "PROPERTY RefusalIsNoop",
                  "PROPERTY EdgesOnlyGrowByAdd", "VIEW ModelView"]
    if emit:
        lines += ["INVARIANT Emit"]
    with open(path, "w") as f:
        f.write("\n".join(lines) + "\n")


def main(argv=None):
    ck = common.Check("C16", argv)
    common.setup_repo_import()
    rec = ck.replay_record()
    if rec is not None:
        ok, why = replay(rec["behaviour"])
        ck.replayed(rec, ok, why)
        return ck.finish()
    wd = tlc.workdir("C16")
    q = ck.quick
    maxn = 3
    nb = 0
    for kind in KINDS:
        # 1. exhaustive model check of the implementation-shaped machine
        cfg = os.path.join(wd, "mc_%s.cfg" % kind)
        mcn = 3 if q or kind != "simple" else 4
        write_cfg(cfg, kind, mcn, 0, batches="AllBatches" if mcn == 3 else "SomeBatches", emit=False, mc=True)
        ck.model("Graphs", cfg)
        # 2. every behaviour of depth d, replayed
        depth = 2 if q else 3
        cfg = os.path.join(wd, "ex_%s.cfg" % kind)
        write_cfg(cfg, kind, maxn, depth)
        behs = ck.export("Graphs", cfg, heap="6g", timeout=3000)
        ck.count("behaviours_exhaustive_depth%d_%s" % (depth, kind), len(behs))
        # 3. long random walks
        walks = 200 if q else 4000
        wdepth = 10 if q else 15
        cfg = os.path.join(wd, "sim_%s.cfg" % kind)
        write_cfg(cfg, kind, maxn, wdepth)
        sims = ck.export("Graphs", cfg, heap="4g", timeout=3000,
                               extra=["-simulate", "num=%d" % walks, "-depth", str(wdepth + 2),
                                      "-seed", str(ck.seed + 17)])
        ck.count("walks_depth%d_%s" % (wdepth, kind), len(sims))
        if len(behs) == 0 or len(sims) == 0:
            raise tlc.MachineryError("no behaviours exported for %s" % kind)
        results = common.pmap(_replay_short, behs) + common.pmap(_replay_long, sims)
        for j, beh in enumerate(behs + sims):
            ok, why = results[j]
            nb += 1
            if j in (0, len(behs)) and kind == "simple":
                ck.sample({"kind": kind, "calls": [[s["act"], s["args"], s["res"]] for s in beh["hist"]]})
            ck.replayed({"id": "%s-%d" % (kind, j), "behaviour": beh}, ok, why)
    ck.assumptions += ["vertex counts 0..3 (4 for the model check of simple graphs in the thorough tier), "
                       "arguments 0..MaxN+1; behaviours of bounded depth"]
    return ck.finish(rule="one case = one TLC behaviour (constructor + sequence of calls with arguments) replayed into the "
                          "real class with all views compared after every call; behaviours are distinct states of the export "
                          "run (exhaustive to the stated depth) plus random walks",
                     distinct_nontrivial=nb)


if __name__ == "__main__":
    common.main_wrapper(main)
