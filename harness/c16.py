"""C16 - graph objects stay consistent under any sequence of updates.

TLC (Graphs.tla) explores every history of add_edge / remove_edge /
update_vertex_number / add_edges_from calls on the implementation-shaped
model and checks ViewsAgree; the export configs print every behaviour of a
given depth (and random walks of larger depth) together with the abstract
views expected after each call.  Direction A: each behaviour is replayed into
the real Graph / DirectedGraph / BipartiteGraph and *every* public view is
compared with TLC's expectation after *every* step.
"""
import os

from . import common, tlc
from .exc import exc_name

KINDS = ("simple", "digraph", "bipartite")


def make(kind, n, r):
    from cnfgen.graphs import Graph, DirectedGraph, BipartiteGraph
    if kind == "simple":
        return Graph(n)
    if kind == "digraph":
        return DirectedGraph(n)
    return BipartiteGraph(n, r)


def compare_views(kind, G, exp, maxn, nx=True):
    """Returns the name of the first view that differs from TLC's expectation, or None."""
    import networkx
    n, r = exp["n"], exp["r"]
    edges = [tuple(e) for e in exp["edges"]]
    eset = set(edges)
    if kind == "bipartite":
        if G.left_order() != n or G.right_order() != r or G.number_of_vertices() != n + r:
            return "order"
    elif G.number_of_vertices() != n or G.order() != n or list(G.vertices()) != list(range(1, n + 1)):
        return "number_of_vertices"
    if G.number_of_edges() != exp["m"] or len(G.edges()) != exp["m"]:
        return "number_of_edges"
    if [tuple(e) for e in G.edges()] != edges:
        return "edges"
    for u in range(-2, maxn + 2):
        for v in range(-2, maxn + 2):
            want = (u, v) in eset or (kind == "simple" and (v, u) in eset)
            if bool(G.has_edge(u, v)) != want or ((u, v) in G.edges()) != want:
                return "has_edge"
    if kind == "simple":
        for v in range(1, n + 1):
            if list(G.neighbors(v)) != exp["nbr"][v - 1] or G.degree(v) != len(exp["nbr"][v - 1]):
                return "neighbors"
        if G.is_dag() or G.is_directed():
            return "is_dag"
    elif kind == "digraph":
        for v in range(1, n + 1):
            if list(G.successors(v)) != exp["nbr"][v - 1] or G.out_degree(v) != len(exp["nbr"][v - 1]):
                return "successors"
            if list(G.predecessors(v)) != exp["nbrb"][v - 1] or G.in_degree(v) != len(exp["nbrb"][v - 1]):
                return "predecessors"
        if [tuple(e) for e in G.edges_ordered_by_successors()] != sorted(edges, key=lambda e: (e[1], e[0])):
            return "edges_ordered_by_successors"
        if bool(G.is_dag()) != exp["dag"]:
            return "is_dag"
    else:
        for u in range(1, n + 1):
            if list(G.right_neighbors(u)) != exp["nbr"][u - 1] or G.right_degree(u) != len(exp["nbr"][u - 1]):
                return "right_neighbors"
        for v in range(1, r + 1):
            if list(G.left_neighbors(v)) != exp["nbrb"][v - 1] or G.left_degree(v) != len(exp["nbrb"][v - 1]):
                return "left_neighbors"
    if not nx:
        return None
    # networkx conversion preserves vertices and edges
    X = G.to_networkx()
    if kind == "bipartite":
        if sorted(X.nodes()) != list(range(1, n + r + 1)):
            return "to_networkx_nodes"
        if sorted(tuple(sorted(e)) for e in X.edges()) != sorted((u, v + n) for u, v in edges):
            return "to_networkx_edges"
        left = sorted(x for x, d in X.nodes(data=True) if d.get("bipartite") == 0)
        if left != list(range(1, n + 1)):
            return "to_networkx_sides"
    else:
        if sorted(X.nodes()) != list(range(1, n + 1)):
            return "to_networkx_nodes"
        got = sorted(tuple(e) if kind == "digraph" else tuple(sorted(e)) for e in X.edges())
        if got != sorted(edges):
            return "to_networkx_edges"
        if X.is_directed() != (kind == "digraph"):
            return "to_networkx_type"
    H = type(G).from_networkx(X)
    if kind == "bipartite":
        if (H.left_order(), H.right_order()) != (n, r):
            return "from_networkx_order"
    elif H.number_of_vertices() != n:
        return "from_networkx_order"
    if [tuple(e) for e in H.edges()] != edges:
        return "from_networkx_edges"
    # the same abstract graph built in networkx by another history (nodes and edges inserted in another
    # order, endpoints given the other way round): vertices and edges are what is preserved, not the history
    for variant in (0, 1, 2):
        Y = type(X)()
        nodes = list(X.nodes(data=True))
        if kind == "bipartite":
            # the numbering inside each side follows the order of insertion of its nodes (kept); how the two
            # sides are interleaved is history
            lft = [x for x in nodes if x[1].get("bipartite") == 0]
            rgt = [x for x in nodes if x[1].get("bipartite") == 1]
            if variant == 0:
                nodes = rgt + lft
            elif variant == 1:
                nodes = [x for k in range(max(len(lft), len(rgt))) for x in rgt[k:k + 1] + lft[k:k + 1]]
        elif variant == 0:
            nodes = nodes[::-1]
        elif variant == 1:
            nodes = nodes[1::2] + nodes[0::2]
        for x, d in nodes:
            Y.add_node(x, **d)
        es = list(X.edges())
        es = es[::-1] if variant != 1 else es[1::2] + es[0::2]
        for a, b in es:
            if kind == "digraph" or variant == 2:
                Y.add_edge(a, b)
            else:
                Y.add_edge(b, a)
        try:
            H = type(G).from_networkx(Y)
        except Exception as e:
            return "from_networkx_other_history_%s" % exc_name(e)
        if kind == "bipartite":
            if (H.left_order(), H.right_order()) != (n, r):
                return "from_networkx_other_history_order"
        elif H.number_of_vertices() != n:
            return "from_networkx_other_history_order"
        if [tuple(e) for e in H.edges()] != edges:
            return "from_networkx_other_history_edges"
    return None


def replay(beh, maxn=3, nx_every_step=True):
    """Replay one TLC behaviour. Returns (ok, why)."""
    kind = beh["kind"]
    h = beh["hist"]
    n0, r0 = h[0]["args"]
    G = make(kind, n0, r0)
    why = compare_views(kind, G, h[0]["exp"], maxn)
    if why:
        return False, "step0:init:" + why
    for k, st in enumerate(h[1:], start=1):
        a, args = st["act"], st["args"]
        try:
            if a == "add_edge":
                G.add_edge(*args)
            elif a == "remove_edge":
                G.remove_edge(*args)
            elif a == "update_vertex_number":
                G.update_vertex_number(*args)
            elif a == "add_edges_from":
                G.add_edges_from([tuple(e) for e in args])
            else:
                raise tlc.MachineryError("unknown action %r" % a)
            got = "ok"
        except tlc.MachineryError:
            raise
        except Exception as e:
            got = exc_name(e)
        if got != st["res"]:
            return False, "step%d:%s%s:outcome_%s_expected_%s" % (k, a, tuple(map(str, args)), got, st["res"])
        why = compare_views(kind, G, st["exp"], maxn, nx=nx_every_step or k == len(h) - 1)
        if why:
            return False, "step%d:%s:%s" % (k, a, why)
        if kind == "bipartite" and st["exp"]["m"] == st["exp"]["n"] * st["exp"]["r"]:
            # the graph reached is complete: the class that stores no edges must show the same views
            from cnfgen.graphs import CompleteBipartiteGraph
            why = compare_views(kind, CompleteBipartiteGraph(st["exp"]["n"], st["exp"]["r"]), st["exp"], maxn)
            if why:
                return False, "step%d:CompleteBipartiteGraph:%s" % (k, why)
    return True, "ok"


def _replay_short(beh):
    return replay(beh, 3, True)


def _replay_long(beh):
    return replay(beh, 3, False)



class OpRecorder:
    """Wraps the mutators of the real graph classes and logs every call made on one object."""

    def __init__(self):
        from cnfgen.graphs import Graph, BipartiteGraph, DirectedGraph
        self.target = None
        self.events = []
        self.saved = []
        rec = self

        def wrap(cls, name, op):
            orig = getattr(cls, name)
            self.saved.append((cls, name, orig))

            def f(selfg, *a):
                if selfg is not rec.target:
                    return orig(selfg, *a)
                try:
                    out = orig(selfg, *a)
                    res = "ok"
                except ValueError:
                    res = "ValueError"
                    out = None
                    rec.log(selfg, op, a, res)
                    raise
                rec.log(selfg, op, a, res)
                return out
            setattr(cls, name, f)
        wrap(Graph, "add_edge", "add_edge")
        wrap(Graph, "remove_edge", "remove_edge")
        wrap(Graph, "update_vertex_number", "update_vertex_number")
        wrap(BipartiteGraph, "add_edge", "add_edge")
        wrap(DirectedGraph, "add_edge", "add_edge")

    def log(self, G, op, a, res):
        from cnfgen.graphs import BaseBipartiteGraph
        n = G.left_order() if isinstance(G, BaseBipartiteGraph) else G.number_of_vertices()
        self.events.append({"op": op, "u": int(a[0]), "v": int(a[1]) if len(a) > 1 else 0, "res": res,
                            "n": int(n), "m": int(G.number_of_edges())})

    def restore(self):
        for cls, name, orig in self.saved:
            setattr(cls, name, orig)


def random_helper_traces(ck, maxn):
    """Traces of what the real random helpers do to a real graph object."""
    import random as _random
    from cnfgen.graphs import Graph, BipartiteGraph, split_random_edges, add_random_missing_edges
    from cnfgen.clitools.graph_build import (modify_simple_graph_plantclique, modify_graph_addedges,
                                             modify_graph_splitedges, modify_bipartite_graph_plantbiclique)
    rng = ck.rng
    rec = OpRecorder()
    traces = {"simple": [], "bipartite": []}
    try:
        for t in range(24 if ck.quick else 200):
            kind = "simple" if t % 3 else "bipartite"
            _random.seed(ck.seed * 7919 + t)
            if kind == "simple":
                n0 = rng.randint(3, maxn - 4)
                G = Graph(n0)
                base = [(u, v) for u in range(1, n0 + 1) for v in range(u + 1, n0 + 1) if rng.random() < .45]
                r0 = 0
            else:
                n0, r0 = rng.randint(2, 5), rng.randint(2, 5)
                G = BipartiteGraph(n0, r0)
                base = [(u, v) for u in range(1, n0 + 1) for v in range(1, r0 + 1) if rng.random() < .4]
            rec.target, rec.events = G, []
            rng.shuffle(base)
            for u, v in base:
                G.add_edge(u, v)
            steps = rng.randint(1, 3)
            for _ in range(steps):
                try:
                    if kind == "simple":
                        c = rng.choice(("split", "add", "plant", "split_direct", "add_direct"))
                        missing = n0 * (n0 - 1) // 2 - G.number_of_edges()
                        if c == "split":
                            modify_graph_splitedges({"splitedges": [str(min(rng.randint(0, 3), G.number_of_edges(), maxn - G.number_of_vertices()))]}, G)
                        elif c == "split_direct":
                            split_random_edges(G, min(rng.randint(0, 2), G.number_of_edges(), maxn - G.number_of_vertices()))
                        elif c == "add":
                            if G.number_of_vertices() == n0:
                                modify_graph_addedges({"addedges": [str(rng.randint(0, max(0, missing)))]}, G)
                        elif c == "add_direct":
                            if G.number_of_vertices() == n0:
                                add_random_missing_edges(G, rng.randint(0, max(0, missing)))
                        else:
                            modify_simple_graph_plantclique({"plantclique": [str(rng.randint(0, G.number_of_vertices()))]}, G)
                    else:
                        c = rng.choice(("add", "plant"))
                        if c == "add":
                            modify_graph_addedges({"addedges": [str(rng.randint(0, n0 * r0 - G.number_of_edges()))]}, G)
                        else:
                            modify_bipartite_graph_plantbiclique({"plantbiclique": [str(rng.randint(0, n0)), str(rng.randint(0, r0))]}, G)
                except ValueError:
                    pass
            ev = list(rec.events)
            ev.append({"op": "final", "u": 0, "v": 0, "res": "ok", "n": 0, "m": 0,
                       "edges": sorted([int(u), int(v)] for u, v in G.edges())})
            for e in ev[:-1]:
                e["edges"] = []
            traces[kind].append({"id": "%s-%03d" % (kind, t), "n0": n0, "r0": r0, "events": ev})
    finally:
        rec.restore()
    return traces


def validate_traces(ck, wd, traces, maxn):
    """TLC validates the recorded traces against GraphsTrace.tla (TraceSpec, ViewsAgree at every step)."""
    import json as _json
    import re as _re
    for kind, trs in traces.items():
        if not trs:
            continue
        # binding demonstration: a copy of the first trace with one logged counter corrupted and one
        # with an event removed must NOT be accepted
        import copy as _copy
        demos = []
        base = next((t for t in trs if len(t["events"]) >= 4), None)
        if base is not None:
            a = _copy.deepcopy(base)
            a["id"] = "demo-corrupt-counter"
            a["events"][1]["m"] += 1
            b = _copy.deepcopy(base)
            b["id"] = "demo-dropped-event"
            del b["events"][0]
            demos = [a, b]
        path = os.path.join(wd, "traces_%s.json" % kind)
        with open(path, "w") as f:
            _json.dump(trs + demos, f)
        cfg = os.path.join(wd, "trace_%s.cfg" % kind)
        with open(cfg, "w") as f:
            f.write("SPECIFICATION TraceSpec\nCONSTANTS\n  Kind = \"%s\"\n  MaxN = %d\n  NegArgs = 2\n  Depth = 0\n  Batches <- SomeBatches\n"
                    "INVARIANT ViewsAgree\nCHECK_DEADLOCK FALSE\n" % (kind, maxn))
        r = tlc.run_tlc("GraphsTrace", cfg, env={"TRACE_FILE": path}, workers=4, heap="3g", timeout=1800)
        ck.states += r["distinct"]
        ck.transitions += r["generated"]
        accepted = set(_re.findall(r'<<"ACCEPTED", "([^"]+)">>', r["out"]))
        inv = "Invariant ViewsAgree is violated" in r["out"]
        if r["rc"] != 0 and not inv:
            raise tlc.MachineryError("trace validation run failed:\n" + r["out"][-2000:])
        for dm in demos:
            if dm["id"] in accepted:
                raise tlc.MachineryError("binding demonstration: corrupted trace %s was accepted" % dm["id"])
        ck.count("corrupted_traces_rejected", len(demos))
        for tr in trs:
            ok = tr["id"] in accepted and not inv
            ck.replayed({"id": "trace-" + tr["id"], "trace": tr}, ok,
                        "ok" if ok else ("views_disagree_during_trace" if inv else "trace_is_not_a_behaviour_of_the_specification"))
        ck.count("helper_traces_validated_%s" % kind, len(trs))
        ck.count("helper_trace_events_%s" % kind, sum(len(t["events"]) for t in trs))


def write_cfg(path, kind, maxn, depth, batches="SomeBatches", emit=True, mc=False, neg=2):
    lines = ["SPECIFICATION Spec", "CONSTANTS", '  Kind = "%s"' % kind, "  MaxN = %d" % maxn, "  NegArgs = %d" % neg,
             "  Depth = %d" % depth, "  Batches <- %s" % batches, "CHECK_DEADLOCK FALSE"]
    if mc:
        lines += ["INVARIANT TypeOK", "INVARIANT ViewsAgree", "PROPERTY RefusalIsNoop",
                  "PROPERTY EdgesOnlyGrowByAdd", "VIEW ModelView"]
    if emit:
        lines += ["INVARIANT Emit"]
    with open(path, "w") as f:
        f.write("\n".join(lines) + "\n")


def main(argv=None):
    ck = common.Check("C16", argv)
    common.setup_repo_import()
    rec = ck.replay_record()
    if rec is not None:
        ok, why = replay(rec["behaviour"])
        ck.replayed(rec, ok, why)
        return ck.finish()
    wd = tlc.workdir("C16")
    q = ck.quick
    maxn = 3
    nb = 0
    for kind in KINDS:
        # 1. exhaustive model check of the implementation-shaped machine
        cfg = os.path.join(wd, "mc_%s.cfg" % kind)
        mcn = 3 if q or kind != "simple" else 4
        write_cfg(cfg, kind, mcn, 0, batches="AllBatches" if mcn == 3 else "SomeBatches", emit=False, mc=True)
        ck.model("Graphs", cfg)
        # 2. every behaviour of depth d, replayed
        cfg = os.path.join(wd, "ex_%s.cfg" % kind)
        write_cfg(cfg, kind, maxn, 2)
        behs = ck.export("Graphs", cfg, heap="6g", timeout=3000)
        ck.count("behaviours_exhaustive_depth2_%s" % kind, len(behs))
        if not q:
            # one call deeper with the non-negative arguments only (negative ones: depth 2 above and the walks)
            cfg = os.path.join(wd, "ex3_%s.cfg" % kind)
            write_cfg(cfg, kind, maxn, 3, neg=0)
            more = ck.export("Graphs", cfg, heap="6g", timeout=3000)
            ck.count("behaviours_exhaustive_depth3_nonnegative_%s" % kind, len(more))
        else:
            more = []
        # 3. long random walks
        walks = 200 if q else 4000
        wdepth = 10 if q else 15
        cfg = os.path.join(wd, "sim_%s.cfg" % kind)
        write_cfg(cfg, kind, maxn, wdepth)
        sims = ck.export("Graphs", cfg, heap="4g", timeout=3000,
                               extra=["-simulate", "num=%d" % walks, "-depth", str(wdepth + 2),
                                      "-seed", str(ck.seed + 17)])
        ck.count("walks_depth%d_%s" % (wdepth, kind), len(sims))
        if len(behs) == 0 or len(sims) == 0:
            raise tlc.MachineryError("no behaviours exported for %s" % kind)
        results = common.pmap(_replay_short, behs) + common.pmap(_replay_long, more + sims)
        nshort = len(behs)
        behs = behs + more
        for j, beh in enumerate(behs + sims):
            ok, why = results[j]
            nb += 1
            if j in (0, len(behs)) and kind == "simple":
                ck.sample({"kind": kind, "calls": [[s["act"], s["args"], s["res"]] for s in beh["hist"]]})
            ck.replayed({"id": "%s-%d" % (kind, j), "behaviour": beh}, ok, why)
    # trace validation (code -> spec): what the real random helpers do to a real graph object
    validate_traces(ck, wd, random_helper_traces(ck, 12), 12)
    ck.assumptions += ["vertex counts 0..3 (4 for the model check of simple graphs in the thorough tier), "
                       "arguments -2..MaxN+1; behaviours of bounded depth"]
    return ck.finish(rule="one case = one TLC behaviour (constructor + sequence of calls with arguments) replayed into the "
                          "real class with all views compared after every call; behaviours are distinct states of the export "
                          "run (exhaustive to the stated depth) plus random walks",
                     distinct_nontrivial=nb)


if __name__ == "__main__":
    common.main_wrapper(main)
