"""C15 - graph constructions on the command line deliver the structure they name.

Direction B (code -> spec).  Every graph specification of a grid
  construction x arguments (inside / boundary / just outside / malformed)
  x modifiers (plantclique, plantbiclique, addedges, splitedges, save) x seeds
is handed to the real entry point (the argparse actions of
cnfgen.clitools.graph_args, i.e. make_graph_from_spec; a sample also through
`cnfgen -q <family> <graph spec>`), the outcome is projected (graph through its
public API, the graph each modifier received, the saved file read back with the
repository's reader) and JudgeGraphCmd.tla decides: graph with the promise /
clean refusal / violation.  GraphCmdMC.tla machine-checks the specification
itself (closed forms, shape characterisations, modifier predicates).

Python here drives, projects and names findings; every verdict is TLC's.

The random choices of the samplers are explored with `random.seed(s)` for many
s and, in addition, with a *skewed source*: a random.Random subclass whose
random() returns values near 0 or near 1 most of the time.  Every value it
returns is a value the Mersenne twister can return, so every outcome reached
this way is an outcome of the random choices; it makes the retry loops and
their fall-back branches (bipartite_random_regular, add_random_missing_edges)
run in a few draws instead of once in 10^4 seeds.
"""
import argparse
import concurrent.futures as cf
import contextlib
import io
import json
import os
import random
import re
import signal

from . import common, tlc, project, cliargs
from .exc import exc_name

WD = None
LOG = []          # (modifier name, graph it received) of the call in progress
RET = []          # graphs returned by make_graph_from_spec during a cli call
MODFUNCS = {
    "plantclique": "modify_simple_graph_plantclique",
    "plantbiclique": "modify_bipartite_graph_plantbiclique",
    "addedges": "modify_graph_addedges",
    "splitedges": "modify_graph_splitedges",
}
ACTIONS = {"simple": "ObtainSimpleGraph", "bipartite": "ObtainBipartiteGraph",
           "dag": "ObtainDirectedAcyclicGraph"}
TIMEOUT_S = 60


# ---------------------------------------------------------------------------
# projections


def tok(s):
    """A command-line token as the specification sees it (DESIGN 2.4)."""
    try:
        v = int(s)
        if abs(v) < 2000000:
            return {"i": v}
        return {"w": s}
    except ValueError:
        pass
    try:
        x = float(s)
    except ValueError:
        return {"w": s}
    if x != x or abs(x) > 1e6:
        return {"w": s}
    return {"f": s, "milli": int(round(x * 1000))}


def toks(args):
    return [tok(a) for a in args]


# ---------------------------------------------------------------------------
# driving the real code


class Skew(random.Random):
    """random() is near 0 or near 1 with probability q, uniform otherwise."""

    def __init__(self, seed, q, mode):
        super().__init__(seed)
        self.q = q
        self.mode = mode
        self.u = random.Random(seed * 7919 + 13)

    def random(self):
        x = self.u.random()
        if x < self.q:
            if self.mode == "lo" or (self.mode == "both" and x < self.q / 2):
                return 1e-12
            return 0.999999
        return self.u.random()


_RNAMES = ["random", "randint", "sample", "shuffle", "choice", "randrange", "uniform",
           "getrandbits", "choices", "_inst"]


@contextlib.contextmanager
def random_source(seed, rng):
    """`random.seed(seed)`, or the skewed source installed as the module's generator."""
    if rng == "mt":
        random.seed(seed)
        yield
        return
    q, mode = {"skewlo": (.85, "lo"), "skewhi": (.85, "hi"), "skew": (.85, "both"), "skew7": (.7, "both")}[rng]
    inst = Skew(seed, q, mode)
    old = {n: getattr(random, n) for n in _RNAMES}
    try:
        for n in _RNAMES:
            if n != "_inst":
                setattr(random, n, getattr(inst, n))
        random._inst = inst
        yield
    finally:
        for n, v in old.items():
            setattr(random, n, v)


class _Refused(Exception):
    pass


class _Timeout(BaseException):
    pass


class _StubParser:
    def error(self, msg):
        raise _Refused(msg)


def install_observers():
    """Wrap the modifier functions (and make_graph_from_spec) as seen by graph_args:
    observation from outside the repository, DESIGN 2.7."""
    import cnfgen.clitools.graph_args as ga
    for name, fn in [("", "make_graph_from_spec")] + [("", a) for a in ACTIONS.values()]:
        if not hasattr(ga, fn):
            raise tlc.MachineryError("cnfgen.clitools.graph_args.%s is gone: cannot build graphs from specifications" % fn)
    if getattr(ga, "_c15_wrapped", False):
        return
    for name, fn in MODFUNCS.items():
        # private helpers: observed when they exist and are called through the module (cheap); otherwise the
        # stages are obtained through the public interface alone (prefix_stages)
        if not hasattr(ga, fn):
            continue
        orig = getattr(ga, fn)

        def wrapper(parsed, G, _orig=orig, _name=name):
            LOG.append((_name, project.graph(G)))
            return _orig(parsed, G)
        setattr(ga, fn, wrapper)
    orig_make = ga.make_graph_from_spec

    def make(graphtype, args):
        G = orig_make(graphtype, args)
        RET.append(project.graph(G))
        return G
    ga.make_graph_from_spec = make
    ga._c15_wrapped = True


def _alarm(signum, frame):
    raise _Timeout()


def spec_tokens(job, path):
    t = [job["constr"]] + list(job["args"])
    for name, a in job["mods"]:
        t += [name] + list(a)
    if job.get("save"):
        fmt, ext = job["save"]
        t += ["save"] + ([fmt] if fmt != "autodetect" else []) + [path]
    return t


def save_path(job):
    if not job.get("save"):
        return ""
    ext = job["save"][1]
    return os.path.join(WD, "g%s%s" % (job["n"], "." + ext if ext else ""))


def base_record(job, spec):
    rec = {"id": job["id"], "kind": job["kind"], "gtype": job["gtype"], "constr": job["constr"],
           "args": toks(job["args"]), "spec": [str(x) for x in spec],
           "given": [{"name": n, "args": toks(a)} for n, a in job["mods"]],
           "seed": job["seed"], "rng": job["rng"], "job": job, "msglen": 0}
    if job.get("save"):
        rec["save"] = {"fmt": job["save"][0], "ext": job["save"][1] or "none"}
    return rec


def finish_record(rec, job, path, G):
    """Project the delivered graph, the stages and the saved file."""
    rec["graph"] = G
    args_of = {}
    for n, a in job["mods"]:
        args_of.setdefault(n, toks(a))
    stages = list(LOG)
    if sorted(n for n, _ in stages) != sorted(n for n, _ in job["mods"]) and len({n for n, _ in job["mods"]}) == len(job["mods"]):
        stages = prefix_stages(job)
    rec["stages"] = [{"name": n, "args": args_of.get(n, []), "before": g} for n, g in stages]
    if job.get("save"):
        from cnfgen.graphs import readGraph
        fmt = job["save"][0] if job["save"][0] != "autodetect" else job["save"][1]
        if not os.path.isfile(path):
            rec["saved"] = {"outcome": "missing"}
        else:
            try:
                with quiet():
                    S = readGraph(path, job["gtype"], fmt)
                rec["saved"] = {"outcome": "ok", "graph": project.graph(S)}
            except Exception as e:
                rec["saved"] = {"outcome": exc_name(e)}
    return rec


def prefix_stages(job):
    """The graph before each modifier, through the public interface only: the same specification cut before
    that modifier and built from the same random source (what comes later in the specification has not
    been drawn yet when the earlier part is built).  Used when the private modifier helpers of graph_args
    are not observable (renamed, or no longer called through the module)."""
    import cnfgen.clitools.graph_args as ga
    keep_log, keep_ret = list(LOG), list(RET)
    out = []
    # the order in which modifiers are applied does not follow the order of the tokens: planting first, then
    # added edges, then split edges (assumed here; with observable helpers the order is observed)
    rank = {"plantclique": 0, "plantbiclique": 0, "addedges": 1, "splitedges": 2}
    mods = sorted(job["mods"], key=lambda m: rank.get(m[0], 3))
    try:
        for i, (name, _) in enumerate(mods):
            t = [job["constr"]] + list(job["args"])
            for n2, a2 in mods[:i]:
                t += [n2] + list(a2)
            with random_source(job["seed"], job["rng"]), quiet():
                G = ga.make_graph_from_spec(job["gtype"], [str(x) for x in t])
            out.append((name, project.graph(G)))
    except Exception:
        return keep_log         # judged as observed
    finally:
        LOG[:] = keep_log
        RET[:] = keep_ret
    return out


@contextlib.contextmanager
def quiet():
    with contextlib.redirect_stderr(io.StringIO()), contextlib.redirect_stdout(io.StringIO()):
        yield


def run_lib(job):
    """One graph specification through the argparse action / make_graph_from_spec."""
    import cnfgen.clitools.graph_args as ga
    path = save_path(job)
    if path and os.path.exists(path):
        os.unlink(path)
    spec = spec_tokens(job, path)
    rec = base_record(job, spec)
    del LOG[:]
    del RET[:]
    G = None
    old = signal.signal(signal.SIGALRM, _alarm)
    signal.alarm(TIMEOUT_S)
    try:
        with random_source(job["seed"], job["rng"]), quiet():
            if job["gtype"] in ACTIONS:
                act = getattr(ga, ACTIONS[job["gtype"]])(option_strings=[], dest="G")
                ns = argparse.Namespace()
                act(_StubParser(), ns, list(spec))
                G = project.graph(ns.G)
            else:
                # no argparse action exists for 'digraph': same mapping as the actions
                try:
                    G = project.graph(ga.make_graph_from_spec(job["gtype"], list(spec)))
                except (ValueError, FileNotFoundError) as e:
                    raise _Refused(str(e))
        rec["outcome"] = "ok"
    except _Refused as e:
        rec["outcome"] = "refused"
        rec["msglen"] = len(str(e).strip())
    except _Timeout:
        rec["outcome"] = "Timeout"
    except Exception as e:
        rec["outcome"] = exc_name(e)
        rec["msg"] = str(e)[:120].replace("\n", " ")
    finally:
        signal.alarm(0)
        signal.signal(signal.SIGALRM, old)
    if rec["outcome"] == "ok":
        finish_record(rec, job, path, G)
    if path and os.path.exists(path):
        os.unlink(path)
    return rec


def run_cli(job):
    """`cnfgen -q <family> <graph spec>` in process; the graph is also read off the formula."""
    from cnfgen.clitools.cmdline import CLIError
    path = save_path(job)
    if path and os.path.exists(path):
        os.unlink(path)
    spec = spec_tokens(job, path)
    rec = base_record(job, spec)
    rec["fam"] = job["fam"]
    rec["argv"] = ["cnfgen", "-q", job["fam"]] + [str(x) for x in spec]
    del LOG[:]
    del RET[:]
    F = None
    try:
        with random_source(job["seed"], job["rng"]):
            F = cliargs.call_cli("cnfgen", rec["argv"])
        rec["outcome"] = "ok"
    except CLIError as e:
        rec["outcome"] = "refused"
        rec["msglen"] = len(str(e).strip())
    except SystemExit:
        rec["outcome"] = "SystemExit"
    except Exception as e:
        rec["outcome"] = exc_name(e)
        rec["msg"] = str(e)[:120].replace("\n", " ")
    if rec["outcome"] == "ok":
        if len(RET) != 1:
            # the command line did not go through graph_args.make_graph_from_spec as this module sees it: the
            # same specification built from the same random source is the graph it used
            import cnfgen.clitools.graph_args as ga
            saved = path and os.path.exists(path) and open(path, "rb").read()
            with random_source(job["seed"], job["rng"]), quiet():
                G0 = project.graph(ga.make_graph_from_spec(job["gtype"], [str(x) for x in spec]))
            if saved:
                with open(path, "wb") as f:
                    f.write(saved)
            RET[:] = [G0]
        finish_record(rec, job, path, RET[0])
        if job["fam"] == "peb":
            rec["nvars"] = int(F.number_of_variables())
            rec["clauses"] = project.clauses_of(F)
        else:
            dg = project.decode_groups(F) or project.decode_labels([str(x) for x in F.all_variable_labels()])
            rec["fedges"] = [list(t) for t in dg[1]]
    if path and os.path.exists(path):
        os.unlink(path)
    return rec


LIBFUNCS = {
    ("bipartite", "glrd"): "bipartite_random_left_regular",
    ("bipartite", "glrm"): "bipartite_random_m_edges",
    ("bipartite", "regular"): "bipartite_random_regular",
    ("bipartite", "shift"): "bipartite_shift",
    ("dag", "pyramid"): "dag_pyramid",
    ("dag", "tree"): "dag_complete_binary_tree",
    ("dag", "path"): "dag_path",
}


def run_libcall(job):
    """The library constructor behind a construction, called directly with integers."""
    import cnfgen.graphs as gr
    fn = getattr(gr, LIBFUNCS[(job["gtype"], job["constr"])])
    a = [int(x) for x in job["args"]]
    rec = base_record(job, [fn.__name__] + job["args"])
    old = signal.signal(signal.SIGALRM, _alarm)
    signal.alarm(TIMEOUT_S)
    try:
        with random_source(job["seed"], job["rng"]), quiet():
            if job["constr"] == "shift":
                G = fn(a[0], a[1], list(a[2:]))
            else:
                G = fn(*a)
        rec["outcome"] = "ok"
        rec["graph"] = project.graph(G)
    except ValueError as e:
        rec["outcome"] = "refused"
        rec["msglen"] = len(str(e).strip())
    except _Timeout:
        rec["outcome"] = "Timeout"
    except Exception as e:
        rec["outcome"] = exc_name(e)
        rec["msg"] = str(e)[:120].replace("\n", " ")
    finally:
        signal.alarm(0)
        signal.signal(signal.SIGALRM, old)
    return rec


def run_job(job):
    if job["kind"] == "cli":
        return run_cli(job)
    if job["kind"] == "libcall":
        return run_libcall(job)
    return run_lib(job)


# ---------------------------------------------------------------------------
# the grid


_SAFE = re.compile(r"[^A-Za-z0-9_.+-]")


class Grid:
    def __init__(self, ck):
        self.ck = ck
        self.q = ck.quick
        self.jobs = []
        self.ids = set()
        self.S = 20 if ck.quick else 200          # seeds for random constructions
        self.SM = 8 if ck.quick else 60           # seeds for modifier combinations
        self.SK = 6 if ck.quick else 60           # skewed sources

    def seeds(self, k, rngs=("mt",)):
        out = []
        for r in rngs:
            base = self.ck.seed * 100000
            out += [(base + s, r) for s in range(k)]
        return out

    def add(self, gtype, constr, args, mods=(), save=None, seeds=((0, "mt"),), kind="lib", fam=None):
        args = [str(a) for a in args]
        mods = [(n, [str(x) for x in a]) for n, a in mods]
        for seed, rng in seeds:
            t = [constr] + args
            for n, a in mods:
                t += [n] + a
            if save:
                t += ["save", save[0], save[1] or "noext"]
            jid = "%s-%s-%s-s%d%s" % (kind if kind != "cli" else "cli_" + fam, gtype,
                                       _SAFE.sub("x", "_".join(t)), seed, "" if rng == "mt" else "-" + rng)
            if jid in self.ids:
                continue
            self.ids.add(jid)
            job = {"id": jid, "kind": kind, "gtype": gtype, "constr": constr, "args": args,
                   "mods": [[n, a] for n, a in mods], "seed": seed, "rng": rng, "n": len(self.jobs)}
            if save:
                job["save"] = list(save)
            if fam:
                job["fam"] = fam
            self.jobs.append(job)

    # -- malformed argument lists common to every construction ----------------
    def malformed(self, gtype, constr, good):
        """good: a well-formed argument list; derive missing / extra / non-numeric ones."""
        good = [str(x) for x in good]
        for k in range(len(good)):
            self.add(gtype, constr, good[:k])                                 # missing
        self.add(gtype, constr, good + ["2"])                                 # extra
        for k in range(len(good)):
            for bad in ("x", "1.5", "3.0", "nan", "-1", "1e1"):
                self.add(gtype, constr, good[:k] + [bad] + good[k + 1:])

    def simple(self):
        S, rs = self.S, ("mt",)
        many = self.seeds(S) + self.seeds(self.SK, ("skew",))
        few = self.seeds(2)
        # gnm N m
        for N in (1, 2, 3, 4, 5, 6):
            top = N * (N - 1) // 2
            for m in sorted({-1, 0, 1, 2, top // 2, top - 1, top, top + 1}):
                self.add("simple", "gnm", [N, m], seeds=many if 0 <= m <= top else few)
        for N, m in ((0, 0), (-1, 0), (9, 20), (12, 30), (12, 66), (12, 67)):
            self.add("simple", "gnm", [N, m], seeds=self.seeds(4))
        self.malformed("simple", "gnm", [4, 3])
        self.add("simple", "gnm", ["+4", "3"], seeds=few)
        # gnd N d
        for N in range(0, 8):
            for d in range(-1, N + 2):
                ok = N > 0 and 0 <= d < N and N * d % 2 == 0
                self.add("simple", "gnd", [N, d], seeds=many if ok else few)
        for N, d in ((10, 3), (12, 4), (9, 8), (10, 9), (10, 10), (11, 3)):
            self.add("simple", "gnd", [N, d], seeds=self.seeds(4))
        self.malformed("simple", "gnd", [4, 3])
        # gnp N p [t]
        ps = ["0", "1", "0.5", ".25", "1.0", "0.0", "1.5", "-0.5", "2", "1e-1"]
        for N in (0, 1, 2, 3, 5):
            for p in ps:
                self.add("simple", "gnp", [N, p], seeds=self.seeds(S // 2) if N > 1 and p in ("0.5", ".25") else few)
                for t in (-1, 0, 1, 2, 3):
                    if N * max(t, 0) <= 9:
                        self.add("simple", "gnp", [N, p, t],
                                 seeds=self.seeds(S // 4) if N > 1 and t > 1 and p in ("0.5", "1") else few[:1])
        for extra in (["x"], ["nan"], ["inf"], []):
            self.add("simple", "gnp", ["3"] + extra)
        self.add("simple", "gnp", ["3", ".5", "2", "2"])
        self.add("simple", "gnp", ["x", ".5"])
        self.add("simple", "gnp", ["3.0", ".5"])
        self.add("simple", "gnp", ["3", ".5", "1.5"])
        self.add("simple", "gnp", [12, ".3"], seeds=self.seeds(4))
        self.add("simple", "gnp", [4, ".5", 4], seeds=self.seeds(4))
        # grid / torus
        dims = [[], [0], [1], [2], [3], [5], [7], [8], [1, 1], [1, 2], [2, 1], [2, 2], [2, 3], [3, 2], [3, 3],
                [2, 4], [3, 4], [4, 5], [2, 2, 2], [3, 2, 1], [1, 3], [1, 1, 1], [2, 0], [-1], [2, -2],
                [3, 3, 3], [2, 3, 4], [7, 1], [6], [3, 5],
                ["2", "x"], ["2.0", "2"], ["1.5"], ["nan"], ["2", "1e0"]]
        for c in ("grid", "torus"):
            for d in dims:
                self.add("simple", c, d)
        # complete N [t], empty N
        for N in (-1, 0, 1, 2, 3, 5, 7, 9):
            self.add("simple", "complete", [N])
            self.add("simple", "empty", [N])
            for t in (-1, 0, 1, 2, 3):
                if N * max(t, 1) <= 12:
                    self.add("simple", "complete", [N, t])
        self.malformed("simple", "complete", [3])
        self.malformed("simple", "empty", [3])
        self.add("simple", "complete", [3, "x"])
        self.add("simple", "complete", [3, "1.5"])
        self.add("simple", "complete", [2, 2, 2])
        # constructions of another graph type
        for c, a in (("path", [3]), ("glrm", [3, 3, 2]), ("regular", [3, 3, 1]), ("tree", [2])):
            self.add("simple", c, a)

    def bipartite(self):
        S = self.S
        many = self.seeds(S) + self.seeds(self.SK, ("skew",))
        few = self.seeds(2)
        # glrm L R m : every m from -1 to L*R+1 (the sparse/dense switch is at L*R//3)
        for L in (1, 2, 3, 4):
            for R in (1, 2, 3, 4):
                for m in range(-1, L * R + 2):
                    self.add("bipartite", "glrm", [L, R, m], seeds=many if 0 <= m <= L * R else few)
        for L, R, ms in ((5, 6, (9, 10, 11, 30)), (7, 7, (16, 17, 49)), (3, 10, (10, 11))):
            for m in ms:
                self.add("bipartite", "glrm", [L, R, m], seeds=self.seeds(4))
        for L, R, m in ((0, 3, 0), (3, 0, 0), (-1, 3, 0), (0, 0, 0)):
            self.add("bipartite", "glrm", [L, R, m])
        self.malformed("bipartite", "glrm", [3, 3, 2])
        # glrd, regular
        pairs = [(L, R) for L in (1, 2, 3, 4) for R in (1, 2, 3, 4)] + [(6, 3), (4, 6), (6, 4), (5, 5), (6, 6), (3, 6)]
        for L, R in pairs:
            for d in range(-1, R + 2):
                okd = 0 <= d <= R
                if L <= 4 and R <= 4:
                    self.add("bipartite", "glrd", [L, R, d], seeds=many if okd else few)
                okr = okd and (L * d) % R == 0
                rs = many
                if okr and d >= 2:
                    rs = many + self.seeds(self.SK, ("skewlo", "skewhi", "skew7"))
                self.add("bipartite", "regular", [L, R, d], seeds=rs if okr else few)
        if not self.q:
            # rare outcomes of the genuine generator: a long plain seed sweep on the
            # parameters where the retry loop of the sampler is tightest
            for L, R, d in ((6, 3, 2), (3, 3, 2), (4, 4, 3)):
                self.add("bipartite", "regular", [L, R, d], seeds=self.seeds(6000))
        for c in ("glrd", "regular"):
            for L, R, d in ((0, 3, 0), (3, 0, 0), (-1, 3, 1), (8, 8, 7), (8, 8, 8), (9, 6, 4)):
                self.add("bipartite", c, [L, R, d], seeds=self.seeds(3))
            self.malformed("bipartite", c, [4, 4, 2])
        # glrp
        ps = ["0", "1", "0.5", ".25", "1.0", "0.0", "1.5", "-0.5", "2"]
        for L, R in ((0, 2), (2, 0), (1, 1), (2, 3), (3, 3), (-1, 2)):
            for p in ps:
                self.add("bipartite", "glrp", [L, R, p],
                         seeds=self.seeds(S // 2) if min(L, R) > 1 and p in ("0.5", ".25") else few)
        for a in ([3, 3], [3, 3, "x"], [3, 3, "nan"], [3, 3, ".5", 1], ["x", 3, ".5"], ["3.0", 3, ".5"], [3]):
            self.add("bipartite", "glrp", a)
        self.add("bipartite", "glrp", [6, 7, ".4"], seeds=self.seeds(4))
        # shift L R v1 v2 ...
        for L in (1, 2, 3, 4):
            for R in (1, 2, 3, 4):
                pats = [[], [0], [1], [R], [R + 1], [0, R], [1, 1], [1, 2], [-1], [0, 1, 2], [R - 1, 0], [2, 1]]
                for pat in pats:
                    self.add("bipartite", "shift", [L, R] + pat)
        for a in ([], [3], [0, 3], [3, 0], [0, 3, 1], [-1, 3], [3, 3, "x"], [3, 3, "1.0"], [3, 3, "1.5"], ["x"],
                  [5, 7, 0, 1, 3], [7, 5, 0, 2, 5], [3, "2.0", 1]):
            self.add("bipartite", "shift", a)
        # complete / empty
        for L in (-1, 0, 1, 2, 3):
            for R in (-1, 0, 1, 2, 3):
                self.add("bipartite", "complete", [L, R])
                self.add("bipartite", "empty", [L, R])
        self.add("bipartite", "complete", [5, 6])
        self.add("bipartite", "empty", [5, 6])
        self.malformed("bipartite", "complete", [2, 3])
        self.malformed("bipartite", "empty", [2, 3])
        for c, a in (("gnm", [3, 3]), ("grid", [2, 2]), ("pyramid", [2])):
            self.add("bipartite", c, a)

    def dags(self):
        for gtype in ("dag", "digraph"):
            for L in list(range(-1, 8)) + [10, 20]:
                self.add(gtype, "path", [L])
            for h in range(-1, 6):
                self.add(gtype, "tree", [h])
            for h in range(-1, 8):
                self.add(gtype, "pyramid", [h])
            for c in ("path", "tree", "pyramid"):
                self.malformed(gtype, c, [2])
            for c, a in (("gnm", [3, 3]), ("glrd", [3, 3, 1]), ("complete", [3])):
                self.add(gtype, c, a)

    def modifiers(self):
        SM = self.SM
        sd = self.seeds(SM)
        sk = self.seeds(max(2, self.SK // 2), ("skew",))
        few = self.seeds(2)
        # (construction, args, number of vertices, number of edges or None when random)
        bases = [("gnm", [6, 7], 6, 7), ("gnm", [5, 0], 5, 0), ("gnm", [5, 10], 5, 10), ("gnm", [5, 8], 5, 8),
                 ("grid", [2, 3], 6, 7), ("complete", [4], 4, 6), ("empty", [5], 5, 0), ("complete", [2, 3], 6, 12),
                 ("gnd", [6, 3], 6, 9), ("torus", [3, 3], 9, 18), ("gnp", [6, ".5"], 6, None), ("gnm", [9, 14], 9, 14)]
        if not self.q:
            bases += [("gnm", [12, 30], 12, 30), ("gnm", [7, 20], 7, 20), ("grid", [3, 4], 12, 17)]
        for c, a, n, m in bases:
            top = n * (n - 1) // 2
            for k in sorted({-1, 0, 1, 2, 3, n - 1, n, n + 1}):
                self.add("simple", c, a, [("plantclique", [k])], seeds=sd if 0 <= k <= n else few)
            if m is not None:
                miss = top - m
                for x in sorted({-1, 0, 1, 2, miss - 1, miss, miss + 1}):
                    self.add("simple", c, a, [("addedges", [x])], seeds=(sd + sk) if 0 <= x <= miss else few)
                for x in sorted({-1, 0, 1, 2, m - 1, m, m + 1}):
                    self.add("simple", c, a, [("splitedges", [x])], seeds=sd if 0 <= x <= m else few)
            else:
                for x in (0, 1, 3):
                    self.add("simple", c, a, [("addedges", [x])], seeds=sd)
                    self.add("simple", c, a, [("splitedges", [x])], seeds=sd)
        # combinations, in several command-line orders, with and without save
        combos = [
            [("plantclique", [3]), ("addedges", [2])],
            [("addedges", [2]), ("plantclique", [3])],
            [("plantclique", [4]), ("splitedges", [2])],
            [("splitedges", [2]), ("addedges", [1])],
            [("addedges", [1]), ("splitedges", [2])],
            [("plantclique", [3]), ("addedges", [2]), ("splitedges", [3])],
            [("splitedges", [1]), ("plantclique", [2]), ("addedges", [3])],
            [("plantclique", [0]), ("addedges", [0]), ("splitedges", [0])],
        ]
        for c, a, n, m in bases[:6] + bases[8:10]:
            for mods in combos:
                self.add("simple", c, a, mods, seeds=sd)
                self.add("simple", c, a, mods, save=("kthlist", "kthlist"), seeds=few)
        # malformed modifiers, repeated modifiers, modifiers of another graph type
        for mods in ([("plantclique", [])], [("plantclique", [1, 2])], [("plantclique", ["x"])],
                     [("plantclique", ["2.0"])], [("plantclique", ["1.5"])], [("addedges", [])],
                     [("addedges", [1, 1])], [("addedges", ["1.5"])], [("addedges", ["nan"])],
                     [("splitedges", [])], [("splitedges", ["x"])], [("splitedges", [1, 1])],
                     [("addedges", [1]), ("addedges", [1])], [("plantclique", [2]), ("plantclique", [2])],
                     [("plantbiclique", [1, 1])], [("foo", [1])], [("gnm", [3, 2])], [("-x", [])]):
            self.add("simple", "gnm", [6, 7], mods, seeds=few)
        # bipartite
        bb = [("glrm", [4, 4, 5], 4, 4, 5), ("glrd", [4, 3, 2], 4, 3, 8), ("regular", [4, 4, 2], 4, 4, 8),
              ("glrp", [3, 4, ".5"], 3, 4, None), ("shift", [3, 4, 0, 1], 3, 4, 6), ("complete", [3, 3], 3, 3, 9),
              ("empty", [3, 4], 3, 4, 0), ("glrm", [3, 3, 5], 3, 3, 5), ("glrm", [5, 5, 8], 5, 5, 8)]
        for c, a, L, R, m in bb:
            for x, y in ((0, 0), (1, 1), (2, 2), (L, R), (L + 1, 1), (1, R + 1), (-1, 1), (2, 0), (0, 2), (L, 1)):
                self.add("bipartite", c, a, [("plantbiclique", [x, y])],
                         seeds=sd if 0 <= x <= L and 0 <= y <= R else few)
            if m is not None:
                miss = L * R - m
                for x in sorted({-1, 0, 1, 2, miss - 1, miss, miss + 1}):
                    self.add("bipartite", c, a, [("addedges", [x])], seeds=(sd + sk) if 0 <= x <= miss else few)
            else:
                for x in (0, 1, 3):
                    self.add("bipartite", c, a, [("addedges", [x])], seeds=sd)
            self.add("bipartite", c, a, [("plantbiclique", [2, 2]), ("addedges", [2])], seeds=sd)
            self.add("bipartite", c, a, [("addedges", [2]), ("plantbiclique", [2, 2])], seeds=sd)
            self.add("bipartite", c, a, [("plantbiclique", [2, 2]), ("addedges", [1])],
                     save=("autodetect", "kthlist"), seeds=few)
        for mods in ([("plantbiclique", [])], [("plantbiclique", [2])], [("plantbiclique", [1, 1, 1])],
                     [("plantbiclique", ["x", 1])], [("plantbiclique", ["1.0", 1])], [("plantbiclique", [1, "1.5"])],
                     [("splitedges", [1])], [("plantclique", [2])], [("addedges", ["x"])],
                     [("addedges", [1]), ("addedges", [1])]):
            self.add("bipartite", "glrd", [4, 3, 2], mods, seeds=few)
        # dags have no modifiers
        for gtype in ("dag", "digraph"):
            for mods in ([("addedges", [1])], [("plantclique", [2])], [("splitedges", [1])]):
                self.add(gtype, "pyramid", [2], mods)

    def saving(self):
        few = self.seeds(3)
        simple = [("gnm", [6, 7]), ("grid", [2, 3]), ("complete", [4]), ("empty", [3]), ("gnm", [9, 14]), ("torus", [3, 3])]
        for c, a in simple:
            for fmt in ("kthlist", "gml", "dimacs", "dot"):
                self.add("simple", c, a, save=(fmt, fmt), seeds=few)
                self.add("simple", c, a, save=("autodetect", fmt), seeds=few[:1])
                self.add("simple", c, a, [("plantclique", [3]), ("addedges", [2])], save=(fmt, "graph"), seeds=few)
                self.add("simple", c, a, [("splitedges", [0])], save=("autodetect", fmt), seeds=few[:1])
        self.add("simple", "gnm", [5, 5], [("splitedges", [2])], save=("kthlist", "txt"), seeds=few)
        for c, a in (("glrm", [4, 4, 5]), ("glrd", [4, 3, 2]), ("regular", [4, 4, 2]), ("shift", [3, 4, 0, 1]),
                     ("complete", [2, 3]), ("empty", [2, 2]), ("glrp", [3, 3, ".5"])):
            for fmt in ("kthlist", "gml", "matrix", "dot"):
                self.add("bipartite", c, a, save=(fmt, fmt), seeds=few)
                self.add("bipartite", c, a, save=("autodetect", fmt), seeds=few[:1])
                self.add("bipartite", c, a, [("plantbiclique", [2, 2]), ("addedges", [1])], save=(fmt, "g"), seeds=few)
        for gtype in ("dag", "digraph"):
            for c, a in (("path", [3]), ("tree", [2]), ("pyramid", [2]), ("pyramid", [0]), ("path", [0])):
                for fmt in ("kthlist", "gml", "dimacs", "dot"):
                    self.add(gtype, c, a, save=(fmt, fmt))
                    self.add(gtype, c, a, save=("autodetect", fmt))
        # formats that do not exist for the type, unknown extensions
        self.add("simple", "gnm", [4, 3], save=("matrix", "matrix"))
        self.add("simple", "gnm", [4, 3], save=("autodetect", "matrix"))
        self.add("simple", "gnm", [4, 3], save=("autodetect", "xyz"))
        self.add("simple", "gnm", [4, 3], save=("autodetect", ""))
        self.add("bipartite", "empty", [2, 2], save=("dimacs", "dimacs"))
        self.add("bipartite", "empty", [2, 2], save=("autodetect", "dimacs"))
        self.add("dag", "path", [2], save=("matrix", "matrix"))
        self.add("dag", "path", [2], save=("autodetect", "png"))

    def cli(self):
        sd = self.seeds(4 if self.q else 20)
        for c, a, mods in (("gnm", [6, 7], []), ("gnm", [6, 7], [("plantclique", [3]), ("addedges", [2])]),
                           ("gnd", [6, 3], []), ("grid", [2, 3], [("splitedges", [2])]), ("complete", [4], []),
                           ("gnm", [4, 7], []), ("gnd", [4, 4], []), ("torus", [3, 3], [("addedges", [3])]),
                           ("gnp", [5, ".5"], []), ("complete", [2, 2], [])):
            self.add("simple", c, a, mods, save=("kthlist", "kthlist"), seeds=sd, kind="cli", fam="matching")
        for c, a, mods in (("glrm", [4, 4, 5], []), ("glrm", [3, 3, 4], []), ("glrm", [3, 3, 10], []),
                           ("glrd", [4, 3, 2], [("addedges", [2])]), ("regular", [4, 4, 2], []),
                           ("regular", [6, 3, 2], [("plantbiclique", [2, 2])]), ("shift", [3, 4, 0, 1], []),
                           ("complete", [2, 3], []), ("empty", [2, 3], [("plantbiclique", [1, 2]), ("addedges", [1])])):
            self.add("bipartite", c, a, mods, save=("matrix", "matrix"), seeds=sd, kind="cli", fam="php")
        for c, a in (("pyramid", [2]), ("pyramid", [3]), ("tree", [2]), ("path", [4]), ("tree", [-1]), ("path", [0])):
            self.add("dag", c, a, save=("kthlist", "kthlist"), kind="cli", fam="peb")

    def libcalls(self):
        sd = self.seeds(3)
        for L in (0, 1, 2, 3):
            for R in (0, 1, 2, 3):
                for d in (0, 1, 2, 3, 4):
                    for c in ("glrd", "regular", "glrm"):
                        # C15 speaks about the command line: library calls are only made with
                        # arguments the command line would let through (bipartite_random_regular
                        # with d > r recurses forever and with r = 0 divides by zero, but the
                        # command line refuses both; noted in DESIGN.md as an observation)
                        if c == "regular" and (R == 0 or d > R):
                            continue
                        self.add("bipartite", c, [L, R, d], seeds=sd[:2], kind="libcall")
        for a in ([2, 3, 0, 1], [3, 3], [0, 3, 1], [3, 3, 3]):
            self.add("bipartite", "shift", a, kind="libcall")
        for h in (-1, 0, 1, 2, 3):
            for c in ("pyramid", "tree", "path"):
                self.add("dag", c, [h], kind="libcall")

    def build(self):
        self.simple()
        self.bipartite()
        self.dags()
        self.modifiers()
        self.saving()
        self.cli()
        self.libcalls()
        return self.jobs


# ---------------------------------------------------------------------------
# naming of findings (the verdict is TLC's)


def _ints(rec):
    try:
        return [t["i"] for t in rec["args"]]
    except KeyError:
        return None


def finding_key(rec, why):
    a = _ints(rec)
    c, g = rec["constr"], rec["gtype"]
    if rec["kind"] == "libcall":
        if c == "regular" and a and why == "internal_failure_RecursionError" and a[2] > a[1]:
            return "graphcmd:lib:regular-d>r-recursion"
        if c == "regular" and a and why == "internal_failure_ZeroDivisionError" and a[1] == 0:
            return "graphcmd:lib:regular-r=0-zerodivision"
        if c == "glrm" and a and why == "internal_failure_TypeError" and a[2] > a[0] * a[1] // 3:
            return "graphcmd:glrm-dense-typeerror"
        return None
    if g == "bipartite" and c == "glrm" and a and len(a) == 3 and why == "internal_failure_TypeError" \
            and a[0] > 0 and a[1] > 0 and a[0] * a[1] // 3 < a[2] <= a[0] * a[1]:
        return "graphcmd:glrm-dense-typeerror"
    if g == "simple" and c == "gnd" and a and len(a) == 2 and why == "internal_failure_NetworkXError" \
            and a[0] > 0 and a[1] == a[0]:
        return "graphcmd:gnd-d>=n"
    if g == "bipartite" and c == "regular" and why in ("regular_wrong_left_degree", "regular_wrong_right_degree"):
        return "graphcmd:regular-missing-edge"
    return None


def weight(rec):
    g = rec.get("graph")
    if not g:
        return 1
    n = g.get("n", g.get("L", 0) + g.get("R", 0))
    return 2 + len(g["edges"]) + 3 * n + 4 * len(rec.get("stages", ()))


def strip(rec):
    """What TLC needs (the job description stays in the replay file only)."""
    return {k: v for k, v in rec.items() if k not in ("job", "msg", "argv", "spec")}


# ---------------------------------------------------------------------------
# binding demonstration (DESIGN 2.9): corrupt one recorded field, the verdict must flip

SELF_SPECS = [
    ("simple", "gnm", ["5", "4"], []), ("simple", "gnd", ["6", "3"], []), ("simple", "gnp", ["4", "1"], []),
    ("simple", "gnp", ["2", "1", "3"], []), ("simple", "grid", ["2", "3"], []), ("simple", "torus", ["3", "3"], []),
    ("simple", "grid", ["3", "4"], []), ("simple", "complete", ["4"], []), ("simple", "complete", ["2", "3"], []),
    ("simple", "empty", ["3"], []),
    ("bipartite", "glrm", ["4", "4", "3"], []), ("bipartite", "glrd", ["3", "4", "2"], []),
    ("bipartite", "regular", ["4", "2", "1"], []), ("bipartite", "glrp", ["3", "3", "1"], []),
    ("bipartite", "shift", ["3", "4", "0", "1"], []), ("bipartite", "complete", ["2", "3"], []),
    ("bipartite", "empty", ["2", "3"], []),
    ("dag", "path", ["4"], []), ("dag", "tree", ["2"], []), ("dag", "pyramid", ["2"], []),
    ("dag", "tree", ["3"], []), ("dag", "pyramid", ["3"], []), ("digraph", "path", ["8"], []),
    ("simple", "gnm", ["6", "7"], [["plantclique", ["4"]]]), ("simple", "gnm", ["6", "7"], [["addedges", ["2"]]]),
    ("simple", "gnm", ["6", "7"], [["splitedges", ["2"]]]),
    ("bipartite", "empty", ["3", "3"], [["plantbiclique", ["2", "2"]]]),
    ("bipartite", "glrd", ["3", "4", "2"], [["addedges", ["2"]]]),
]


def corrupt(rec):
    """Near-miss copies of an accepted record; each must be judged a violation."""
    out = []

    def variant(tag, **changes):
        r = json.loads(json.dumps(strip(rec)))
        r.update(changes)
        r["id"] = "SELF-%s-%s" % (tag, rec["id"])
        out.append(r)

    g = rec["graph"]
    if rec["stages"]:
        before = rec["stages"][-1]["before"]
        if before != g:
            variant("unmodified", graph=before)
        return out
    bigger = dict(g)
    for k in ("n", "L"):
        if k in bigger:
            bigger[k] += 1
    variant("order", graph=bigger)
    fewer = dict(g)
    if g["edges"]:
        fewer["edges"] = g["edges"][1:]
    elif g["kind"] == "bipartite":
        fewer["edges"] = [[1, 1]]
    else:
        fewer["edges"] = [[1, 2]]
    variant("edge", graph=fewer)
    if g["kind"] == "digraph" and g["edges"]:
        rev = dict(g)
        rev["edges"] = sorted([[v, u] for u, v in g["edges"][:1]] + g["edges"][1:])
        variant("downward", graph=rev)
    return out


def self_test(ck):
    jobs = []
    for k, (gtype, constr, args, mods) in enumerate(SELF_SPECS):
        jobs.append({"id": "%s-%s-%s" % (gtype, "_".join([constr] + args), "_".join(m[0] for m in mods)),
                     "kind": "lib", "gtype": gtype, "constr": constr, "args": args, "mods": mods,
                     "seed": ck.seed + 1, "rng": "mt", "n": 900000 + k})
    bad = []
    for j in jobs:
        rec = run_lib(j)
        if rec["outcome"] == "ok":
            bad += corrupt(rec)
    # the saved file: another graph in the file
    j = {"id": "simple-grid_2_3-save", "kind": "lib", "gtype": "simple", "constr": "grid", "args": ["2", "3"],
         "mods": [], "save": ["kthlist", "kthlist"], "seed": 1, "rng": "mt", "n": 900100}
    rec = run_lib(j)
    if rec["outcome"] == "ok" and rec["saved"]["outcome"] == "ok":
        r = json.loads(json.dumps(strip(rec)))
        r["saved"]["graph"]["edges"] = r["saved"]["graph"]["edges"][1:]
        r["id"] = "SELF-saved-" + rec["id"]
        bad.append(r)
    if len(bad) < 30:
        raise tlc.MachineryError("binding demonstration: only %d corrupted records could be built" % len(bad))
    verdicts, st = tlc.judge("JudgeGraphCmd", bad, "JudgeGraphCmd_C15self", cfg="JudgeGraphCmd.cfg", nshards=2)
    blind = sorted(i for i, why in verdicts.items() if why == "ok")
    if blind:
        raise tlc.MachineryError("binding demonstration failed: corrupted records judged ok: %r" % blind[:5])
    ck.cover["binding_demonstration"] = {"corrupted_records": len(bad), "all_judged_violations": True,
                                         "clauses_seen": sorted(set(verdicts.values()))}
    ck.states += st["distinct"]
    ck.transitions += st["generated"]


MC_PARTS_QUICK = ["closed", "image", "cand", "multi", "bip", "mods"]
MC_PARTS_THOROUGH = MC_PARTS_QUICK + ["imagefull", "candfull", "multifull"]


def model_checks(ck):
    parts = MC_PARTS_QUICK if ck.quick else MC_PARTS_THOROUGH

    def one(p):
        return p, tlc.model_check("GraphCmdMC", "GraphCmdMC_%s.cfg" % p, workers=1, heap="3g", timeout=3000)
    ex = cf.ThreadPoolExecutor(max_workers=len(parts))
    return ex, [ex.submit(one, p) for p in parts]


def collect_models(ck, futs):
    for f in futs:
        p, r = f.result()
        ck.states += r["distinct"]
        ck.transitions += r["generated"]
        ck.model_runs.append({"module": "GraphCmdMC", "cfg": "GraphCmdMC_%s.cfg" % p, "distinct": r["distinct"],
                              "generated": r["generated"], "depth": r["depth"], "wall_s": round(r["wall"], 1)})


def main(argv=None):
    global WD
    ck = common.Check("C15", argv)
    common.setup_repo_import()
    WD = tlc.workdir("C15")
    install_observers()

    replay = ck.replay_record()
    if replay is not None:
        rec = run_job(replay["job"])
        full = {rec["id"]: rec}
        verdicts, st = tlc.judge("JudgeGraphCmd", [strip(rec)], "JudgeGraphCmd_C15", cfg="JudgeGraphCmd.cfg")
        ck.traces += 1
        for i, why in verdicts.items():
            print("re-judged %s: %s (outcome now: %s)" % (i, why, rec["outcome"]))
            if why != "ok":
                ck.report(full[i], why, finding_key)
        return ck.finish(rule="replay of one recorded specification")

    ex, futs = model_checks(ck)
    self_test(ck)
    jobs = Grid(ck).build()
    recs = common.pmap(run_job, jobs, chunk=64)
    full = {r["id"]: r for r in recs}

    outcomes, per_constr = {}, {}
    distinct = set()
    for r in recs:
        outcomes[r["outcome"]] = outcomes.get(r["outcome"], 0) + 1
        k = "%s:%s:%s" % (r["kind"], r["gtype"], r["constr"])
        per_constr[k] = per_constr.get(k, 0) + 1
        distinct.add(json.dumps([r["kind"], r["gtype"], r["spec"][:-1] if r.get("save") else r["spec"],
                                 r["outcome"], r.get("graph")], sort_keys=True))
    ck.cover["outcomes"] = outcomes
    ck.cover["records_per_construction"] = per_constr
    ck.cover["records_with_modifiers"] = sum(1 for r in recs if r["given"])
    ck.cover["records_with_save"] = sum(1 for r in recs if r.get("save"))
    ck.cover["records_under_skewed_random_source"] = sum(1 for r in recs if r["rng"] != "mt")
    for r in (recs[0], recs[len(recs) // 3], recs[-1]):
        ck.sample({k: r[k] for k in ("id", "gtype", "spec", "outcome", "seed", "rng") if k in r})

    verdicts, st = tlc.judge("JudgeGraphCmd", [strip(r) for r in recs], "JudgeGraphCmd_C15",
                             cfg="JudgeGraphCmd.cfg", weight=weight)
    ck.states += st["distinct"]
    ck.transitions += st["generated"]
    ck.traces += len(recs)
    ck.evaluations += len(recs)
    ck.model_runs.append({"module": "JudgeGraphCmd", "judged": len(recs), "distinct": st["distinct"],
                          "generated": st["generated"], "wall_s": round(st["wall"], 1)})
    clauses, bykey = {}, {}
    for i, why in verdicts.items():
        if why != "ok":
            clauses[why] = clauses.get(why, 0) + 1
            kf = finding_key(full[i], why)
            if kf:
                full[i]["kf"] = kf
            bykey.setdefault(kf or "(no key) " + why, []).append((i, why))
    # report round-robin over the finding keys, so that the first replay files
    # show every distinct defect and not fifty instances of the most frequent one
    depth = max([len(v) for v in bykey.values()] + [0])
    for k in range(depth):
        for key in sorted(bykey):
            if k < len(bykey[key]):
                i, why = bykey[key][k]
                ck.report(full[i], why, finding_key)
    ck.cover["failing_clauses"] = clauses
    ck.cover["finding_keys"] = {key: len(v) for key, v in bykey.items()}
    for key in sorted(bykey):
        i, why = bykey[key][0]
        print("FINDING-KEY: %s  %d record(s), e.g. %s -> %s" % (key, len(bykey[key]), " ".join(full[i]["spec"][:8]), why))

    collect_models(ck, futs)
    ex.shutdown()
    common_rm(WD)
    ck.assumptions += [
        "a refusal is what the argparse actions of graph_args turn into parser.error (ValueError / FileNotFoundError "
        "out of make_graph_from_spec; CLIError out of cnfgen's cli); everything else that escapes is an internal failure",
        "the graph each modifier received is observed by wrapping graph_args.modify_* in the harness process",
        "p arguments are taken from a menu of multiples of 0.001 (the specification sees them in thousandths)",
        "splitedges: the new vertices are the ones numbered above the old order",
        "named graphs: isomorphism with the reference construction up to 7 vertices, order / size / degree "
        "sequences / layer structure beyond; complete multipartite, path and tree shapes are characterised exactly",
        "skewed random source: random() near 0 or 1 with probability 0.85 (0.7), every value is one the real "
        "generator can return; dot is saved only below 10 vertices (C14 owns the dot renumbering finding)",
    ]
    return ck.finish(rule="one record = one (graph type, construction, arguments, modifiers, save, seed, random source) "
                          "run of the real code; distinct = different (specification, outcome, delivered graph)",
                     distinct_nontrivial=len(distinct))


def common_rm(d):
    import shutil
    shutil.rmtree(d, ignore_errors=True)


if __name__ == "__main__":
    common.main_wrapper(main)
