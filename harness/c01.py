"""C01 - pigeonhole, matching, counting, subset-cardinality, clique-colouring
families encode exactly their principle.

Direction B: the real generators are run on every parameter tuple / graph of
the small scope (and on larger seeded samples with candidate assignments);
JudgeFamilies.tla decides, for all 2^n assignments of the produced formula,
`Sat(a, F) <=> Object(params, valuation induced by a)`.
TLC additionally model-checks the closed-form corollaries of the reference
semantics (FamiliesMC: PHP unsat iff m > n, counting sat iff p | M, ...).
"""
import itertools

from . import common, gen, tlc, cands


def instances(ck):
    import cnfgen
    from cnfgen.formula.opb import OPB
    q = ck.quick
    recs = []
    classes = [("CNF", cnfgen.CNF), ("OPB", OPB)]

    def add(rid, fam, par, fn, graph=None, both=True):
        for cname, cls in classes if both else classes[:1]:
            recs.append(gen.build("%s-%s" % (rid, cname), fam, par, lambda: fn(cls), graph))

    # --- php --------------------------------------------------------------
    mx = 3 if q else 4
    for m in range(mx + 1):
        for n in range(mx + 1):
            if m * n > (9 if q else 16):
                continue
            for fun, onto in itertools.product((False, True), repeat=2):
                add("php-%d-%d-%d%d" % (m, n, fun, onto), "php",
                    {"m": m, "n": n, "fun": fun, "onto": onto},
                    lambda c, m=m, n=n, fun=fun, onto=onto:
                    cnfgen.PigeonholePrinciple(m, n, fun, onto, formula_class=c),
                    both=(m * n <= 9))
    # --- graph php --------------------------------------------------------
    shapes = [(0, 0), (1, 0), (0, 1), (1, 1), (2, 1), (1, 2), (2, 2), (3, 2)]
    if not q:
        shapes += [(2, 3), (3, 3)]
    for L, R in shapes:
        graphs = list(gen.bipartite_graphs(L, R))
        if L * R > 6:
            graphs = ck.rng.sample(graphs, 96)
        for edges in graphs:
            for fun, onto in itertools.product((False, True), repeat=2):
                if q and L * R >= 6 and (fun != onto):
                    continue
                add("gphp-%d-%d-%s-%d%d" % (L, R, gen.gid(edges), fun, onto), "gphp",
                    {"fun": fun, "onto": onto},
                    lambda c, L=L, R=R, edges=edges, fun=fun, onto=onto:
                    cnfgen.GraphPigeonholePrinciple(gen.mk_bipartite(L, R, edges), fun, onto,
                                                    formula_class=c),
                    graph={"L": L, "R": R, "edges": edges}, both=(L * R <= 4))
    # --- binary php -------------------------------------------------------
    for m in range(0, 4 if q else 5):
        for n in range(0, 6 if q else 9):
            if m * max(1, (n - 1).bit_length()) > (9 if q else 15):
                continue
            add("bphp-%d-%d" % (m, n), "bphp", {"m": m, "n": n},
                lambda c, m=m, n=n: cnfgen.BinaryPigeonholePrinciple(m, n, formula_class=c),
                both=(m <= 2))
    # --- relativized php --------------------------------------------------
    rng3 = range(0, 3)
    triples = list(itertools.product(rng3, repeat=3))
    if not q:
        triples += [(3, 2, 2), (2, 3, 2), (2, 2, 3), (3, 3, 2), (1, 3, 3), (3, 1, 3)]
    for m, r, n in triples:
        add("rphp-%d-%d-%d" % (m, r, n), "rphp", {"m": m, "r": r, "n": n},
            lambda c, m=m, r=r, n=n: cnfgen.RelativizedPigeonholePrinciple(m, r, n, formula_class=c),
            both=(m * r + r * n + r <= 8))
    # --- counting ---------------------------------------------------------
    for M in range(0, 6 if q else 7):
        for p in range(1, 4 if q else 5):
            from math import comb
            if comb(M, p) > (10 if q else 20):
                continue
            add("count-%d-%d" % (M, p), "count", {"M": M, "p": p},
                lambda c, M=M, p=p: cnfgen.CountingPrinciple(M, p, formula_class=c))
    # --- perfect matching -------------------------------------------------
    for n in range(0, 5 if q else 6):
        graphs = list(gen.simple_graphs(n))
        if n == 5:
            graphs = ck.rng.sample(graphs, 300)
        for edges in graphs:
            add("matching-%d-%s" % (n, gen.gid(edges)), "matching", None,
                lambda c, n=n, edges=edges:
                cnfgen.PerfectMatchingPrinciple(gen.mk_graph(n, edges), formula_class=c),
                graph={"n": n, "edges": edges}, both=(n <= 3))
    # --- subset cardinality -----------------------------------------------
    shapes = [(0, 0), (1, 1), (2, 1), (1, 2), (2, 2), (2, 3)] + ([] if q else [(3, 2), (3, 3)])
    for L, R in shapes:
        graphs = list(gen.bipartite_graphs(L, R))
        if L * R > 6:
            graphs = ck.rng.sample(graphs, 128)
        for edges in graphs:
            for eq in (False, True):
                add("subsetcard-%d-%d-%s-%d" % (L, R, gen.gid(edges), eq), "subsetcard", {"eq": eq},
                    lambda c, L=L, R=R, edges=edges, eq=eq:
                    cnfgen.SubsetCardinalityFormula(gen.mk_bipartite(L, R, edges), eq, formula_class=c),
                    graph={"L": L, "R": R, "edges": edges}, both=(L * R <= 4))
    # --- clique colouring -------------------------------------------------
    for n, k, c_ in itertools.product(range(0, 4), range(0, 3), range(0, 3)):
        nv = n * (n - 1) // 2 + k * n + n * c_
        if nv > (12 if q else 15):
            continue
        add("cliquecol-%d-%d-%d" % (n, k, c_), "cliquecol", {"n": n, "k": k, "c": c_},
            lambda c, n=n, k=k, c_=c_: cnfgen.CliqueColoring(n, k, c_, formula_class=c),
            both=(nv <= 9))
    if not q:
        recs.append(gen.build("cliquecol-3-3-2-CNF", "cliquecol", {"n": 3, "k": 3, "c": 2},
                              lambda: cnfgen.CliqueColoring(3, 3, 2)))
    return recs


def large_instances(ck):
    """Larger, seeded instances judged on candidate assignments (proposed by
    local search on the implementation's formula and by perturbing them):
    TLC evaluates both sides on each candidate."""
    import cnfgen
    rng = ck.rng
    recs = []
    n_each = 2 if ck.quick else 12

    def add(rid, fam, par, fn, graph=None):
        rec = gen.build(rid, fam, par, fn, graph)
        if rec["outcome"] == "ok":
            rec["cand"] = cands.propose(rec, rng, 24 if ck.quick else 64)
        recs.append(rec)

    for t in range(n_each):
        m = rng.randint(5, 12)
        n = rng.randint(max(2, m - 2), m + 3)
        fun, onto = rng.random() < .5, rng.random() < .5
        add("L-php-%d-%d-%d%d-%d" % (m, n, fun, onto, t), "php",
            {"m": m, "n": n, "fun": fun, "onto": onto},
            lambda: cnfgen.PigeonholePrinciple(m, n, fun, onto))
        L, R = rng.randint(4, 11), rng.randint(4, 11)
        edges = [[u, v] for u in range(1, L + 1) for v in range(1, R + 1) if rng.random() < .45]
        add("L-gphp-%d" % t, "gphp", {"fun": fun, "onto": onto},
            lambda: cnfgen.GraphPigeonholePrinciple(gen.mk_bipartite(L, R, edges), fun, onto),
            graph={"L": L, "R": R, "edges": edges})
        add("L-subsetcard-%d" % t, "subsetcard", {"eq": fun},
            lambda: cnfgen.SubsetCardinalityFormula(gen.mk_bipartite(L, R, edges), fun),
            graph={"L": L, "R": R, "edges": edges})
        bm, bn = rng.randint(3, 9), rng.randint(5, 18)
        add("L-bphp-%d-%d-%d" % (bm, bn, t), "bphp", {"m": bm, "n": bn},
            lambda: cnfgen.BinaryPigeonholePrinciple(bm, bn))
        a, b, c = rng.randint(2, 6), rng.randint(3, 8), rng.randint(3, 8)
        add("L-rphp-%d-%d-%d-%d" % (a, b, c, t), "rphp", {"m": a, "r": b, "n": c},
            lambda: cnfgen.RelativizedPigeonholePrinciple(a, b, c))
        M, p = rng.randint(6, 11), rng.randint(2, 3)
        add("L-count-%d-%d-%d" % (M, p, t), "count", {"M": M, "p": p},
            lambda: cnfgen.CountingPrinciple(M, p))
        gn = rng.randint(6, 12)
        ge = [[u, v] for u in range(1, gn + 1) for v in range(u + 1, gn + 1) if rng.random() < .4]
        add("L-matching-%d" % t, "matching", None,
            lambda: cnfgen.PerfectMatchingPrinciple(gen.mk_graph(gn, ge)),
            graph={"n": gn, "edges": ge})
        cn, ckk, cc = rng.randint(4, 7), rng.randint(2, 4), rng.randint(2, 4)
        add("L-cliquecol-%d-%d-%d-%d" % (cn, ckk, cc, t), "cliquecol", {"n": cn, "k": ckk, "c": cc},
            lambda: cnfgen.CliqueColoring(cn, ckk, cc))
    return recs



def demo_mutants(recs, verdicts):
    """Corrupted copies of records judged ok (flip a literal, drop a clause, shift the declared count)."""
    import copy
    out = []
    seen = set()
    for r in recs:
        if verdicts.get(r["id"]) != "ok" or r.get("cls") != "CNF" or r["outcome"] != "ok" or "cand" in r:
            continue
        if r["fam"] in seen or len(r.get("clauses", [])) < 2 or not r["clauses"][0] or r["nvars"] > 10:
            continue
        seen.add(r["fam"])
        a = copy.deepcopy(r)
        a["clauses"][0][0] = -a["clauses"][0][0]
        out.append(("%s:flip_literal" % r["fam"], a))
        b = copy.deepcopy(r)
        b["clauses"] = b["clauses"][1:]
        out.append(("%s:drop_clause" % r["fam"], b))
        if len(seen) >= 6:
            break
    return out


def main(argv=None):
    ck = common.Check("C01", argv)
    common.setup_repo_import()
    gen.warm_process()
    gen.scramble_insertions(ck.rng)     # graphs are built by inserting edges in random order
    ck.model("FamiliesMC", "FamiliesMC_C01.cfg")
    recs = instances(ck)
    big = large_instances(ck)
    for r in recs[:2] + big[:1]:
        ck.sample({k: r[k] for k in ("id", "fam", "par", "nvars", "outcome")})
    ck.count("small_scope_instances", len(recs))
    ck.count("large_scope_instances", len(big))
    ck.count("assignments_evaluated",
             sum(2 ** r["nvars"] for r in recs) + sum(len(r.get("cand", [])) for r in big))
    verdicts = ck.judge("JudgeFamilies", recs + big, cfg="Judge.cfg", weight=gen.weight)
    ck.binding_demo("JudgeFamilies", demo_mutants(recs, verdicts or {}), cfg="Judge.cfg")
    ck.assumptions += [
        "identifiers are bound to named variables through the digits of their labels; "
        "groups are numbered by first appearance",
        "scope: small parameter tuples / all small graphs exhaustively over all 2^n assignments; "
        "larger seeded instances only on proposed candidate assignments",
    ]
    return ck.finish(rule="one instance = one (family, parameters, graph, formula class); every "
                          "instance is distinct by construction; non-trivial = generator returned a formula "
                          "whose all assignments (or all candidates) were evaluated on both sides by TLC")


if __name__ == "__main__":
    common.main_wrapper(main)
