"""C02 - graph-problem families are satisfiable exactly when the graph has the
property (and have one model per witness where the variables are the witness).

Direction B, same machinery as C01: JudgeFamilies.tla decides
`Sat(a,F) <=> Object(graph, params, valuation(a))` for all assignments (pointwise
families), `projections of the models = witnesses` (dominating set) or
`satisfiable <=> a witness exists` (Ramsey witness).  FamiliesMC checks the
closed forms (Tseitin count = 2^(|E|-|V|+c) or 0, ...) of the reference
semantics on all graphs with <= 4 vertices.
"""
import itertools

from . import common, gen, cands


def small_graphs(ck, nmax, sample5=None):
    out = []
    for n in range(nmax + 1):
        gs = list(gen.simple_graphs(n))
        if n >= 5 and sample5:
            gs = ck.rng.sample(gs, sample5)
        out += [(n, e) for e in gs]
    return out


def instances(ck):
    import cnfgen
    from cnfgen.formula.opb import OPB
    from cnfgen.families.subgraph import RamseyWitnessFormula
    q = ck.quick
    rng = ck.rng
    recs = []

    def add(rid, fam, par, fn, graph, graph2=None, cls=None, kf=None):
        extra = {}
        if graph2 is not None:
            extra["graph2"] = graph2
        if kf:
            extra["kf"] = kf
        c = cls or cnfgen.CNF
        recs.append(gen.build(rid + ("-OPB" if cls is OPB else ""), fam, par, lambda: fn(c), graph, extra))

    def G(n, e):
        return gen.mk_graph(n, e)

    def gj(n, e):
        return {"n": n, "edges": e}

    g4 = small_graphs(ck, 4)
    g3 = small_graphs(ck, 3)
    g5 = small_graphs(ck, 5, 120 if q else 500)

    # --- Tseitin ----------------------------------------------------------
    for n, e in (g4 if not q else g3 + rng.sample([g for g in g4 if g[0] == 4], 24)):
        vecs = [list(v) for v in itertools.product((False, True), repeat=n)]
        if q and n == 4:
            vecs = rng.sample(vecs, 5)
        charges = [("none", [])] + [("list", v) for v in vecs]
        if n >= 1:
            charges += [("list", vecs[-1][:n - 1]), ("list", vecs[-1] + [True, True])]
        for j, (mode, ch) in enumerate(charges):
            # a charge is whatever is true: booleans, 0/1, and other numbers (documented: cast with bool())
            arg = None if mode == "none" else [bool(x) for x in ch] if j % 3 == 0 else \
                [int(x) for x in ch] if j % 3 == 1 else [(3 if k % 2 else 2) if x else 0 for k, x in enumerate(ch)]
            for cls in ((None, OPB) if len(e) <= 3 else (None,)):
                add("tseitin-%d-%s-%d" % (n, gen.gid(e), j), "tseitin",
                    {"chmode": mode, "ch": ch},
                    lambda c, n=n, e=e, arg=arg: cnfgen.TseitinFormula(G(n, e), arg, formula_class=c),
                    gj(n, e), cls=cls)
    # --- colouring --------------------------------------------------------
    for n, e in g4:
        for k in range(0, 4):
            if n * k > (8 if q else 12):
                continue
            for fun in (True, False):
                add("kcolor-%d-%s-%d-%d" % (n, gen.gid(e), k, fun), "kcolor", {"k": k, "fun": fun},
                    lambda c, n=n, e=e, k=k, fun=fun: cnfgen.GraphColoringFormula(G(n, e), k, fun, formula_class=c),
                    gj(n, e), cls=(OPB if n * k <= 4 and fun else None))
    # --- even colouring ---------------------------------------------------
    for n, e in g4 + ([g for g in g5 if g[0] == 5]):
        add("evencol-%d-%s" % (n, gen.gid(e)), "evencol", None,
            lambda c, n=n, e=e: cnfgen.EvenColoringFormula(G(n, e), formula_class=c), gj(n, e))
    # --- dominating set, tiling -------------------------------------------
    for n, e in g4:
        for d in (1, 2, 3):
            if n + n * d > (9 if q else 12):
                continue
            for alt in (False, True):
                add("domset-%d-%s-%d-%d" % (n, gen.gid(e), d, alt), "domset", {"d": d, "alt": alt},
                    lambda c, n=n, e=e, d=d, alt=alt: cnfgen.DominatingSet(G(n, e), d, alt, formula_class=c),
                    gj(n, e))
    for n, e in g4 + [g for g in g5 if g[0] == 5]:
        add("tiling-%d-%s" % (n, gen.gid(e)), "tiling", None,
            lambda c, n=n, e=e: cnfgen.Tiling(G(n, e), formula_class=c), gj(n, e),
            cls=(OPB if n <= 3 else None))
    # --- isomorphism / automorphism ---------------------------------------
    pairs = [(a, b) for a in g3 for b in g3]
    if not q:
        g44 = [g for g in g4 if g[0] == 4]
        pairs += [(rng.choice(g44), rng.choice(g44)) for _ in range(40)]
        pairs += [(a, b) for a in rng.sample(g44, 6) for b in rng.sample(g3, 6)]
    pairs = [p for k, p in enumerate(pairs) if p not in pairs[:k]]
    for (n1, e1), (n2, e2) in pairs:
        add("iso-%d-%s--%d-%s" % (n1, gen.gid(e1), n2, gen.gid(e2)), "iso", None,
            lambda c, n1=n1, e1=e1, n2=n2, e2=e2: cnfgen.GraphIsomorphism(G(n1, e1), G(n2, e2), formula_class=c),
            gj(n1, e1), gj(n2, e2))
    for n, e in (g3 if q else g4):
        add("auto-%d-%s" % (n, gen.gid(e)), "auto", None,
            lambda c, n=n, e=e: cnfgen.GraphAutomorphism(G(n, e), formula_class=c), gj(n, e))
    # --- subgraph ---------------------------------------------------------
    combos = [(g, h, ind, sb) for g in g4 for h in g3 for ind in (False, True) for sb in (False, True)
              if g[0] * h[0] <= 12]
    if q:
        combos = rng.sample(combos, 500)
    elif len(combos) > 2500:
        combos = rng.sample(combos, 2500)
    for (n, e), (hn, he), ind, sb in combos:
        add("subgraph-%d-%s--%d-%s-%d%d" % (n, gen.gid(e), hn, gen.gid(he), ind, sb), "subgraph",
            {"induced": ind, "sb": sb},
            lambda c, n=n, e=e, hn=hn, he=he, ind=ind, sb=sb:
            cnfgen.SubgraphFormula(G(n, e), G(hn, he), ind, sb, formula_class=c),
            gj(n, e), gj(hn, he))
    # --- k-clique (unary, binary), Ramsey witness -------------------------
    for n, e in g4:
        for k in range(0, 4):
            if n * k > (9 if q else 12):
                continue
            for sb in (True, False):
                add("kclique-%d-%s-%d-%d" % (n, gen.gid(e), k, sb), "kclique", {"k": k, "sb": sb},
                    lambda c, n=n, e=e, k=k, sb=sb: cnfgen.CliqueFormula(G(n, e), k, sb, formula_class=c),
                    gj(n, e))
    for n, e in g4 + [g for g in g5 if g[0] == 5][: (40 if q else 300)]:
        for k in range(0, 4):
            bits = max(0, (n - 1).bit_length())
            if k * bits > (9 if q else 12):
                continue
            for sb in (True, False):
                add("binclique-%d-%s-%d-%d" % (n, gen.gid(e), k, sb), "binclique", {"k": k, "sb": sb},
                    lambda c, n=n, e=e, k=k, sb=sb: cnfgen.BinaryCliqueFormula(G(n, e), k, sb, formula_class=c),
                    gj(n, e))
    for n, e in (g3 + rng.sample([g for g in g4 if g[0] == 4], 20) if q else g4):
        for k, s_ in itertools.product(range(0, 4), repeat=2):
            if 1 + n * k > (10 if q else 13):
                continue
            for sb in (True, False):
                add("ramlb-%d-%s-%d-%d-%d" % (n, gen.gid(e), k, s_, sb), "ramlb", {"k": k, "s": s_, "sb": sb},
                    lambda c, n=n, e=e, k=k, s_=s_, sb=sb: RamseyWitnessFormula(G(n, e), k, s_, sb, formula_class=c),
                    gj(n, e), kf=("ramlb:k!=s" if k != s_ else None))
    # the same graph object used again after it has grown: nothing may be remembered about it
    import cnfgen as _c
    grown = []
    for t in range(12 if q else 60):
        n = rng.randint(2, 4)
        pairs = [[u, v] for u in range(1, n + 1) for v in range(u + 1, n + 1)]
        rng.shuffle(pairs)
        Gobj = gen.mk_graph(n, [])
        have = []
        for e in pairs[: rng.randint(1, len(pairs))]:
            for fam, par, fn in (("domset", {"d": 2, "alt": False}, lambda c, G=Gobj: _c.DominatingSet(G, 2, False, formula_class=c)),
                                 ("domset", {"d": 1, "alt": True}, lambda c, G=Gobj: _c.DominatingSet(G, 1, True, formula_class=c)),
                                 ("tiling", None, lambda c, G=Gobj: _c.Tiling(G, formula_class=c)),
                                 ("kcolor", {"k": 2, "fun": True}, lambda c, G=Gobj: _c.GraphColoringFormula(G, 2, True, formula_class=c)),
                                 ("tseitin", {"chmode": "none", "ch": []}, lambda c, G=Gobj: _c.TseitinFormula(G, None, formula_class=c)),
                                 ("kclique", {"k": 2, "sb": True}, lambda c, G=Gobj: _c.CliqueFormula(G, 2, True, formula_class=c)),
                                 ("evencol", None, lambda c, G=Gobj: _c.EvenColoringFormula(G, formula_class=c))):
                if fam == "domset" and n + n * par["d"] > 12:
                    continue
                grown.append(gen.build("grown-%d-%d-%s-%s" % (t, len(have), fam, "a" if par and par.get("alt") else "n"),
                                       fam, par, lambda fn=fn: fn(_c.CNF), {"n": n, "edges": sorted(have)}))
            Gobj.add_edge(*e)
            have.append(sorted(e))
    recs += grown
    return recs


def large_instances(ck):
    import cnfgen
    rng = ck.rng
    recs = []
    n_each = 2 if ck.quick else 10

    def rgraph(lo, hi, p):
        n = rng.randint(lo, hi)
        e = [[u, v] for u in range(1, n + 1) for v in range(u + 1, n + 1) if rng.random() < p]
        return n, e

    def add(rid, fam, par, fn, graph, graph2=None):
        extra = {"graph2": graph2} if graph2 is not None else None
        rec = gen.build(rid, fam, par, fn, graph, extra)
        if rec["outcome"] == "ok":
            rec["cand"] = cands.propose(rec, rng, 24 if ck.quick else 48)
        recs.append(rec)

    for t in range(n_each):
        n, e = rgraph(8, 14, .35)
        ch = [rng.random() < .5 for _ in range(n)]
        add("L-tseitin-%d" % t, "tseitin", {"chmode": "list", "ch": ch},
            lambda: cnfgen.TseitinFormula(gen.mk_graph(n, e), ch), {"n": n, "edges": e})
        k = rng.randint(2, 4)
        fun = rng.random() < .5
        add("L-kcolor-%d" % t, "kcolor", {"k": k, "fun": fun},
            lambda: cnfgen.GraphColoringFormula(gen.mk_graph(n, e), k, fun), {"n": n, "edges": e})
        d = rng.randint(2, 4)
        alt = rng.random() < .5
        n2, e2 = rgraph(6, 10, .4)
        add("L-domset-%d" % t, "domset", {"d": d, "alt": alt},
            lambda: cnfgen.DominatingSet(gen.mk_graph(n2, e2), d, alt), {"n": n2, "edges": e2})
        add("L-tiling-%d" % t, "tiling", None,
            lambda: cnfgen.Tiling(gen.mk_graph(n, e)), {"n": n, "edges": e})
        kk = rng.randint(3, 4)
        sb = rng.random() < .5
        add("L-kclique-%d" % t, "kclique", {"k": kk, "sb": sb},
            lambda: cnfgen.CliqueFormula(gen.mk_graph(n, e), kk, sb), {"n": n, "edges": e})
        add("L-binclique-%d" % t, "binclique", {"k": kk, "sb": sb},
            lambda: cnfgen.BinaryCliqueFormula(gen.mk_graph(n, e), kk, sb), {"n": n, "edges": e})
        n3, e3 = rgraph(5, 7, .5)
        perm = list(range(1, n3 + 1))
        rng.shuffle(perm)
        e4 = sorted(sorted([perm[u - 1], perm[v - 1]]) for u, v in e3)
        if rng.random() < .3 and e4:
            e4 = e4[1:]
        add("L-iso-%d" % t, "iso", None,
            lambda: cnfgen.GraphIsomorphism(gen.mk_graph(n3, e3), gen.mk_graph(n3, e4)),
            {"n": n3, "edges": e3}, {"n": n3, "edges": e4})
        hn, he = rgraph(3, 4, .6)
        ind = rng.random() < .5
        add("L-subgraph-%d" % t, "subgraph", {"induced": ind, "sb": False},
            lambda: cnfgen.SubgraphFormula(gen.mk_graph(n2, e2), gen.mk_graph(hn, he), ind, False),
            {"n": n2, "edges": e2}, {"n": hn, "edges": he})
    return recs


def keyf(rec, why):
    # the recorded finding is about satisfiability for k != s only; any other
    # failing clause on the same input is a different violation
    if rec.get("kf") == "ramlb:k!=s" and why in ("unsatisfiable_but_witness_exists",
                                                   "satisfiable_without_witness"):
        return rec["kf"]
    return None



def demo_mutants(recs, verdicts):
    """Corrupted copies of records judged ok (flip a literal, drop a clause, shift the declared count)."""
    import copy
    out = []
    seen = set()
    for r in recs:
        if verdicts.get(r["id"]) != "ok" or r.get("cls") != "CNF" or r["outcome"] != "ok" or "cand" in r:
            continue
        if r["fam"] in ("domset", "ramlb") or r["fam"] in seen or len(r.get("clauses", [])) < 2 or not r["clauses"][0] or r["nvars"] > 10:
            continue
        seen.add(r["fam"])
        a = copy.deepcopy(r)
        a["clauses"][0][0] = -a["clauses"][0][0]
        out.append(("%s:flip_literal" % r["fam"], a))
        b = copy.deepcopy(r)
        b["clauses"] = b["clauses"][1:]
        out.append(("%s:drop_clause" % r["fam"], b))
        if len(seen) >= 6:
            break
    return out


def main(argv=None):
    ck = common.Check("C02", argv)
    common.setup_repo_import()
    gen.warm_process()
    gen.scramble_insertions(ck.rng)     # graphs are built by inserting edges in random order
    ck.model("FamiliesMC", "FamiliesMC_C02.cfg")
    recs = instances(ck)
    big = large_instances(ck)
    for r in recs[:2] + big[:1]:
        ck.sample({k: r[k] for k in ("id", "fam", "par", "nvars", "outcome") if k in r})
    fams = {}
    for r in recs + big:
        fams[r["fam"]] = fams.get(r["fam"], 0) + 1
    ck.cover["instances_per_family"] = fams
    ck.count("assignments_evaluated",
             sum(2 ** r["nvars"] for r in recs) + sum(len(r.get("cand", [])) for r in big))
    verdicts = ck.judge("JudgeFamilies", recs + big, cfg="Judge.cfg", weight=gen.weight, keyf=keyf)
    ck.binding_demo("JudgeFamilies", demo_mutants(recs, verdicts or {}), cfg="Judge.cfg")
    ck.assumptions += [
        "identifiers are bound to named variables through the formula's variable groups (their own index enumeration)",
        "scope: all labelled graphs with <= 4 vertices (5 sampled), all parameters in the stated ranges, all 2^n assignments; "
        "larger seeded instances on candidate assignments only",
    ]
    return ck.finish(rule="one instance = one (family, graph(s), parameters, formula class); distinct by construction; "
                          "non-trivial = the generator returned a formula (or a refusal) that TLC judged against the reference semantics")


if __name__ == "__main__":
    common.main_wrapper(main)
