"""Child-process bootstrap for C07: wraps the random module so that seeding and
draws are logged (order only), then runs a tool's main() or a library probe."""
import atexit
import json
import os
import random
import sys

LOG = {"seed_calls": 0, "seed_args": [], "draws_before_seed": 0, "draws_after_seed": 0}


def _install():
    inst = random._inst
    orig_seed = inst.seed
    orig_random = inst.random
    orig_bits = inst.getrandbits

    def seed(a=None, *k, **kw):
        LOG["seed_calls"] += 1
        LOG["seed_args"].append(repr(a)[:40])
        return orig_seed(a, *k, **kw)

    def note():
        LOG["draws_after_seed" if LOG["seed_calls"] else "draws_before_seed"] += 1

    def rnd():
        note()
        return orig_random()

    def bits(k):
        note()
        return orig_bits(k)
    inst.seed = seed
    inst.random = rnd
    inst.getrandbits = bits
    random.seed = seed
    random.random = rnd
    random.getrandbits = bits

    def dump():
        path = os.environ.get("C07_TRACE")
        if path:
            with open(path, "w") as f:
                json.dump(LOG, f)
    atexit.register(dump)


def run_tool(module, argv):
    _install()
    sys.argv = list(argv)
    import importlib
    importlib.import_module(module)
    sys.modules[module].main()


def run_lib(name, seed):
    """Library generators called with a seed argument: print a canonical projection."""
    import cnfgen
    from cnfgen.graphs import (bipartite_random_left_regular, bipartite_random_regular, bipartite_random_m_edges,
                               bipartite_random, Graph, split_random_edges, add_random_missing_edges)
    _install()

    def cycle():
        G = Graph(6)
        for e in [(1, 2), (2, 3), (3, 4), (4, 5), (5, 6), (1, 6)]:
            G.add_edge(*e)
        return G

    def inplace(fn, k):
        G = cycle()
        H = fn(G, k, seed=seed)
        H = G if H is None else H
        return [H.number_of_vertices()] + sorted(H.edges())
    def nxtext(directed):
        import io
        import networkx
        if directed:
            X = networkx.DiGraph([(1, 3), (2, 3), (3, 4)])
            F = cnfgen.PebblingFormula(X)
        else:
            X = networkx.gnp_random_graph(6, .5, seed=int(seed) % 1000)
            F = cnfgen.GraphColoringFormula(X, 3)
        buf = io.StringIO()
        F.to_file(buf, export_header=True, export_varnames=True)
        return buf.getvalue().split("\n")

    gens = {
        "RandomKCNF": lambda: list(cnfgen.RandomKCNF(3, 8, 12, seed=seed).clauses()),
        "RandomKXOR": lambda: list(cnfgen.RandomKXOR(3, 8, 5, seed=seed).clauses()),
        "RandomKCNF_planted": lambda: list(cnfgen.RandomKCNF(3, 8, 12, seed=seed, planted_assignments=[[1, -2, 3, 4, -5, 6, 7, -8]]).clauses()),
        "RandomKCNF_dense": lambda: list(cnfgen.RandomKCNF(2, 60, 7080, seed=seed).clauses()),
        "RandomKCNF_dense_b": lambda: list(cnfgen.RandomKCNF(2, 60, 7079, seed=seed).clauses()),
        "RandomKXOR_dense": lambda: list(cnfgen.RandomKXOR(2, 60, 3540, seed=seed).clauses()),
        "left_regular": lambda: sorted(bipartite_random_left_regular(5, 6, 3, seed=seed).edges()),
        "regular": lambda: sorted(bipartite_random_regular(6, 4, 2, seed=seed).edges()),
        "m_edges_sparse": lambda: sorted(bipartite_random_m_edges(5, 5, 4, seed=seed).edges()),
        "m_edges_dense": lambda: sorted(bipartite_random_m_edges(4, 4, 12, seed=seed).edges()),
        "bipartite_random": lambda: sorted(bipartite_random(5, 5, 0.5, seed=seed).edges()),
        "split_random_edges": lambda: inplace(split_random_edges, 3),
        # formulas built from unnamed networkx graphs: header, names and clauses as written to a file
        "networkx_input": lambda: nxtext(False),
        "networkx_digraph_input": lambda: nxtext(True),
        "add_random_missing_edges": lambda: inplace(add_random_missing_edges, 4),
    }
    a = gens[name]()
    b = gens[name]()
    norm = lambda v: [list(x) if isinstance(x, (list, tuple)) else x for x in v]
    print(json.dumps({"first": norm(a), "second": norm(b)}))
