"""C13 - random k-CNF and k-XOR formulas have exactly the promised shape.

TLC model-checks the design (Sampler.tla: sparse rejection sampling bounded by
TriesFactor*m tries, then the dense fallback) against the result predicate and
the outcome rule  ValueError <=> k > n \\/ m > |All|, and proves termination.

Direction B: the real RandomKCNF / RandomKXOR (library, seeded, with planted
assignments) and `cnfgen randkcnf|randkxor [-p]` (in-process and as processes)
are run on all (k, n, m) of the small scope incl. m = 0, the exact maximum
|All| and |All| + 1, many seeds each, plus larger seeded instances; every
answer is judged by TLC (JudgeSampler.tla).

Direction A (steering only): behaviours of Sampler.tla exported by TLC
(`-simulate`, draws confined to <= 2 items so that duplicates / unplanted draws
exhaust the tries) are fed to the real code through a scripted `random`
object; the answer is again judged by TLC on shape and outcome only.  Whether
the run also reproduced the machine's decisions is counted as information
(`scripted_followed_machine`), never as a verdict: the property does not
prescribe the sampling procedure.
"""
import concurrent.futures as cf
import itertools
import json
import os
import random as pyrandom
import subprocess
import sys
from math import comb

from . import common, tlc
from .exc import exc_name

KINDS = ("kcnf", "kxor")


# ---------------------------------------------------------------------------
# driving the implementation, projecting its answers

def to_literals(bits):
    """Planted assignment as the library wants it: a sequence of literals."""
    return [v if b else -v for v, b in enumerate(bits, start=1)]


def record(rid, kind, src, k, n, m, planted, hidden, kf):
    return {"id": rid, "kind": kind, "src": src, "k": k, "n": n, "m": m,
            "planted": [list(map(bool, a)) for a in planted], "hidden": bool(hidden),
            "outcome": "ok", "nvars": 0, "clauses": [], "kf": kf}


def finding_key(kind, src, k, n, m, planted, hidden):
    """Stable key of the class of inputs a failing record belongs to."""
    if k > n:
        cls = "k>n"
    elif k == 0:
        cls = "k=0"
    elif m == 0:
        cls = "m=0"
    else:
        cls = "k>=1"
    pl = "hidden" if hidden else "planted%d" % len(planted)
    return "sampler:%s:%s:%s:%s" % (kind, src, cls, pl)


def answer_formula(rec, thunk):
    try:
        F = thunk()
    except Exception as e:          # judged by the specification
        rec["outcome"] = exc_name(e)
        rec["msg"] = str(e)[:160]
        return rec
    rec["nvars"] = int(F.number_of_variables())
    rec["clauses"] = [[int(l) for l in c] for c in F.clauses()]
    return rec


def parse_dimacs(text):
    """Dumb DIMACS lexer: (declared variables, clauses)."""
    nv, clauses, cur = 0, [], []
    for line in text.splitlines():
        s = line.strip()
        if not s or s[0] == "c":
            continue
        if s[0] == "p":
            nv = int(s.split()[2])
            continue
        for tok in s.split():
            x = int(tok)
            if x == 0:
                clauses.append(cur)
                cur = []
            else:
                cur.append(x)
    if cur:
        raise tlc.MachineryError("unterminated clause in DIMACS output")
    return nv, clauses


def generator(kind):
    import cnfgen
    return cnfgen.RandomKCNF if kind == "kcnf" else cnfgen.RandomKXOR


PLANTED_REPS = ("list", "tuple", "set", "dict_keys", "iterator", "generator", "reversed", "shuffled", "shuffled_tuples")


def represent(pa, rep):
    """The planted assignments in one of the shapes the documentation allows
    (`iterable(lists)`, each assignment a sequence of literals)."""
    if rep == "list":
        return pa
    if rep == "tuple":
        return tuple(tuple(a) for a in pa)
    if rep == "set":
        return {tuple(a) for a in pa}
    if rep == "dict_keys":
        return {tuple(a): None for a in pa}.keys()
    if rep == "iterator":
        return iter(pa)
    if rep == "generator":
        return (a for a in pa)
    if rep == "reversed":               # an assignment is a sequence of literals: their order is not data
        return [list(a)[::-1] for a in pa]
    if rep in ("shuffled", "shuffled_tuples"):
        out = []
        for a in pa:
            b = list(a)
            pyrandom.Random(len(b) * 31 + sum(b)).shuffle(b)
            out.append(tuple(b) if rep == "shuffled_tuples" else b)
        return out
    raise tlc.MachineryError("unknown representation %r" % rep)


SEED_FORMS = {"int": lambda s: s, "zero": lambda s: 0, "negative": lambda s: -s, "huge": lambda s: s << 40,
              "str": lambda s: "seed%d" % s, "float": lambda s: s / 7.0, "bytes": lambda s: b"%d" % s,
              "bool": lambda s: True}
# Seeds of types random.seed() itself refuses on Python >= 3.11 (tuple, frozenset) are not
# exercised: the property quantifies over "all seeds" of the random module, and the docstring's
# "hashable object" predates that change (observation recorded in DESIGN.md, not a finding).


def run_lib(rid, kind, k, n, m, planted, seed, rep="list", seedform="int"):
    kf = finding_key(kind, "lib", k, n, m, planted, False)
    if rep in ("iterator", "generator"):
        kf = "sampler:planted:one-shot-iterable"
    if seedform in ("tuple", "frozenset"):
        kf = "sampler:seed:hashable-non-scalar"
    rec = record(rid, kind, "lib", k, n, m, planted, False, kf)
    rec["seed"], rec["rep"], rec["seedform"] = seed, rep, seedform
    kw = {"seed": SEED_FORMS[seedform](seed)}
    if planted or rep != "list":
        kw["planted_assignments"] = represent([to_literals(a) for a in planted], rep)
    return answer_formula(rec, lambda: generator(kind)(k, n, m, **kw))


def cli_argv(kind, k, n, m, plant, seed):
    argv = ["cnfgen", "-q"]
    if seed is not None:
        argv += ["--seed", str(seed)]
    argv += ["rand" + kind]
    if plant:
        argv += ["-p"]
    return argv + [str(k), str(n), str(m)]


def run_cli(rid, kind, k, n, m, plant, seed):
    """In-process command line, DIMACS text parsed back."""
    from cnfgen.clitools.cnfgen import cli
    rec = record(rid, kind, "cli", k, n, m, [], plant,
                 finding_key(kind, "cli", k, n, m, [], plant))
    rec["argv"] = cli_argv(kind, k, n, m, plant, seed)
    try:
        text = cli(rec["argv"], mode="string")
    except SystemExit as e:
        rec["outcome"] = "SystemExit"
        rec["msg"] = str(e)[:160]
        return rec
    except Exception as e:
        rec["outcome"] = exc_name(e)
        rec["msg"] = str(e)[:160].replace("\n", " ")
        return rec
    rec["nvars"], rec["clauses"] = parse_dimacs(text)
    return rec


def run_proc(rid, kind, k, n, m, plant, seed):
    """The command line as a real process."""
    rec = record(rid, kind, "cli", k, n, m, [], plant,
                 finding_key(kind, "cli", k, n, m, [], plant))
    rec["argv"] = cli_argv(kind, k, n, m, plant, seed)
    env = dict(os.environ, PYTHONPATH=common.REPO, PYTHONWARNINGS="ignore")
    p = subprocess.run([sys.executable, "-m", "cnfgen.clitools.cnfgen"] + rec["argv"][1:],
                       cwd=common.REPO, env=env, stdout=subprocess.PIPE, stderr=subprocess.PIPE,
                       text=True, timeout=120)
    if p.returncode == 0:
        rec["nvars"], rec["clauses"] = parse_dimacs(p.stdout)
    elif "ERROR:" in p.stderr + p.stdout and "Traceback" not in p.stderr:
        rec["outcome"] = "CLIError"
        rec["msg"] = (p.stderr + p.stdout)[:160].replace("\n", " ")
    else:
        rec["outcome"] = "exit%d" % (p.returncode % 256)
        rec["msg"] = p.stderr[-160:].replace("\n", " ")
    return rec


# ---------------------------------------------------------------------------
# choosing inputs (no verdict depends on this: it only aims m at the maximum)

def count_all(kind, k, n, planted):
    """Number of k-clauses / k-parities compatible with the planted assignments;
    used only to aim m at the interesting values."""
    if k > n:
        return 0
    tot = 0
    for X in itertools.combinations(range(n), k):
        if kind == "kcnf":
            for signs in itertools.product((False, True), repeat=k):
                # clause: literal on x is positive iff signs[i]
                if all(any(a[x] == s for x, s in zip(X, signs)) for a in planted):
                    tot += 1
        else:
            for b in (0, 1):
                if all(sum(a[x] for x in X) % 2 == b for a in planted):
                    tot += 1
    return tot


def planted_sets(n, rng, singles, pairs):
    """[], some single assignments, some pairs (incl. antipodal, adjacent, equal)."""
    def rand():
        return [rng.random() < .5 for _ in range(n)]
    out = [[]]
    for _ in range(singles):
        out.append([rand()])
    a = rand()
    cand = [[a, [not x for x in a]]]                       # antipodal
    if n >= 1:
        b = list(a)
        b[rng.randrange(n)] ^= True
        cand.append([a, b])                                # adjacent
    cand.append([a, list(a)])                              # the same one twice
    if n >= 2:
        b = [not x for x in a]
        b[rng.randrange(n)] ^= True
        cand.append([a, b])                                # all but one differ
    for _ in range(max(0, pairs - len(cand))):
        cand.append([rand(), rand()])
    return out + cand[:max(pairs, 0)]


def ms_for(A, rng, extra):
    base = {0, 1, 2, A - 1, A, A + 1, A + 2} | {rng.randint(0, A + 1) for _ in range(extra)}
    return sorted(x for x in base if x >= 0)


def small_scope(ck):
    """All (k, n) with n <= 5 (k up to n + 1), m from 0 to |All| + 1."""
    q = ck.quick
    rng = ck.rng
    jobs = []          # (fn, args)
    maxn = 5
    for kind in KINDS:
        for n in range(0, maxn + 1):
            for k in range(0, n + 2):
                psets = planted_sets(n, rng, 1 if q else 3, 3 if q else 6)
                for pi, pl in enumerate(psets):
                    A = count_all(kind, k, n, pl)
                    full = (n <= 3) if q else (n <= 4)
                    ms = range(0, A + 2) if (full and A <= 40) else ms_for(A, rng, 2 if q else 8)
                    for m in ms:
                        near = A - 1 <= m <= A
                        # the sparse -> dense switch depends on the seed near the maximum
                        ns = (6 if near else 2) if q else (50 if near else 8)
                        if k > n or m > A:
                            ns = 1 if q else 3
                        for s in range(ns):
                            seed = rng.randrange(1, 2 ** 31 - 1)
                            rid = "%s-k%dn%dm%d-p%d-s%d" % (kind, k, n, m, pi, s)
                            jobs.append((run_lib, (rid, kind, k, n, m, pl, seed, "tuple" if s % 5 == 4 else "list")))
                # command line (no planted / one hidden planted assignment)
                for plant in (False, True):
                    A = count_all(kind, k, n, [[True] * n] if plant else [])
                    for m in ms_for(A, rng, 1 if q else 4):
                        near = A - 1 <= m <= A
                        for s in range((2 if near else 1) if q else (12 if near else 3)):
                            seed = rng.randrange(1, 2 ** 31 - 1)
                            rid = "cli-%s-k%dn%dm%d-%s-s%d" % (kind, k, n, m, "p" if plant else "np", s)
                            jobs.append((run_cli, (rid, kind, k, n, m, plant, seed)))
    return jobs


def larger_scope(ck):
    """Seeded instances at realistic sizes (shape only above 10 variables), and
    mid-size ones aimed at the maximum, where the dense fallback is used."""
    q = ck.quick
    rng = ck.rng
    jobs = []
    for t in range(12 if q else 150):
        kind = KINDS[t % 2]
        n = rng.randint(11, 30)
        k = rng.randint(1, 4 if kind == "kcnf" else 3)
        npl = rng.choice([0, 0, 1, 2])
        pl = [[rng.random() < .5 for _ in range(n)] for _ in range(npl)]
        m = rng.randint(0, min(120, comb(n, k)) // (2 if npl else 1))
        seed = rng.randrange(1, 2 ** 31 - 1)
        jobs.append((run_lib, ("L-%s-k%dn%dm%d-p%d-%d" % (kind, k, n, m, npl, t), kind, k, n, m, pl, seed)))
        if t % 3 == 0:
            jobs.append((run_cli, ("L-cli-%s-k%dn%dm%d-%d" % (kind, k, n, m, t), kind, k, n, m, False, seed)))
    for t in range(10 if q else 120):
        kind = KINDS[t % 2]
        n = rng.randint(6, 9)
        k = rng.randint(1, 3)
        a = [rng.random() < .5 for _ in range(n)]
        b = [not x for x in a]
        for j in rng.sample(range(n), rng.randint(0, 2)):
            b[j] ^= True
        pl = rng.choice([[], [a], [a, b], [a, b]])
        A = count_all(kind, k, n, pl)
        if A > 130:
            continue
        m = A - rng.choice([0, 0, 0, 1, 2]) + rng.choice([0, 0, 0, 1])
        if m < 0:
            continue
        for s in range(2 if q else 6):
            seed = rng.randrange(1, 2 ** 31 - 1)
            jobs.append((run_lib, ("M-%s-k%dn%dm%d-p%d-%d-%d" % (kind, k, n, m, len(pl), t, s),
                                   kind, k, n, m, pl, seed)))
        if len(pl) == 1:
            jobs.append((run_cli, ("M-cli-%s-k%dn%dm%d-%d" % (kind, k, n, m, t), kind, k, n, m, True,
                                   rng.randrange(1, 2 ** 31 - 1))))
    return jobs


def representation_scope(ck):
    """The documented ways of passing planted assignments (`iterable(lists)`)
    and seeds (`hashable object`)."""
    rng = ck.rng
    jobs = []
    for kind in KINDS:
        for t in range(6 if ck.quick else 40):
            n = rng.randint(2, 5)
            k = rng.randint(1, min(3, n))
            a = [rng.random() < .5 for _ in range(n)]
            pl = [a] if t % 2 == 0 else [a, [x ^ (j == 0) for j, x in enumerate(a)]]
            A = count_all(kind, k, n, pl)
            for m in sorted({1, max(1, A // 2), A, A + 1}):
                seed = rng.randrange(1, 2 ** 31 - 1)
                for rep in PLANTED_REPS[1:]:
                    jobs.append((run_lib, ("R-%s-%s-k%dn%dm%d-%d" % (rep, kind, k, n, m, t),
                                           kind, k, n, m, pl, seed, rep)))
        for j, form in enumerate(sorted(SEED_FORMS)):
            for t in range(2 if ck.quick else 8):
                n = rng.randint(2, 5)
                k = rng.randint(1, min(3, n))
                A = count_all(kind, k, n, [])
                m = rng.choice([1, A // 2, A])
                jobs.append((run_lib, ("R-seed-%s-%s-k%dn%dm%d-%d" % (form, kind, k, n, m, t),
                                       kind, k, n, m, [], rng.randrange(1, 2 ** 31 - 1), "list", form)))
    return jobs


def proc_scope(ck):
    rng = ck.rng
    jobs = []
    for t in range(12 if ck.quick else 64):
        kind = KINDS[t % 2]
        n = rng.randint(1, 6)
        k = rng.randint(1, min(3, n))
        plant = t % 4 >= 2
        A = count_all(kind, k, n, [[True] * n] if plant else [])
        m = rng.choice([0, 1, max(0, A - 1), A, A + 1, rng.randint(0, A)])
        jobs.append((run_proc, ("proc-%s-k%dn%dm%d-%s-%d" % (kind, k, n, m, "p" if plant else "np", t),
                                kind, k, n, m, plant, rng.randrange(1, 2 ** 31 - 1))))
    return jobs


def _call(job):
    fn, args = job
    return fn(*args)


# ---------------------------------------------------------------------------
# direction A: scripted random object fed with TLC's draws

class ScriptedRandom(pyrandom.Random):
    """Answers sample / choice / randint from a script while the request fits
    the next scripted answer; otherwise (and after the script) it is an
    ordinary seeded generator.  So whatever calls the code makes are served."""

    def __init__(self, script, seed):
        super().__init__(seed)
        self.script = list(script)
        self.pos = 0
        self.served = 0
        self.off = 0

    def _next(self, what):
        if self.pos < len(self.script) and self.script[self.pos][0] == what:
            return self.script[self.pos][1]
        return None

    def _miss(self):
        if self.pos < len(self.script):
            self.off += 1
            self.pos = len(self.script)      # leave the script for good

    def sample(self, population, k, **kw):
        v = self._next("sample")
        if v is not None and len(v) == k and all(x in population for x in v):
            self.pos += 1
            self.served += 1
            return list(v)
        self._miss()
        return super().sample(population, k, **kw)

    def choice(self, seq):
        v = self._next("choice")
        if v is not None and v in seq:
            self.pos += 1
            self.served += 1
            return v
        self._miss()
        return super().choice(seq)

    def randint(self, a, b):
        v = self._next("randint")
        if v is not None and a <= v <= b:
            self.pos += 1
            self.served += 1
            return v
        self._miss()
        return super().randint(a, b)


def script_of(beh):
    out = []
    for d in beh["draws"]:
        if d["d"] == "switch":
            continue
        if beh["kind"] == "kcnf":
            lits = sorted(d["c"], key=abs)
            out.append(("sample", [abs(l) for l in lits]))
            out += [("choice", 1 if l > 0 else -1) for l in lits]
        else:
            out.append(("sample", sorted(d["X"])))
            out.append(("randint", d["b"]))
    return out


def run_scripted(rid, beh, seed):
    import importlib
    kind, k, n, m = beh["kind"], beh["k"], beh["n"], beh["m"]
    modname = "cnfgen.families.randomformulas" if kind == "kcnf" else "cnfgen.families.randomkxor"
    mod = importlib.import_module(modname)
    if not hasattr(mod, "random"):
        raise tlc.MachineryError("%s has no module level `random` to script" % modname)
    planted = beh["planted"]
    rec = record(rid, kind, "lib", k, n, m, planted, False,
                 finding_key(kind, "lib", k, n, m, planted, False) + ":scripted")
    sr = ScriptedRandom(script_of(beh), seed)
    saved = mod.random
    mod.random = sr
    try:
        kw = {"planted_assignments": [to_literals(a) for a in planted]} if planted else {}
        answer_formula(rec, lambda: getattr(mod, "RandomKCNF" if kind == "kcnf" else "RandomKXOR")(k, n, m, **kw))
    finally:
        mod.random = saved
    rec["script"] = {"draws": len(beh["draws"]), "dense": beh["dense"], "machine_outcome": beh["outcome"],
                     "served": sr.served, "left_script": sr.off, "seed": seed,
                     "answers": len(sr.script), "beh": beh}
    # information only: did the run reproduce the machine's own answer?
    same_outcome = rec["outcome"] == beh["outcome"]
    if beh["outcome"] == "ok" and not beh["dense"]:
        got = {frozenset(c) for c in rec["clauses"]}
        want = {frozenset(c) for c in beh["expect"]}
        rec["script"]["followed"] = bool(same_outcome and got == want and sr.off == 0)
    else:
        rec["script"]["followed"] = bool(same_outcome and sr.off == 0)
    return rec


# ---------------------------------------------------------------------------
# TLC configs

INVARIANTS = ["TypeOK", "AccInAll", "AccDistinct", "LoopBound", "DoneCount", "FailRule", "DoneShape"]
PROPERTIES = ["Terminates", "ParamsFixed", "DenseOnlyWhenShort"]


def write_cfg(path, kind, k, n, ps, ms, tf, export=False):
    lines = ["SPECIFICATION %s" % ("Spec" if export else "SpecMC"), "CONSTANTS",
             '  Kind = "%s"' % kind, "  K = %d" % k, "  N = %d" % n,
             "  Ps <- %s" % ps, "  Ms <- %s" % ms,
             "  Pools <- %s" % ("PoolSmall" if export else "PoolFull"),
             "  DensePicks <- %s" % ("OnePick" if export else "EveryPick"),
             "  TriesFactor = %d" % tf]
    if export:
        lines += ["INVARIANT Emit", "CHECK_DEADLOCK FALSE"]
    else:
        lines += ["INVARIANT " + i for i in INVARIANTS] + ["PROPERTY " + p for p in PROPERTIES]
        lines += ["VIEW ModelView", "CHECK_DEADLOCK TRUE"]
    with open(path, "w") as f:
        f.write("\n".join(lines) + "\n")


def model_scopes(q):
    """(kind, K, N, Ps, Ms, TriesFactor, workers): exhaustive runs of the design,
    the large ones first."""
    sc = []
    for kind in KINDS:
        for n in range(0, 5):
            for k in range(0, n + 2):
                if k == n + 1 and n not in (0, 2):
                    continue                       # k > n: the machine fails at once
                if q and (n, k) in ((0, 0), (1, 0), (3, 0), (4, 0), (4, 4), (4, 3)):
                    continue                       # quick: fewer of the tiny scopes
                items = comb(n, k) * (2 ** k if kind == "kcnf" else 2)
                if items <= 4:
                    sc.append((kind, k, n, "PsUpTo2", "MsAll", 10, 1))    # the code's own bound
                elif items <= 8:
                    sc.append((kind, k, n, "PsUpTo2" if n <= 3 or not q else "PsSome", "MsAll",
                               2 if q else (10 if n <= 3 else 4), 1 if q else 4))
                elif items <= 12:                  # kcnf 2,3; kxor 2,4
                    if q:
                        sc.append((kind, k, n, "PsSome", "MsEnds", 1, 4))
                    else:
                        sc.append((kind, k, n, "PsUpTo2", "MsAll", 2, 8))
                elif items == 24 and not q:        # kcnf 2,4: 12 clauses compatible with a, not a
                    sc.append((kind, k, n, "PsOneAntipodal", "MsEnds", 2, 8))
    sc.sort(key=lambda x: -x[6])
    return sc


def tlc_jobs(ck, wd):
    """All TLC runs on Sampler.tla: exhaustive model checks of the design and
    exports of random walks with the code's own bound (TriesFactor = 10)."""
    q = ck.quick
    walks = 60 if q else 600
    jobs = [("mc", sc) for sc in model_scopes(q)]
    ex = [(kind, k, n) for kind in KINDS for n in range(0, 4) for k in range(0, n + 1)
          if not (q and (n, k) in ((0, 0), (1, 0), (3, 0)))]
    ex += [(kind, k, 4) for kind in KINDS for k in ((2,) if q else (1, 2, 3))] + [(kind, 2, 1) for kind in KINDS]
    jobs += [("ex", sc) for sc in ex]

    def one(job):
        what, sc = job
        if what == "mc":
            kind, k, n, ps, ms, tf, w = sc
            cfg = os.path.join(wd, "mc_%s_%d_%d.cfg" % (kind, k, n))
            write_cfg(cfg, kind, k, n, ps, ms, tf)
            return job, cfg, None, tlc.model_check("Sampler", cfg, workers=w, timeout=3000, heap="3g")
        kind, k, n = sc
        cfg = os.path.join(wd, "ex_%s_%d_%d.cfg" % (kind, k, n))
        write_cfg(cfg, kind, k, n, "PsUpTo2" if n <= 3 else "PsSome", "MsAll", 10, export=True)
        objs, r = tlc.export("Sampler", cfg, heap="2g", timeout=3000,
                             extra=["-simulate", "num=%d" % walks, "-depth", "400",
                                    "-seed", str(ck.seed + 13)])
        return job, cfg, objs, r

    with cf.ThreadPoolExecutor(max_workers=tlc.NCPU) as pool:
        results = list(pool.map(one, jobs))
    behs = []
    for (what, sc), cfg, objs, r in results:
        ck.states += r["distinct"]
        ck.transitions += r["generated"]
        run = {"module": "Sampler", "cfg": os.path.basename(cfg), "distinct": r["distinct"],
               "generated": r["generated"], "wall_s": round(r["wall"], 1)}
        if what == "mc":
            run["scope"] = "%s K=%d N=%d %s %s TriesFactor=%d" % sc[:6]
            run["depth"] = r["depth"]
        else:
            seen = set()
            for o in objs:
                key = json.dumps(o, sort_keys=True)
                if key not in seen:
                    seen.add(key)
                    behs.append(o)
            run["exported"] = len(seen)
        ck.model_runs.append(run)
    ck.count("model_configs", sum(1 for j in jobs if j[0] == "mc"))
    ck.count("export_configs", sum(1 for j in jobs if j[0] == "ex"))
    return behs


def weight(rec):
    n, c = rec["n"], len(rec["clauses"]) + 1
    w = c
    if n <= 10:
        w += (1 << n) * c // 8
    return w


# ---------------------------------------------------------------------------

def replay(ck, rec):
    """Re-judge the stored answer (information) and put the same request to the
    implementation again: the verdict on the fresh answer decides."""
    stored = dict(rec)
    if "answers" in rec.get("script", {}):
        beh = dict(rec["script"]["beh"])
        fresh = run_scripted(rec["id"] + "-rerun", beh, rec["script"]["seed"])
    elif rec["src"] == "lib":
        fresh = run_lib(rec["id"] + "-rerun", rec["kind"], rec["k"], rec["n"], rec["m"], rec["planted"],
                        rec["seed"], rec.get("rep", "list"), rec.get("seedform", "int"))
    elif rec["id"].startswith("proc-"):
        fresh = run_proc(rec["id"] + "-rerun", rec["kind"], rec["k"], rec["n"], rec["m"], rec["hidden"],
                         int(rec["argv"][rec["argv"].index("--seed") + 1]))
    else:
        fresh = run_cli(rec["id"] + "-rerun", rec["kind"], rec["k"], rec["n"], rec["m"], rec["hidden"],
                        int(rec["argv"][rec["argv"].index("--seed") + 1]))
    verdicts, _ = tlc.judge("JudgeSampler", [stored, fresh], "JudgeSampler_C13_replay", cfg="JudgeSampler.cfg")
    print("stored answer: %s" % verdicts[stored["id"]])
    print("fresh answer of the current tree to the same request: %s" % verdicts[fresh["id"]])
    ck.traces += 2
    why = verdicts[fresh["id"]]
    fresh["id"] = stored["id"]
    if why != "ok":
        ck.report(fresh, why)
    return ck.finish()


def main(argv=None):
    ck = common.Check("C13", argv)
    common.setup_repo_import()
    rec = ck.replay_record()
    if rec is not None:
        return replay(ck, rec)
    wd = tlc.workdir("C13")

    # 1. direction B: the real generators and command lines
    import cnfgen                                      # noqa: F401  (before forking)
    from cnfgen.clitools.cnfgen import cli             # noqa: F401
    jobs = small_scope(ck) + larger_scope(ck) + representation_scope(ck)
    recs = common.pmap(_call, jobs)
    with cf.ThreadPoolExecutor(max_workers=tlc.NCPU) as ex:
        recs += list(ex.map(_call, proc_scope(ck)))
    ck.count("library_calls", sum(1 for r in recs if r["src"] == "lib"))
    ck.count("command_lines", sum(1 for r in recs if r["src"] == "cli"))

    # 2. the design, exhaustively; 3. direction A (steering): TLC behaviours
    # fed through a scripted random
    behs = tlc_jobs(ck, wd)
    if not behs:
        raise tlc.MachineryError("no behaviours exported from Sampler.tla")
    srecs = [run_scripted("S-%s-k%dn%d-%d" % (b["kind"], b["k"], b["n"], j), b, ck.seed * 7919 + j)
             for j, b in enumerate(behs)]
    decisions = {}
    for b in behs:
        for d in b["draws"]:
            decisions[d["d"]] = decisions.get(d["d"], 0) + 1
    for name in ("accept", "dup", "unplanted", "switch"):
        if decisions.get(name, 0) == 0:
            raise tlc.MachineryError("exported behaviours never take decision %r" % name)
        ck.count("machine_decisions_" + name, decisions[name])
    ck.count("scripted_runs", len(srecs))
    ck.count("scripted_runs_reaching_dense_phase", sum(1 for b in behs if b["dense"]))
    ck.count("scripted_followed_machine", sum(1 for r in srecs if r["script"]["followed"]))
    ck.count("scripted_left_script", sum(1 for r in srecs if r["script"]["left_script"]))

    allrecs = recs + srecs
    for r in (recs[:1] + [x for x in recs if x["src"] == "cli"][:1] + srecs[-1:]):
        ck.sample({k: r[k] for k in ("id", "kind", "src", "k", "n", "m", "planted", "hidden",
                                     "outcome", "nvars", "clauses")})
    ck.count("outcome_ok", sum(1 for r in allrecs if r["outcome"] == "ok"))
    ck.count("outcome_refused", sum(1 for r in allrecs if r["outcome"] in ("ValueError", "CLIError")))
    ck.count("outcome_other", sum(1 for r in allrecs if r["outcome"] not in ("ok", "ValueError", "CLIError")))
    ck.judge("JudgeSampler", allrecs, cfg="JudgeSampler.cfg", weight=weight)

    ck.assumptions += [
        "planted assignments are total and are passed as sequences of literals (the documented format)",
        "k, n, m are non-negative integers; the command line may refuse k < 1 or n < 1 (its usage text says positive)",
        "a hidden planted assignment (cnfgen ... -p) is judged as: some total assignment satisfies every clause, "
        "and |All| is that of one planted assignment (the same for each, lemma AllClosedForm)",
        "scripted runs: any finite sequence of draws is taken to be a possible random stream; they are judged on "
        "shape/outcome only, following the machine's decisions is informational",
        "model sets (Models = solutions of the linear system) are compared up to 10 variables; shape is judged at all sizes",
    ]
    distinct = len({(r["kind"], r["src"], r["k"], r["n"], r["m"], str(r["planted"]), r["hidden"],
                     r.get("seed"), str(r.get("argv")), r["id"][:2]) for r in allrecs})
    return ck.finish(rule="one case = one request (kind, k, n, m, planted set, seed or scripted draw sequence, "
                          "library or command line) answered by the real code and judged by TLC",
                     distinct_nontrivial=distinct)


if __name__ == "__main__":
    common.main_wrapper(main)
