"""C03 - contradictions and Ramsey-type benchmarks have the documented
satisfiability and consist of exactly the documented axioms.

Direction B with JudgeFamilies.tla:
  * "axioms" families (ordering / graph ordering with all variants, pebbling,
    stone, sparse stone, CPLS, Pitfall): the clause *set* of the real formula,
    with identifiers turned into named literals, must equal Axioms(params)
    transcribed in Families.tla - none missing, none extra - at every size;
    on the small scope TLC also brute-forces satisfiability against the
    documented status (unsatisfiable; planted OP: satisfiable iff connected).
  * ram / vdw / ptn: pointwise `Sat(a,F) <=> good colouring`.
FamiliesMC (scope C03) model-checks that the documented axiom sets are
unsatisfiable / the planted criterion on the small scope.
"""
import itertools
import random as _random

from . import common, gen


def instances(ck):
    import cnfgen
    from cnfgen.formula.opb import OPB
    from cnfgen.graphs import dag_pyramid, bipartite_random_left_regular
    q = ck.quick
    rng = ck.rng
    recs = []

    def add(rid, fam, par, fn, graph=None, graph2=None, nosat=False, kf=None, cls=None):
        extra = {}
        if graph2 is not None:
            extra["graph2"] = graph2
        if kf:
            extra["kf"] = kf
        c = cls or cnfgen.CNF
        rec = gen.build(rid + ("-OPB" if cls is OPB else ""), fam, par, lambda: fn(c), graph, extra)
        if rec["outcome"] == "ok" and (nosat or rec["nvars"] > 17):
            # beyond 2^17 assignments only the documented axioms are compared (time; TLC set-size limit at 2^21)
            rec["cand"] = [[False] * rec["nvars"]]
        recs.append(rec)

    satmax = 12 if q else 16
    # --- ordering principle -------------------------------------------------
    for n in range(0, 9):
        for total, smart, plant in itertools.product((False, True), repeat=3):
            for knuth in (0, 2, 3):
                if smart and (knuth or total):
                    continue
                if n > 5 and (knuth or (total and plant)) and q:
                    continue
                nv = n * (n - 1) // 2 if smart else n * (n - 1)
                if nv > 60:
                    continue
                add("op-%d-%d%d%d-%d" % (n, total, smart, plant, knuth), "op",
                    {"n": n, "total": total, "smart": smart, "plant": plant, "knuth": knuth},
                    lambda c, n=n, total=total, smart=smart, plant=plant, knuth=knuth:
                    cnfgen.OrderingPrinciple(n, total, smart, plant, knuth, formula_class=c),
                    nosat=nv > satmax, kf=("op:n=0" if n == 0 and not plant else None))
                if nv <= 6:
                    add("op-%d-%d%d%d-%d" % (n, total, smart, plant, knuth), "op",
                        {"n": n, "total": total, "smart": smart, "plant": plant, "knuth": knuth},
                        lambda c, n=n, total=total, smart=smart, plant=plant, knuth=knuth:
                        cnfgen.OrderingPrinciple(n, total, smart, plant, knuth, formula_class=c),
                        kf=("op:n=0" if n == 0 and not plant else None), cls=OPB)
    # --- graph ordering principle -------------------------------------------
    graphs = [(n, e) for n in range(0, 5) for e in gen.simple_graphs(n)]
    combos = [(g, t, s, p, k) for g in graphs for t, s, p in itertools.product((False, True), repeat=3)
              for k in (0, 2, 3) if not (s and (k or t))]
    combos = rng.sample(combos, min(len(combos), 300 if q else 1500))
    for (n, e), total, smart, plant, knuth in combos:
        add("gop-%d-%s-%d%d%d-%d" % (n, gen.gid(e), total, smart, plant, knuth), "gop",
            {"total": total, "smart": smart, "plant": plant, "knuth": knuth},
            lambda c, n=n, e=e, total=total, smart=smart, plant=plant, knuth=knuth:
            cnfgen.GraphOrderingPrinciple(gen.mk_graph(n, e), total, smart, plant, knuth, formula_class=c),
            graph={"n": n, "edges": e}, kf=("op:n=0" if n == 0 and not plant else None))
    for t in range(2 if q else 10):
        n = rng.randint(5, 8)
        e = [[u, v] for u in range(1, n + 1) for v in range(u + 1, n + 1) if rng.random() < .5]
        total, smart, plant = rng.random() < .5, rng.random() < .3, rng.random() < .3
        knuth = 0 if smart else rng.choice((0, 2, 3))
        total = total and not smart
        add("L-gop-%d" % t, "gop", {"total": total, "smart": smart, "plant": plant, "knuth": knuth},
            lambda c: cnfgen.GraphOrderingPrinciple(gen.mk_graph(n, e), total, smart, plant, knuth),
            graph={"n": n, "edges": e}, nosat=True)
    # --- pebbling ------------------------------------------------------------
    dags = [(n, e) for n in range(1, 5) for e in gen.dags(n)]
    for n, e in dags:
        add("peb-%d-%s" % (n, gen.gid(e)), "peb", None,
            lambda c, n=n, e=e: cnfgen.PebblingFormula(gen.mk_digraph(n, e), formula_class=c),
            graph={"n": n, "edges": e}, cls=(OPB if n == 3 else None))
    for n, e in [(2, [[2, 1]]), (3, [[1, 2], [3, 2]]), (2, [[1, 2], [2, 1]]), (1, [[1, 1]])]:
        add("peb-notdag-%d-%s" % (n, gen.gid(e)), "peb", None,
            lambda c, n=n, e=e: cnfgen.PebblingFormula(gen.mk_digraph(n, e)), graph={"n": n, "edges": e})
        add("stone-notdag-%d-%s" % (n, gen.gid(e)), "stone", {"nstones": 2},
            lambda c, n=n, e=e: cnfgen.StoneFormula(gen.mk_digraph(n, e), 2), graph={"n": n, "edges": e})
    for h in ((2, 3) if q else (2, 3, 4, 5)):
        D = dag_pyramid(h)
        e = sorted([int(u), int(v)] for u, v in D.edges())
        add("L-peb-pyramid-%d" % h, "peb", None, lambda c, D=D: cnfgen.PebblingFormula(D),
            graph={"n": D.number_of_vertices(), "edges": e}, nosat=D.number_of_vertices() > satmax)
    for t in range(2 if q else 8):
        n = rng.randint(6, 14)
        e = [[u, v] for u in range(1, n + 1) for v in range(u + 1, n + 1) if rng.random() < .25]
        add("L-peb-rand-%d" % t, "peb", None, lambda c: cnfgen.PebblingFormula(gen.mk_digraph(n, e)),
            graph={"n": n, "edges": e}, nosat=n > satmax)
    # --- stone / sparse stone ------------------------------------------------
    for n, e in [d for d in dags if d[0] <= 3] + ([] if q else rng.sample([d for d in dags if d[0] == 4], 16)):
        for ns in range(0, 3):
            if ns + n * ns > satmax:
                continue
            add("stone-%d-%s-%d" % (n, gen.gid(e), ns), "stone", {"nstones": ns},
                lambda c, n=n, e=e, ns=ns: cnfgen.StoneFormula(gen.mk_digraph(n, e), ns, formula_class=c),
                graph={"n": n, "edges": e})
    sparse = []
    for n, e in [d for d in dags if d[0] <= 3]:
        for R in (1, 2, 3):
            bs = list(gen.bipartite_graphs(n, R))
            sparse += [((n, e), R, b) for b in rng.sample(bs, min(len(bs), 3 if q else 10))]
    for (n, e), R, b in sparse:
        add("sstone-%d-%s-%d-%s" % (n, gen.gid(e), R, gen.gid(b)), "sstone", None,
            lambda c, n=n, e=e, R=R, b=b: cnfgen.SparseStoneFormula(gen.mk_digraph(n, e), gen.mk_bipartite(n, R, b),
                                                                  formula_class=c),
            graph={"n": n, "edges": e}, graph2={"L": n, "R": R, "edges": b})
    for h, ns in ((2, 3), (3, 3)) if q else ((2, 3), (3, 3), (3, 4), (2, 5)):
        D = dag_pyramid(h)
        e = sorted([int(u), int(v)] for u, v in D.edges())
        add("L-stone-pyramid-%d-%d" % (h, ns), "stone", {"nstones": ns},
            lambda c, D=D, ns=ns: cnfgen.StoneFormula(D, ns),
            graph={"n": D.number_of_vertices(), "edges": e}, nosat=True)
        nD = D.number_of_vertices()
        B = bipartite_random_left_regular(nD, ns + 1, 2, seed=ck.seed + h)
        b = sorted([int(u), int(v)] for u, v in B.edges())
        add("L-sstone-pyramid-%d-%d" % (h, ns), "sstone", None,
            lambda c, D=D, B=B: cnfgen.SparseStoneFormula(D, B),
            graph={"n": nD, "edges": e}, graph2={"L": nD, "R": ns + 1, "edges": b}, nosat=True)
    # --- CPLS ----------------------------------------------------------------
    for a, b, c_ in itertools.product((1, 2, 3), (1, 2, 4), (1, 2, 4)):
        lb, lc = b.bit_length() - 1, c_.bit_length() - 1
        nv = a * b * c_ + a * b * lb + b * lc
        if nv > (40 if q else 90):
            continue
        add("cpls-%d-%d-%d" % (a, b, c_), "cpls", {"a": a, "b": b, "c": c_},
            lambda c, a=a, b=b, c_=c_: cnfgen.CPLSFormula(a, b, c_, formula_class=c), nosat=nv > satmax)
    if not q:
        add("cpls-2-8-2", "cpls", {"a": 2, "b": 8, "c": 2}, lambda c: cnfgen.CPLSFormula(2, 8, 2), nosat=True)
    # --- Pitfall ---------------------------------------------------------------
    from cnfgen.families.pitfall import PitfallFormula
    shapes = [(2, 1, 2, 2, 2), (4, 2, 2, 2, 2), (4, 3, 3, 2, 2), (6, 3, 3, 2, 4), (4, 2, 2, 1, 2), (4, 1, 1, 2, 2)]
    if not q:
        shapes += [(4, 1, 2, 3, 2), (5, 2, 4, 2, 2), (6, 2, 2, 2, 4), (8, 3, 5, 3, 2), (4, 3, 2, 4, 4)]
    for j, (v, d, ny, nz, k) in enumerate(shapes):
        for t in range(1 if q else 3):
            def mk(c, v=v, d=d, ny=ny, nz=nz, k=k, t=t):
                _random.seed(ck.seed * 101 + t)
                return PitfallFormula(v, d, ny, nz, k, formula_class=c)
            add("pitfall-%d-%d-%d-%d-%d-s%d" % (v, d, ny, nz, k, t), "pitfall",
                {"v": v, "d": d, "ny": ny, "nz": nz, "k": k}, mk,
                nosat=(q or (v, d, ny, nz, k) != (2, 1, 2, 2, 2) or t > 0), kf="pitfall:shift-negative-literal")
    # --- Ramsey number, van der Waerden, Pythagorean triples -------------------
    for s_, k, N in itertools.product((1, 2, 3), (1, 2, 3), range(0, 6)):
        add("ram-%d-%d-%d" % (s_, k, N), "ram", {"s": s_, "k": k, "N": N},
            lambda c, s_=s_, k=k, N=N: cnfgen.RamseyNumber(s_, k, N, formula_class=c),
            cls=(OPB if N == 3 else None))
    if not q:
        add("ram-3-4-6", "ram", {"s": 3, "k": 4, "N": 6}, lambda c: cnfgen.RamseyNumber(3, 4, 6))
        add("ram-4-3-6", "ram", {"s": 4, "k": 3, "N": 6}, lambda c: cnfgen.RamseyNumber(4, 3, 6))
    for N in range(0, 9 if q else 12):
        for K in itertools.product((1, 2, 3), repeat=2):
            add("vdw-%d-%s" % (N, "_".join(map(str, K))), "vdw", {"N": N, "K": list(K)},
                lambda c, N=N, K=K: cnfgen.VanDerWaerden(N, *K, formula_class=c),
                kf=("vdw:length-1" if 1 in K else None))
    for N in range(0, 5 if q else 6):
        for K in itertools.product((1, 2, 3), repeat=3):
            add("vdw-%d-%s" % (N, "_".join(map(str, K))), "vdw", {"N": N, "K": list(K)},
                lambda c, N=N, K=K: cnfgen.VanDerWaerden(N, *K, formula_class=c),
                kf=("vdw:length-1" if 1 in K else None))
    if not q:
        add("vdw-4-2_2_3_2", "vdw", {"N": 4, "K": [2, 2, 3, 2]}, lambda c: cnfgen.VanDerWaerden(4, 2, 2, 3, 2))
        add("vdw-13-3_3", "vdw", {"N": 13, "K": [3, 3]}, lambda c: cnfgen.VanDerWaerden(13, 3, 3))
    for N in list(range(0, 14)) + ([] if q else [15, 17, 20]):
        add("ptn-%d" % N, "ptn", {"N": N}, lambda c, N=N: cnfgen.PythagoreanTriples(N, formula_class=c))
    return recs


def keyf(rec, why):
    kf = rec.get("kf")
    if kf == "op:n=0" and why == "documented_satisfiability_differs":
        return kf
    if kf == "vdw:length-1" and why == "unexpected_ZeroDivisionError":
        return kf
    if kf == "pitfall:shift-negative-literal" and why in ("axiom_missing", "extra_clause"):
        return kf
    return None



def demo_mutants(recs, verdicts):
    """Corrupted copies of records judged ok (flip a literal, drop a clause, shift the declared count)."""
    import copy
    out = []
    seen = set()
    for r in recs:
        if verdicts.get(r["id"]) != "ok" or r.get("cls") != "CNF" or r["outcome"] != "ok" or "cand" in r:
            continue
        if r["fam"] in seen or len(r.get("clauses", [])) < 2 or not r["clauses"][0] or r["nvars"] > 10:
            continue
        seen.add(r["fam"])
        a = copy.deepcopy(r)
        a["clauses"][0][0] = -a["clauses"][0][0]
        out.append(("%s:flip_literal" % r["fam"], a))
        b = copy.deepcopy(r)
        b["clauses"] = b["clauses"][1:]
        out.append(("%s:drop_clause" % r["fam"], b))
        if len(seen) >= 6:
            break
    return out


def main(argv=None):
    ck = common.Check("C03", argv)
    common.setup_repo_import()
    gen.warm_process()
    gen.scramble_insertions(ck.rng)     # graphs are built by inserting edges in random order
    ck.model("FamiliesMC", "FamiliesMC_C03.cfg")
    recs = instances(ck)
    for r in recs[:1] + [x for x in recs if x["fam"] == "cpls"][:1] + [x for x in recs if x["fam"] == "pitfall"][:1]:
        ck.sample({k: r[k] for k in ("id", "fam", "par", "nvars", "outcome") if k in r})
    fams = {}
    for r in recs:
        fams[r["fam"]] = fams.get(r["fam"], 0) + 1
    ck.cover["instances_per_family"] = fams
    ck.count("exact_axiom_comparisons", sum(1 for r in recs if r["fam"] not in ("ram", "vdw", "ptn")))
    ck.count("assignments_evaluated", sum(2 ** r["nvars"] for r in recs if "cand" not in r))
    verdicts = ck.judge("JudgeFamilies", recs, cfg="Judge.cfg", weight=gen.weight, keyf=keyf, heap="4g")
    ck.binding_demo("JudgeFamilies", demo_mutants(recs, verdicts or {}), cfg="Judge.cfg")
    ck.assumptions += [
        "unsatisfiability is brute-forced only up to ~12 (quick) / 16-22 (thorough) variables; beyond that the check "
        "is that the implementation emits exactly the documented axioms (whose unsatisfiability is the textbook result)",
        "Pitfall: the regular graph is whatever the generator drew, read off its first edge-variable group",
    ]
    return ck.finish(rule="one instance = one (family, graph(s), parameters, formula class, seed); distinct by construction; "
                          "non-trivial = judged by TLC against the documented axioms / colouring semantics")


if __name__ == "__main__":
    common.main_wrapper(main)
