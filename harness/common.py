"""Shared check plumbing: tiers, seeds, verdict bookkeeping, known findings,
replay files, evidence, exit status.

Exit status contract:  0 = property held on everything explored (known
findings excepted), 1 = at least one VIOLATION line printed, 2 = machinery
failure (never used for a property failure).
"""
import json
import os
import random
import sys
import time
import traceback

from . import tlc

VERIF = tlc.VERIF
REPO = os.environ.get("CNFGEN_REPO", "/repo")
EVID = os.path.join(VERIF, "evidence")
KNOWN = os.path.join(VERIF, "known_findings.json")
GUARD = "CNFGEN_VERIF"


def setup_repo_import():
    """Import cnfgen from /repo's working tree with the hooks enabled."""
    os.environ[GUARD] = "1"
    os.environ.setdefault("PYTHONHASHSEED", "0")
    if REPO not in sys.path:
        sys.path.insert(0, REPO)
    for k in [k for k in sys.modules if k == "cnfgen" or k.startswith("cnfgen.")]:
        if not getattr(sys.modules[k], "__file__", "").startswith(REPO):
            del sys.modules[k]


def load_known():
    try:
        with open(KNOWN) as f:
            return json.load(f)["findings"]
    except FileNotFoundError:
        return []


def pmap(fn, items, procs=None, chunk=None):
    """Parallel map over processes (fork): used for replaying many behaviours."""
    import multiprocessing as mp
    items = list(items)
    if len(items) < 64:
        return [fn(x) for x in items]
    procs = procs or min(tlc.NCPU, 16)
    with mp.get_context("fork").Pool(procs) as pool:
        return pool.map(fn, items, chunksize=chunk or max(1, len(items) // (procs * 8)))


class Check:
    def __init__(self, pid, argv=None):
        import argparse
        ap = argparse.ArgumentParser(prog="check " + pid)
        ap.add_argument("--tier", default=os.environ.get("VERIF_TIER", "quick"),
                        choices=["quick", "thorough"])
        ap.add_argument("--seed", type=int, default=int(os.environ.get("VERIF_SEED", "0")))
        ap.add_argument("--replay", default=None)
        ap.add_argument("--keep", action="store_true")
        self.args = ap.parse_args(argv)
        self.pid = pid
        self.tier = self.args.tier
        self.seed = self.args.seed
        self.rng = random.Random(self.seed * 1000003 + sum(map(ord, pid)))
        self.t0 = time.time()
        self.states = 0
        self.transitions = 0
        self.traces = 0          # implementation artefacts judged / behaviours replayed
        self.evaluations = 0
        self.samples = []
        self.fail = []           # (id, why, record)
        self.known_hits = {}     # key -> count
        self.cover = {}          # free-form coverage counters
        self.assumptions = []
        self.model_runs = []
        self.known = [k for k in load_known() if k.get("property") == pid]
        self.quick = self.tier == "quick"
        self._sigs = set()       # content signatures of the distinct non-trivial cases seen
        if not self.args.replay:
            # replay files of an earlier run must not be mistaken for this run's
            import shutil
            shutil.rmtree(os.path.join(EVID, "replay", pid), ignore_errors=True)

    # ---- TLC model runs ---------------------------------------------------
    def model(self, module, cfg=None, **kw):
        r = tlc.model_check(module, cfg, **kw)
        self.states += r["distinct"]
        self.transitions += r["generated"]
        self.model_runs.append({"module": module, "cfg": os.path.basename(cfg or module + ".cfg"),
                                "distinct": r["distinct"], "generated": r["generated"],
                                "depth": r["depth"], "wall_s": round(r["wall"], 1)})
        return r

    def export(self, module, cfg=None, **kw):
        """Behaviour export run (spec -> code direction); accumulates TLC's numbers."""
        objs, r = tlc.export(module, cfg, **kw)
        self.states += r["distinct"]
        self.transitions += r["generated"]
        self.model_runs.append({"module": module, "cfg": os.path.basename(cfg or module + ".cfg"),
                                "exported": len(objs), "distinct": r["distinct"],
                                "generated": r["generated"], "wall_s": round(r["wall"], 1)})
        return objs

    def replay_record(self):
        """The record stored in the file given with --replay, or None."""
        if not self.args.replay:
            return None
        with open(self.args.replay) as f:
            return json.load(f)["record"]

    def replayed(self, record, ok, why):
        """Book-keeping for one behaviour replayed into the implementation."""
        self.traces += 1
        self.evaluations += 1
        body = {k: v for k, v in record.items() if k != "id"}
        self._sigs.add(hash(json.dumps(body, sort_keys=True, default=str)))
        if not ok:
            self.report(record, why)

    # ---- judged artefacts -------------------------------------------------
    def judge(self, module, records, name=None, keyf=None, **kw):
        """TLC judges records; failing ones are matched against known findings
        through keyf(record, why) -> finding key or None."""
        if self.args.replay:
            want = json.load(open(self.args.replay))["record"]["id"]
            records = [r for r in records if r["id"] == want]
        if not records:
            return {}
        verdicts, st = tlc.judge(module, records, (name or module) + "_" + self.pid, **kw)
        self.states += st["distinct"]
        self.transitions += st["generated"]
        self.traces += len(records)
        self.evaluations += len(records)
        self.model_runs.append({"module": module, "judged": len(records),
                                "distinct": st["distinct"], "generated": st["generated"],
                                "wall_s": round(st["wall"], 1)})
        byid = {r["id"]: r for r in records}
        for r in records:
            # distinct = different content (the id and free-text fields do not count);
            # non-trivial = the implementation produced something to judge (not a refusal / crash)
            if r.get("outcome", "ok") in ("ok", "accept") and r.get("wrote", "ok") == "ok":
                body = {k: v for k, v in r.items() if k not in ("id", "argv", "msg", "kf", "stderr_head")}
                self._sigs.add(hash(json.dumps(body, sort_keys=True, default=str)))
        for i, why in verdicts.items():
            if why != "ok":
                self.report(byid[i], why, keyf)
        return verdicts

    def binding_demo(self, module, mutants, **kw):
        """Demonstrate that the judge is bound to the artefacts: `mutants` are (name, record) pairs,
        each a corrupted copy of a record that was judged ok.  TLC must reject every one of them;
        if a corrupted record is judged ok the check is vacuous there: machinery failure."""
        if self.args.replay or not mutants:
            return
        recs = []
        for k, (name, rec) in enumerate(mutants):
            r = dict(rec)
            r["id"] = "demo%02d" % k
            recs.append(r)
        verdicts, st = tlc.judge(module, recs, "demo_" + self.pid, **kw)
        self.states += st["distinct"]
        self.transitions += st["generated"]
        out = {}
        for k, (name, rec) in enumerate(mutants):
            out[name] = verdicts["demo%02d" % k]
        self.cover["binding_demonstration"] = out
        # a single corruption can be semantically harmless (a redundant clause): per group of
        # corruptions of the same record (name prefix before ':') at least one must be rejected
        groups = {}
        for n, v in out.items():
            groups.setdefault(n.split(":")[0], []).append(v)
        blind = sorted(g for g, vs in groups.items() if all(v == "ok" for v in vs))
        self.cover["binding_demonstration_groups_not_rejected"] = blind
        # corrupting an unsatisfiable or highly redundant formula can leave its meaning intact, so a
        # few blind groups are tolerated; a judge that rejects (almost) nothing is not
        if len(blind) * 4 > len(groups):
            raise tlc.MachineryError("binding demonstration: every corruption of %r was judged ok" % blind)

    def report(self, record, why, keyf=None):
        if keyf is not None:
            key = keyf(record, why)
        else:
            key = record.get("kf")
        for k in self.known:
            if k.get("status") == "open" and key is not None and k["key"] == key:
                self.known_hits.setdefault(key, []).append((record["id"], why))
                return
        self.fail.append((record["id"], why, record))

    def sample(self, obj, limit=6):
        if len(self.samples) < limit:
            s = json.dumps(obj, sort_keys=True)
            if len(s) > 1500:
                s = s[:1500] + "...(truncated)"
                self.samples.append(s)
            else:
                self.samples.append(obj)

    def count(self, key, n=1):
        self.cover[key] = self.cover.get(key, 0) + n

    # ---- finish -----------------------------------------------------------
    def finish(self, level="model_checking", rule="", distinct_nontrivial=None, extra=None):
        wall = time.time() - self.t0
        rdir = os.path.join(EVID, "replay", self.pid)
        lines = []
        for key, hits in sorted(self.known_hits.items()):
            what = next(k["what"] for k in self.known if k["key"] == key)
            lines.append("KNOWN-FINDING: property=%s %s [key=%s, %d instance(s), e.g. %s: %s]"
                         % (self.pid, what, key, len(hits), hits[0][0], hits[0][1]))
        if self.fail:
            os.makedirs(rdir, exist_ok=True)
        for i, why, rec in self.fail[:50]:
            safe = "".join(ch if ch.isalnum() or ch in "-_." else "_" for ch in i)[:120]
            path = os.path.join(rdir, safe + ".json")
            with open(path, "w") as f:
                json.dump({"property": self.pid, "failing_clause": why, "record": rec,
                           "rejudge": "./check %s --replay %s" % (self.pid, path)}, f, indent=1)
            lines.append("VIOLATION property=%s replay=%s   (%s: %s)" % (self.pid, path, i, why))
        byclause = {}
        for i, why, rec in self.fail:
            k = "%s:%s" % (rec.get("fam", rec.get("kind", "")), why.split(":")[-1])
            byclause[k] = byclause.get(k, 0) + 1
        if byclause:
            lines.append("failing clauses: " + json.dumps(byclause, sort_keys=True))
        if len(self.fail) > 50:
            lines.append("... and %d more failing instances" % (len(self.fail) - 50))
        cov = {
            "states": self.states,
            "transitions": self.transitions,
            "traces_validated_against_impl": self.traces,
            "samples": self.samples or ["(none)"],
            "evaluations": max(self.evaluations, 1),
            "distinct_nontrivial": distinct_nontrivial if distinct_nontrivial is not None else len(self._sigs),
            "rule": rule,
            "exhaustive": False,
            "tlc_runs": self.model_runs,
            "known_findings_hit": {k: len(v) for k, v in self.known_hits.items()},
            "counters": self.cover,
        }
        if extra:
            cov.update(extra)
        ev = {"property_id": self.pid, "tier": self.tier, "seed": self.seed, "level": level,
              "coverage": cov, "assumptions": self.assumptions, "wall_s": round(wall, 2),
              "violations": len(self.fail)}
        if not self.args.replay:
            os.makedirs(EVID, exist_ok=True)
            tmp = os.path.join(EVID, self.pid + ".json.tmp")
            with open(tmp, "w") as f:
                json.dump(ev, f, indent=1, sort_keys=True)
            os.replace(tmp, os.path.join(EVID, self.pid + ".json"))
        for l in lines:
            print(l)
        print("%s %s tier=%s seed=%d: %d artefacts judged/replayed, %d TLC states, "
              "%d violations, %d known findings, %.1fs"
              % ("FAIL" if self.fail else "PASS", self.pid, self.tier, self.seed, self.traces,
                 self.states, len(self.fail), len(self.known_hits), wall))
        sys.stdout.flush()
        return 1 if self.fail else 0


def main_wrapper(fn):
    """Run a check body; map machinery problems to exit status 2."""
    try:
        rc = fn()
    except tlc.MachineryError as e:
        sys.stderr.write("MACHINERY FAILURE: %s\n" % e)
        sys.exit(2)
    except SystemExit:
        raise
    except BaseException:
        sys.stderr.write("MACHINERY FAILURE (harness exception):\n" + traceback.format_exc())
        sys.exit(2)
    sys.exit(rc)
