"""C19 - transformations leave their inputs untouched and record provenance.

Provenance.tla (TLC on the model): a pool of formula objects under Transform /
AddClause / AddEntry; NoAlias (a step changes at most the object it names),
ProvenanceStep (a new object's header = parent's header + one entry
"transformation k", k least unused) and ChainNumbering are checked on all
chains of bounded length over headers that may already contain numbered
entries.  Direction B: every real transformation (all substitutions, lifting,
flip, compression, shuffle) and chains of up to three are applied to formulas
with names and headers; the input is snapshotted before the call, after it and
after mutating the result; every graph / list / pattern / charges argument of
generators and builders is snapshotted before and after the call (also when
the call fails).  JudgeProvenance.tla decides equality of snapshots and the
header rule.
"""
import copy
import random as _random

from . import common, gen, project, c05
from .exc import exc_name


def snap(F):
    return {"nvars": int(F.number_of_variables()), "clauses": project.clauses_of(F),
            "labels": [str(x) for x in F.all_variable_labels()],
            "header": [[str(k), str(v)] for k, v in F.header.items()]}


def codes(s):
    return [min(ord(ch), 65535) for ch in str(s)]


def base_formulas(ck):
    import cnfgen
    out = []
    F = cnfgen.PigeonholePrinciple(3, 2)
    out.append(("php32", F))
    F = cnfgen.CNF([[1, -2], [2, 3], []], description="hand made, with an empty clause")
    F.update_variable_number(4)
    out.append(("hand", F))
    F = cnfgen.OrderingPrinciple(3)
    F.header["transformation 2"] = "an entry somebody put there"
    F.header["note"] = "x"
    out.append(("op3-pre2", F))
    F = cnfgen.CNF(description="empty formula")
    out.append(("empty", F))
    F = cnfgen.CNF([[1], [-1, 2]])
    del F.header["description"]
    out.append(("nodesc", F))
    if not ck.quick:
        rng = ck.rng
        fams = [("tseitin", lambda: cnfgen.TseitinFormula(gen.mk_graph(4, [[1, 2], [2, 3], [3, 4], [1, 4]]))),
                ("kcolor", lambda: cnfgen.GraphColoringFormula(gen.mk_graph(3, [[1, 2], [2, 3]]), 2)),
                ("peb", lambda: cnfgen.PebblingFormula(gen.mk_digraph(3, [[1, 3], [2, 3]]))),
                ("rphp", lambda: cnfgen.RelativizedPigeonholePrinciple(2, 2, 1)),
                ("randk", lambda: cnfgen.RandomKCNF(3, 5, 7, seed=5)),
                ("count", lambda: cnfgen.CountingPrinciple(4, 2)),
                ("bphp", lambda: cnfgen.BinaryPigeonholePrinciple(3, 2))]
        for name, fn in fams:
            out.append((name, fn()))
        for t in range(12):
            F = cnfgen.CNF(description="random formula %d with groups" % t)
            F.new_block(rng.randint(1, 3), rng.randint(1, 2), label="b%d_{{{{{{}},{{}}}}}}" % t)
            if t % 2:
                F.new_variable("Z%d" % t)
            F.update_variable_number(F.number_of_variables() + rng.randint(0, 2))
            nv = F.number_of_variables()
            for _ in range(rng.randint(0, 6)):
                F.add_clause([rng.choice((-1, 1)) * v for v in rng.sample(range(1, nv + 1), rng.randint(0, min(3, nv)))])
            for j in range(rng.randint(0, 3)):
                F.header["transformation %d" % rng.randint(1, 12)] = "pre-existing %d" % j
            out.append(("rnd%d" % t, F))
    return out


KINDS = [("xor", 2, 0), ("or", 2, 0), ("maj", 3, 0), ("eq", 2, 0), ("neq", 2, 0), ("one", 2, 0), ("exact", 2, 1),
         ("atleast", 2, 1), ("atmost", 2, 1), ("anybut", 2, 1), ("ite", 1, 0), ("flip", 1, 0), ("lift", 2, 0),
         ("shuffle", 1, 0), ("xorcomp", 0, 0), ("majcomp", 0, 0)]


def apply(kind, k, C, F, rng):
    from cnfgen.transformations.shuffle import Shuffle
    from cnfgen.graphs import bipartite_random_left_regular
    if kind == "shuffle":
        # with random, fixed or explicitly given components
        mode = rng.randrange(4)
        N, M = F.number_of_variables(), len(F)
        if mode == 0 or N == 0:
            return Shuffle(F), None
        if mode == 1:
            return Shuffle(F, "fixed", "fixed", "fixed"), None
        flips = [rng.choice((-1, 1)) for _ in range(N)]
        perm = list(range(1, N + 1))
        rng.shuffle(perm)
        cperm = list(range(M))
        rng.shuffle(cperm)
        if mode == 2:
            return Shuffle(F, flips, perm, cperm), None
        return Shuffle(F, flips, "shuffle", cperm), None
    if kind in ("xorcomp", "majcomp"):
        N = F.number_of_variables()
        B = bipartite_random_left_regular(N, max(2, N), 2, seed=rng.randint(1, 10 ** 6)) if N else \
            gen.mk_bipartite(0, 1, [])
        return c05.apply(kind, F, k, C, B), B
    return c05.apply(kind, F, k, C, None), None


def transform_records(ck):
    import cnfgen
    rng = ck.rng
    recs = []
    n = 0
    chains = [[kd] for kd in KINDS]
    if not ck.quick:        # other ranks and constants
        chains += [[(kd, k, C)] for kd, k0, C0 in KINDS if k0 >= 1 and kd not in ("flip", "shuffle", "ite")
                   for k in (1, 2, 3) for C in ((0,) if kd in ("xor", "or", "maj", "eq", "neq", "one", "lift")
                                                else (0, 1, 2, 3)) if (k, C) != (k0, C0)]
    for L in (2, 3):
        for _ in range(8 if ck.quick else 60):
            chains.append([rng.choice(KINDS) for _ in range(L)])
    # long chains of cheap steps: the numbering must keep counting past 9, 10, 11, ...
    cheap = [("flip", 1, 0), ("shuffle", 1, 0), ("or", 1, 0), ("xor", 1, 0), ("exact", 1, 1)]
    long_chains = [[("flip", 1, 0)] * 12, [rng.choice(cheap) for _ in range(14)], [rng.choice(cheap) for _ in range(23)]]
    for bname, F0 in base_formulas(ck):
        for chain in chains + (long_chains if bname in ("php32", "op3-pre2") else []):
            F = copy.deepcopy(F0)
            for depth, (kind, k, C) in enumerate(chain):
                if F.number_of_variables() > 60 or len(F) > 400 or max([len(c) for c in F.clauses()] or [0]) > 5:
                    break
                n += 1
                rec = {"id": "T-%s-%s-%d" % (bname, "+".join(x[0] for x in chain[:depth + 1]), n),
                       "rk": "transform", "kind": kind, "before": snap(F)}
                rec["desc_in"] = codes(F.header.get("description", ""))
                try:
                    G, B = apply(kind, k, C, F, rng)
                    rec["outcome"] = "ok"
                except Exception as e:
                    rec.update({"outcome": exc_name(e), "after": snap(F), "after_mut": snap(F), "out_header": [],
                                "same_object": False, "desc_out": []})
                    recs.append(rec)
                    break
                rec["after"] = snap(F)
                rec["same_object"] = G is F
                rec["out_header"] = [[str(a), str(b)] for a, b in G.header.items()]
                rec["desc_out"] = codes(G.header.get("description", ""))
                # mutate the result: the input must not move
                H = G
                H.add_clause([1] if H.number_of_variables() >= 1 else [])
                H.header["added later"] = "by the caller"
                H.update_variable_number(H.number_of_variables() + 1)
                H.new_variable("added_to_the_result")
                H.new_block(2, label="w_{{{}}}")
                for key in list(H.header):
                    if key.startswith("transformation"):
                        H.header[key] = H.header[key] + " (edited)"
                rec["after_mut"] = snap(F)
                recs.append(rec)
                # continue the chain on a fresh, unmutated result
                F, _ = apply(kind, k, C, F, _random.Random(n))
    return recs


def arg_records(ck):
    import cnfgen
    from cnfgen.formula.opb import OPB
    from cnfgen.graphs import bipartite_shift
    from cnfgen.families.subgraph import RamseyWitnessFormula
    from cnfgen.transformations.shuffle import Shuffle
    from cnfgen.transformations.substitutions import VariableCompression
    recs = []
    n = 0

    def one(name, arg_snap, call):
        nonlocal n
        n += 1
        rec = {"id": "A-%s-%d" % (name, n), "rk": "args", "what": name, "before": arg_snap()}
        try:
            call()
            rec["outcome"] = "ok"
        except Exception as e:
            rec["outcome"] = exc_name(e)
        rec["after"] = arg_snap()
        recs.append(rec)

    def gsnap(G):
        return lambda: {"g": project.graph(G), "name": str(G.name)}

    G = gen.mk_graph(5, [[1, 2], [2, 3], [3, 4], [4, 5], [1, 5], [1, 3]])
    H = gen.mk_graph(3, [[1, 2], [2, 3]])
    C4 = gen.mk_graph(4, [[1, 2], [2, 3], [3, 4], [1, 4]])
    D = gen.mk_digraph(4, [[1, 3], [2, 3], [3, 4]])
    B = gen.mk_bipartite(3, 3, [[1, 1], [1, 2], [2, 2], [3, 3], [3, 1]])
    for cls in (cnfgen.CNF, OPB):
        # graphs whose name is empty or None (snapshots compare the name too)
        for nm in ("", None):
            Gn = gen.mk_graph(4, [[1, 2], [2, 3], [3, 4], [1, 4]]); Gn.name = nm
            Dn = gen.mk_digraph(3, [[1, 3], [2, 3]]); Dn.name = nm
            Bn = gen.mk_bipartite(2, 2, [[1, 1], [2, 2], [1, 2]]); Bn.name = nm
            one("unnamed-tseitin", gsnap(Gn), lambda: cnfgen.TseitinFormula(Gn, formula_class=cls))
            one("unnamed-evencol", gsnap(Gn), lambda: cnfgen.EvenColoringFormula(Gn, formula_class=cls))
            one("unnamed-matching", gsnap(Gn), lambda: cnfgen.PerfectMatchingPrinciple(Gn, formula_class=cls))
            one("unnamed-peb", gsnap(Dn), lambda: cnfgen.PebblingFormula(Dn, formula_class=cls))
            one("unnamed-gphp", gsnap(Bn), lambda: cnfgen.GraphPigeonholePrinciple(Bn, formula_class=cls))
            one("unnamed-subsetcard", gsnap(Bn), lambda: cnfgen.SubsetCardinalityFormula(Bn, formula_class=cls))
        for name, Gx, fn in [
            ("tseitin", G, lambda: cnfgen.TseitinFormula(G, formula_class=cls)),
            ("kcolor", G, lambda: cnfgen.GraphColoringFormula(G, 3, formula_class=cls)),
            ("evencol", C4, lambda: cnfgen.EvenColoringFormula(C4, formula_class=cls)),
            ("evencol-refused", G, lambda: cnfgen.EvenColoringFormula(G, formula_class=cls)),
            ("domset", G, lambda: cnfgen.DominatingSet(G, 2, formula_class=cls)),
            ("tiling", G, lambda: cnfgen.Tiling(G, formula_class=cls)),
            ("iso-1", G, lambda: cnfgen.GraphIsomorphism(G, C4, formula_class=cls)),
            ("iso-2", C4, lambda: cnfgen.GraphIsomorphism(G, C4, formula_class=cls)),
            ("auto", H, lambda: cnfgen.GraphAutomorphism(H, formula_class=cls)),
            ("subgraph-G", G, lambda: cnfgen.SubgraphFormula(G, H, formula_class=cls)),
            ("subgraph-H", H, lambda: cnfgen.SubgraphFormula(G, H, formula_class=cls)),
            ("kclique", G, lambda: cnfgen.CliqueFormula(G, 3, formula_class=cls)),
            ("binclique", G, lambda: cnfgen.BinaryCliqueFormula(G, 3, formula_class=cls)),
            ("ramlb", G, lambda: RamseyWitnessFormula(G, 3, 3, formula_class=cls)),
            ("gop", G, lambda: cnfgen.GraphOrderingPrinciple(G, formula_class=cls)),
            ("matching", G, lambda: cnfgen.PerfectMatchingPrinciple(G, formula_class=cls)),
            ("peb", D, lambda: cnfgen.PebblingFormula(D, formula_class=cls)),
            ("stone", D, lambda: cnfgen.StoneFormula(D, 3, formula_class=cls)),
            ("sstone-D", D, lambda: cnfgen.SparseStoneFormula(D, gen.mk_bipartite(4, 2, [[1, 1], [2, 2], [3, 1], [4, 2]]), formula_class=cls)),
            ("gphp", B, lambda: cnfgen.GraphPigeonholePrinciple(B, formula_class=cls)),
            ("subsetcard", B, lambda: cnfgen.SubsetCardinalityFormula(B, formula_class=cls)),
        ]:
            one(name, gsnap(Gx), fn)
    # networkx graphs as arguments (labels as a reader would deliver them: digit strings; ints; mixed)
    import networkx as nx

    def nxsnap(X):
        return lambda: {"nodes": [repr(x) for x in X.nodes()], "edges": [[repr(a), repr(b)] for a, b in X.edges()],
                        "data": [repr(sorted(d.items())) for _, d in X.nodes(data=True)], "name": repr(getattr(X, "name", ""))}

    def nxgraph(labels, directed=False, bip=False):
        X = nx.DiGraph() if directed else nx.Graph()
        if bip:
            for i, l in enumerate(labels):
                X.add_node(l, bipartite=0 if i < len(labels) // 2 else 1)
            half = len(labels) // 2
            for a in labels[:half]:
                for b in labels[half:]:
                    if (labels.index(a) + labels.index(b)) % 2 == 0:
                        X.add_edge(a, b)
        else:
            X.add_nodes_from(labels)
            for i in range(len(labels) - 1):
                X.add_edge(labels[i], labels[i + 1])
            X.add_edge(labels[0], labels[-2])
        return X
    strs = [str(i) for i in range(1, 13)]
    for lname, labels in (("digit-strings", strs), ("ints", list(range(1, 13))), ("shuffled-strings", strs[6:] + strs[:6]),
                          ("words", ["a", "b", "c", "d", "e", "f"])):
        X = nxgraph(labels)
        for name, fn in [("tseitin", lambda X=X: cnfgen.TseitinFormula(X)), ("kcolor", lambda X=X: cnfgen.GraphColoringFormula(X, 3)),
                         ("kclique", lambda X=X: cnfgen.CliqueFormula(X, 3)), ("gop", lambda X=X: cnfgen.GraphOrderingPrinciple(X)),
                         ("domset", lambda X=X: cnfgen.DominatingSet(X, 2)), ("matching", lambda X=X: cnfgen.PerfectMatchingPrinciple(X))]:
            one("nx-%s-%s" % (lname, name), nxsnap(X), fn)
        XD = nxgraph(labels, directed=True)
        one("nx-%s-peb" % lname, nxsnap(XD), lambda XD=XD: cnfgen.PebblingFormula(XD))
        one("nx-%s-stone" % lname, nxsnap(XD), lambda XD=XD: cnfgen.StoneFormula(XD, 2))
        XB = nxgraph(labels, bip=True)
        one("nx-%s-gphp" % lname, nxsnap(XB), lambda XB=XB: cnfgen.GraphPigeonholePrinciple(XB))
        one("nx-%s-subsetcard" % lname, nxsnap(XB), lambda XB=XB: cnfgen.SubsetCardinalityFormula(XB))
    Bs = gen.mk_bipartite(4, 2, [[1, 1], [2, 2], [3, 1], [4, 2]])
    one("sstone-B", gsnap(Bs), lambda: cnfgen.SparseStoneFormula(D, Bs))
    F = cnfgen.PigeonholePrinciple(2, 2)
    Bc = gen.mk_bipartite(4, 3, [[1, 1], [1, 2], [2, 2], [3, 3], [4, 1], [4, 3]])
    one("xorcomp-B", gsnap(Bc), lambda: VariableCompression(F, Bc, "xor"))
    one("majcomp-B", gsnap(Bc), lambda: VariableCompression(F, Bc, "maj"))
    # lists of literals handed to constraint builders (both classes), also when the call fails
    for cls in (cnfgen.CNF, OPB):
        for lits0 in ([1, -2, 3], [2, 2, -1], [], [1, 2, 3, 4], [1, "x", 3], [1, 0, 2]):
            calls = [("parity", lambda F, l: F.add_parity(l, 1)),
                     ("loose_maj", lambda F, l: F.add_loose_majority(l)),
                     ("strict_min", lambda F, l: F.add_strict_minority(l)),
                     ("clause", lambda F, l: F.add_clause(l))]
            for k in (0, 1, 2, 5):
                calls += [("geq%d" % k, lambda F, l, k=k: F.cardinality_geq(l, k)),
                          ("leq%d" % k, lambda F, l, k=k: F.cardinality_leq(l, k)),
                          ("eq%d" % k, lambda F, l, k=k: F.cardinality_eq(l, k)),
                          ("neq%d" % k, lambda F, l, k=k: F.cardinality_neq(l, k))]
                if cls is cnfgen.CNF:
                    for op in ("<=", ">=", "<", ">", "==", "!="):
                        calls.append(("lin%s%d" % (op, k), lambda F, l, op=op, k=k: F.add_linear(l, op, k)))
            for cname, fn in calls:
                lits = list(lits0)
                Fx = cls()
                one("lits-%s-%s" % (cls.__name__, cname), lambda lits=lits: {"lits": [str(x) for x in lits]},
                    lambda fn=fn, Fx=Fx, lits=lits: fn(Fx, lits))
    # constraints handed to add_constraint
    for cons0 in ([(1, 1), (-2, 2), ">=", 1], [(3, -1), (1, 2), "<", 2], [(1, 1), "==", 0]):
        cons = list(cons0)
        Fx = OPB()
        one("constraint", lambda cons=cons: {"c": [str(x) for x in cons]}, lambda Fx=Fx, cons=cons: Fx.add_constraint(cons))
    # charges, patterns, planted assignments, explicit shuffle arguments
    for ch0 in ([True, False, True, True, False], [1, 0], [True] * 7):
        ch = list(ch0)
        one("charges", lambda ch=ch: {"ch": [str(x) for x in ch]}, lambda ch=ch: cnfgen.TseitinFormula(G, ch))
    for pat0 in ([3, 1, 2], [0, 2, 1], [2, 2, 0], []):
        pat = list(pat0)
        one("shift-pattern", lambda pat=pat: {"p": list(pat)}, lambda pat=pat: bipartite_shift(4, 5, pat))
    for pl0 in ([[1, -2, 3, 4]], [[1, 2, 3, 4], [-1, -2, -3, -4]]):
        pl = [list(x) for x in pl0]
        one("planted-kcnf", lambda pl=pl: {"p": [list(x) for x in pl]},
            lambda pl=pl: cnfgen.RandomKCNF(3, 4, 5, seed=3, planted_assignments=pl))
        one("planted-kxor", lambda pl=pl: {"p": [list(x) for x in pl]},
            lambda pl=pl: cnfgen.RandomKXOR(3, 4, 2, seed=3, planted_assignments=pl))
    F3 = cnfgen.CNF([[1, -2], [2, 3], [-1, -3]])
    for fl0, vp0, cp0 in (([1, -1, 1], [3, 1, 2], [2, 0, 1]), ([1, 1, 1], [1, 2, 3], [0, 1, 2]),
                          ([1, -1], [1, 2, 3], [0, 1, 2]), ([1, 1, 1], [1, 1, 3], [0, 1, 2])):
        fl, vp, cp = list(fl0), list(vp0), list(cp0)
        one("shuffle-args", lambda fl=fl, vp=vp, cp=cp: {"f": list(fl), "v": list(vp), "c": list(cp)},
            lambda fl=fl, vp=vp, cp=cp: Shuffle(F3, fl, vp, cp))
    return recs


def keyf(rec, why):
    if rec["id"].startswith("A-shift-pattern") and why == "argument_modified":
        return "args:bipartite_shift-sorts-pattern"
    return None


def main(argv=None):
    ck = common.Check("C19", argv)
    common.setup_repo_import()
    ck.model("Provenance", "Provenance.cfg", workers=8)
    recs = transform_records(ck) + arg_records(ck)
    ck.count("transformation_applications", sum(1 for r in recs if r["rk"] == "transform"))
    ck.count("argument_snapshots", sum(1 for r in recs if r["rk"] == "args"))
    ck.sample({k: recs[0][k] for k in ("id", "kind", "out_header", "same_object")})
    ck.sample(recs[-1])
    ck.judge("JudgeProvenance", recs, cfg="Judge.cfg", keyf=keyf)
    ck.assumptions += ["'keeps the original description' is read as: the original description is a prefix of the new one "
                       "(Shuffle appends ' (reshuffled)')",
                       "snapshots are taken through the public API (clauses(), number_of_variables(), all_variable_labels(), header)"]
    return ck.finish(rule="one record = one application of a transformation inside a chain (input snapshotted before / after / "
                          "after mutating the result, plus the header rule) or one argument handed to a generator or builder "
                          "(snapshotted before / after, also when the call raises)")


if __name__ == "__main__":
    common.main_wrapper(main)
