"""Catalogue of command lines and library calls shared by the CLI-level checks
(C07, C08, C10, C17, C18).  Drive-only: it just lists inputs and calls the tools."""
import io
import os
import contextlib


def write_graph_files(wd):
    """Small graph files of every type, written with the repository's writer
    (used only to hand the same graph to two tools)."""
    from cnfgen.graphs import Graph, DirectedGraph, BipartiteGraph, writeGraph
    files = {}
    G = Graph(4)
    for e in [(1, 2), (2, 3), (3, 4), (1, 4), (1, 3)]:
        G.add_edge(*e)
    H = Graph(3)
    for e in [(1, 2), (2, 3)]:
        H.add_edge(*e)
    C4 = Graph(4)
    for e in [(1, 2), (2, 3), (3, 4), (1, 4)]:
        C4.add_edge(*e)
    D = DirectedGraph(4)
    for e in [(1, 3), (2, 3), (3, 4), (1, 4)]:
        D.add_edge(*e)
    B = BipartiteGraph(3, 2)
    for e in [(1, 1), (1, 2), (2, 1), (3, 2), (3, 1)]:
        B.add_edge(*e)
    for name, g, typ, fmt in [("g4", G, "simple", "kthlist"), ("h3", H, "simple", "kthlist"),
                              ("c4", C4, "simple", "kthlist"),
                              ("d4", D, "dag", "kthlist"), ("b32", B, "bipartite", "kthlist")]:
        path = os.path.join(wd, name + "." + fmt)
        with open(path, "w") as f:
            writeGraph(g, f, typ, fmt)
        files[name] = path
    return files


def tool(name):
    """The module cnfgen.clitools.<name> (the package re-exports functions under the same names)."""
    import importlib
    import sys
    importlib.import_module("cnfgen.clitools." + name)
    return sys.modules["cnfgen.clitools." + name]


def call_cli(toolmodule, argv, mode="formula"):
    """Run cnfgen/pbgen's cli() in-process, quietly; returns the formula (or raises)."""
    import cnfgen.clitools.msg as msg
    if isinstance(toolmodule, str):
        toolmodule = tool(toolmodule)
    msg._prefix = ""
    err = io.StringIO()
    out = io.StringIO()
    with contextlib.redirect_stderr(err), contextlib.redirect_stdout(out):
        try:
            return toolmodule.cli(list(argv), mode=mode)
        finally:
            msg._prefix = ""


def formula_command_lines(ck, wd, small=True):
    """(helper name, argument list) pairs covering every formula helper and its options."""
    f = write_graph_files(wd)
    g4, h3, c4, d4, b32 = f["g4"], f["h3"], f["c4"], f["d4"], f["b32"]
    L = []

    def add(helper, *args):
        L.append((helper, [helper] + [str(a) for a in args]))

    for p, n in ((0, 0), (1, 2), (2, 1), (2, 2)):
        add("and", p, n)
        add("or", p, n)
    add("true")
    add("false")
    add("randkcnf", 3, 5, 6)
    add("randkcnf", 2, 4, 24)
    add("randkcnf", 3, 5, 4, "--plant")
    add("randkxor", 3, 5, 4)
    add("randkxor", 2, 4, 3, "--plant")
    for args in ((2,), (3, 2), (2, 3), (3, 3, 2), (b32,), ("complete", 2, 2), ("shift", 3, 3, 1, 2)):
        add("php", *args)
        add("php", *args, "--functional")
        add("php", *args, "--onto")
        add("php", *args, "--functional", "--onto")
    add("bphp", 2)
    add("bphp", 3, 2)
    add("bphp", 2, 5)
    add("cliquecoloring", 3, 2, 1)
    add("cliquecoloring", 3, 2, 2)
    add("ram", 2, 2, 3)
    add("ram", 3, 2, 4)
    add("vdw", 5, 2, 3)
    add("vdw", 4, 2, 2, 2)
    add("vdw", 3, 1, 2)
    add("ptn", 6)
    add("ptn", 13)
    add("rphp", 2, 2, 2)
    add("rphp", 1, 2, 3)
    add("parity", 3)
    add("parity", 4)
    add("matching", g4)
    add("matching", "complete", 4)
    add("count", 4, 2)
    add("count", 5, 3)
    add("tseitin", "first", g4)
    add("tseitin", "random", c4)
    add("tseitin", "randomodd", "grid", 2, 2)
    add("tseitin", "randomeven", "complete", 4)
    add("tseitin", 4, 2)
    add("subsetcard", b32)
    add("subsetcard", b32, "--equal")
    add("subsetcard", "complete", 2, 3)
    add("subsetcard", 3, 2)
    add("kcolor", 2, g4)
    add("kcolor", 3, "complete", 3)
    add("ec", c4)
    add("ec", "torus", 3, 3) if not small else None
    add("domset", 1, h3)
    add("domset", 2, c4)
    add("domset", "--alternative", 2, c4)
    add("tiling", g4)
    add("tiling", "grid", 2, 3)
    add("iso", h3)
    add("iso", h3, "-e", h3)
    add("iso", c4, "-e", g4)
    add("kclique", 2, g4)
    add("kclique", 3, g4)
    add("kclique", 3, g4, "--no-symmetry-breaking")
    add("kcliquebin", 2, g4)
    add("kcliquebin", 3, "complete", 4)
    add("ramlb", 2, 2, h3)
    add("ramlb", 3, 3, g4)
    add("subgraph", "-G", g4, "-H", h3)
    add("subgraph", "-G", c4, "-H", "complete", 3)
    for fl in ((), ("--total",), ("--smart",), ("--knuth2",), ("--knuth3",), ("--plant",), ("--total", "--plant")):
        add("op", 3, *fl)
        add("op", c4, *fl)
    add("op", 4)
    add("op", 4, 2)
    add("peb", d4)
    add("peb", "pyramid", 2)
    add("peb", "tree", 2)
    add("peb", "path", 3)
    add("stone", 2, d4)
    add("stone", 3, "pyramid", 1)
    add("stone", 3, "path", 3, "--sparse", 2)
    add("cpls", 2, 2, 2)
    add("cpls", 1, 2, 4)
    add("pitfall", 2, 1, 2, 2, 2)
    add("pitfall", 4, 2, 2, 2, 2)
    return [x for x in L if x is not None]


def library_calls(ck, small=True):
    """(name, fn(formula_class)) for the library route of C08."""
    import cnfgen
    from cnfgen.families.subgraph import RamseyWitnessFormula
    from cnfgen.families.pitfall import PitfallFormula
    from . import gen
    rng = ck.rng
    out = []

    def add(name, fn):
        out.append((name, fn))

    def rg(n, p=.5):
        e = [[u, v] for u in range(1, n + 1) for v in range(u + 1, n + 1) if rng.random() < p]
        return n, e

    def rb(L, R, p=.6):
        return L, R, [[u, v] for u in range(1, L + 1) for v in range(1, R + 1) if rng.random() < p]

    for t in range(3 if small else 12):
        n, e = rg(4)
        L, R, be = rb(3, 3)
        dn, de = rg(4, .5)
        add("php%d" % t, lambda c, t=t: cnfgen.PigeonholePrinciple(2 + t % 2, 2, t % 2 == 0, t % 3 == 0, formula_class=c))
        add("gphp%d" % t, lambda c, L=L, R=R, be=be: cnfgen.GraphPigeonholePrinciple(gen.mk_bipartite(L, R, be), formula_class=c))
        add("bphp%d" % t, lambda c, t=t: cnfgen.BinaryPigeonholePrinciple(2 + t % 2, 3, formula_class=c))
        add("rphp%d" % t, lambda c: cnfgen.RelativizedPigeonholePrinciple(2, 2, 1, formula_class=c))
        add("count%d" % t, lambda c, t=t: cnfgen.CountingPrinciple(4 + t % 2, 2, formula_class=c))
        add("matching%d" % t, lambda c, n=n, e=e: cnfgen.PerfectMatchingPrinciple(gen.mk_graph(n, e), formula_class=c))
        add("subsetcard%d" % t, lambda c, L=L, R=R, be=be, t=t: cnfgen.SubsetCardinalityFormula(gen.mk_bipartite(L, R, be), t % 2 == 0, formula_class=c))
        add("cliquecol%d" % t, lambda c: cnfgen.CliqueColoring(3, 2, 2, formula_class=c))
        add("tseitin%d" % t, lambda c, n=n, e=e: cnfgen.TseitinFormula(gen.mk_graph(n, e), formula_class=c))
        add("kcolor%d" % t, lambda c, n=n, e=e, t=t: cnfgen.GraphColoringFormula(gen.mk_graph(n, e), 2 + t % 2, formula_class=c))
        add("evencol%d" % t, lambda c: cnfgen.EvenColoringFormula(gen.mk_graph(4, [[1, 2], [2, 3], [3, 4], [1, 4]]), formula_class=c))
        add("domset%d" % t, lambda c, n=n, e=e, t=t: cnfgen.DominatingSet(gen.mk_graph(n, e), 2, t % 2 == 0, formula_class=c))
        add("tiling%d" % t, lambda c, n=n, e=e: cnfgen.Tiling(gen.mk_graph(n, e), formula_class=c))
        add("iso%d" % t, lambda c, n=n, e=e: cnfgen.GraphIsomorphism(gen.mk_graph(3, [[1, 2]]), gen.mk_graph(3, [[2, 3]]), formula_class=c))
        add("auto%d" % t, lambda c, n=n, e=e: cnfgen.GraphAutomorphism(gen.mk_graph(3, [[1, 2], [2, 3]]), formula_class=c))
        add("subgraph%d" % t, lambda c, n=n, e=e: cnfgen.SubgraphFormula(gen.mk_graph(n, e), gen.mk_graph(3, [[1, 2], [2, 3]]), formula_class=c))
        add("kclique%d" % t, lambda c, n=n, e=e: cnfgen.CliqueFormula(gen.mk_graph(n, e), 3, formula_class=c))
        add("binclique%d" % t, lambda c, n=n, e=e: cnfgen.BinaryCliqueFormula(gen.mk_graph(n, e), 2, formula_class=c))
        add("ramlb%d" % t, lambda c, n=n, e=e: RamseyWitnessFormula(gen.mk_graph(n, e), 2, 2, formula_class=c))
        add("op%d" % t, lambda c, t=t: cnfgen.OrderingPrinciple(3, t % 2 == 0, False, t % 3 == 0, formula_class=c))
        add("gop%d" % t, lambda c, n=n, e=e: cnfgen.GraphOrderingPrinciple(gen.mk_graph(n, e), formula_class=c))
        add("peb%d" % t, lambda c, dn=dn, de=de: cnfgen.PebblingFormula(gen.mk_digraph(dn, de), formula_class=c))
        add("stone%d" % t, lambda c, dn=dn, de=de: cnfgen.StoneFormula(gen.mk_digraph(dn, de), 2, formula_class=c))
        add("cpls%d" % t, lambda c: cnfgen.CPLSFormula(2, 2, 2, formula_class=c))
        add("ram%d" % t, lambda c: cnfgen.RamseyNumber(3, 3, 5, formula_class=c))
        add("vdw%d" % t, lambda c: cnfgen.VanDerWaerden(6, 2, 3, formula_class=c))
        add("vdw3c%d" % t, lambda c: cnfgen.VanDerWaerden(4, 2, 2, 3, formula_class=c))
        add("ptn%d" % t, lambda c: cnfgen.PythagoreanTriples(13, formula_class=c))
        add("pitfall%d" % t, lambda c: PitfallFormula(2, 1, 2, 2, 2, formula_class=c))
        add("randkcnf%d" % t, lambda c, t=t: cnfgen.RandomKCNF(3, 6, 8, seed=t, formula_class=c))
        add("randkxor%d" % t, lambda c, t=t: cnfgen.RandomKXOR(3, 6, 4, seed=t, formula_class=c))
    return out
