"""C05 - substitution, lifting, flip and compression compose the formula with
the gadget.

TransformMC (TLC on the model): for all CNFs over two variables with at most
two clauses of width at most two and every gadget with arity <= 3 (all
thresholds), the documented construction (gadget CNFs substituted and
distributed) satisfies the composition theorem.
Direction B: the real transformations are applied to the same formulas and to
random ones; JudgeTransform.tla decides for all assignments of the new
variables `Sat(a, T(F)) <=> side condition /\ Sat(Induced(a), F)` and the
documented variable count.
"""
import itertools

from . import common, gen, project, cands
from .exc import exc_name

BLOCK = ["xor", "or", "maj", "eq", "neq", "one"]
LIN = ["exact", "atleast", "atmost", "anybut"]


def apply(kind, F, k, C, B):
    import cnfgen.transformations.substitutions as S
    if kind == "xor":
        return S.XorSubstitution(F, k)
    if kind == "or":
        return S.OrSubstitution(F, k)
    if kind == "maj":
        return S.MajoritySubstitution(F, k)
    if kind == "eq":
        return S.AllEqualSubstitution(F, k)
    if kind == "neq":
        return S.NotAllEqualSubstitution(F, k)
    if kind == "one":
        return S.ExactlyOneSubstitution(F, k)
    if kind == "exact":
        return S.ExactlyKSubstitution(F, k, C)
    if kind == "atleast":
        return S.AtLeastKSubstitution(F, k, C)
    if kind == "atmost":
        return S.AtMostKSubstitution(F, k, C)
    if kind == "anybut":
        return S.AnythingButKSubstitution(F, k, C)
    if kind == "ite":
        return S.IfThenElseSubstitution(F)
    if kind == "flip":
        return S.FlipPolarity(F)
    if kind == "lift":
        return S.FormulaLifting(F, k)
    if kind == "xorcomp":
        return S.VariableCompression(F, B, "xor")
    if kind == "majcomp":
        return S.VariableCompression(F, B, "maj")
    raise ValueError(kind)


def mk_formula(N, clauses):
    import cnfgen
    F = cnfgen.CNF()
    F.update_variable_number(N)
    for c in clauses:
        F.add_clause(list(c))
    return F


def record(rid, kind, k, C, N, clauses, graph=None, kf=None):
    p = {"kind": kind, "k": k, "C": C}
    B = None
    if graph is not None:
        p["graph"] = graph
        B = gen.mk_bipartite(graph["L"], graph["R"], graph["edges"])
    rec = {"id": rid, "p": p, "N": N, "F": [list(c) for c in clauses]}
    if kf:
        rec["kf"] = kf
    try:
        out = apply(kind, mk_formula(N, clauses), k, C, B)
        rec["out"] = {"nvars": int(out.number_of_variables()), "clauses": project.clauses_of(out)}
        rec["outcome"] = "ok"
    except Exception as e:
        rec["out"] = {"nvars": 0, "clauses": []}
        rec["outcome"] = exc_name(e)
    return rec


def tiny_formulas(nv, maxclauses, maxwidth):
    lits = [l for l in range(-nv, nv + 1) if l]
    clauses = [()]
    for w in range(1, maxwidth + 1):
        clauses += list(itertools.product(lits, repeat=w))
    out = []
    for m in range(0, maxclauses + 1):
        out += [list(f) for f in itertools.product(clauses, repeat=m)]
    return out


def params(q):
    ps = [(kd, k, 0) for kd in BLOCK for k in (1, 2, 3)]
    ps += [(kd, k, C) for kd in LIN for k in (1, 2, 3) for C in range(0, k + 2)]
    ps += [("ite", 1, 0), ("flip", 1, 0), ("lift", 1, 0), ("lift", 2, 0), ("lift", 3, 0)]
    return ps


def instances(ck):
    q = ck.quick
    rng = ck.rng
    recs = []
    forms = tiny_formulas(2, 2, 2)              # 1 + 21 + 441 = 463 formulas over 2 variables
    n = 0
    for kind, k, C in params(q):
        fs = forms if not q else rng.sample(forms, 40)
        nvnew = {"ite": 6, "flip": 2, "lift": 4 * k}.get(kind, 2 * k)
        for F in fs:
            n += 1
            recs.append(record("t-%s-%d-%d-%d" % (kind, k, C, n), kind, k, C, 2, F,
                               kf="flip:unused-variables" if kind == "flip" else None))
    # unused trailing variables (declared 3, mentioned <= 2) and 3-variable formulas
    forms3 = [[(1, -2)], [(3,)], [(1, 2), (-1, -2)], [], [()], [(1, 1), (2, -2)], [(-3, 1), (2,)]]
    for kind, k, C in params(q):
        if k > 2:
            continue
        for j, F in enumerate(forms3):
            recs.append(record("u-%s-%d-%d-%d" % (kind, k, C, j), kind, k, C, 3, F,
                               kf="flip:unused-variables" if kind == "flip" else None))
    # compression graphs: all bipartite N x R with R <= 3
    for N, R in ((2, 1), (2, 2), (2, 3), (3, 2), (3, 3)):
        gs = list(gen.bipartite_graphs(N, R))
        for edges in rng.sample(gs, min(len(gs), 16 if q else 64)):
            Fs = rng.sample(forms, 4) if N == 2 else [forms3[j] for j in rng.sample(range(len(forms3)), 3)]
            for F in Fs:
                for kind in ("xorcomp", "majcomp"):
                    n += 1
                    recs.append(record("c-%s-%d" % (kind, n), kind, 0, 0, N, F,
                                       graph={"L": N, "R": R, "edges": edges}))
    # random larger formulas
    for t in range(20 if q else 200):
        N = rng.randint(3, 4)
        F = [tuple(rng.choice((-1, 1)) * rng.randint(1, N) for _ in range(rng.randint(0, 3)))
             for _ in range(rng.randint(1, 5))]
        kind, k, C = rng.choice(params(q))
        if kind == "lift" and k * N > (6 if q else 8):
            k = 1
        if k * N > (12 if q else 15):
            k = 2
        recs.append(record("r-%s-%d-%d-%d" % (kind, k, C, t), kind, k, C, N, F,
                           kf="flip:unused-variables" if kind == "flip" else None))
    return recs


def keyf(rec, why):
    if rec.get("kf") == "flip:unused-variables" and why == "wrong_number_of_variables":
        mentioned = max([abs(l) for c in rec["F"] for l in c] or [0])
        if mentioned < rec["N"]:
            return "flip:unused-variables"
    return None


def main(argv=None):
    ck = common.Check("C05", argv)
    common.setup_repo_import()
    ck.model("TransformMC", "TransformMC.cfg", workers=8)
    gen.scramble_insertions(ck.rng)     # compression graphs by other histories / carriers (networkx, lazy complete class)
    recs = instances(ck)
    kinds = {}
    for r in recs:
        kinds[r["p"]["kind"]] = kinds.get(r["p"]["kind"], 0) + 1
    ck.cover["records_per_kind"] = kinds
    for r in (recs[3], recs[len(recs) // 2], recs[-1]):
        ck.sample(r)
    ck.judge("JudgeTransform", recs, cfg="Judge.cfg", keyf=keyf,
             weight=lambda r: (2 ** r["out"]["nvars"]) * (1 + len(r["out"]["clauses"])))
    ck.assumptions += ["input formulas: all CNFs over 2 variables with <= 2 clauses of width <= 2 (sampled in the quick "
                       "tier), 3-variable formulas with unused variables, random formulas over <= 4 variables; arity <= 3",
                       "the block layout is the documented one (variable v owns (v-1)k+1..vk; ite: v, N+v, 2N+v; "
                       "lifting: X block then Y block per variable)"]
    return ck.finish(rule="one record = one (transformation, arity, threshold, input formula, graph); TLC evaluates "
                          "all assignments of the transformed formula")


if __name__ == "__main__":
    common.main_wrapper(main)
