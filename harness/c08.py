"""C08 - the pseudo-Boolean (OPB) and CNF renderings of a family are the same formula.

For every formula helper of the command line tools (cnfgen and pbgen share the
list) and for the library generators called with formula_class=CNF / OPB, the
two objects must have the same number of variables, the same names in the same
order and the same satisfying assignments.  JudgePair.tla (TLC) evaluates both
sides on every assignment (or on proposed candidates for large instances).
LinearMC (C04) is the model-level reason: native cardinality constraints are
equivalent to their clause blasting for every operator.
"""
import itertools
import os
import random as _random

from . import common, gen, project, tlc, cands, cliargs
from .exc import exc_name


def side(fn):
    try:
        F = fn()
    except SystemExit as e:
        return {"outcome": "CLIExit", "cls": "CNF", "nvars": 0, "labels": [], "clauses": []}
    except Exception as e:
        return {"outcome": exc_name(e), "cls": "CNF", "nvars": 0, "labels": [], "clauses": []}
    p = project.formula(F)
    out = {"outcome": "ok", "cls": p["cls"], "nvars": p["nvars"], "labels": p["labels"]}
    if p["cls"] == "OPB":
        out["constraints"] = p["constraints"]
    else:
        out["clauses"] = p["clauses"]
    return out


def pair(rid, fa, fb, rng, limit):
    rec = {"id": rid, "a": side(fa), "b": side(fb)}
    if rec["a"]["outcome"] == "ok" and rec["a"]["nvars"] > limit:
        pseudo = {"nvars": rec["a"]["nvars"], "cls": rec["a"]["cls"]}
        pseudo.update({k: rec["a"][k] for k in ("clauses", "constraints") if k in rec["a"]})
        c = cands.propose(pseudo, rng, 24)
        if rec["b"]["outcome"] == "ok" and rec["b"]["nvars"] == rec["a"]["nvars"]:
            pseudo = {"nvars": rec["b"]["nvars"], "cls": rec["b"]["cls"]}
            pseudo.update({k: rec["b"][k] for k in ("clauses", "constraints") if k in rec["b"]})
            c += [x for x in cands.propose(pseudo, rng, 24) if x not in c]
        rec["cand"] = c
    return rec


def main(argv=None):
    ck = common.Check("C08", argv)
    common.setup_repo_import()
    cg, pg = cliargs.tool('cnfgen'), cliargs.tool('pbgen')
    import cnfgen
    from cnfgen.formula.opb import OPB
    wd = tlc.workdir("C08")
    limit = 13 if ck.quick else 17
    ck.model("LinearMC", "LinearMC_blast.cfg", workers=4)
    recs = []
    # ---- command line: identical argv and seed for the two tools -------------
    lines = cliargs.formula_command_lines(ck, wd, small=True)
    helpers = set()
    for j, (helper, args) in enumerate(lines):
        helpers.add(helper)

        def run(tool, name, args=args):
            _random.seed(12345)
            return cliargs.call_cli(tool, [name, "-q", "--seed", "7"] + args)
        recs.append(pair("cli-%03d-%s" % (j, "_".join(args)[:60].replace("/", "%")),
                         lambda: run(cg, "cnfgen"), lambda: run(pg, "pbgen"), ck.rng, limit))
        recs[-1]["argv"] = " ".join(args)
    ck.cover["helpers_exercised"] = sorted(helpers)
    # ---- library: formula_class ------------------------------------------------
    libs = cliargs.library_calls(ck, small=True)
    for j, (name, fn) in enumerate(libs):
        def a(fn=fn):
            _random.seed(777)
            return fn(cnfgen.CNF)

        def b(fn=fn):
            _random.seed(777)
            return fn(OPB)
        recs.append(pair("lib-%03d-%s" % (j, name), a, b, ck.rng, limit))
    # ---- arbitrary clause lists (tautological clauses, repeated literals, empty clauses, unused variables):
    #      the 'dimacs' sub-command of the two tools on the same file, and the two classes fed the same clauses
    shapes = [[[1, -1, 2], [-2, 3]], [[1, 1], [2, -2, 2], [-3]], [[], [1, 2]], [[1, -1]], [[2, 2, -1], [1]],
              [[1, 2, 3], [-1, -1, -2], [3, -3, 1, -1]], [[4]], [[-1, 1], [-1, 1], [2]]]
    for t in range(12 if ck.quick else 120):
        n = ck.rng.randint(1, 5)
        shapes.append([[ck.rng.choice((-1, 1)) * ck.rng.randint(1, n) for _ in range(ck.rng.choice((0, 1, 2, 3, 3, 4)))]
                       for _ in range(ck.rng.randint(0, 5))])
    for j, cls in enumerate(shapes):
        n = max([abs(l) for c in cls for l in c] + [1]) + (j % 2)
        path = os.path.join(wd, "cl%d.cnf" % j)
        with open(path, "w") as f:
            f.write("p cnf %d %d\n" % (n, len(cls)) + "".join(" ".join(map(str, c + [0])) + "\n" for c in cls))

        def run(tool, name, path=path):
            return cliargs.call_cli(tool, [name, "-q", "dimacs", path])
        recs.append(pair("dimacs-%03d" % j, lambda: run(cg, "cnfgen"), lambda: run(pg, "pbgen"), ck.rng, limit))
        recs[-1]["argv"] = "dimacs <%r>" % (cls,)

        def a(cls=cls, n=n):
            F = cnfgen.CNF(cls)
            F.update_variable_number(n)
            return F

        def b(cls=cls, n=n):
            F = OPB()
            F.add_clauses_from(cls)
            F.update_variable_number(n)
            return F
        recs.append(pair("clauses-%03d" % j, a, b, ck.rng, limit))
    # ---- small scope: every family instance that C01 / C02 build in both classes ------------
    from . import c01, c02
    both = {}
    for r in c01.instances(ck) + c02.instances(ck):
        if r["outcome"] != "ok":
            continue
        key = r["id"][:-4] if r["id"].endswith(("-CNF", "-OPB")) else r["id"]
        both.setdefault(key, {})[r["cls"]] = r
    npairs = 0
    for key, d in sorted(both.items()):
        if "CNF" in d and "OPB" in d and d["CNF"]["nvars"] <= limit:
            def sd(x):
                o = {"outcome": "ok", "cls": x["cls"], "nvars": x["nvars"], "labels": [str(g) + ":" + ",".join(map(str, i)) for g, i in zip(x["grp"], x["idx"])]}
                o["constraints" if x["cls"] == "OPB" else "clauses"] = x["constraints" if x["cls"] == "OPB" else "clauses"]
                return o
            recs.append({"id": "fam-%04d" % npairs, "a": sd(d["CNF"]), "b": sd(d["OPB"]), "argv": key})
            npairs += 1
    ck.count("pairs_small_scope_families", npairs)
    # ---- command lines whose graph argument AND formula are random: only --seed is shared ------
    seedonly = [["tseitin", "random", "gnp", "7", ".5"], ["tseitin", "randomeven", "gnd", "8", "3"],
                ["tseitin", "randomodd", "gnm", "6", "7"], ["php", "5", "4", "2"], ["tseitin", "8", "3"],
                ["subsetcard", "4", "2"], ["stone", "3", "pyramid", "2", "--sparse", "2"], ["op", "6", "3"],
                ["kcolor", "3", "gnp", "6", ".5"], ["randkcnf", "3", "7", "9"], ["randkxor", "3", "7", "4", "--plant"]]
    for j, args in enumerate(seedonly):
        for s_ in (3, 11) if ck.quick else (0, 3, 11, 42):
            def run(tool, name, pre, args=args, s_=s_):
                _random.seed(pre)          # different junk before each tool: only --seed may matter
                return cliargs.call_cli(tool, [name, "-q", "--seed", str(s_)] + args)
            recs.append(pair("seedonly-%02d-%d" % (j, s_), lambda: run(cg, "cnfgen", 1001), lambda: run(pg, "pbgen", 2002),
                             ck.rng, limit))
            recs[-1]["argv"] = "--seed %d %s" % (s_, " ".join(args))
    for r in (recs[0], recs[len(recs) // 2]):
        ck.sample({"id": r["id"], "argv": r.get("argv", ""), "nvars": r["a"]["nvars"],
                   "classes": [r["a"]["cls"], r["b"]["cls"]]})
    ck.count("pairs_cli", len(lines))
    ck.count("pairs_library", len(libs))
    ck.count("pairs_where_pbgen_object_is_pseudo_boolean", sum(1 for r in recs if r["b"].get("cls") == "OPB"))

    def w(r):
        if "cand" in r:
            return 50
        return 2 ** r["a"]["nvars"] * (1 + len(r["a"].get("clauses", [])))
    ck.judge("JudgePair", recs, cfg="Judge.cfg", weight=w)
    ck.assumptions += ["instances with more than %d variables are compared on proposed candidate assignments only" % limit,
                       "random graph arguments are avoided (named graphs and graph files instead) so that both tools "
                       "see the same graph; seeded random formulas use --seed 7"]
    return ck.finish(rule="one pair = the same argument vector given to cnfgen and pbgen, or the same library call with "
                          "formula_class CNF and OPB; TLC compares counts, names and all assignments")


if __name__ == "__main__":
    common.main_wrapper(main)
