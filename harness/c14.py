"""C14 - graph files round-trip in every supported format; bad files are rejected.

Specification: spec/GraphIO.tla (denotation of a kthlist / dimacs / matrix
text written from the format documentation, pure writers, implementation
shaped reader machines, invariants Conforms / Complete / RoundTripOK /
DagAccept model-checked exhaustively by TLC) and spec/JudgeGraphIO.tla (the
verdicts).

Binding:
 (B)  every small graph of each type (and random graphs with two-digit
      vertex numbers) is written with the real writeGraph and read back with
      the real readGraph / <Class>.from_file / the `<format> <file> save ...`
      graph argument of the command line, in every advertised (type, format)
      pair; TLC judges  graph read = graph written  and, for the in-house
      formats, that the written file denotes the graph.
 (A)  TLC enumerates texts (token lines over small alphabets: every path of
      the reader machines up to a refusal, every short text, random long
      machine-valid texts); they are rendered to concrete texts in several
      spellings (blank/comment lines, \\r\\n, tabs, tight colons, no final
      newline), given to the real readers, lexed back by the independent
      lexers below and judged by TLC: outcome in Allowed(text).
 (B') valid files of all five formats are truncated and mutated; the outcome
      must be a graph (the denoted one, for in-house formats) or ValueError.

Python here drives, projects (lexers, graph projection) and renders; every
verdict is computed by TLC.
"""
import contextlib
import hashlib
import io
import json
import logging
import os
import re
import concurrent.futures as cf

from . import common, tlc, gen
from .exc import exc_name

INHOUSE = ("kthlist", "dimacs", "matrix")
KNOWN_FORMATS = ("kthlist", "gml", "dot", "dimacs", "matrix")
TYPES = ("simple", "digraph", "dag", "bipartite")
BIGINT = 100000          # texts with larger numbers are not generated (a size line of 10^9 is a memory test, not a parser test)
NOREAD = {"n": 0, "r": 0, "edges": [], "m": 0}

# ---------------------------------------------------------------------------
# projections (trusted base): lexers written from the format definitions


_EOL = re.compile(r"\r\n|\n|\r")


def split_lines(text):
    """Physical lines (universal newlines); a final newline does not open a new line."""
    parts = _EOL.split(text)
    if parts and parts[-1] == "":
        parts.pop()
    return parts


def tok(s):
    """An integer token is whatever Python's int() reads."""
    try:
        v = int(s)
    except ValueError:
        return {"i": 0, "w": s}
    return {"i": v, "w": ""}


def lex(text, fmt):
    """text -> token lines [{k: first character of the stripped line | 'blank', t: tokens}].
    Tokens are separated by whitespace; in kthlist the colon is a token of its own."""
    out = []
    for raw in split_lines(text):
        s = raw.strip()
        parts = (s.replace(":", " : ") if fmt == "kthlist" else s).split()
        out.append({"k": s[0] if parts else "blank", "t": [tok(p) for p in parts]})
    return out


def max_int(lines):
    return max([abs(t["i"]) for l in lines for t in l["t"]] + [0])


def project(G):
    """cnfgen graph object -> {n, r, edges, m} through the public API."""
    if G.is_bipartite():
        n, r = int(G.left_order()), int(G.right_order())
    else:
        n, r = int(G.number_of_vertices()), 0
    return {"n": n, "r": r, "edges": [[int(u), int(v)] for u, v in G.edges()],
            "m": int(G.number_of_edges())}


# ---------------------------------------------------------------------------
# rendering token lines (from TLC) to concrete text

STYLES = [
    {"eol": "\n", "final": True, "sep": " ", "pad": "", "colon": " : "},      # canonical
    {"eol": "\r\n", "final": True, "sep": " ", "pad": "", "colon": " : "},    # DOS line ends
    {"eol": "\n", "final": False, "sep": "  ", "pad": " ", "colon": ": "},    # no final newline, padding
    {"eol": "\n", "final": True, "sep": "\t", "pad": "\t", "colon": ":"},     # tabs, tight colon
    {"eol": "\r\n", "final": False, "sep": " ", "pad": "  ", "colon": " :"},
]


def render(lines, fmt, style):
    st = STYLES[style]
    out = []
    for l in lines:
        words = [str(t["i"]) if t["w"] == "" else t["w"] for t in l["t"]]
        if not words:
            out.append(st["pad"])
            continue
        s = st["sep"].join(words)
        if fmt == "kthlist" and l["k"] not in ("c", "C"):
            s = s.replace(st["sep"] + ":" + st["sep"], st["colon"])
        if l["k"] not in ("c", "C", "#"):        # comments keep their marker in column one
            s = st["pad"] + s + st["pad"]
        out.append(s)
    text = st["eol"].join(out)
    if out and (st["final"] or out[-1].strip() == ""):
        text += st["eol"]
    return text


# ---------------------------------------------------------------------------
# driving the implementation


def _classes():
    from cnfgen.graphs import Graph, DirectedGraph, BipartiteGraph
    return {"simple": Graph, "digraph": DirectedGraph, "dag": DirectedGraph, "bipartite": BipartiteGraph}


def build(gtype, n, r, edges, lazy=False):
    if lazy:        # the complete bipartite graph as the class that stores no edge
        from cnfgen.graphs import CompleteBipartiteGraph
        return CompleteBipartiteGraph(n, r)
    cls = _classes()[gtype]
    G = cls(n, r) if gtype == "bipartite" else cls(n)
    for u, v in edges:
        G.add_edge(u, v)
    return G


def outcome_of(e):
    """ValueError (and its subclasses, as `except ValueError` sees them) or the class name."""
    return "ValueError" if isinstance(e, ValueError) else exc_name(e)


@contextlib.contextmanager
def quiet():
    with contextlib.redirect_stdout(io.StringIO()), contextlib.redirect_stderr(io.StringIO()):
        yield


WD = None   # scratch directory, set in main()


def _fname(rid, fmt, tag=""):
    return os.path.join(WD, "f%s%s.%s" % (hashlib.sha1(rid.encode()).hexdigest()[:16], tag, fmt))


def read_text(text, gtype, fmt, path, rid):
    """Give a concrete text to a real reader. Returns (outcome, projected graph, exc detail)."""
    from cnfgen.graphs import readGraph
    fn = None
    try:
        with quiet():
            if path == "stringio":
                G = readGraph(io.StringIO(text), gtype, fmt)
            else:
                fn = _fname(rid, fmt)
                with open(fn, "w", encoding="utf-8", newline="") as f:
                    f.write(text)
                if path == "file":              # file name, format from the extension
                    G = readGraph(fn, gtype)
                elif path == "from_file":
                    G = _classes()[gtype].from_file(fn)
                elif path == "cli":             # graph argument `<format> <file>`
                    from cnfgen.clitools.graph_args import make_graph_from_spec
                    G = make_graph_from_spec(gtype, [fmt, fn])
                else:
                    raise tlc.MachineryError("unknown path %r" % path)
        return "accept", project(G), ""
    except tlc.MachineryError:
        raise
    except KeyboardInterrupt:
        raise
    except BaseException as e:
        return outcome_of(e), dict(NOREAD), "%s: %s" % (type(e).__name__, str(e)[:160])
    finally:
        if fn and os.path.exists(fn):
            os.unlink(fn)


def run_text(job):
    """job = dict(id, type, fmt, path, text, src) -> judge record."""
    outcome, read, detail = read_text(job["text"], job["type"], job["fmt"], job["path"], job["id"])
    rec = {"id": job["id"], "kind": "text", "type": job["type"], "fmt": job["fmt"], "path": job["path"],
           "src": job["src"], "text": job["text"], "outcome": outcome, "read": read}
    if detail:
        rec["detail"] = detail
    if job["fmt"] in INHOUSE:
        rec["lines"] = lex(job["text"], job["fmt"])
    return rec


def run_roundtrip(job):
    """job = dict(id, type, fmt, path, n, r, edges) -> list of judge records.
    stringio: writeGraph to a buffer, readGraph from a buffer
    file:     writeGraph to a file name (format from the extension), <Class>.from_file(name)
              (readGraph(name, 'dag') for dags: from_file has no dag type)
    cli:      writeGraph to file 1; graph argument `<fmt> file1 save <fmt> file2` (reads 1, writes 2);
              readGraph(file2): two records, what the argument returned and what it saved"""
    from cnfgen.graphs import readGraph, writeGraph
    gtype, fmt, path = job["type"], job["fmt"], job["path"]
    graph = {"n": job["n"], "r": job["r"], "edges": job["edges"]}
    base = {"kind": "rt", "type": gtype, "fmt": fmt, "path": path, "graph": graph}
    recs = []
    files = []

    def record(rid, outcome, read, text, detail=""):
        rec = dict(base, id=rid, outcome=outcome, read=read, text=text)
        if detail:
            rec["detail"] = detail
        if fmt in INHOUSE and text is not None:
            rec["lines"] = lex(text, fmt)
        if text is None:
            rec["text"] = ""
        recs.append(rec)

    text = None
    try:
        with quiet():
            G = build(gtype, job["n"], job["r"], job["edges"], job.get("lazy", False))
            if path == "stringio":
                buf = io.StringIO()
                writeGraph(G, buf, gtype, fmt)
                text = buf.getvalue()
            else:
                fn = _fname(job["id"], fmt)
                files.append(fn)
                if path == "file":
                    writeGraph(G, fn, gtype)
                else:
                    writeGraph(G, fn, gtype, fmt)
                with open(fn, encoding="utf-8", newline="") as f:
                    text = f.read()
    except KeyboardInterrupt:
        raise
    except BaseException as e:
        record(job["id"], "write_" + exc_name(e), dict(NOREAD), None, "%s: %s" % (type(e).__name__, str(e)[:160]))
        return recs
    try:
        try:
            with quiet():
                if path == "stringio":
                    H = readGraph(io.StringIO(text), gtype, fmt)
                elif path == "file":
                    H = readGraph(fn, "dag") if gtype == "dag" else _classes()[gtype].from_file(fn)
                else:
                    from cnfgen.clitools.graph_args import make_graph_from_spec
                    fn2 = _fname(job["id"], fmt, "s")
                    files.append(fn2)
                    H = make_graph_from_spec(gtype, [fmt, fn, "save", fmt, fn2])
            record(job["id"], "accept", project(H), text)
        except KeyboardInterrupt:
            raise
        except BaseException as e:
            record(job["id"], outcome_of(e), dict(NOREAD), text, "%s: %s" % (type(e).__name__, str(e)[:160]))
            return recs
        if path == "cli":
            try:
                with open(fn2, encoding="utf-8", newline="") as f:
                    text2 = f.read()
                with quiet():
                    H2 = readGraph(fn2, gtype, fmt)
                record(job["id"].replace("-cli-", "-sav-"), "accept", project(H2), text2)
            except KeyboardInterrupt:
                raise
            except BaseException as e:
                record(job["id"].replace("-cli-", "-sav-"), outcome_of(e), dict(NOREAD), None,
                       "%s: %s" % (type(e).__name__, str(e)[:160]))
    finally:
        for f in files:
            if os.path.exists(f):
                os.unlink(f)
    return recs


# ---------------------------------------------------------------------------
# (B) the graphs that are written and read back


CODE = {"kthlist": "kth", "gml": "gml", "dot": "dot", "dimacs": "dim", "matrix": "mat",
        "simple": "sim", "digraph": "dig", "dag": "dag", "bipartite": "bip",
        "stringio": "sio", "file": "fil", "from_file": "ffl", "cli": "cli", "cli-saved": "sav"}


def make_id(kind, fmt, gtype, path, content):
    """Short ids (TLC wraps printed tuples at 80 columns): <kind>-<fmt>-<type>-<path>-<hash of the content>."""
    return "%s-%s-%s-%s-%s" % (kind, CODE[fmt], CODE[gtype], CODE[path],
                               hashlib.sha1(content.encode()).hexdigest()[:10])


def small_graphs(ck):
    """(type, n, r, edges, tag) of the bounded-exhaustive scope."""
    rng, q = ck.rng, ck.quick
    out = []
    for n in range(0, 5):
        for e in gen.simple_graphs(n):
            out.append(("simple", n, 0, e, "all<=4"))
            out.append(("dag", n, 0, e, "all<=4"))
    for n in range(0, 4):
        for e in gen.digraphs(n):
            out.append(("digraph", n, 0, e, "all<=3"))
    four = list(gen.digraphs(4))
    for e in (rng.sample(four, 160) if q else four):
        out.append(("digraph", 4, 0, e, "n=4"))
    # directed graphs may carry loops
    for n in (1, 2):
        pairs = [(u, v) for u in range(1, n + 1) for v in range(1, n + 1)]
        for mask in range(1 << len(pairs)):
            e = [list(p) for k, p in enumerate(pairs) if mask >> k & 1]
            if any(u == v for u, v in e):
                out.append(("digraph", n, 0, e, "loops"))
    for L in range(0, 4):
        for R in range(0, 4):
            for e in gen.bipartite_graphs(L, R):
                out.append(("bipartite", L, R, e, "all<=3x3"))
    # declared acyclic but with a backward edge or a loop: must be refused when read as dag
    bad = [e for n in (2, 3) for e in gen.digraphs(n) if any(u > v for u, v in e)]
    for e in rng.sample(bad, 12 if q else 50):
        n = max(max(p) for p in e)
        out.append(("dag", n, 0, e, "not-upward"))
    out.append(("dag", 2, 0, [[1, 2], [2, 2]], "not-upward"))
    return out


def large_graphs(ck):
    """random graphs with 10..14 vertices (two-digit labels), sparse enough to have isolated vertices"""
    rng = ck.rng
    out = []
    k = 10 if ck.quick else 80
    for t in range(k):
        n = rng.randint(10, 14)
        p = rng.choice((0.08, 0.2, 0.5))
        und = [[u, v] for u in range(1, n + 1) for v in range(u + 1, n + 1) if rng.random() < p]
        out.append(("simple", n, 0, und, "random10-14"))
        out.append(("dag", n, 0, [e for e in und if rng.random() < .7], "random10-14"))
        di = [[u, v] for u in range(1, n + 1) for v in range(1, n + 1) if u != v and rng.random() < p / 2]
        out.append(("digraph", n, 0, di, "random10-14"))
        L, R = rng.choice(((10, 3), (3, 11), (12, 12), (5, 9), (11, 2), (1, 13), (10, 10), (7, 7)))
        be = [[u, v] for u in range(1, L + 1) for v in range(1, R + 1) if rng.random() < p]
        out.append(("bipartite", L, R, be, "random10-14"))
    for L, R in ((10, 3), (2, 11), (4, 4)):
        out.append(("bipartite", L, R, [[u, v] for u in range(1, L + 1) for v in range(1, R + 1)], "random10-14"))
    return out


def roundtrip_jobs(ck, formats):
    jobs = []
    seen = set()
    graphs = small_graphs(ck) + large_graphs(ck)
    for gtype, n, r, edges, tag in graphs:
        for fmt in formats[gtype]:
            for path in ("stringio", "file", "cli"):
                if path != "stringio":
                    # the file / command line paths share the code under test: a sample in the quick tier
                    if ck.quick and tag not in ("random10-14", "not-upward", "loops") and ck.rng.random() > 0.12:
                        continue
                rid = make_id("B", fmt, gtype, path, "%d.%d.%s" % (n, r, gen.gid(edges)))
                if rid in seen:
                    continue
                seen.add(rid)
                jobs.append({"id": rid, "type": gtype, "fmt": fmt, "path": path, "n": n, "r": r,
                             "edges": edges, "tag": tag})
                ck.count("roundtrip_%s_%s" % (gtype, fmt))
                if gtype == "bipartite" and len(edges) == n * r and path != "cli":
                    jobs.append({"id": rid + "L", "type": gtype, "fmt": fmt, "path": path, "n": n, "r": r,
                                 "edges": edges, "tag": tag, "lazy": True})
                    ck.count("roundtrip_complete_bipartite_class_%s" % fmt)
    return jobs


# ---------------------------------------------------------------------------
# (A) texts enumerated by TLC

MC_CFGS = [  # (cfg, fmt, type, quick MaxLen)
    ("GraphIO_mc_kthlist_simple.cfg", "kthlist", "simple", 4),
    ("GraphIO_mc_kthlist_digraph.cfg", "kthlist", "digraph", 4),
    ("GraphIO_mc_kthlist_dag.cfg", "kthlist", "dag", 3),
    ("GraphIO_mc_kthlist_bipartite.cfg", "kthlist", "bipartite", 4),
    ("GraphIO_mc_dimacs_simple.cfg", "dimacs", "simple", 3),
    ("GraphIO_mc_dimacs_digraph.cfg", "dimacs", "digraph", 3),
    ("GraphIO_mc_dimacs_dag.cfg", "dimacs", "dag", 3),
    ("GraphIO_mc_dimacs_digraph_n2.cfg", "dimacs", "digraph", 4),
    ("GraphIO_mc_matrix_bipartite.cfg", "matrix", "bipartite", 4),
]

RT_CFGS = ["GraphIO_rt_kthlist_simple.cfg", "GraphIO_rt_kthlist_digraph.cfg", "GraphIO_rt_kthlist_dag.cfg",
           "GraphIO_rt_kthlist_bipartite.cfg", "GraphIO_rt_dimacs_simple.cfg", "GraphIO_rt_dimacs_digraph.cfg",
           "GraphIO_rt_dimacs_dag.cfg", "GraphIO_rt_matrix_bipartite.cfg"]
EX_CFGS = [  # export base cfg, fmt, type of the alphabet, types the texts are read as
    ("GraphIO_mc_kthlist_simple.cfg", "kthlist", "simple", ("simple",)),
    ("GraphIO_mc_kthlist_digraph.cfg", "kthlist", "digraph", ("digraph", "dag")),
    ("GraphIO_mc_kthlist_bipartite.cfg", "kthlist", "bipartite", ("bipartite",)),
    ("GraphIO_mc_dimacs_simple.cfg", "dimacs", "simple", ("simple",)),
    ("GraphIO_mc_dimacs_digraph.cfg", "dimacs", "digraph", ("digraph", "dag")),
    ("GraphIO_mc_matrix_bipartite.cfg", "matrix", "bipartite", ("bipartite",)),
]


def derive(base, name, inv=None, **consts):
    """A variant of a static cfg of spec/: other constants, other invariants."""
    with open(os.path.join(tlc.SPEC, base)) as f:
        s = f.read()
    for k, v in consts.items():
        s, n = re.subn(r"(?m)^  %s = .*$" % k, "  %s = %s" % (k, v), s)
        if n != 1:
            raise tlc.MachineryError("constant %s not found in %s" % (k, base))
    if inv is not None:
        s = re.sub(r"(?m)^INVARIANT .*\n", "", s)
        s = s.replace("CHECK_DEADLOCK", "".join("INVARIANT %s\n" % i for i in inv) + "CHECK_DEADLOCK")
    p = os.path.join(WD, name)
    with open(p, "w") as f:
        f.write(s)
    return p


def model_checks(quick):
    """Exhaustive TLC runs of GraphIO (free mode and round trip mode), several at a time."""
    runs = []
    for base, fmt, gtype, qlen in MC_CFGS:
        cfg = derive(base, "q_" + base, MaxLen=qlen) if quick else os.path.join(tlc.SPEC, base)
        runs.append((base, cfg))
    for base in RT_CFGS:
        runs.append((base, os.path.join(tlc.SPEC, base)))
    par = 4 if quick else 2
    workers = max(2, tlc.NCPU // par)

    def one(r):
        return tlc.model_check("GraphIO", r[1], workers=workers, timeout=1500, heap="3g" if quick else "6g")
    with cf.ThreadPoolExecutor(max_workers=par) as ex:
        results = list(ex.map(one, runs))
    return [(base, {k: r[k] for k in ("distinct", "generated", "depth", "wall")})
            for (base, cfg), r in zip(runs, results)]


def _model_checks_child(conn, quick):
    try:
        conn.send(("ok", model_checks(quick)))
    except BaseException as e:      # reported by the parent as a machinery failure
        conn.send(("error", "%s: %s" % (type(e).__name__, e)))
    finally:
        conn.close()


def start_model_checks(quick):
    """The model checks run in a child process next to the implementation runs (a process, not a
    thread: the parent forks worker pools and must stay single-threaded)."""
    import multiprocessing as mp
    ctx = mp.get_context("fork")
    recv, send = ctx.Pipe(duplex=False)
    proc = ctx.Process(target=_model_checks_child, args=(send, quick))
    proc.start()
    send.close()
    return proc, recv


def finish_model_checks(ck, handle):
    proc, recv = handle
    try:
        status, payload = recv.recv()
    except EOFError:
        status, payload = "error", "model check process died"
    proc.join()
    if status != "ok":
        raise tlc.MachineryError("model checks of GraphIO failed: %s" % payload)
    account_model_checks(ck, payload)


def account_model_checks(ck, results):
    for base, r in results:
        if r["distinct"] == 0:
            raise tlc.MachineryError("model check %s explored no state" % base)
        ck.states += r["distinct"]
        ck.transitions += r["generated"]
        ck.model_runs.append({"module": "GraphIO", "cfg": base, "distinct": r["distinct"],
                              "generated": r["generated"], "depth": r["depth"], "wall_s": round(r["wall"], 1)})


def export_texts(ck):
    """TLC prints the texts it explored; returns [(fmt, types, source, lines, reference machine's answer)]."""
    q = ck.quick
    plans = []
    for base, fmt, gtype, rtypes in EX_CFGS:
        deep = {"kthlist": 3 if q else 4, "dimacs": 3 if q else 4, "matrix": 3 if q else 5}[fmt]
        short = 2 if q or fmt == "kthlist" else 3       # |alphabet|^short texts
        plans.append((base, fmt, rtypes, "machine-paths", dict(MaxLen=deep, Emit="TRUE"), []))
        plans.append((base, fmt, rtypes, "all-short-texts", dict(MaxLen=short, Emit="TRUE", Prune="FALSE"), []))
        plans.append((base, fmt, rtypes, "guided-walks", dict(MaxLen=8 if q else 10, Emit="TRUE", Guide="TRUE"),
                      ["-simulate", "num=%d" % (60 if q else 1200), "-depth", "14", "-seed", str(ck.seed + 11)]))

    def one(pl):
        base, fmt, rtypes, src, consts, extra = pl
        cfg = derive(base, "ex_%s_%s" % (src, base), inv=["EmitInv"], **consts)
        return tlc.export("GraphIO", cfg, extra=extra, timeout=1500, heap="3g")
    with cf.ThreadPoolExecutor(max_workers=min(tlc.NCPU, len(plans))) as ex:
        results = list(ex.map(one, plans))
    texts = []
    for pl, (objs, r) in zip(plans, results):
        base, fmt, rtypes, src, consts, extra = pl
        if not objs:
            raise tlc.MachineryError("export %s/%s printed no text" % (base, src))
        ck.states += r["distinct"]
        ck.transitions += r["generated"]
        ck.model_runs.append({"module": "GraphIO", "cfg": base, "export": src, "exported": len(objs),
                              "distinct": r["distinct"], "generated": r["generated"], "wall_s": round(r["wall"], 1)})
        limit = {"machine-paths": 1500 if q else 6000, "all-short-texts": 700 if q else 4000,
                 "guided-walks": 10 ** 9}[src]
        seen = set()
        uniq = []
        for o in objs:
            key = json.dumps(o["lines"], sort_keys=True)
            if key not in seen:
                seen.add(key)
                uniq.append(o)
        if len(uniq) > limit:
            uniq = ck.rng.sample(uniq, limit)
        ck.count("texts_%s_%s_%s" % (src, fmt, rtypes[0]), len(uniq))
        for o in uniq:
            texts.append((fmt, rtypes, src, o["lines"], o["mach"]))
    return texts


def text_jobs(ck, texts, formats):
    jobs = []
    seen = set()
    for fmt, rtypes, src, lines, mach in texts:
        styles = [ck.rng.randrange(1, len(STYLES))]
        if not ck.quick or ck.rng.random() < 0.5:
            styles.insert(0, 0)
        for style in styles:
            text = render(lines, fmt, style)
            if lex(text, fmt) != lines:   # the lexer is the trusted projection: it must invert the renderer
                raise tlc.MachineryError("lexer does not invert the renderer on %r (style %d): %r"
                                         % (lines, style, text))
            for gtype in rtypes:
                if fmt not in formats[gtype]:
                    continue
                paths = ["stringio"]
                r = ck.rng.random()
                if r < (0.04 if ck.quick else 0.08):
                    paths.append("cli")
                elif r < (0.08 if ck.quick else 0.16):
                    paths.append("file" if gtype == "dag" else "from_file")
                for path in paths:
                    rid = make_id("A", fmt, gtype, path, text)
                    if rid in seen:
                        continue
                    seen.add(rid)
                    jobs.append({"id": rid, "type": gtype, "fmt": fmt, "path": path, "text": text,
                                 "src": src, "mach": mach})
    return jobs


# ---------------------------------------------------------------------------
# (B') truncation / mutation of valid files

JUNK = ["", " ", "x", "0", "1", "-1", "99", ":", "c", "p edge", "e 1", "#", "[", "]", "\"", "->", "--", "{", "}",
        "node", "edge", "graph [", "1 : 0", "e 1 1", "p edge 2 1", "2", "0 0", "\t"]


def mutate(text, rng):
    lines = text.split("\n")
    op = rng.randrange(9)
    if op == 0:                                   # truncate anywhere
        return text[:rng.randrange(len(text) + 1)]
    if op == 1 and lines:                         # drop a line
        i = rng.randrange(len(lines))
        return "\n".join(lines[:i] + lines[i + 1:])
    if op == 2 and lines:                         # repeat a line
        i = rng.randrange(len(lines))
        j = rng.randrange(len(lines) + 1)
        return "\n".join(lines[:j] + [lines[i]] + lines[j:])
    if op == 3 and len(lines) > 1:                # swap two lines
        i, j = rng.randrange(len(lines)), rng.randrange(len(lines))
        lines[i], lines[j] = lines[j], lines[i]
        return "\n".join(lines)
    if op == 4:                                   # insert a junk line
        j = rng.randrange(len(lines) + 1)
        return "\n".join(lines[:j] + [rng.choice(JUNK)] + lines[j:])
    if op == 5:                                   # replace a token
        toks = re.split(r"(\s+)", text)
        idx = [k for k, t in enumerate(toks) if t and not t.isspace()]
        if idx:
            toks[rng.choice(idx)] = rng.choice(JUNK).replace(" ", "")
            return "".join(toks)
    if op == 6 and text:                          # change a character
        i = rng.randrange(len(text))
        return text[:i] + rng.choice("0123456789 :cpe#x-\n[]\"") + text[i + 1:]
    if op == 7 and text:                          # delete a character
        i = rng.randrange(len(text))
        return text[:i] + text[i + 1:]
    return text.replace("\n", "\r\n") if rng.random() < .5 else "\n" + text   # DOS line ends / leading blank line


def fuzz_jobs(ck, formats):
    from cnfgen.graphs import writeGraph
    rng = ck.rng
    jobs = []
    seen = set()
    per_pair = 110 if ck.quick else 1600
    for gtype in TYPES:
        for fmt in formats[gtype]:
            bases = []
            for t in range(6 if ck.quick else 30):
                if gtype == "bipartite":
                    n, r = rng.randint(0, 6), rng.randint(0, 6)
                    edges = [[u, v] for u in range(1, n + 1) for v in range(1, r + 1) if rng.random() < .4]
                else:
                    n, r = rng.choice((0, 1, 2, 3, 4, 5, 7, 11)), 0
                    edges = [[u, v] for u in range(1, n + 1) for v in range(u + 1, n + 1) if rng.random() < .4]
                    if gtype == "digraph":
                        edges += [[v, u] for u, v in edges if rng.random() < .3]
                buf = io.StringIO()
                with quiet():
                    writeGraph(build(gtype, n, r, edges), buf, gtype, fmt)
                bases.append(buf.getvalue())
            k = 0
            tries = 0
            while k < per_pair and tries < per_pair * 20:
                tries += 1
                text = mutate(rng.choice(bases), rng)
                for _ in range(rng.choice((0, 0, 1, 2))):
                    text = mutate(text, rng)
                if not text.isascii() or "\x0b" in text or "\x0c" in text:
                    continue
                if fmt in INHOUSE and max_int(lex(text, fmt)) >= BIGINT:
                    continue
                if fmt not in INHOUSE and re.search(r"\d{7,}", text):
                    continue
                path = "stringio" if ("\r" in text or rng.random() < .85) else "file"
                if "\r" in text and re.search(r"\r(?!\n)", text):
                    path = "file"           # a lone CR is a line end only through a real file
                rid = make_id("F", fmt, gtype, path, text)
                if rid in seen:
                    continue
                seen.add(rid)
                jobs.append({"id": rid, "type": gtype, "fmt": fmt, "path": path, "text": text, "src": "fuzz"})
                k += 1
            ck.count("fuzz_%s_%s" % (gtype, fmt), k)
    # hand-written gml / dot texts as a user would write them (not as cnfgen writes them): an edge stated
    # twice, stated in both orientations, a directed or multi graph read as a simple one, attributes, comments
    hand = {
        "dot": ["graph G { 1 -- 2; 2 -- 1; }", "graph G { 1 -- 2; 1 -- 2; 2 -- 3; }", "strict graph G { 1 -- 2; 2 -- 1; 3; }",
                "digraph G { 1 -> 2; 2 -> 1; }", "digraph G { 1 -> 2; 1 -> 2; 2 -> 3; }", "graph G { 1; 2; 3; 1 -- 3; 3 -- 1; 1 -- 3; }",
                "graph G { a -- b; b -- a; b -- c; }", "graph { 1 -- 1; }", "graph G { 1 -- 2 [weight=3]; 2 -- 1 [weight=4]; }",
                "graph G {\n  // a comment\n  10 -- 2;\n  2 -- 10;\n  9;\n}\n"],
        "gml": ["graph [\n multigraph 1\n node [ id 1 ]\n node [ id 2 ]\n edge [ source 1 target 2 ]\n edge [ source 1 target 2 ]\n]\n",
                "graph [\n multigraph 1\n node [ id 1 ]\n node [ id 2 ]\n node [ id 3 ]\n edge [ source 1 target 2 ]\n edge [ source 2 target 1 ]\n edge [ source 2 target 3 ]\n]\n",
                "graph [\n directed 1\n node [ id 1 ]\n node [ id 2 ]\n edge [ source 1 target 2 ]\n edge [ source 2 target 1 ]\n]\n",
                "graph [\n node [ id 1 label \"1\" ]\n node [ id 2 label \"2\" ]\n edge [ source 1 target 2 ]\n]\n",
                "graph [\n directed 1\n multigraph 1\n node [ id 1 ]\n node [ id 2 ]\n edge [ source 1 target 2 ]\n edge [ source 1 target 2 ]\n]\n"]}
    for gtype in ("simple", "digraph", "dag"):
        for fmt in formats[gtype]:
            for k, text in enumerate(hand.get(fmt, [])):
                for path in ("stringio", "file"):
                    rid = make_id("H", fmt, gtype, path, "%d:%s" % (k, text))
                    jobs.append({"id": rid, "type": gtype, "fmt": fmt, "path": path, "text": text, "src": "hand"})
            ck.count("handwritten_%s_%s" % (gtype, fmt), len(hand.get(fmt, [])))
    return jobs


# ---------------------------------------------------------------------------
# finding keys (naming only: the verdict is TLC's)


def finding_key(rec, why):
    fmt, gtype = rec["fmt"], rec["type"]
    lines = rec.get("lines")
    if rec["kind"] == "rt":
        if fmt == "dot" and gtype != "bipartite" and rec["graph"]["n"] >= 10 and why in ("edges_differ",
                                                                                         "unexpected_ValueError"):
            # vertex names are sorted as strings when the dot file is read: 1, 10, 11, 2, ...
            # (a dag then also fails the upward test: ValueError)
            return "graphio:dot:string-sorted-labels"
        return None
    if why == "unexpected_IndexError" and fmt == "dimacs" and lines is not None \
            and any(l["k"] == "blank" for l in lines):
        return "graphio:dimacs:blank-line"
    if why == "unexpected_StopIteration" and fmt == "kthlist" and lines is not None \
            and all(l["k"] in ("blank", "c") for l in lines):
        return "graphio:kthlist:empty-text"
    if why == "accepted_graph_differs_from_text" and fmt == "kthlist" and gtype == "bipartite":
        verts = [l["t"][0]["i"] for l in lines if len(l["t"]) > 1 and l["t"][1]["w"] == ":" and l["t"][0]["w"] == ""]
        if len(set(verts)) < len(verts):
            return "graphio:kthlist-bipartite:repeated-vertex-line"
    if why.startswith("unexpected_") and fmt in ("gml", "dot") and rec.get("src") == "fuzz":
        if fmt == "gml" and why == "unexpected_TypeError" and "type of argument" in rec.get("detail", ""):
            # an undirected GML file given where a directed graph is expected: normalize() raises TypeError
            return "graphio:gml:undirected-file-read-as-directed"
        # readGraph converts only NetworkXError / UnicodeEncodeError (gml) and TypeError (dot): any other
        # exception of the library parser on a damaged file is passed on unchanged
        return "graphio:%s:library-exception-escapes" % fmt
    return None


def weight(rec):
    return 1 + len(rec.get("lines", ())) + len(rec["read"]["edges"]) // 4


def rerun(rec):
    """--replay: run the recorded input through the current implementation again."""
    if rec["kind"] == "rt":
        g = rec["graph"]
        rid = rec["id"].replace("-sav-", "-cli-")
        out = run_roundtrip({"id": rid, "type": rec["type"], "fmt": rec["fmt"], "path": rec["path"],
                             "n": g["n"], "r": g["r"], "edges": g["edges"]})
        return [r for r in out if r["id"] == rec["id"]]
    return [run_text({"id": rec["id"], "type": rec["type"], "fmt": rec["fmt"], "path": rec["path"],
                      "text": rec["text"], "src": rec.get("src", "replay")})]


def advertised_formats():
    from cnfgen.graphs import supported_graph_formats
    adv = supported_graph_formats()
    cls = _classes()
    formats = {}
    for t in TYPES:
        fm = list(cls[t].supported_file_formats())
        if sorted(fm) != sorted(adv.get(t, [])):
            raise tlc.MachineryError("supported_graph_formats() and %s.supported_file_formats() disagree" % t)
        unknown = [f for f in fm if f not in KNOWN_FORMATS]
        if unknown:
            raise tlc.MachineryError("format(s) %r are not known to this check" % unknown)
        formats[t] = fm
    return formats


def main(argv=None):
    global WD
    ck = common.Check("C14", argv)
    common.setup_repo_import()
    logging.disable(logging.CRITICAL)
    WD = tlc.workdir("C14/%d" % os.getpid())       # one scratch directory per run
    jname = "JudgeGraphIO_%d" % os.getpid()
    formats = advertised_formats()

    rec = ck.replay_record()
    if rec is not None:
        ck.judge("JudgeGraphIO", rerun(rec), name=jname, cfg="JudgeGraphIO.cfg", keyf=finding_key)
        shutil_rm(WD)
        return ck.finish()

    import time
    t0 = [time.time()]

    def lap(name):
        ck.cover["wall_s_" + name] = round(time.time() - t0[0], 1)
        t0[0] = time.time()

    # 1. the specification itself (TLC runs in the background while the implementation is driven)
    mc = start_model_checks(ck.quick)
    # 2. (B) write, read back
    rjobs = roundtrip_jobs(ck, formats)
    # 3. (A) texts chosen by TLC, (B') mutated files
    texts = export_texts(ck)
    lap("exports")
    tjobs = text_jobs(ck, texts, formats)
    del texts
    fjobs = fuzz_jobs(ck, formats)
    lap("job_generation")

    # run the implementation and let TLC judge, a chunk at a time (bounds memory in the thorough tier)
    total = {"rt": 0, "A": 0, "F": 0, "A_accept": 0, "F_accept": 0, "A_like_machine": 0}
    alljobs = [("rt", j) for j in rjobs] + [("A", j) for j in tjobs] + [("F", j) for j in fjobs]
    CH = 60000
    for k in range(0, len(alljobs), CH):
        recs = []
        for kind, fn in (("rt", run_roundtrip), ("A", run_text), ("F", run_text)):
            chunk = [j for kd, j in alljobs[k:k + CH] if kd == kind]
            if not chunk:
                continue
            out = common.pmap(fn, chunk)
            if kind == "rt":
                out = [r for rs in out for r in rs]
            else:
                total[kind + "_accept"] += sum(1 for r in out if r["outcome"] == "accept")
            if kind == "A":    # bookkeeping, no judgement: does the code answer like the reference machine?
                total["A_like_machine"] += sum(1 for j, r in zip(chunk, out)
                                               if (r["outcome"] == "accept") == (j["mach"] == "accept"))
            total[kind] += len(out)
            if total[kind] == len(out):
                ck.sample({f: out[0][f] for f in ("id", "kind", "type", "fmt", "path", "outcome", "text")})
            recs += out
        ck.judge("JudgeGraphIO", recs, name=jname, cfg="JudgeGraphIO.cfg", keyf=finding_key, weight=weight)
        del recs
    lap("run_and_judge")
    finish_model_checks(ck, mc)
    lap("waiting_for_model_checks")
    ck.count("roundtrip_records", total["rt"])
    ck.count("texts_from_tlc", total["A"])
    ck.count("texts_from_tlc_accepted_by_impl", total["A_accept"])
    ck.count("texts_where_impl_answers_like_reference_machine", total["A_like_machine"])
    ck.count("fuzz_texts", total["F"])
    ck.count("fuzz_texts_accepted_by_impl", total["F_accept"])
    if not total["A_accept"] or not total["F_accept"]:
        raise tlc.MachineryError("no text was accepted by the implementation: the text checks would be vacuous")

    ck.assumptions += [
        "texts are seen through the lexers of this file (lines by universal newlines, whitespace separated tokens, "
        "colon as its own token in kthlist, Python int() defines an integer token)",
        "kthlist/dimacs/matrix: the denotation of GraphIO.tla is the documentation's reading of a text; where the "
        "documentation is silent (blank lines in dimacs, out-of-order or repeated kthlist lines, # comments in matrix, "
        "other DIMACS descriptors) both the denoted graph and ValueError are accepted",
        "gml/dot: grammar belongs to networkx/pydot; only the round trip and 'graph or ValueError' are decided",
        "bounded scope: all graphs up to 4 vertices (3x3 bipartite), random graphs with 10-14 vertices, token "
        "alphabets with vertex numbers up to 4, texts up to 10 lines; numbers below 10^5",
    ]
    shutil_rm(WD)
    return ck.finish(rule="one case = one (graph, type, format, I/O path) round trip or one (text, type, format, path) "
                          "reading, ids are content hashes so cases are distinct; non-trivial = the real writer/reader "
                          "ran and TLC evaluated the round-trip / Allowed predicate on the projected result",
                     distinct_nontrivial=total["rt"] + total["A"] + total["F"])


def shutil_rm(d):
    import shutil
    shutil.rmtree(d, ignore_errors=True)


if __name__ == "__main__":
    common.main_wrapper(main)
