"""C09 - shuffling is a signed renaming of the variables plus a reordering of
the clauses.

ShuffleMC (TLC on the model): for every tiny formula and EVERY valid witness
(flips, variable permutation, clause permutation) the documented Apply keeps
the number of variables and clauses, the multiset of clause widths and the
number of models, is undone by the inverse witness, and implies the invariants
the judge falls back to; plus the lemma that lets the judge search witnesses
without enumerating clause permutations.

Direction B: the real Shuffle (library call with every combination of
'shuffle' / 'fixed' / explicit arguments, valid and invalid; the cnfshuffle
tool in-process and as a subprocess; `cnfgen ... -T shuffle`) is run on tiny
formulas, family outputs and random CNFs for many seeds.  JudgeShuffle.tla
decides every record: outcome allowed, and G = Apply(F, witness) for the
witness recorded by the verification hook, or -- if there is none or it does
not check out -- for SOME admissible witness found by TLC.

Python here only drives, projects and counts.
"""
import concurrent.futures as cf
import contextlib
import io
import itertools
import json
import os
import random as pyrandom
import subprocess
import sys

from . import common, tlc, project, cliargs
from .exc import exc_name
from .c05 import tiny_formulas, mk_formula

SWITCH3 = list(itertools.product((False, True), repeat=3))       # (no flips, no var perm, no clause perm)
KINDS = ("shuffle", "fixed", "explicit")
NOW = {"f": [], "p": [], "cmap": []}


# ---------------------------------------------------------------------------
# projections
def arg_of(x):
    """An argument of Shuffle in the record vocabulary.  Classification by type
    only (string keyword / sequence of ints / anything else); whether a sequence
    of ints is a *valid* flip vector or permutation is decided by TLC."""
    if isinstance(x, str) and x in ("shuffle", "fixed"):
        return {"k": x, "v": []}
    if isinstance(x, (list, tuple, range)) and all(type(e) is int for e in x):
        return {"k": "explicit", "v": [int(e) for e in x]}
    return {"k": "wrongtype", "v": []}


def fproj(F):
    return {"nvars": int(F.number_of_variables()), "clauses": project.clauses_of(F)}


def wproj(G):
    w = getattr(G, "_verif_witness", None)
    if w is None:
        return 0, dict(NOW)
    return 1, {"f": [int(x) for x in w[0]], "p": [int(x) for x in w[1]],
               "cmap": [[int(o), int(n)] for (o, n) in w[2]]}


def lex_dimacs(text):
    """Tiny independent DIMACS lexer: comment lines start with 'c', the problem
    line is 'p cnf <n> <m>', every other token is an integer and 0 ends a clause."""
    nvars, declared, clauses, cur = None, None, [], []
    for line in text.splitlines():
        s = line.strip()
        if not s or s[0] == "c":
            continue
        tok = s.split()
        if tok[0] == "p":
            if nvars is not None or len(tok) != 4 or tok[1] != "cnf":
                raise tlc.MachineryError("unreadable problem line in tool output: %r" % line)
            nvars, declared = int(tok[2]), int(tok[3])
            continue
        for t in tok:
            v = int(t)
            if v == 0:
                clauses.append(cur)
                cur = []
            else:
                cur.append(v)
    if nvars is None or cur:
        raise tlc.MachineryError("tool output is not a complete DIMACS file")
    return {"nvars": nvars, "clauses": clauses}, declared


def write_dimacs(path, N, clauses):
    with open(path, "w") as f:
        f.write("c input for cnfshuffle\np cnf %d %d\n" % (N, len(clauses)))
        for c in clauses:
            f.write(" ".join(str(l) for l in c) + (" 0\n" if c else "0\n"))


# ---------------------------------------------------------------------------
# drivers
def production_first(make):
    """The artefact that is judged is the one produced with the verification hook OFF (the code path users
    run); a second run with the hook on supplies the witness, which is attached only when the two runs
    produced the same thing.  A defect that the hook itself would mask is therefore still seen."""
    import functools

    @functools.wraps(make)
    def wrapper(*a, **k):
        saved = os.environ.pop("CNFGEN_VERIF", None)
        try:
            off = make(*a, **k)
        finally:
            if saved is not None:
                os.environ["CNFGEN_VERIF"] = saved
        if saved is None:
            return off
        on = make(*a, **k)
        if off is None or on is None:
            return on
        if off["outcome"] == on["outcome"] and off["G"] == on["G"]:
            return on
        off["hasw"], off["w"] = 0, dict(NOW)
        off["route_note"] = "output differs from the run with the hook on"
        return off
    return wrapper


@production_first
def lib_record(rid, N, clauses, af, ap, ac, seed, route="lib", kf=None):
    """One library call Shuffle(F, af, ap, ac) after random.seed(seed)."""
    from cnfgen.transformations.shuffle import Shuffle
    F = mk_formula(N, clauses)
    rec = {"id": rid, "route": route, "F": fproj(F), "seed": str(seed),
           "args": {"flips": arg_of(af), "perm": arg_of(ap), "cperm": arg_of(ac)}}
    if kf:
        rec["kf"] = kf
    pyrandom.seed(seed)
    try:
        G = Shuffle(F, af, ap, ac)
        rec["G"] = fproj(G)
        rec["hasw"], rec["w"] = wproj(G)
        rec["outcome"] = "ok"
    except Exception as e:                                  # noqa: BLE001 (projected, judged by TLC)
        rec["G"] = {"nvars": 0, "clauses": []}
        rec["hasw"], rec["w"] = 0, dict(NOW)
        rec["outcome"] = exc_name(e)
    return rec


def switch_args(sw):
    return ["fixed" if s else "shuffle" for s in sw]


def switch_flags(sw, long):
    names = (("-p", "--no-polarity-flips"), ("-v", "--no-variables-permutation"),
             ("-c", "--no-clauses-permutation"))
    return [names[i][1 if long else 0] for i in range(3) if sw[i]]


def read_trace(path):
    """Witnesses appended by the hook to CNFGEN_VERIF_TRACE (one JSON line per Shuffle call)."""
    if not os.path.exists(path):
        return []
    out = []
    with open(path) as f:
        for line in f:
            line = line.strip()
            if line:
                ev = json.loads(line)
                if ev.get("event") == "shuffle":
                    out.append(ev["witness"])
    return out


def w_from_trace(ws):
    if len(ws) != 1:
        return 0, dict(NOW)
    w = ws[0]
    return 1, {"f": [int(x) for x in w[0]], "p": [int(x) for x in w[1]],
               "cmap": [[int(o), int(n)] for (o, n) in w[2]]}


@production_first
def tool_record(rid, wd, N, clauses, sw, seed, long, sub, kf=None, stdin=False):
    """cnfshuffle on a DIMACS file written here; output read with lex_dimacs."""
    inp = os.path.join(wd, "in_%s.cnf" % rid)
    trace = os.path.join(wd, "tr_%s.ndjson" % rid)
    write_dimacs(inp, N, clauses)
    argv = ["cnfshuffle", "--seed" if long else "-S", str(seed)]
    argv += ([] if (sub and stdin) else ["--input" if long else "-i", inp]) + switch_flags(sw, long)
    a = switch_args(sw)
    rec = {"id": rid, "route": "cnfshuffle-subprocess" if sub else "cnfshuffle",
           "F": {"nvars": N, "clauses": [list(c) for c in clauses]}, "seed": str(seed), "argv": argv[1:],
           "args": {"flips": arg_of(a[0]), "perm": arg_of(a[1]), "cperm": arg_of(a[2])}}
    if kf:
        rec["kf"] = kf
    text = None
    if sub:
        env = dict(os.environ)
        env.update({"PYTHONPATH": common.REPO, "CNFGEN_VERIF": "1", "CNFGEN_VERIF_TRACE": trace,
                    "PYTHONHASHSEED": "0", "PYTHONWARNINGS": "ignore"})
        if "CNFGEN_VERIF" not in os.environ:
            env.pop("CNFGEN_VERIF")
        with open(inp) as fin:
            p = subprocess.run(["/venv/bin/python", "-m", "cnfgen.clitools.cnfshuffle"] + argv[1:],
                               cwd=common.REPO, env=env, stdin=fin if stdin else subprocess.DEVNULL,
                               stdout=subprocess.PIPE, stderr=subprocess.PIPE, text=True, timeout=300)
        if p.returncode == 0:
            text = p.stdout
            rec["outcome"] = "ok"
        else:
            rec["outcome"] = "exit_%d" % (p.returncode % 256)
            rec["stderr"] = p.stderr[-300:]
    else:
        import cnfgen.clitools.msg as msg
        mod = cliargs.tool("cnfshuffle")
        out, err = io.StringIO(), io.StringIO()
        os.environ["CNFGEN_VERIF_TRACE"] = trace
        msg._prefix = ""
        try:
            with contextlib.redirect_stdout(out), contextlib.redirect_stderr(err):
                mod.cli(argv, mode="output")
            text = out.getvalue()
            rec["outcome"] = "ok"
        except BaseException as e:                          # noqa: BLE001 (SystemExit included)
            rec["outcome"] = exc_name(e)
        finally:
            msg._prefix = ""
            os.environ.pop("CNFGEN_VERIF_TRACE", None)
    if text is not None:
        rec["G"], declared = lex_dimacs(text)
        rec["declared_clauses"] = declared
        rec["hasw"], rec["w"] = w_from_trace(read_trace(trace))
    else:
        rec["G"] = {"nvars": 0, "clauses": []}
        rec["hasw"], rec["w"] = 0, dict(NOW)
    for p_ in (inp, trace):
        with contextlib.suppress(OSError):
            os.remove(p_)
    return rec


def cli_formula(argv):
    return cliargs.call_cli("cnfgen", argv)


_HEADS = {}


def head_formula(head):
    """The formula a command line produces, if two runs agree (else None)."""
    key = tuple(head)
    if key not in _HEADS:
        F1 = fproj(cli_formula(head))
        F2 = fproj(cli_formula(head))
        _HEADS[key] = F1 if F1 == F2 else None
    return _HEADS[key]


@production_first
def tshuffle_record(rid, wd, base, sw, seed, long, pre=(), double=False):
    """cnfgen <base> [-T pre...] -T shuffle [switches]; the input of the shuffle is
    what the same command line produces without the final -T shuffle."""
    head = ["cnfgen", "-q", "--seed", str(seed)] + list(base)
    for t in pre:
        head += ["-T"] + list(t)
    trace = os.path.join(wd, "tr_%s.ndjson" % rid)
    F1 = head_formula(head)
    if F1 is None:
        return None                                         # not a deterministic command line: no artefact
    argv = head + ["-T", "shuffle"] + switch_flags(sw, long)
    if double:
        argv += ["-T", "shuffle"] + switch_flags(sw, not long)
    a = switch_args(sw)
    rec = {"id": rid, "route": "T-shuffle-twice" if double else "T-shuffle", "F": F1, "seed": str(seed),
           "argv": argv[1:], "args": {"flips": arg_of(a[0]), "perm": arg_of(a[1]), "cperm": arg_of(a[2])}}
    os.environ["CNFGEN_VERIF_TRACE"] = trace
    try:
        G = cli_formula(argv)
        rec["G"] = fproj(G)
        rec["outcome"] = "ok"
        ws = read_trace(trace)
        # two shuffles in a row: the composition is again a signed renaming; no single recorded witness
        rec["hasw"], rec["w"] = (0, dict(NOW)) if double else w_from_trace(ws)
    except BaseException as e:                              # noqa: BLE001
        rec["G"] = {"nvars": 0, "clauses": []}
        rec["hasw"], rec["w"] = 0, dict(NOW)
        rec["outcome"] = exc_name(e)
    finally:
        os.environ.pop("CNFGEN_VERIF_TRACE", None)
        with contextlib.suppress(OSError):
            os.remove(trace)
    return rec


@production_first
def tshuffle_sub_record(rid, wd, base, sw, seed, long):
    """The same through a fresh process: python -m cnfgen.clitools.cnfgen ... -T shuffle, DIMACS output lexed here,
    witness from the CNFGEN_VERIF_TRACE file."""
    head = ["cnfgen", "-q", "--seed", str(seed)] + list(base)
    F1 = head_formula(head)
    if F1 is None:
        return None
    argv = head[1:] + ["-T", "shuffle"] + switch_flags(sw, long)
    trace = os.path.join(wd, "tr_%s.ndjson" % rid)
    a = switch_args(sw)
    rec = {"id": rid, "route": "T-shuffle-subprocess", "F": F1, "seed": str(seed), "argv": argv,
           "args": {"flips": arg_of(a[0]), "perm": arg_of(a[1]), "cperm": arg_of(a[2])}}
    env = dict(os.environ)
    env.update({"PYTHONPATH": common.REPO, "CNFGEN_VERIF": "1", "CNFGEN_VERIF_TRACE": trace,
                "PYTHONHASHSEED": "0", "PYTHONWARNINGS": "ignore"})
    if "CNFGEN_VERIF" not in os.environ:
        env.pop("CNFGEN_VERIF")
    p = subprocess.run(["/venv/bin/python", "-m", "cnfgen.clitools.cnfgen"] + argv, cwd=common.REPO, env=env,
                       stdin=subprocess.DEVNULL, stdout=subprocess.PIPE, stderr=subprocess.PIPE,
                       text=True, timeout=300)
    if p.returncode == 0:
        rec["outcome"] = "ok"
        rec["G"], rec["declared_clauses"] = lex_dimacs(p.stdout)
        rec["hasw"], rec["w"] = w_from_trace(read_trace(trace))
    else:
        rec["outcome"] = "exit_%d" % (p.returncode % 256)
        rec["stderr"] = p.stderr[-300:]
        rec["G"] = {"nvars": 0, "clauses": []}
        rec["hasw"], rec["w"] = 0, dict(NOW)
    with contextlib.suppress(OSError):
        os.remove(trace)
    return rec


# ---------------------------------------------------------------------------
# inputs
def rand_valid(rng, N, M):
    f = [rng.choice((-1, 1)) for _ in range(N)]
    p = list(range(1, N + 1))
    rng.shuffle(p)
    c = list(range(M))
    rng.shuffle(c)
    return f, p, c


def as_container(rng, seq, what):
    """The documentation says list / sequence: hand over lists, tuples and (when it is one) ranges."""
    r = rng.random()
    if r < .25:
        return tuple(seq)
    if r < .35 and what == "p" and list(seq) == list(range(1, len(seq) + 1)):
        return range(1, len(seq) + 1)
    if r < .35 and what == "c" and list(seq) == list(range(len(seq))):
        return range(len(seq))
    return list(seq)


def random_cnf(rng, maxn, maxm):
    N = rng.randint(1, maxn)
    M = rng.randint(0, maxm)
    cls = []
    for _ in range(M):
        w = rng.choice((0, 1, 1, 2, 2, 3, 3, 3, 4, 5, 6))
        cls.append(tuple(rng.choice((-1, 1)) * rng.randint(1, N) for _ in range(w)))
    return N, cls


def invalid_catalogue(N, M):
    """Named invalid (and a few valid, TLC decides which) explicit arguments for a formula with
    N variables and M clauses.  (component, name, value)"""
    idf, idp, idc = [1] * N, list(range(1, N + 1)), list(range(M))
    cat = []

    def add(comp, name, val):
        cat.append((comp, name, val))

    add("f", "short", idf[:-1] if N else [1])
    add("f", "long", idf + [1])
    add("f", "empty", [])
    if N:
        add("f", "zero", [0] + idf[1:])
        add("f", "zero_last", idf[:-1] + [0])
        add("f", "two", idf[:-1] + [2])
        add("f", "minus2", idf[:-1] + [-2])
        add("f", "allminus", [-1] * N)
    add("p", "short", idp[:-1] if N else [1])
    add("p", "long", idp + [N + 1])
    add("p", "empty", [])
    if N:
        add("p", "zero_based", list(range(N)))
        add("p", "repeated", [idp[0]] + idp[:-1])
        add("p", "out_of_range", idp[:-1] + [N + 1])
        add("p", "negative", [-x for x in idp])
        add("p", "one_negative", idp[:-1] + [-N])
        add("p", "reversed", idp[::-1])
        add("p", "all_same", [1] * N)
    add("c", "short", idc[:-1] if M else [0])
    add("c", "long", idc + [M])
    add("c", "empty", [])
    if M:
        add("c", "one_based", list(range(1, M + 1)))
        add("c", "repeated", [idc[0]] + idc[:-1])
        add("c", "out_of_range", idc[:-1] + [M])
        add("c", "negative", idc[:-1] + [-1])
        add("c", "reversed", idc[::-1])
        add("c", "all_zero", [0] * M)
    return cat


def wrongtype_catalogue(N, M):
    cat = []
    for comp, n in (("f", N), ("p", N), ("c", M)):
        cat += [(comp, "none", None), (comp, "int", 5), (comp, "float", 1.5),
                (comp, "string", "x" * max(n, 1)), (comp, "string_other_length", "x" * (n + 2)),
                (comp, "Fixed", "Fixed"), (comp, "random", "random")]
        if n:
            good = {"f": [1] * n, "p": list(range(1, n + 1)), "c": list(range(n))}[comp]
            cat += [(comp, "str_element", [str(good[0])] + good[1:]),
                    (comp, "none_element", good[:-1] + [None]),
                    (comp, "nested", [[x] for x in good])]
    return cat


def family_formulas(ck, wd, maxn, maxm):
    """(name, argv tail, N, clauses, deterministic?) for the command lines of the shared catalogue."""
    out = []
    lines = cliargs.formula_command_lines(ck, wd, small=True)
    if ck.quick:
        lines = ck.rng.sample(lines, 45)
    for helper, args in lines:
        try:
            F = cli_formula(["cnfgen", "-q", "--seed", "7"] + args)
        except BaseException:                               # noqa: BLE001 (other properties' business)
            continue
        N, cls = int(F.number_of_variables()), project.clauses_of(F)
        if N > maxn or len(cls) > maxm:
            continue
        det = helper not in ("randkcnf", "randkxor") and not any(str(a).startswith("random") for a in args)
        out.append((helper, args, N, cls, det))
    return out


def build_records(ck, wd):
    q, rng = ck.quick, ck.rng
    recs = []
    n = [0]

    def rid(prefix):
        n[0] += 1
        return "%s-%d" % (prefix, n[0])

    def seed():
        return rng.randint(1, 2 ** 31 - 1)

    # ---- A. tiny formulas x the 27 argument shapes --------------------------
    t22 = tiny_formulas(2, 2, 2)                                   # 463 formulas over 2 variables
    t13 = tiny_formulas(1, 3, 2)
    t33 = tiny_formulas(3, 3, 2)                                   # 81400 formulas over 3 variables
    forms3 = [[(1, -2)], [(3,)], [(1, 2), (-1, -2)], [], [()], [(1, 1), (2, -2)], [(-3, 1), (2,)],
              [(), (), ()], [(3, 3), (-3, 3), (3, -3)]]
    tiny = [(0, []), (0, [()]), (0, [(), ()])]
    tiny += [(2, F) for F in (rng.sample(t22, 120) if q else t22)]
    tiny += [(1, F) for F in (rng.sample(t13, 40) if q else t13)]
    tiny += [(3, F) for F in rng.sample(t33, 150 if q else 3000)]
    tiny += [(3, F) for F in forms3] + [(4, F) for F in forms3]
    for N, F in tiny:
        for kf_, kp_, kc_ in itertools.product(KINDS, repeat=3):
            f, p, c = rand_valid(rng, N, len(F))
            af = as_container(rng, f, "f") if kf_ == "explicit" else kf_
            ap = as_container(rng, p, "p") if kp_ == "explicit" else kp_
            ac = as_container(rng, c, "c") if kc_ == "explicit" else kc_
            recs.append(lib_record(rid("a"), N, F, af, ap, ac, seed()))
    ck.count("tiny_formulas", len(tiny))

    # ---- B. every valid explicit triple on chosen tiny formulas ---------------
    pool = [(3, F) for F in t33 if len(F) == 3] + [(3, F) for F in forms3 if len(F) <= 3]
    chosen = rng.sample(pool, 10 if q else 120) + [(2, F) for F in rng.sample(t22, 10 if q else 100)]
    for N, F in chosen:
        M = len(F)
        for f in itertools.product((-1, 1), repeat=N):
            for p in itertools.permutations(range(1, N + 1)):
                for c in itertools.permutations(range(M)):
                    recs.append(lib_record(rid("b"), N, F, list(f), list(p), list(c), 1))
    ck.count("formulas_with_every_valid_explicit_triple", len(chosen))

    # ---- C. every short integer sequence as an explicit argument (valid or not: TLC decides) ----
    scopes = [(0, []), (1, [(1,)]), (2, [(1, -2), (2,)]), (1, [(1,), (), (-1, -1)]), (2, [(2,), (-2, 2)])]
    if not q:
        scopes += [(3, [(1, -2), (3,), (-3, 2)]), (2, [(), (1, 1), (-2, 1)])]
    for N, F in scopes:
        M = len(F)
        others = [("fixed", "fixed"), ("shuffle", "shuffle")]
        for L in range(0, N + 2):
            for f in itertools.product((-2, -1, 0, 1, 2), repeat=L):
                o = rng.choice(others)
                recs.append(lib_record(rid("cf"), N, F, list(f), o[0], o[1], seed()))
            for p in itertools.product(range(-1, N + 2), repeat=L):
                o = rng.choice(others)
                recs.append(lib_record(rid("cp"), N, F, o[0], list(p), o[1], seed()))
        for L in range(0, M + 2):
            for c in itertools.product(range(-1, M + 1), repeat=L):
                o = rng.choice(others)
                recs.append(lib_record(rid("cc"), N, F, o[0], o[1], list(c), seed()))

    # ---- named invalid arguments, wrong types, pairs of them, on larger formulas ----
    bigger = [(3, [(1, -2), (3,), (-3, 2), ()]), (6, [(1, 2), (3, 4), (5, 6), (-1, -3), (-1, -5), (-3, -5),
                                                        (-2, -4), (-2, -6), (-4, -6)])]
    bigger.append(random_cnf(rng, 12, 20))
    bigger.append((8, [(3, -4), (5,), (-6, 4, 3), (), (5, 5)]))        # first and last variables unused
    for N, F in bigger + scopes[:3]:
        M = len(F)
        cat = invalid_catalogue(N, M)
        wt = wrongtype_catalogue(N, M)
        for comp, name, val in cat + wt:
            for ctx in ("fixed", "shuffle", "explicit"):
                f, p, c = rand_valid(rng, N, M)
                a = {"f": f, "p": p, "c": c} if ctx == "explicit" else {"f": ctx, "p": ctx, "c": ctx}
                a[comp] = val
                recs.append(lib_record(rid("i-%s-%s" % (comp, name)), N, F, a["f"], a["p"], a["c"], seed()))
        for (c1, n1, v1), (c2, n2, v2) in rng.sample(list(itertools.combinations(cat + wt, 2)), 30 if q else 300):
            if c1 == c2:
                continue
            a = {"f": "shuffle", "p": "shuffle", "c": "shuffle"}
            a[c1], a[c2] = v1, v2
            recs.append(lib_record(rid("ii-%s-%s-%s-%s" % (c1, n1, c2, n2)), N, F, a["f"], a["p"], a["c"], seed()))

    # ---- D. family outputs, E. random CNFs: 8 switch combinations x seeds + explicit ----
    fams = family_formulas(ck, wd, 60, 200)
    ck.count("family_command_lines", len(fams))
    rcnf = [random_cnf(rng, 40, 150) for _ in range(30 if q else 400)]
    rcnf += [random_cnf(rng, 6, 8) for _ in range(30 if q else 400)]
    big = [("fam-" + h, N, F) for (h, a, N, F, d) in fams]
    big += [("rnd", N, F) for (N, F) in rcnf]
    for tag, N, F in big:
        for sw in SWITCH3:
            for _ in range(1 if q else 3):
                a = switch_args(sw)
                recs.append(lib_record(rid("d-" + tag), N, F, a[0], a[1], a[2], seed()))
        for kinds in rng.sample(list(itertools.product(KINDS, repeat=3)), 4 if q else 12):
            f, p, c = rand_valid(rng, N, len(F))
            af = as_container(rng, f, "f") if kinds[0] == "explicit" else kinds[0]
            ap = as_container(rng, p, "p") if kinds[1] == "explicit" else kinds[1]
            ac = as_container(rng, c, "c") if kinds[2] == "explicit" else kinds[2]
            recs.append(lib_record(rid("e-" + tag), N, F, af, ap, ac, seed()))

    # (lib-r) the same argument objects used again: edited in place between two calls (another valid
    #         renaming, or something invalid) - each call must apply what it is given at that moment
    for t in range(10 if q else 120):
        N, F = random_cnf(rng, 5, 5)
        N = max(N, 2)
        f, p, c = rand_valid(rng, N, len(F))
        for step in range(rng.randint(2, 4)):
            recs.append(lib_record(rid("r%d" % step), N, F, f, p, (c if t % 2 else "fixed"), seed()))
            how = rng.choice(("perm", "flip", "both", "invalid_perm", "invalid_flip"))
            if how in ("perm", "both"):
                rng.shuffle(p)
            if how in ("flip", "both"):
                k = rng.randrange(N)
                f[k] = -f[k]
            if how == "invalid_perm":
                p[rng.randrange(N)] = p[(rng.randrange(N) + 1) % N]
                if sorted(p) == list(range(1, N + 1)):
                    p[0] = N + 1
            if how == "invalid_flip":
                f[rng.randrange(N)] = rng.choice((0, 2, -3))

    # ---- same seed twice / different seeds: only recorded, all judged the same way ----

    # ---- F. the cnfshuffle tool -------------------------------------------------
    tool_inputs = [(N, F) for (N, F) in rng.sample(tiny, 40 if q else 400)]
    tool_inputs += [(N, F) for (_, N, F) in rng.sample(big, 25 if q else 200)]
    tool_inputs += [(0, []), (3, []), (2, [()]), (5, [(1, -5), (5, 5), (-1, 1)])]
    for N, F in tool_inputs:
        for sw in SWITCH3:
            recs.append(tool_record(rid("t"), wd, N, F, sw, rng.choice((seed(), 0, "abc", 42)), rng.random() < .5, False))
    jobs = []
    for N, F in rng.sample(tool_inputs, 2 if q else 12) + [(6, bigger[1][1])]:
        for sw in SWITCH3:
            jobs.append((rid("ts"), wd, N, F, sw, seed(), rng.random() < .5, True, None, rng.random() < .5))
    with cf.ThreadPoolExecutor(max_workers=min(16, tlc.NCPU)) as ex:
        recs += list(ex.map(lambda j: tool_record(*j), jobs))

    # ---- G. cnfgen ... -T shuffle --------------------------------------------------
    det = [(h, a) for (h, a, N, F, d) in fams if d]
    lines = [["php", "3", "2"], ["and", "2", "1"], ["or", "2", "2"], ["php", "2", "1"]]
    lines += [a for (h, a) in (rng.sample(det, min(len(det), 12)) if q else det)]
    skipped = 0
    for a in lines:
        sd = seed()
        for sw in SWITCH3:
            r = tshuffle_record(rid("T"), wd, a, sw, sd, rng.random() < .5)
            if r is None:
                skipped += 1
            else:
                recs.append(r)
    for a, pre in ((["php", "3", "2"], [["xor", "2"]]), (["and", "2", "1"], [["or", "2"]]),
                   (["php", "2", "1"], [["shuffle"]]), (["or", "2", "2"], [["flip"]])):
        sd = seed()
        for sw in SWITCH3:
            r = tshuffle_record(rid("Tp"), wd, a, sw, sd, rng.random() < .5, pre=pre)
            if r is not None:
                recs.append(r)
    for a in (["and", "2", "1"], ["or", "2", "2"], ["php", "2", "1"], ["and", "0", "0"], ["php", "3", "2"]):
        sd = seed()
        for sw in SWITCH3:
            r = tshuffle_record(rid("TT"), wd, a, sw, sd, rng.random() < .5, double=True)
            if r is not None:
                recs.append(r)
    jobs = []
    for a in [["php", "3", "2"]] + ([] if q else [["and", "2", "1"], ["php", "2", "1"]] + rng.sample(lines, 5)):
        sd = seed()
        for sw in SWITCH3:
            jobs.append((rid("Ts"), wd, a, sw, sd, rng.random() < .5))
    for j in jobs:
        head_formula(["cnfgen", "-q", "--seed", str(j[4])] + list(j[2]))       # in this thread (CLI is not thread safe)
    with cf.ThreadPoolExecutor(max_workers=min(16, tlc.NCPU)) as ex:
        recs += [r for r in ex.map(lambda j: tshuffle_sub_record(*j), jobs) if r is not None]
    ck.count("nondeterministic_command_lines_skipped", skipped)

    # ---- H. the same artefacts without the recorded witness ("hook absent") --------
    ok = [r for r in recs if r["outcome"] == "ok" and r["hasw"] == 1]
    for r in rng.sample(ok, min(len(ok), 600 if q else 6000)):
        b = dict(r)
        b["id"] = r["id"] + "-blind"
        b["hasw"], b["w"] = 0, dict(NOW)
        recs.append(b)
    # stable finding keys: route + kind of input (the id without its running number)
    for r in recs:
        stem = r["id"][:-6] if r["id"].endswith("-blind") else r["id"]
        r.setdefault("kf", "shuffle:%s:%s" % (r["route"], stem.rsplit("-", 1)[0]))
    return recs


def searchable(r):
    """Mirror of JudgeShuffle!Searchable, used ONLY to count in the evidence how each record was judged."""
    a = r["args"]
    return (a["flips"]["k"] != "shuffle" and a["perm"]["k"] != "shuffle") or \
        (r["F"]["nvars"] <= 5 and len(r["F"]["clauses"]) <= 6)


def weight(r):
    N, M = r["F"]["nvars"], len(r["F"]["clauses"])
    w = 1 + M + sum(len(c) for c in r["F"]["clauses"])
    if r["outcome"] == "ok" and r["hasw"] == 0:
        if searchable(r):
            a = r["args"]
            k = (2 ** min(N, 5) if a["flips"]["k"] == "shuffle" else 1) * \
                ({0: 1, 1: 1, 2: 2, 3: 6, 4: 24}.get(N, 120) if a["perm"]["k"] == "shuffle" else 1)
            w += k * (1 + M * M)
        else:
            w += 3 * M * M
    else:
        w += M * M // 8
    return w


def keyf(rec, why):
    return rec.get("kf")


def main(argv=None):
    ck = common.Check("C09", argv)
    common.setup_repo_import()
    wd = tlc.workdir("C09")
    pool = cf.ThreadPoolExecutor(max_workers=1)

    def models():
        if ck.quick:
            ck.model("ShuffleMC", "ShuffleMC.cfg")
            ck.model("ShuffleMC", "ShuffleMC_m3.cfg")
        else:
            ck.model("ShuffleMC", "ShuffleMC_thorough.cfg")
            ck.model("ShuffleMC", "ShuffleMC.cfg")
        ck.model("ShuffleMC", "ShuffleMC_search.cfg")

    import time
    t0 = time.time()
    fut = None if ck.args.replay else pool.submit(models)
    try:
        recs = build_records(ck, wd)
        t1 = time.time()
    finally:
        if fut is not None:
            fut.result()                                    # MachineryError propagates
        pool.shutdown()
    ck.cover["phase_wall_s"] = {"drive_implementation": round(t1 - t0, 1),
                                "model_checking_overlapped": round(time.time() - t0, 1)}

    routes, mode, outcomes, shapes = {}, {}, {}, set()
    nontrivial = 0
    for r in recs:
        routes[r["route"]] = routes.get(r["route"], 0) + 1
        outcomes[r["outcome"]] = outcomes.get(r["outcome"], 0) + 1
        a = r["args"]
        shapes.add((r["route"], a["flips"]["k"], a["perm"]["k"], a["cperm"]["k"]))
        if r["outcome"] == "ok":
            m = "witness" if r["hasw"] else ("search" if searchable(r) else "invariants_only")
            mode[m] = mode.get(m, 0) + 1
            if r["G"] != r["F"]:
                nontrivial += 1
    ck.cover["records_per_route"] = routes
    ck.cover["outcomes"] = outcomes
    ck.cover["judged_by"] = mode
    ck.cover["route_x_argument_shapes"] = len(shapes)
    ck.cover["largest_formula"] = [max(r["F"]["nvars"] for r in recs), max(len(r["F"]["clauses"]) for r in recs)]
    for r in (recs[5], next(r for r in recs if r["route"] == "cnfshuffle"),
              next(r for r in recs if r["route"] == "T-shuffle"),
              next((r for r in recs if r["outcome"] == "ValueError"), recs[0])):
        ck.sample(r)
    ck.judge("JudgeShuffle", recs, cfg="JudgeShuffle.cfg", keyf=keyf, weight=weight)
    if not ck.args.keep:
        import shutil
        shutil.rmtree(wd, ignore_errors=True)
    ck.assumptions += [
        "clauses are compared as multisets of literals, clause positions exactly: the statement fixes which literals "
        "every clause has and where every clause goes, not the order in which a clause lists its literals",
        "invalid integer sequences must raise ValueError; arguments that are not sequences of integers at all (None, "
        "numbers, other strings, sequences with non-integer elements) may raise ValueError or TypeError; sequences of "
        "floats/bools are outside the documented domain and are not exercised",
        "explicit arguments are handed over as list, tuple or range",
        "records judged 'invariants_only' (no recorded witness, more than 5 variables or 6 clauses, flips or variable "
        "permutation random): only counts, width multiset, per-clause shape multiset and variable occurrence profile "
        "multiset are checked; these records are witness-stripped copies of records that are also judged with their witness, or two '-T shuffle' in a row",
        "cnfshuffle: the input formula is the DIMACS text written by the harness; the output is read by an independent "
        "lexer; '-T shuffle': the input is what the same command line (same non-zero --seed) produces without the "
        "final -T shuffle, used only if two such runs agree",
        "tier quick: theorem for <= 3 variables / <= 2 clauses and <= 2 variables / <= 3 clauses; tier thorough: "
        "<= 3 variables / <= 3 clauses (width <= 2 everywhere)"]
    return ck.finish(rule="one record = one call of Shuffle (library arguments / cnfshuffle switches / -T shuffle "
                          "switches, one seed, one input formula); TLC checks outcome and G = Apply(F, witness)",
                     distinct_nontrivial=nontrivial)


if __name__ == "__main__":
    common.main_wrapper(main)
