"""Projections of implementation state into the JSON vocabulary the TLA+
modules read.  Kept dumb on purpose (trusted base): no judgement here."""
import re

_DIGITS = re.compile(r"\d+")


def decode_labels(labels):
    """label -> (group number, index tuple).

    The index tuple is the maximal digit runs of the label; the group is the
    order of first appearance of the label's non-digit skeleton.  So
    'p_{1,2}' and 'q_{1,2}' get different groups and the same index, whatever
    letters the generator uses."""
    skel = {}
    grp, idx = [], []
    for lab in labels:
        s = _DIGITS.sub("#", lab)
        if s not in skel:
            skel[s] = len(skel) + 1
        grp.append(skel[s])
        idx.append([int(x) for x in _DIGITS.findall(lab)])
    return grp, idx


def decode_groups(F):
    """identifier -> (group number, index tuple) through the formula's variable
    groups: group number = order of creation among non-empty groups, index
    tuple = what the group's own indices() enumerates for that identifier
    (labels are exactly these indices pushed through a format string, but some
    format strings, e.g. 'x_{{{0}{1}}}', are not decodable).  Identifiers
    outside every group get group 0 and index (id,).  Returns None when the
    formula does not expose variable groups."""
    groups = getattr(F, "_groups", None)
    if groups is None:
        return None
    n = F.number_of_variables()
    grp = [0] * n
    idx = [[v + 1] for v in range(n)]
    rank = 0
    for g in groups:
        if len(g) == 0:
            continue
        rank += 1
        ids = list(g.ids) if hasattr(g, "ids") else [g[k] for k in range(len(g))]
        try:
            tuples = [list(t) if isinstance(t, (tuple, list)) else [t] for t in g.indices()]
        except Exception:
            return None
        if len(tuples) == 1 and tuples[0] == [None]:
            tuples = [[]]
        if len(tuples) != len(ids):
            return None
        for v, t in zip(ids, tuples):
            if not (1 <= v <= n):
                return None
            grp[v - 1] = rank
            idx[v - 1] = [int(x) for x in t]
    return grp, idx


def alternative_bindings(labels, grp, idx, limit=16):
    lgrp, lidx = decode_labels(labels)
    if lgrp == grp and lidx == idx:
        return []
    classes = sorted(set(lgrp))
    out, seen = [], {repr((grp, idx))}
    import itertools
    subsets = [set(classes)] + [set(c) for k in range(1, len(classes)) for c in itertools.combinations(classes, k)]
    for by_label in subsets[:limit]:
        raw = [("L", lgrp[v]) if lgrp[v] in by_label else ("G", grp[v]) for v in range(len(labels))]
        number = {}
        g2 = [number.setdefault(x, len(number) + 1) for x in raw]
        i2 = [lidx[v] if lgrp[v] in by_label else idx[v] for v in range(len(labels))]
        key = repr((g2, i2))
        if key not in seen:
            seen.add(key)
            out.append({"grp": g2, "idx": i2})
    return out


def clauses_of(F):
    return [[int(l) for l in c] for c in F.clauses()]


def constraints_of(F):
    out = []
    for c in F.constraints():
        terms = [[int(co), int(l)] for (co, l) in c[:-2]]
        out.append({"terms": terms, "op": str(c[-2]), "deg": int(c[-1])})
    return out


def is_opb(F):
    return hasattr(F, "constraints") and callable(getattr(F, "constraints"))


def formula(F, with_header=False):
    """Project a CNF or OPB object."""
    labels = [str(x) for x in F.all_variable_labels()]
    dg = decode_groups(F)
    if dg is None:
        grp, idx = decode_labels(labels)
        binding = "labels"
    else:
        grp, idx = dg
        binding = "groups"
    rec = {"nvars": int(F.number_of_variables()), "labels": labels, "grp": grp, "idx": idx,
           "binding": binding}
    if binding == "groups":
        # other bindings of identifiers to named variables: internal grouping is not what a property speaks
        # about.  Through the names alone, and hybrids (names for some families of names, groups for the
        # others: a block split level by level next to mappings created level by level, say).
        alts = alternative_bindings(labels, grp, idx)
        if alts:
            rec["alt"] = alts
    if is_opb(F):
        rec["cls"] = "OPB"
        rec["constraints"] = constraints_of(F)
        # the CNF view of an OPB whose constraints are all clauses is not assumed
    else:
        rec["cls"] = "CNF"
        rec["clauses"] = clauses_of(F)
    if with_header:
        rec["header"] = [[str(k), str(v)] for k, v in F.header.items()]
    return rec


def varmap(rec):
    """Lookup table (as list of [grp, idx..., id]) is not needed: TLA+ side
    rebuilds it from grp/idx.  Kept for debugging only."""
    return [[g] + i + [v + 1] for v, (g, i) in enumerate(zip(rec["grp"], rec["idx"]))]


def graph(G):
    """Project any cnfgen graph through its public API."""
    from cnfgen.graphs import BaseBipartiteGraph, DirectedGraph
    if isinstance(G, BaseBipartiteGraph):
        return {"kind": "bipartite", "L": G.left_order(), "R": G.right_order(),
                "edges": sorted([int(u), int(v)] for u, v in G.edges())}
    kind = "digraph" if isinstance(G, DirectedGraph) else "simple"
    return {"kind": kind, "n": G.number_of_vertices(),
            "edges": sorted([int(u), int(v)] for u, v in G.edges())}
