"""C04 - linear, parity and mapping constraint builders mean what their names say.

LinearMC (TLC on the model) checks that the documented encodings - clause
blasting of cardinality constraints for all six operators, parity, OPB
normalisation, binary-mapping clauses - are equivalent to the arithmetic /
functional meaning for every literal list over three variables.
Direction B: the real CNF and OPB builders are called on literal lists given
as list / tuple / range / generator, for every operator and every constant
from below zero to above the length, and JudgeLinear.tla decides for all
assignments whether what they added means the stated condition; the same for
normalize_opb and for complete / functional / injective / surjective /
non-decreasing on unary, sparse and binary mappings.
"""
import itertools

from . import common, gen, project, tlc
from .exc import exc_name

OPS = ["<=", ">=", "<", ">", "==", "!="]
CALLS = ["cardinality_geq", "cardinality_leq", "cardinality_eq", "cardinality_neq",
         "add_loose_majority", "add_loose_minority", "add_strict_majority", "add_strict_minority"]


def containers(lits):
    """The same literal list in every container the statement names."""
    out = [("list", lambda: list(lits)), ("tuple", lambda: tuple(lits)),
           ("generator", lambda: (l for l in lits))]
    if lits and list(lits) == list(range(lits[0], lits[0] + len(lits))) and lits[0] > 0:
        out.append(("range", lambda: range(lits[0], lits[0] + len(lits))))
    return out


def new_formula(cls):
    import cnfgen
    from cnfgen.formula.opb import OPB
    return OPB() if cls == "OPB" else cnfgen.CNF()


def added(F, cls):
    if cls == "OPB":
        return {"constraints": project.constraints_of(F)}
    return {"clauses": project.clauses_of(F)}


def run_builder(rid, cls, kind, call, lits, mk, args, extra):
    F = new_formula(cls)
    rec = {"id": rid, "kind": kind, "cls": cls, "call": call, "lits": list(lits)}
    rec.update(extra)
    try:
        getattr(F, call)(mk(), *args)
        rec["outcome"] = "ok"
    except Exception as e:
        rec["outcome"] = exc_name(e)
    rec["nvars"] = int(F.number_of_variables())
    rec.update(added(F, cls))
    return rec


def lit_lists(ck, maxlen, nv=3):
    base = [l for l in range(-nv, nv + 1) if l != 0]
    out = [[]]
    for n in range(1, maxlen + 1):
        allp = list(itertools.product(base, repeat=n))
        if len(allp) > 40:
            allp = ck.rng.sample(allp, 40)
        out += [list(p) for p in allp]
    out += [[1, 2, 3], [2, 3, 4], [1], [1, 2, 3, 4], [1, 2, 3, 4, 5]]
    return out


def instances(ck):
    q = ck.quick
    rng = ck.rng
    recs = []
    lists = lit_lists(ck, 3 if q else 4)
    n = 0
    for lits in lists:
        for cls in ("CNF", "OPB"):
            ks = range(-2, len(lits) + 3)
            for cname, mk in containers(lits):
                # add_linear exists on the CNF side only; the OPB side has add_constraint
                if cls == "CNF":
                    for op in OPS:
                        for k in ks:
                            if cname != "list" and q and rng.random() < .6:
                                continue
                            n += 1
                            recs.append(run_builder("lin-%d" % n, cls, "lin", "add_linear", lits, mk, (op, k),
                                                    {"op": op, "k": k, "container": cname,
                                                     "kf": "neq-mutates-argument" if op == "!=" and cname in ("tuple", "range") else None}))
                for call in CALLS:
                    if call.startswith("cardinality"):
                        for k in ks:
                            if cname != "list" and q and rng.random() < .6:
                                continue
                            n += 1
                            recs.append(run_builder("lin-%d" % n, cls, "lin", call, lits, mk, (k,),
                                                    {"k": k, "op": "n/a", "container": cname,
                                                     "kf": "neq-mutates-argument" if call == "cardinality_neq" and cname in ("tuple", "range") else None}))
                    else:
                        n += 1
                        recs.append(run_builder("lin-%d" % n, cls, "lin", call, lits, mk, (),
                                                {"k": 0, "op": "n/a", "container": cname}))
                for odd in (0, 1, False, True):
                    n += 1
                    r = run_builder("par-%d" % n, cls, "parity", "add_parity", lits, mk, (odd,),
                                    {"odd": bool(odd), "container": cname})
                    recs.append(r)
    # larger random lists
    for t in range(10 if q else 80):
        L = rng.randint(5, 9)
        lits = [rng.choice((-1, 1)) * rng.randint(1, 8) for _ in range(L)]
        cls = rng.choice(("CNF", "OPB"))
        k = rng.randint(-1, L + 1)
        if cls == "CNF":
            op = rng.choice(OPS)
            recs.append(run_builder("linL-%d" % t, cls, "lin", "add_linear", lits, lambda: list(lits), (op, k),
                                    {"op": op, "k": k, "container": "list"}))
        call = rng.choice(CALLS)
        args = (k,) if call.startswith("cardinality") else ()
        recs.append(run_builder("linLc-%d" % t, cls, "lin", call, lits, lambda: list(lits), args,
                                {"op": "n/a", "k": k, "container": "list"}))
        recs.append(run_builder("parL-%d" % t, cls, "parity", "add_parity", lits, lambda: list(lits), (t % 2,),
                                {"odd": bool(t % 2), "container": "list"}))
    # --- normalisation -------------------------------------------------------
    from cnfgen.formula.baseopb import normalize_opb
    coefs = (-3, -2, -1, 1, 2, 3)
    m = 0
    cons = []
    for L in range(0, 4):
        for t in range(12 if q else 60):
            terms = [[rng.choice(coefs), rng.choice((-1, 1)) * rng.randint(1, 3)] for _ in range(L)]
            for op in ("<=", ">=", "<", ">", "=="):
                cons.append((terms, op, rng.randint(-4, 6)))
    for terms, op, deg in cons:
        m += 1
        rec = {"id": "norm-%d" % m, "kind": "norm", "nvars": 3,
               "cons": {"terms": terms, "op": op, "deg": deg}}
        try:
            out = normalize_opb([tuple(t) for t in terms] + [op, deg])
            rec["out"] = {"terms": [[int(c), int(l)] for c, l in out[:-2]], "op": str(out[-2]), "deg": int(out[-1])}
            rec["outcome"] = "ok"
        except Exception as e:
            rec["out"] = {"terms": [], "op": ">=", "deg": 0}
            rec["outcome"] = exc_name(e)
        recs.append(rec)
        # and through add_constraint: what is stored must be normal and equivalent
        from cnfgen.formula.opb import OPB
        F = OPB()
        rec2 = {"id": "normadd-%d" % m, "kind": "norm", "nvars": 3,
                "cons": {"terms": terms, "op": op, "deg": deg}}
        try:
            F.add_constraint([tuple(t) for t in terms] + [op, deg])
            rec2["out"] = project.constraints_of(F)[0]
            rec2["outcome"] = "ok"
        except Exception as e:
            rec2["out"] = {"terms": [], "op": ">=", "deg": 0}
            rec2["outcome"] = exc_name(e)
        recs.append(rec2)
        # the same constraint object used again (normalised, then added to one formula, then to another):
        # every use must mean the constraint as it was written
        if m % 2 == 0:
            shared = [tuple(t) for t in terms] + [op, deg]
            for use in ("n2", "a2", "a3"):
                rec3 = {"id": "normre-%d-%s" % (m, use), "kind": "norm", "nvars": 3,
                        "cons": {"terms": terms, "op": op, "deg": deg}}
                try:
                    if use == "n2":
                        normalize_opb(shared)
                        out = normalize_opb(shared)
                        rec3["out"] = {"terms": [[int(c), int(l)] for c, l in out[:-2]], "op": str(out[-2]), "deg": int(out[-1])}
                    else:
                        G = OPB()
                        G.add_constraints_from([shared, shared]) if use == "a3" else G.add_constraint(shared)
                        rec3["out"] = project.constraints_of(G)[-1]
                    rec3["outcome"] = "ok"
                except Exception as e:
                    rec3["out"] = {"terms": [], "op": ">=", "deg": 0}
                    rec3["outcome"] = exc_name(e)
                recs.append(rec3)
    # --- mappings ------------------------------------------------------------
    forces_all = ["complete", "functional", "injective", "surjective", "nondecreasing"]
    fsets = [[f] for f in forces_all] + [["complete", "functional"], ["complete", "injective", "functional"],
                                         ["complete", "surjective", "injective"], ["complete", "injective", "nondecreasing"]]
    k = 0

    def run_map(shape, nn, mm, edges, forces, cls):
        nonlocal k
        k += 1
        F = new_formula(cls)
        rec = {"id": "map-%d" % k, "kind": "map", "cls": cls, "shape": shape, "n": nn, "m": mm, "forces": forces}
        if shape == "sparse":
            rec["graph"] = {"L": nn, "R": mm, "edges": edges}
        try:
            if shape == "unary":
                f = F.new_mapping(nn, mm)
            elif shape == "sparse":
                f = F.new_sparse_mapping(gen.mk_bipartite(nn, mm, edges))
            else:
                f = F.new_binary_mapping(nn, mm)
            for fo in forces:
                getattr(F, "force_%s_mapping" % fo)(f)
            rec["outcome"] = "ok"
        except Exception as e:
            rec["outcome"] = exc_name(e)
        p = project.formula(F)
        rec.update({"nvars": p["nvars"], "grp": p["grp"], "idx": p["idx"]})
        rec.update(added(F, cls))
        recs.append(rec)

    for nn, mm in itertools.product(range(0, 4), range(0, 5)):
        if nn * mm > 12:
            continue
        for forces in fsets:
            for cls in ("CNF", "OPB"):
                run_map("unary", nn, mm, None, forces, cls)
    for L, R in ((1, 2), (2, 2), (2, 3), (3, 2)):
        gs = list(gen.bipartite_graphs(L, R))
        for edges in rng.sample(gs, min(len(gs), 12 if q else 64)):
            for forces in fsets:
                run_map("sparse", L, R, edges, forces, rng.choice(("CNF", "OPB")))
    for nn, mm in itertools.product(range(1, 4), range(1, 7)):
        bits = (mm - 1).bit_length()
        if nn * bits > 9:
            continue
        for forces in fsets:
            run_map("binary", nn, mm, None, forces, "CNF")
    return recs


def keyf(rec, why):
    if rec.get("kf") == "neq-mutates-argument" and why == "unexpected_TypeError":
        return "lin:neq-on-immutable-sequence"
    return None


def main(argv=None):
    ck = common.Check("C04", argv)
    common.setup_repo_import()
    for part in ("blast", "parity", "norm", "binmap"):
        ck.model("LinearMC", "LinearMC_%s.cfg" % part, workers=4)
    recs = instances(ck)
    for r in recs:
        if r.get("kf") is None:
            r.pop("kf", None)
    kinds = {}
    for r in recs:
        kinds[r["kind"]] = kinds.get(r["kind"], 0) + 1
    ck.cover["records_per_kind"] = kinds
    for r in [recs[5], recs[len(recs) // 2], recs[-1]]:
        ck.sample(r)
    ck.judge("JudgeLinear", recs, cfg="Judge.cfg", keyf=keyf,
             weight=lambda r: (2 ** r["nvars"]) * (1 + len(r.get("clauses", r.get("constraints", [])))))
    ck.assumptions += ["literal lists over at most 3 (5 for range, 8 for random) variables, length <= 4 exhaustively "
                       "sampled, <= 9 random; constants from -2 to length+2"]
    return ck.finish(rule="one record = one builder call (formula class, method, literal list, container, operator, constant) "
                          "or one normalisation or one mapping with a set of force_* calls; TLC evaluates all assignments")


if __name__ == "__main__":
    common.main_wrapper(main)
