"""C17 - a command line builds the same formula as the library call it stands for.

CliTable.tla holds the documented correspondence (LibCall table): for every
formula sub-command and option combination the library generator and its
arguments, for every -T transformation its function, the named graph
arguments, and the output options that must not change the formula.  TLC
enumerates the table (spec -> code test generation, CliExport); the harness
runs the command line (cnfgen, pbgen, kthlist2pebbling) and, separately, the
library call named by TLC's descriptor - same seed installed before each,
graphs exchanged through the file written by 'save' - and JudgePair.tla
(strict mode) decides equality of formula class, variables, names and the
multiset of clauses / constraints.
"""
import os
import random as _random

from . import common, project, tlc, cliargs
from .exc import exc_name

SEED = 7


def lib_functions():
    import cnfgen
    import cnfgen.transformations.substitutions as S
    from cnfgen.transformations.shuffle import Shuffle
    from cnfgen.families.subgraph import RamseyWitnessFormula
    from cnfgen.families.pitfall import PitfallFormula
    from cnfgen.graphs import bipartite_random_left_regular
    f = {n: getattr(cnfgen, n) for n in (
        "PigeonholePrinciple", "GraphPigeonholePrinciple", "BinaryPigeonholePrinciple", "CliqueColoring",
        "RamseyNumber", "VanDerWaerden", "PythagoreanTriples", "RelativizedPigeonholePrinciple",
        "CountingPrinciple", "CPLSFormula", "RandomKCNF", "RandomKXOR", "PerfectMatchingPrinciple",
        "TseitinFormula", "SubsetCardinalityFormula", "GraphColoringFormula", "EvenColoringFormula",
        "DominatingSet", "Tiling", "GraphAutomorphism", "GraphIsomorphism", "CliqueFormula",
        "BinaryCliqueFormula", "SubgraphFormula", "PebblingFormula", "StoneFormula", "SparseStoneFormula",
        "OrderingPrinciple", "GraphOrderingPrinciple")}
    f["RamseyWitnessFormula"] = RamseyWitnessFormula
    f["PitfallFormula"] = PitfallFormula
    f["bipartite_random_left_regular"] = bipartite_random_left_regular
    # the documented meaning of --plant: one total assignment drawn at random, then planted
    f["random_total_assignment"] = lambda n: [_random.choice([-1, 1]) * v for v in range(1, n + 1)]
    f["RandomKCNF_planted"] = lambda k, n, m, P, formula_class: cnfgen.RandomKCNF(
        k, n, m, planted_assignments=[P], formula_class=formula_class)
    f["RandomKXOR_planted"] = lambda k, n, m, P, formula_class: cnfgen.RandomKXOR(
        k, n, m, planted_assignments=[P], formula_class=formula_class)
    t = {n: getattr(S, n) for n in (
        "OrSubstitution", "XorSubstitution", "AllEqualSubstitution", "NotAllEqualSubstitution",
        "MajoritySubstitution", "ExactlyOneSubstitution", "FormulaLifting", "AtLeastKSubstitution",
        "AtMostKSubstitution", "ExactlyKSubstitution", "AnythingButKSubstitution", "IfThenElseSubstitution",
        "FlipPolarity")}
    t["Shuffle"] = Shuffle
    t["VariableCompression_xor_random"] = lambda F, N, d: S.VariableCompression(
        F, bipartite_random_left_regular(F.number_of_variables(), N, d), "xor")
    t["VariableCompression_maj_random"] = lambda F, N, d: S.VariableCompression(
        F, bipartite_random_left_regular(F.number_of_variables(), N, d), "maj")
    t["identity"] = lambda F: F
    return f, t


def side(fn):
    try:
        F = fn()
    except BaseException as e:
        if isinstance(e, (KeyboardInterrupt, tlc.MachineryError)):
            raise
        return {"outcome": "refused" if exc_name(e) in ("CLIError", "ValueError", "SystemExit") else exc_name(e),
                "cls": "CNF", "nvars": 0, "labels": [], "clauses": []}
    p = project.formula(F)
    out = {"outcome": "ok", "cls": p["cls"], "nvars": p["nvars"], "labels": p["labels"]}
    out["constraints" if p["cls"] == "OPB" else "clauses"] = p["constraints" if p["cls"] == "OPB" else "clauses"]
    return out


class Runner:
    def __init__(self, ck, wd, graphs):
        self.ck, self.wd = ck, wd
        self.graphs = {g["name"]: g for g in graphs}
        self.f, self.t = lib_functions()
        self.n = 0

    def argv_with_save(self, argv):
        """Expand the graph placeholders "@name" into the tokens TLC's GraphSpec gives for the
        name, followed by 'save <file>' so that the library side loads the very same graph."""
        out, files = [], {}
        for tok in argv:
            if tok.startswith("@"):
                g = self.graphs[tok[1:]]
                self.n += 1
                path = os.path.join(self.wd, "g%d.kthlist" % self.n)
                spec = [os.path.join(self.wd, t[len("%file:"):]) if t.startswith("%file:") else t for t in g["spec"]]
                out += spec + ["save", path]
                files.setdefault(g["name"], []).append(path)
            else:
                out.append(tok)
        return out, files

    def load(self, gtype, path):
        from cnfgen.graphs import Graph, DirectedGraph, BipartiteGraph
        cls = {"simple": Graph, "bipartite": BipartiteGraph, "dag": DirectedGraph}[gtype]
        if gtype == "dag":
            from cnfgen.graphs import readGraph
            with open(path) as f:
                return readGraph(f, "dag", "kthlist")
        return cls.from_file(path, "kthlist")

    def value(self, a, files, env, used):
        if a["t"] == "int":
            return a["i"]
        if a["t"] == "bool":
            return bool(a["i"])
        if a["t"] == "str":
            return a["s"]
        if a["t"] == "ilist":
            return [int(x) for x in a["s"].split(",")] if a["s"] else []
        if a["t"] == "ref":
            return env[a["s"]]
        if a["t"] == "graph":
            k = used.get(a["s"], 0)
            used[a["s"]] = k + 1
            paths = files[a["s"]]
            return self.load(self.graphs[a["s"]]["gtype"], paths[min(k, len(paths) - 1)])
        raise tlc.MachineryError("unknown argument type %r" % a)

    def library(self, call, chain, files, cls):
        _random.seed(SEED)
        env, used = {}, {}
        for p in call["pre"]:
            env[p["name"]] = self.f[p["fn"]](*[self.value(a, files, env, used) for a in p["pos"]])
        F = self.f[call["fn"]](*[self.value(a, files, env, used) for a in call["pos"]], formula_class=cls)
        for t in chain:
            F = self.t[t["fn"]](F, *[self.value(a, files, env, used) for a in t["pos"]])
        return F

    def pair(self, rid, tool, argv, call, chain=(), opts=()):
        import cnfgen
        from cnfgen.formula.opb import OPB
        cls = OPB if tool == "pbgen" else cnfgen.CNF
        argv2, files = self.argv_with_save(argv)
        full = [tool] + list(opts) + ["--seed", str(SEED)] + argv2
        for t in chain:
            full += ["-T"] + list(t["tok"])

        def run_cli():
            _random.seed(99)          # whatever happens before --seed is honoured must not matter
            return cliargs.call_cli(tool, full)
        a = side(run_cli)
        b = side(lambda: self.library(call, chain, files, cls))
        return {"id": rid, "strict": True, "a": a, "b": b, "argv": " ".join(full[1:])}


def compress_records(ck, wd, trans):
    """`-T xorcomp N [d]` / `-T majcomp N [d]`: the graph is drawn by the command line and not shown, so the
    run is judged against VariableCompression on SOME d-left-regular graph (JudgeCompress.tla), not against a
    re-enactment of the draws."""
    import cnfgen
    from cnfgen.graphs import bipartite_random_left_regular
    import cnfgen.transformations.substitutions as S
    path = os.path.join(wd, "cbase.cnf")
    with open(path, "w") as f:
        f.write("p cnf 3 3\n1 -2 0\n2 3 0\n-1 -3 0\n")
    bases = [["or", "2", "1"], ["dimacs", path], ["php", "1", "2"]]
    recs = []
    for t in trans:
        if not t["fn"].endswith("_random"):
            continue
        kind = "xorcomp" if "xor" in t["fn"] else "majcomp"
        N, d = int(t["pos"][0]["i"]), int(t["pos"][1]["i"])
        for j, b in enumerate(bases):
            for s_ in (SEED, SEED + 1):
                head = ["cnfgen", "-q", "--seed", str(s_)] + b
                base = side(lambda: cliargs.call_cli("cnfgen", head))
                res = side(lambda: cliargs.call_cli("cnfgen", head + ["-T"] + list(t["tok"])))
                names = []
                if base["outcome"] == "ok" and d <= N:
                    F0 = cliargs.call_cli("cnfgen", head)
                    B = bipartite_random_left_regular(F0.number_of_variables(), N, d, seed=1)
                    names = [str(x) for x in S.VariableCompression(F0, B, "xor" if kind == "xorcomp" else "maj").all_variable_labels()]
                recs.append({"id": "comp-%s-%s-%d-%d" % ("_".join(t["tok"]), b[0], j, s_), "kind": kind, "N": N, "d": d,
                             "base": {"outcome": base["outcome"], "nvars": base["nvars"], "clauses": base.get("clauses", [])},
                             "res": {"outcome": res["outcome"], "nvars": res["nvars"], "clauses": res.get("clauses", []),
                                     "labels": res["labels"]},
                             "names": names, "argv": " ".join(head[1:] + ["-T"] + list(t["tok"]))})
    return recs


def main(argv=None):
    ck = common.Check("C17", argv)
    common.setup_repo_import()
    wd = tlc.workdir("C17")
    groups = ck.export("CliExport", "CliExport.cfg")
    table = {g["name"]: g["items"] for g in groups}
    if not {"formula", "transformations", "output_options", "graphs"} <= set(table):
        raise tlc.MachineryError("LibCall table export incomplete: %r" % sorted(table))
    with open(os.path.join(wd, "null.dimacs"), "w") as f:
        f.write("c the null graph\np edge 0 0\n")
    with open(os.path.join(wd, "p3.dimacs"), "w") as f:
        f.write("p edge 3 2\ne 1 2\ne 2 3\n")
    R = Runner(ck, wd, table["graphs"])
    rng = ck.rng
    cmds = sorted(table["formula"], key=lambda c: " ".join(c["argv"]))
    trans = sorted(table["transformations"], key=lambda t: " ".join(t["tok"]))
    recs = []
    # 1. every formula command of the table through cnfgen; pbgen on a sample (all in thorough)
    for j, c in enumerate(cmds):
        recs.append(R.pair("cnfgen-%04d" % j, "cnfgen", c["argv"], c["call"]))
        if not ck.quick or j % 3 == 0:
            recs.append(R.pair("pbgen-%04d" % j, "pbgen", c["argv"], c["call"]))
    # 2. transformation chains (left to right) on a few base commands
    bases = [c for c in cmds if " ".join(c["argv"]) in ("php 3 2", "op 3", "rphp 1 2 2", "parity 4", "kcolor 2 @g4",
                                                        "randkcnf 3 5 6", "count 4 2")]
    if len(bases) < 5:
        raise tlc.MachineryError("base commands for chains not found in the table")
    n = 0
    crecs = compress_records(ck, wd, trans)
    trans = [t for t in trans if not t["fn"].endswith("_random")]
    for b in bases:
        for t in trans:
            n += 1
            if ck.quick and n % 3 and b is not bases[0]:
                continue
            recs.append(R.pair("T1-%04d" % n, "cnfgen", b["argv"], b["call"], [t]))
    small = [t for t in trans if t["fn"] in ("XorSubstitution", "OrSubstitution", "FlipPolarity", "IfThenElseSubstitution",
                                             "Shuffle", "FormulaLifting", "ExactlyOneSubstitution", "identity",
                                             "AtMostKSubstitution")
             and all(a["i"] <= 2 for a in t["pos"])]
    for k in range(60 if ck.quick else 600):
        b = rng.choice(bases[:3])
        chain = [rng.choice(small) for _ in range(rng.choice((2, 2, 3)))]
        recs.append(R.pair("T%d-%04d" % (len(chain), k), "cnfgen", b["argv"], b["call"], chain))
    # 3. output options change nothing else
    for j, c in enumerate(rng.sample(cmds, 25 if ck.quick else 150)):
        for k, opts in enumerate(table["output_options"]):
            if opts and opts[-1] == "dimacs":
                tools = ("cnfgen",)
            elif opts and opts[-1] in ("opb", "latex"):
                tools = ("cnfgen", "pbgen")
            else:
                tools = ("cnfgen", "pbgen")
            for tool in tools:
                recs.append(R.pair("opt-%03d-%d-%s" % (j, k, tool), tool, c["argv"], c["call"], opts=opts))
    # 3b. `or P N` / `and P N` have no library generator: the documented formula is written down here (one clause
    #     with P positive and N negative literals / their conjunction, on P + N variables; the names are not
    #     documented and are taken as they come)
    for fam in ("or", "and"):
        for P in range(3):
            for N in range(3):
                for tool in ("cnfgen", "pbgen"):
                    a = side(lambda: cliargs.call_cli(tool, [tool, "-q", fam, str(P), str(N)]))
                    lits = list(range(1, P + 1)) + [-v for v in range(P + 1, P + N + 1)]
                    rows = [lits] if fam == "or" else [[l] for l in lits]
                    b = {"outcome": "ok", "cls": "OPB" if tool == "pbgen" else "CNF", "nvars": P + N, "labels": a.get("labels", [])}
                    if tool == "pbgen":
                        b["constraints"] = [{"terms": [[1, l] for l in r_], "op": ">=", "deg": 1} for r_ in rows]
                    else:
                        b["clauses"] = rows
                    recs.append({"id": "%s-%d-%d-%s" % (fam, P, N, tool), "strict": True, "a": a, "b": b,
                                 "argv": "%s %d %d" % (fam, P, N)})
    # 4. kthlist2pebbling equals peb on the same file
    from cnfgen.graphs import writeGraph, dag_pyramid, dag_path, dag_complete_binary_tree
    import cnfgen
    k2p = cliargs.tool("kthlist2pebbling")
    # files written by cnfgen, and legal kthlist files laid out differently (vertices without a line of their
    # own, several sinks, isolated vertices, comments and blank lines, lines in another order of appearance)
    hand = ["3\n3 : 1 2 0\n", "2\n", "3\n1 : 0\n2 : 1 0\n3 : 1 0\n", "4\n2 : 1 0\n4 : 3 0\n",
            "c a dag\n5\n\n3 : 1 2 0\n5 : 3 4 0\n", "1\n", "0\n", "4\n4 : 1 2 3 0\n", "5\n2 : 1 0\n3 : 1 0\n4 : 2 3 0\n"]
    for t in range(4 if ck.quick else 40):
        n = rng.randint(2, 6)
        lines = []
        for v in range(1, n + 1):
            preds = sorted(rng.sample(range(1, v), rng.randint(0, min(2, v - 1)))) if v > 1 else []
            if preds or rng.random() < .4:
                lines.append("%d : %s0\n" % (v, "".join("%d " % u for u in preds)))
        hand.append("%d\n%s" % (n, "".join(lines)))
    dags = [dag_pyramid(2), dag_path(4), dag_complete_binary_tree(2), dag_pyramid(3)] + hand
    for j, D in enumerate(dags):
        path = os.path.join(wd, "dag%d.kthlist" % j)
        with open(path, "w") as f:
            if isinstance(D, str):
                f.write(D)
            else:
                writeGraph(D, f, "dag", "kthlist")
        a = side(lambda: cliargs.call_cli(k2p, ["kthlist2pebbling", "-i", path]))
        b = side(lambda: cliargs.call_cli("cnfgen", ["cnfgen", "-q", "peb", path]))
        c = side(lambda: cnfgen.PebblingFormula(R.load("dag", path)))
        recs.append({"id": "k2p-%d-vs-peb" % j, "strict": True, "a": a, "b": b, "argv": "kthlist2pebbling -i dag"})
        recs.append({"id": "k2p-%d-vs-lib" % j, "strict": True, "a": a, "b": c, "argv": "kthlist2pebbling -i dag"})
    # coverage of the table: which sub-commands / transformations of the tools have no entry
    from cnfgen.clitools.cmdline import get_formula_helpers, get_transformation_helpers
    tabled = {c["argv"][0] for c in cmds}
    ttabled = {t["tok"][0] for t in trans}
    ck.cover["subcommands_without_table_entry"] = sorted({h.name for h in get_formula_helpers()} - tabled)
    ck.cover["transformations_without_table_entry"] = sorted({h.name for h in get_transformation_helpers()} - ttabled)
    ck.cover["table_entries_without_subcommand"] = sorted(tabled - {h.name for h in get_formula_helpers()})
    if ck.cover["table_entries_without_subcommand"]:
        raise tlc.MachineryError("LibCall table names sub-commands the tool does not have: %r"
                                 % ck.cover["table_entries_without_subcommand"])
    # chains can blow a formula up to millions of literals: those pairs are counted, not judged
    def size(r):
        return max(sum(len(c) if isinstance(c, list) else len(c["terms"])
                       for c in x.get("clauses", x.get("constraints", []))) for x in (r["a"], r["b"]))
    huge = [r["id"] for r in recs if size(r) > 150000]
    recs = [r for r in recs if r["id"] not in set(huge)]
    ck.count("pairs_too_large_to_judge", len(huge))
    ok_pairs = sum(1 for r in recs if r["a"]["outcome"] == "ok" and r["b"]["outcome"] == "ok")
    ck.count("table_formula_commands", len(cmds))
    ck.count("table_transformations", len(trans))
    ck.count("pairs", len(recs))
    ck.count("pairs_where_both_sides_built_a_formula", ok_pairs)
    if ok_pairs < len(recs) * 0.8:
        raise tlc.MachineryError("only %d of %d pairs built formulas on both sides: the driver is broken" % (ok_pairs, len(recs)))
    for r in (recs[0], recs[len(cmds) + 5], recs[-1]):
        ck.sample({"id": r["id"], "argv": r["argv"], "classes": [r["a"]["cls"], r["b"]["cls"]],
                   "nvars": r["a"]["nvars"], "outcomes": [r["a"]["outcome"], r["b"]["outcome"]]})
    ck.count("compression_shortcut_runs", len(crecs))
    ck.judge("JudgeCompress", crecs, cfg="Judge.cfg", weight=lambda r: 1 + 20 ** min(3, r["base"]["nvars"]))
    ck.judge("JudgePair", recs, cfg="Judge.cfg",
             weight=lambda r: 1 + len(r["a"].get("clauses", r["a"].get("constraints", []))))
    ck.assumptions += ["random choices: the same seed is installed before the command line builds and before the library "
                       "call (seeded randkcnf / randkxor without --plant are the pinned documented equality); --plant and the hidden graphs "
                       "of the compression shortcuts are judged existentially (C13 resp. JudgeCompress.tla), not by re-enacting draws",
                       "graph arguments are exchanged through the kthlist file written by 'save'",
                       "clauses are compared as multisets of literal sets (order of clauses and of literals is not demanded)"]
    return ck.finish(rule="one pair = one command line of the TLC-exported LibCall table (or a chain / option / tool variant) "
                          "and the library call TLC names for it; non-trivial = both sides built a formula",
                     distinct_nontrivial=ok_pairs)


if __name__ == "__main__":
    common.main_wrapper(main)
