"""C18 - any command line ends in a usable formula or a clean, shielded error.

Cli.tla is the pipeline machine (Parse -> Seed -> Build -> Transform* ->
Header -> Write, failure possible at every stage) with the invariants "nothing
is written before Write", "Write is atomic with respect to failure", "an error
is shielded"; its terminal outcomes are success / help / clierror.
CliArgs.tla enumerates abstract argument vectors for every sub-command (valid
example; each position replaced by a value class below / at / beyond its range
or by a malformed / unreadable graph or file argument; structural
perturbations) and says which outcomes each admits.  The harness concretises
every vector, runs the real tool as a fresh process and records exit status,
stdout and stderr; JudgeCli.tla decides that the run is one of the allowed
terminal outcomes, reading a successful output with the strict readers of
DimacsText.tla / OpbLatexIO.tla.
"""
import concurrent.futures as cf
import os
import resource
import subprocess
import sys

from . import common, tlc, c06, c12
from .exc import exc_name

INT_CLASS = {"neg": "-1", "zero": "0", "one": "1", "two": "2", "big": "25", "huge": "100000", "float": "2.5",
             "word": "abc", "empty": "", "plus": "+3", "exp": "1e2", "hex": "0x3"}
TOOLS = {"cnfgen": "cnfgen.clitools.cnfgen", "pbgen": "cnfgen.clitools.pbgen",
         "cnfshuffle": "cnfgen.clitools.cnfshuffle", "kthlist2pebbling": "cnfgen.clitools.kthlist2pebbling"}


def prepare_files(wd):
    """Input files of every kind (valid, empty, garbage, truncated, wrong type ...)."""
    from cnfgen.graphs import Graph, DirectedGraph, BipartiteGraph, writeGraph
    import cnfgen
    f = {}

    def w(name, text):
        p = os.path.join(wd, name)
        with open(p, "w") as fh:
            fh.write(text)
        return p

    def wg(name, G, typ, fmt):
        p = os.path.join(wd, name)
        with open(p, "w") as fh:
            writeGraph(G, fh, typ, fmt)
        return p
    G = Graph(4)
    for e in [(1, 2), (2, 3), (3, 4), (1, 4)]:
        G.add_edge(*e)
    Dg = DirectedGraph(4)
    for e in [(1, 3), (2, 3), (3, 4)]:
        Dg.add_edge(*e)
    B = BipartiteGraph(3, 2)
    for e in [(1, 1), (1, 2), (2, 1), (3, 2)]:
        B.add_edge(*e)
    f["gs"] = wg("gs.kthlist", G, "simple", "kthlist")
    f["gd"] = wg("gd.kthlist", Dg, "dag", "kthlist")
    f["gb"] = wg("gb.kthlist", B, "bipartite", "kthlist")
    f["gb_matrix"] = wg("gb.matrix", B, "bipartite", "matrix")
    f["gs_dimacs"] = wg("gs.dimacs", G, "simple", "dimacs")
    f["cnf"] = w("f.cnf", "c a formula\np cnf 3 2\n1 -2 0\n2 3 0\n")
    f["empty_kth"] = w("empty.kthlist", "")
    f["empty_cnf"] = w("empty.cnf", "")
    f["garbage_kth"] = w("garbage.kthlist", "this is\nnot a graph : at all 0\n\x00\x01\n")
    f["garbage_cnf"] = w("garbage.cnf", "p cnf x y\n1 2 three 0\n")
    txt = open(f["gs"]).read()
    f["trunc_kth"] = w("trunc.kthlist", txt[: len(txt) * 2 // 3].rstrip("0 \n"))
    f["trunc_cnf"] = w("trunc.cnf", "p cnf 3 2\n1 -2 0\n2 3")
    f["late_cnf"] = w("late.cnf", "c ok so far\np cnf 4 3\n1 -2 0\n2 3 -4 0\n-1 9 0\n")
    f["late_word_cnf"] = w("lateword.cnf", "p cnf 4 3\n1 -2 0\n2 x -4 0\n-1 3 0\n")
    f["fewer_cnf"] = w("fewer.cnf", "p cnf 4 3\n1 -2 0\n2 3 -4 0\n")
    f["more_cnf"] = w("more.cnf", "p cnf 4 2\n1 -2 0\n2 3 -4 0\n-1 3 0\n")
    f["second_cnf"] = w("second.cnf", "p cnf 4 3\n1 -2 0\n2 3 -4 0\np cnf 4 3\n-1 3 0\n")
    f["late_kth"] = w("late.kthlist", "4\n1 : 0\n2 : 1 0\n3 : 1 7 0\n4 : 3 0\n")
    f["fewer_kth"] = w("fewer.kthlist", "5\n1 : 0\n2 : 1 0\n3 : 2 0\n")
    f["more_kth"] = w("more.kthlist", "2\n1 : 0\n2 : 1 0\n3 : 2 0\n")
    f["second_kth"] = w("second.kthlist", "3\n1 : 0\n2 : 1 0\n3\n3 : 2 0\n")
    f["unknown_ext"] = w("graph.xyz", txt)
    f["blank_dimacs"] = w("blank.dimacs", "p edge 3 2\n\ne 1 2\ne 2 3\n")
    f["cyclic"] = w("cyclic.kthlist", "3\n1 : 0\n2 : 3 0\n3 : 2 0\n")
    d = os.path.join(wd, "adir.kthlist")
    os.makedirs(d, exist_ok=True)
    f["dir"] = d
    d2 = os.path.join(wd, "adir.cnf")
    os.makedirs(d2, exist_ok=True)
    f["dir_cnf"] = d2
    f["missing"] = os.path.join(wd, "nosuchfile.kthlist")
    f["missing_cnf"] = os.path.join(wd, "nosuchfile.cnf")
    return f


def graph_tokens(kind, cls, f):
    """Concrete tokens for a graph position of the given kind and class."""
    good = {"gs": ["grid", "2", "2"], "gb": ["complete", "2", "3"], "gd": ["pyramid", "2"]}[kind]
    okfile = {"gs": f["gs"], "gb": f["gb"], "gd": f["gd"]}[kind]
    wrong = {"gs": f["gb_matrix"], "gb": f["gs_dimacs"], "gd": f["gb_matrix"]}[kind]
    rnd = {"gs": ["gnp", "6", "0.5"], "gb": ["glrp", "3", "3", "0.5"], "gd": ["tree", "2"]}[kind]
    return {"file_ok": [okfile], "spec_random": rnd, "missing_file": [f["missing"]], "directory": [f["dir"]],
            "empty_file": [f["empty_kth"]], "garbage_file": [f["garbage_kth"]], "truncated_file": [f["trunc_kth"]],
            "wrong_type_file": [wrong], "unknown_extension": [f["unknown_ext"]],
            "bad_spec": [good[0], "x", "y"], "incomplete_spec": [rnd[0]],
            "bad_modifier": good + ["plantclique" if kind == "gs" else "plantbiclique" if kind == "gb" else "plantclique"],
            "impossible_modifier": good + ["addedges", "1000"],
            "save_nowhere": good + ["save", "/nonexistent_dir_verif/x.kthlist"],
            "stdin_closed": ["kthlist", "-"], "blank_line_file": [f["blank_dimacs"]]}[cls]


def file_tokens(kind, cls, f):
    cnf = kind == "file"
    return {"missing_file": [f["missing_cnf"] if cnf else f["missing"]],
            "directory": [f["dir_cnf"] if cnf else f["dir"]],
            "empty_file": [f["empty_cnf"] if cnf else f["empty_kth"]],
            "garbage_file": [f["garbage_cnf"] if cnf else f["garbage_kth"]],
            "truncated_file": [f["trunc_cnf"] if cnf else f["trunc_kth"]],
            "late_bad_token": [f["late_cnf"] if cnf else f["late_kth"]],
            "fewer_items_than_declared": [f["fewer_cnf"] if cnf else f["fewer_kth"]],
            "more_items_than_declared": [f["more_cnf"] if cnf else f["more_kth"]],
            "second_header_line": [f["second_cnf"] if cnf else f["second_kth"]],
            "cyclic_graph_file": [f["cyclic"]], "stdin_closed": ["-"]}[cls]


def concretise(v, f, wd):
    """argv (without the tool name) and the output format in force for a vector."""
    tool = v["tool"]
    default_fmt = "opb" if tool == "pbgen" else "dimacs"
    if v["dev"] == "large_valid":
        return (["--output-format", v["fmt"]] if v["fmt"] != "default" else []) + list(v["valid"]), v["fmt"]
    if v["dev"] == "graph_spec_grid":
        return [v["name"]] + list(v["valid"]), default_fmt
    if v["dev"] in ("raw", "raw_help"):
        return [f["gd"] if t == "@gdfile" else t for t in v["valid"]], default_fmt
    if v["dev"] == "build_refusal":
        sel = v["fmt"]
        kind, _, what = sel.partition("_")
        fmt = {"dimacs": "dimacs", "opb": "opb", "latex": "latex", "cnf": "dimacs", "tex": "latex"}.get(what, default_fmt)
        if tool == "pbgen" and kind == "extension":
            fmt = "opb"        # pbgen's format option defaults to opb: the file extension is not consulted
        if kind == "option":
            glob = ["--output-format", what]
        elif kind == "extension":
            glob = ["-o", os.path.join(wd, "refused_%s_%s.%s" % (tool, abs(hash(tuple(v["valid"]))) % 10 ** 6, what))]
        else:
            glob = []
        return glob + [f["gd"] if t == "@gdfile" else t for t in v["valid"]], fmt
    fmt = default_fmt if v["fmt"] == "default" else v["fmt"]
    glob = [] if v["fmt"] == "default" or tool in ("cnfshuffle", "kthlist2pebbling") else ["--output-format", v["fmt"]]
    place = {"@gs": ["grid", "2", "2"], "@gseven": ["complete", "3"], "@gb": ["complete", "2", "3"],
             "@gd": ["pyramid", "2"], "@cnf": [f["cnf"]], "@gdfile": [f["gd"]]}
    toks = []
    for j, t in enumerate(v["valid"], start=1):
        kind = v["kinds"][j - 1]
        if v["dev"] == "class" and v["pos"] == j:
            if kind in ("nat", "pos"):
                toks.append([INT_CLASS[v["cls"]]])
            elif kind in ("gs", "gb", "gd"):
                toks.append(graph_tokens(kind, v["cls"], f))
            elif kind in ("file", "gdfile"):
                toks.append(file_tokens(kind, v["cls"], f))
            else:
                toks.append(["bogus"] if v["cls"] == "other_word" else [""])
        else:
            toks.append(place.get(t, [t]))
    dev = v["dev"]
    if dev == "missing_last" and toks:
        toks = toks[:-1]
    body = [x for t in toks for x in t]
    name = [v["name"]] if v["name"] else []
    opts = sorted(v["opts"])
    if dev == "extra_argument":
        body.append("7")
    elif dev == "unknown_option":
        body = ["--frobnicate"] + body
    elif dev == "dangling_T":
        body += ["-T"]
    elif dev == "unknown_transformation":
        body += ["-T", "nosuch"]
    elif dev == "T_needs_argument":
        body += ["-T", "xor"]
    elif dev == "bad_output_format":
        glob = ["--output-format", "xyz"]
    elif dev == "help":
        glob = ["-h"]
    elif dev == "sub_help":
        body = ["-h"]
    elif dev == "seed_word":
        glob = ["--seed", "abc"]
    elif dev == "no_subcommand":
        name, body, opts = [], [], []
    elif dev == "output_to_directory":
        glob = ["-o", f["dir"]]
    if tool in ("cnfshuffle", "kthlist2pebbling") and dev in ("help",):
        return ["-h"], fmt
    return glob + name + body + opts, fmt


def _limits():
    resource.setrlimit(resource.RLIMIT_AS, (3 * 2 ** 30, 3 * 2 ** 30))


def run_tool(job):
    rid, tool, args, timeout = job
    code = ("import sys; sys.argv=[%r]+%r; from %s import main; main()" % (tool, list(args), TOOLS[tool]))
    env = dict(os.environ)
    env.update({"PYTHONPATH": common.REPO, "PYTHONWARNINGS": "ignore", "PYTHONHASHSEED": "0",
                "PYTHONDONTWRITEBYTECODE": "1"})
    env.pop("CNFGEN_VERIF", None)
    try:
        p = subprocess.run(["/venv/bin/python", "-c", code], cwd=common.REPO, env=env, stdin=subprocess.DEVNULL,
                           stdout=subprocess.PIPE, stderr=subprocess.PIPE, timeout=timeout, preexec_fn=_limits)
        return rid, p.returncode, p.stdout.decode("utf8", "replace"), p.stderr.decode("utf8", "replace"), False
    except subprocess.TimeoutExpired:
        return rid, None, "", "", True


def marks(text):
    return [l[:2] if len(l) > 1 else l for l in text.splitlines() if l.strip()]


def record(rid, v, expect, fmt, args, rc, out, err):
    rec = {"id": rid, "tool": v["tool"], "fmt": fmt, "dev": v["dev"], "expect": expect, "exit": int(rc),
           "traceback": "Traceback (most recent call last)" in err,
           "out_nonblank": sum(1 for l in out.splitlines() if l.strip()),
           "out_marks": marks(out), "err_marks": marks(err), "argv": " ".join(args)[:300],
           "stderr_head": err[:300], "name": v["name"], "cls": v["cls"]}
    big = len(out) > 200000
    if fmt == "dimacs":
        rec["dlines"] = [] if big or rc != 0 else c06.lex(out)[0]
    elif fmt == "opb":
        rec["olines"] = [] if big or rc != 0 else c12.lex_opb(out)
    if big and rc == 0:
        rec["fmt"] = "latex"   # too large to lex: only "something was written" is checked
    return rec


def keyf(rec, why):
    return None


def main(argv=None):
    ck = common.Check("C18", argv)
    common.setup_repo_import()
    wd = tlc.workdir("C18")
    ck.model("Cli", "Cli.cfg", workers=2)
    # decision table of the output format (spec -> code): every case of CliTable.GuessFormat is
    # replayed into the real guess_output_format
    import io
    from cnfgen.formula.cnfio import guess_output_format
    groups = {g["name"]: g["items"] for g in ck.export("CliExport", "CliExport.cfg")}
    for j, c in enumerate(sorted(groups["formats"], key=lambda c: (c["req"], c["ext"], c["named"]))):
        name = "out" + ("." + c["ext"] if c["ext"] else "")
        target = name if c["named"] else io.StringIO()      # a stream without a name has no extension
        try:
            got = guess_output_format(target, None if c["req"] == "none" else c["req"])
        except ValueError:
            got = "ValueError"
        except Exception as e:
            got = exc_name(e)
        ck.replayed({"id": "format-%03d" % j, "case": c, "got": got}, got == c["expect"],
                    "output_format_%s_expected_%s" % (got, c["expect"]))
    vectors = ck.export("CliArgs", "CliArgs.cfg")
    if len(vectors) != 1 or len(vectors[0]) < 1000:
        raise tlc.MachineryError("argument vectors not exported")
    vectors = sorted(vectors[0], key=lambda x: (x["v"]["tool"], x["v"]["name"], "".join(x["v"]["valid"]), x["v"]["dev"],
                                                x["v"]["pos"], x["v"]["cls"], x["v"]["fmt"], "".join(sorted(x["v"]["opts"]))))
    f = prepare_files(wd)
    if ck.quick:
        must = [x for x in vectors if x["expect"] != "any"]
        rest = [x for x in vectors if x["expect"] == "any"]
        grid = [x for x in rest if x["v"]["dev"] == "graph_spec_grid"]
        rest = [x for x in rest if x["v"]["dev"] != "graph_spec_grid"]
        # the corners of the grid (two or more zero arguments) always, a sample of the rest
        corners = [x for x in grid if list(x["v"]["valid"]).count("0") >= 2]
        others = [x for x in grid if list(x["v"]["valid"]).count("0") < 2]
        raw = [x for x in rest if x["v"]["dev"] == "raw"] + [x for x in must if x["v"]["dev"] == "raw_help"]
        rest = [x for x in rest if x["v"]["dev"] != "raw"]
        keep = must[::2] + ck.rng.sample(rest, 800) + corners + ck.rng.sample(others, 150) + raw
        other = [x for x in vectors if x["v"]["tool"] in ("cnfshuffle", "kthlist2pebbling")]
        seen = set()
        vectors = []
        for x in keep + other:
            k = id(x)
            if k not in seen:
                seen.add(k)
                vectors.append(x)
    jobs, meta = [], {}
    for j, x in enumerate(vectors):
        args, fmt = concretise(x["v"], f, wd)
        rid = "v%04d" % j
        jobs.append((rid, x["v"]["tool"], args, 25))
        meta[rid] = (x, fmt, args)
    with cf.ThreadPoolExecutor(max_workers=tlc.NCPU) as ex:
        results = list(ex.map(run_tool, jobs))
    recs, timeouts, memlimit = [], 0, 0
    for rid, rc, out, err, to in results:
        x, fmt, args = meta[rid]
        if to:
            timeouts += 1
            continue
        if "MemoryError" in err:
            # the address-space limit of the harness was hit: resource exhaustion, not judged
            memlimit += 1
            continue
        recs.append(record(rid, x["v"], x["expect"], fmt, args, rc, out, err))
    ck.count("vectors_run", len(jobs))
    ck.count("timeouts_not_judged", timeouts)
    ck.count("memory_limit_hits_not_judged", memlimit)
    cls = {}
    for r in recs:
        k = "exit0" if r["exit"] == 0 else "error"
        cls[k] = cls.get(k, 0) + 1
    ck.cover["observed_outcomes"] = cls
    if cls.get("exit0", 0) < 50 or cls.get("error", 0) < 50:
        raise tlc.MachineryError("driver broken: outcomes %r" % cls)
    for r in (recs[0], recs[len(recs) // 3], recs[-1]):
        ck.sample({k: r[k] for k in ("id", "tool", "argv", "exit", "fmt", "expect", "err_marks")})
    ck.judge("JudgeCli", recs, cfg="Judge.cfg", keyf=keyf, weight=lambda r: 1 + len(r.get("dlines", r.get("olines", []))))
    ck.assumptions += ["each vector is run as a fresh process (python -c '... main()') with cwd=/repo, stdin closed, a 25 s "
                       "time limit and a 3 GB address-space limit; runs that hit the time limit are counted, not judged",
                       "LaTeX output has no strict reader: only 'something was written' is checked for it",
                       "the OPB strict reader tolerates the missing ';' (known finding of C12)"]
    return ck.finish(rule="one case = one concretised argument vector of CliArgs.tla run as a process; distinct by construction; "
                          "non-trivial = the process ended within the time limit and was judged")


if __name__ == "__main__":
    common.main_wrapper(main)
