"""C06 - DIMACS output round-trips and the DIMACS reader never misreads.

Specification: spec/DimacsText.tla (token lines, Denotation, Allowed, Write,
IsCanonical), spec/DimacsIO.tla (the reader of utils/parsedimacs.py as a token
state machine; round trip through the writer), spec/JudgeDimacs.tla (judge).

  model  TLC explores every token path of bounded length through the reader
         machine (Accept => out = Denotation(whole text), ...) and every tiny
         formula through Write + the same machine (round trip).
  (A)    spec -> code: TLC prints every finished path with Allowed(text) and the
         denotation; each path is rendered into several concrete texts
         (whitespace, line terminators, spellings of integers and words) and
         given to the real CNF.from_file; outcome must be in TLC's allowed set
         and an accepted result must equal TLC's denotation.
  (B)    code -> spec: formulas (edge cases, families, transformations, random)
         are written with the four header/varnames combinations by the real
         writer, the output is lexed and TLC judges IsCanonical + re-read.
  (B')   mutated / truncated writer outputs, token soup and random bytes are
         read by the real reader; TLC judges outcome in Allowed(text) and
         result = Denotation(text).

Python here drives, lexes (an independent lexer written from the format:
lines, whitespace separated tokens, first character of the stripped line;
int() defines "an integer written in the text"), and compares concrete values.
"""
import base64
import io
import os
import random as _random
import re

from . import common, tlc, gen
from .exc import exc_name

INT_LIMIT = 2 ** 31 - 2          # TLC integers are 32 bit
_LINEBREAK = re.compile(r"\r\n|\r|\n")          # text-file line terminators (universal newlines)
_SAFEWORD = re.compile(r"^[A-Za-z0-9_.+%$#@!?*=<>()\[\]{}:;,/|~^&'-]{1,24}$")


# --------------------------------------------------------------------------
# independent lexer: text -> token lines
# --------------------------------------------------------------------------
def split_lines(text):
    parts = _LINEBREAK.split(text)
    if parts and parts[-1] == "":
        parts.pop()             # the terminator of the last line does not open a new line
    return parts


def split_tokens(line):
    toks, cur = [], []
    for ch in line:
        if ch.isspace():
            if cur:
                toks.append("".join(cur))
                cur = []
        else:
            cur.append(ch)
    if cur:
        toks.append("".join(cur))
    return toks


def lex(text):
    """Returns (lines, huge) - huge: a problem line carries an integer TLC cannot hold."""
    lines, huge = [], False
    for raw in split_lines(text):
        toks = split_tokens(raw)
        if not toks:
            lines.append({"k": "b", "t": []})
            continue
        first = toks[0][0]
        if first == "c":
            lines.append({"k": "c", "t": []})
            continue
        kind = "p" if first == "p" else "d"
        out = []
        for tk in toks:
            try:
                v = int(tk)
            except ValueError:
                out.append({"w": tk if _SAFEWORD.match(tk) else "<word>"})
                continue
            if abs(v) > INT_LIMIT:
                if kind == "p":
                    huge = True
                v = INT_LIMIT if v > 0 else -INT_LIMIT
            out.append({"i": v})
        lines.append({"k": kind, "t": out})
    return lines, huge


def has_bare_cr(text):
    return re.search(r"\r(?!\n)", text) is not None


# --------------------------------------------------------------------------
# driving the real reader / writer
# --------------------------------------------------------------------------
def project(F):
    return {"nvars": int(F.number_of_variables()),
            "clauses": [[int(l) for l in c] for c in F.clauses()]}


def real_read(source):
    """CNF.from_file on a file name or stream -> (outcome, result)."""
    from cnfgen import CNF
    try:
        F = CNF.from_file(source)
    except ValueError:
        return "ValueError", None
    except Exception as e:                      # judged by the specification
        return exc_name(e)[:24], None
    return "accept", project(F)


_TMP = {}


def tmp_path(wd):
    p = _TMP.get(os.getpid())
    if p is None:
        p = _TMP[os.getpid()] = os.path.join(wd, "in_%d.cnf" % os.getpid())
    return p


def read_bytes(wd, data):
    path = tmp_path(wd)
    with open(path, "wb") as f:
        f.write(data)
    return real_read(path)


NORESULT = {"nvars": -1, "clauses": []}


def read_record(rid, data, outcome, result, text=None, extra=None):
    """Judge record of kind "read" for the bytes `data`."""
    if text is None:
        try:
            text = data.decode("utf-8")
        except UnicodeDecodeError:
            text = None
    if text is None:
        lines, huge, enc = [], False, "undecodable"
    else:
        (lines, huge), enc = lex(text), "ok"
    rec = {"id": rid, "kind": "read", "enc": enc, "lines": lines, "outcome": outcome,
           "result": result or NORESULT, "raw_b64": base64.b64encode(data).decode("ascii")}
    if extra:
        rec.update(extra)
    return rec, huge


# --------------------------------------------------------------------------
# (A) TLC paths -> concrete texts -> real reader
# --------------------------------------------------------------------------
COMMENTS = ["c", "c comment", "c 1 2 0", "c p cnf 1 1", "cnf 9 9", "c\t%", "  c indented",
            "cè 中", "c0"]
BLANKS = ["", " ", "\t", "  \t "]
WORDS = ["x", "1.0", "1e1", "--1", "0x1", "%", "1-", "a0", "1,2", "O"]


def spell(tok, rng, plain):
    if "i" in tok:
        v = tok["i"]
        if plain:
            return str(v)
        if v > 0:
            return rng.choice(["%d", "%d", "+%d", "0%d", "+0%d"]) % v
        if v < 0:
            return rng.choice(["-%d", "-%d", "-0%d"]) % -v
        return rng.choice(["0", "0", "00", "-0", "+0"])
    w = tok["w"]
    if w == "x":
        return "x" if plain else rng.choice(WORDS)
    return w


def render(lines, rng, plain=False):
    nl = "\n" if plain else rng.choice(["\n", "\n", "\r\n", "\r"])
    out = []
    for ln in lines:
        if ln["k"] == "b":
            out.append("" if plain else rng.choice(BLANKS))
        elif ln["k"] == "c":
            out.append("c" if plain else rng.choice(COMMENTS))
        else:
            sep = " " if plain else rng.choice([" ", " ", "\t", "  ", " \t "])
            s = sep.join(spell(t, rng, plain) for t in ln["t"])
            if not plain:
                s = rng.choice(["", "", " ", "\t  "]) + s + rng.choice(["", "", " ", "\t"])
            out.append(s)
    text = "".join(s + nl for s in out)
    if not plain and out and out[-1].strip() and rng.random() < 0.4:
        text = text[:-len(nl)]          # last line without terminator
    return text


def same_abstract(lexed, lines):
    """lex(render(path)) spells the path again (words of kind "x" by position)."""
    if len(lexed) != len(lines):
        return False
    for a, b in zip(lexed, lines):
        if a["k"] != b["k"]:
            return False
        if a["k"] == "c":
            continue
        if len(a["t"]) != len(b["t"]):
            return False
        for x, y in zip(a["t"], b["t"]):
            if ("i" in x) != ("i" in y):
                return False
            if "i" in x and x["i"] != y["i"]:
                return False
            if "w" in y and y["w"] != "x" and x["w"] != y["w"]:
                return False
    return True


_A = {}


def _replay_path(job):
    """One TLC path -> renderings -> real reader.  Returns (failures, n_texts, fidelity_mismatch)."""
    idx, rec = job
    wd, seed, nrender = _A["wd"], _A["seed"], _A["nrender"]
    rng = _random.Random(seed * 7919 + idx)
    fails, ntexts, infidel = [], 0, 0
    for r in range(nrender):
        text = render(rec["lines"], rng, plain=(r == 0))
        lexed, _ = lex(text)
        if not same_abstract(lexed, rec["lines"]):
            raise tlc.MachineryError("renderer/lexer disagree on path %d: %r" % (idx, text))
        chans = [("file", lambda: read_bytes(wd, text.encode("utf-8")))]
        if not has_bare_cr(text):
            chans.append(("stream", lambda: real_read(io.StringIO(text))))
        for cname, fn in chans:
            outcome, result = fn()
            ntexts += 1
            why = check_against(rec, outcome, result)
            if (outcome == "accept") != (rec["model"] == "accepted"):
                infidel += 1
            if why:
                fails.append({"id": "path-%d-r%d-%s" % (idx, r, cname), "path": rec, "text": text,
                              "channel": cname, "outcome": outcome, "result": result or NORESULT,
                              "why": why, "kf": "reader:" + why})
    return fails, ntexts, infidel


def check_against(rec, outcome, result):
    """Compare the real outcome with what TLC printed for the path (membership / equality only)."""
    if outcome not in rec["allowed"]:
        return ("misread_no_denotation" if outcome == "accept" else "unexpected_" + outcome)
    if outcome == "accept":
        if result["nvars"] != rec["den"]["nvars"]:
            return "wrong_nvars"
        if result["clauses"] != [list(c) for c in rec["den"]["clauses"]]:
            return "wrong_clauses"
    return None


def write_paths_cfg(path, depth, shard=99, export=True, maxm=2):
    with open(os.path.join(tlc.SPEC, "DimacsIO_ex_paths.cfg")) as f:
        s = f.read()
    s = s.replace("Depth = 4", "Depth = %d" % depth).replace("ShardN = 99", "ShardN = %d" % shard)
    s = s.replace("MaxM = 2", "MaxM = %d" % maxm)
    if not export:
        with open(os.path.join(tlc.SPEC, "DimacsIO_mc_paths.cfg")) as f:
            s = f.read()
        s = re.sub(r"Depth = \d+", "Depth = %d" % depth, s).replace("ShardN = 99", "ShardN = %d" % shard)
        s = s.replace("MaxM = 2", "MaxM = %d" % maxm)
    with open(path, "w") as f:
        f.write(s)
    return path


def part_a(ck, wd):
    import concurrent.futures as cf
    depth = 5 if ck.quick else 6
    cfgs = [write_paths_cfg(os.path.join(wd, "ex_paths_%d.cfg" % s), depth, s)
            for s in ((99,) if ck.quick else (0, 1, 2))]
    with cf.ThreadPoolExecutor(max_workers=3) as ex:
        parts = list(ex.map(lambda c: ck.export("DimacsIO", c, heap="4g", timeout=3000), cfgs))
    paths = [p for part in parts for p in part]
    if not paths:
        raise tlc.MachineryError("no paths exported")
    ck.count("paths_exported_depth%d" % depth, len(paths))
    ck.count("paths_with_denotation", sum(1 for p in paths if p["hasden"]))
    for w in sorted({p["why"] for p in paths}):
        ck.count("paths_model_" + w, sum(1 for p in paths if p["why"] == w))
    _A.update(wd=wd, seed=ck.seed, nrender=3)
    res = common.pmap(_replay_path, list(enumerate(paths)))
    ntexts = infidel = 0
    for (idx, rec), (fails, nt, inf) in zip(enumerate(paths), res):
        ntexts += nt
        infidel += inf
        if not fails:
            ck.replayed({"id": "path-%d" % idx}, True, "ok")
        for frec in fails:
            ck.replayed(frec, False, frec["why"])
    ck.count("concrete_texts_read", ntexts)
    ck.count("model_vs_code_outcome_disagreements", infidel)
    for p in (paths[0], paths[len(paths) // 2]):
        ck.sample({"path": p["lines"], "allowed": p["allowed"], "den": p["den"]})
    return len(paths)


# --------------------------------------------------------------------------
# (B) formulas -> real writer -> lexer -> TLC
# --------------------------------------------------------------------------
def edge_formulas(quick=True):
    from cnfgen import CNF
    out = []

    def add(name, F):
        out.append((name, F))

    add("empty", CNF())
    F = CNF(); F.update_variable_number(3); add("novars-clauses0-n3", F)
    add("one-empty-clause", CNF([[]]))
    add("two-empty-clauses", CNF([[], []]))
    add("mixed-empty-clause", CNF([[1, -2], [], [2]]))
    F = CNF([[1]]); F.update_variable_number(5); add("unused-variables", F)
    add("rep-opp-dup", CNF([[1, 1], [1, -1], [1, 1], [-1, 1]]))
    add("wide-clause", CNF([list(range(1, 61)), [-k for k in range(1, 61)]]))
    add("many-units", CNF([[(-1) ** k * (1 + k % 3)] for k in range(200)]))
    # sizes around the powers of two a buffered writer or reader would pick
    for m in (1023, 4097, 9000) + (() if quick else (16385, 33000)):
        add("large-%d" % m, CNF([[(-1) ** k * (1 + k % 7)] + ([1 + (k * 5) % 7] if k % 3 == 0 else []) +
                                 ([] if k % 1000 else [-(1 + k % 5), 6]) for k in range(m)]))
    add("description-none", CNF([[1, 2]], description=None))
    descs = {
        "percent": "100% of $HOME {0} {} %s \\n",
        "nonascii": "formula è ü λ 中 \U0001f600",
        "starts-with-p-cnf": "p cnf 3 2",
        "starts-with-c": "c c c",
        "tab-ff-vt": "a\tb\x0cc\x0bd\x1ce",
        "nel-ls": "a\x85b c d",
        "empty": "",
        "spaces": "   ",
    }
    for k, d in descs.items():
        add("desc-" + k, CNF([[1, -2], [2]], description=d))
    breaks = {
        "lf-word": "first line\nsecond line",
        "lf-clause": "first line\n1 -2 0",
        "lf-problem": "first line\np cnf 1 1",
        "lf-comment": "first line\nc shielded by luck",
        "lf-trailing": "ends with a line break\n",
        "lf-leading": "\nstarts with a line break",
        "lf-blank": "a\n\nc b",
        "crlf": "a\r\nb",
        "cr": "a\rb",
        "lf-zero": "a\n0",
    }
    for k, d in breaks.items():
        add("desc-" + k, CNF([[1, -2], [2]], description=d))
    F = CNF([[1, -2], [2]]); F.header["my\nkey"] = "value"; add("headerkey-lf", F)
    F = CNF([[1, -2], [2]]); F.header["extra"] = 17; F.header["note"] = "x: y: z"; add("header-extra", F)
    F = CNF([[1, -2], [2]]); F.header["multi"] = "1\n2\n3\n"; add("headervalue-lf-ints", F)
    labels = {"plain": ["a", "b"], "percent": ["%", "{}"], "nonascii": ["è", "中"],
              "p-cnf": ["p cnf 1 1", "c"], "spaces": ["x y z", ""], "tab": ["a\tb", "\x0c"],
              "lf-word": ["a\nb", "z"], "lf-clause": ["a\n1 0", "z"], "cr": ["a\rb", "z"],
              "lf-comment": ["a\nc b", "z"], "lf-trailing": ["a\n", "z"]}
    for k, labs in labels.items():
        F = CNF()
        vs = [F.new_variable(label=l) for l in labs]
        F.add_clause([vs[0], -vs[1]])
        F.add_clause([vs[1]])
        add("label-" + k, F)
    F = CNF(); F.new_block(2, 2, label="q\n{}_{}"); F.add_clause([1, -4]); add("blocklabel-lf", F)
    F = CNF(); F.new_block(2, 2, label="q_{{{},{}}}"); F.add_clause([1, -4]); F.add_clause([2, 3, 4])
    F.update_variable_number(6); add("block-plus-unnamed", F)
    return out


def rendered_then_changed(formulas, rng):
    """The same objects used again: each formula is rendered once (every DIMACS entry point), then changed
    (variables only / a clause only / both) and handed to the writers again - what is written must be the
    formula as it is now."""
    import copy
    out = []
    for name, F in formulas:
        if len(F) > 300 or any(has_break(str(v)) for v in F.header.values()):
            continue
        for kind in ("vars", "clause", "both"):
            G = copy.deepcopy(F)
            try:
                G.to_dimacs()
                G.to_file(io.StringIO(), fileformat="dimacs", export_header=True, export_varnames=True)
            except Exception:
                continue
            n = G.number_of_variables()
            if kind in ("vars", "both"):
                G.update_variable_number(n + 1)
                if hasattr(G, "new_variable"):
                    G.new_variable("late_{}".format(n))
            if kind in ("clause", "both"):
                G.add_clause([-max(1, G.number_of_variables())] if G.number_of_variables() else [])
            out.append(("%s.%s" % (name[:18], kind[0]), G))
    return out


def has_break(s):
    return "\n" in s or "\r" in s


def family_formulas(ck):
    import cnfgen as c
    rng = ck.rng
    q = ck.quick
    G4 = gen.mk_graph(4, [[1, 2], [2, 3], [3, 4], [1, 4]])
    G5 = gen.mk_graph(5, [[1, 2], [2, 3], [3, 4], [4, 5], [1, 5], [1, 3]])
    T3 = gen.mk_graph(3, [[1, 2], [2, 3], [1, 3]])
    B = gen.mk_bipartite(3, 3, [[1, 1], [1, 2], [2, 2], [2, 3], [3, 1], [3, 3]])
    D = gen.mk_digraph(5, [[1, 3], [2, 3], [3, 4], [2, 5], [4, 5]])
    thunks = {
        "php-3-2": lambda: c.PigeonholePrinciple(3, 2),
        "php-0-0": lambda: c.PigeonholePrinciple(0, 0),
        "fphp-onto-2-3": lambda: c.PigeonholePrinciple(2, 3, True, True),
        "gphp": lambda: c.GraphPigeonholePrinciple(B),
        "bphp-3-2": lambda: c.BinaryPigeonholePrinciple(3, 2),
        "rphp-2-2-1": lambda: c.RelativizedPigeonholePrinciple(2, 2, 1),
        "op-3": lambda: c.OrderingPrinciple(3),
        "op-4-total": lambda: c.OrderingPrinciple(4, total=True),
        "op-0": lambda: c.OrderingPrinciple(0),
        "gop": lambda: c.GraphOrderingPrinciple(G4),
        "count-4-2": lambda: c.CountingPrinciple(4, 2),
        "matching": lambda: c.PerfectMatchingPrinciple(G4),
        "tseitin": lambda: c.TseitinFormula(G5),
        "kcolor": lambda: c.GraphColoringFormula(G5, 3),
        "ec": lambda: c.EvenColoringFormula(G4),
        "domset": lambda: c.DominatingSet(G5, 2),
        "kclique": lambda: c.CliqueFormula(G5, 3),
        "bkclique": lambda: c.BinaryCliqueFormula(G5, 2),
        "ram-3-3-4": lambda: c.RamseyNumber(3, 3, 4),
        "ptn-12": lambda: c.PythagoreanTriples(12),
        "vdw-6-2-3": lambda: c.VanDerWaerden(6, 2, 3),
        "subsetcard": lambda: c.SubsetCardinalityFormula(B),
        "cliquecol-3-2-2": lambda: c.CliqueColoring(3, 2, 2),
        "peb": lambda: c.PebblingFormula(D),
        "stone": lambda: c.StoneFormula(D, 2),
        "tiling": lambda: c.Tiling(G4),
        "subgraph": lambda: c.SubgraphFormula(G5, T3),
        "iso": lambda: c.GraphIsomorphism(G4, G4),
        "auto": lambda: c.GraphAutomorphism(G4),
        "cpls-2-2-2": lambda: c.CPLSFormula(2, 2, 2),
        "randkcnf-3-6-12": lambda: c.RandomKCNF(3, 6, 12, seed=ck.seed + 1),
        "randkcnf-0-0-0": lambda: c.RandomKCNF(0, 0, 0, seed=ck.seed + 1),
        "randkxor-3-5-3": lambda: c.RandomKXOR(3, 5, 3, seed=ck.seed + 2),
    }
    if not q:
        thunks.update({
            "php-7-6": lambda: c.PigeonholePrinciple(7, 6),
            "op-8": lambda: c.OrderingPrinciple(8),
            "ram-3-3-6": lambda: c.RamseyNumber(3, 3, 6),
            "randkcnf-3-60-250": lambda: c.RandomKCNF(3, 60, 250, seed=ck.seed + 3),
            "randkcnf-5-200-1500": lambda: c.RandomKCNF(5, 200, 1500, seed=ck.seed + 4),
            "pitfall": lambda: c.PitfallFormula(8, 3, 2, 2, 2),
        })
    base = {}
    skipped = 0
    for name, th in thunks.items():
        try:
            base[name] = th()
        except Exception:          # generator failures belong to other properties
            skipped += 1
    out = list(base.items())
    src = [base[k] for k in ("php-3-2", "op-3", "peb", "randkcnf-3-6-12") if k in base]
    trans = {
        "shuffle": lambda F: c.Shuffle(F),
        "flip": lambda F: c.FlipPolarity(F),
        "xor2": lambda F: c.XorSubstitution(F, 2),
        "or2": lambda F: c.OrSubstitution(F, 2),
        "lift3": lambda F: c.FormulaLifting(F, 3),
        "maj3": lambda F: c.MajoritySubstitution(F, 3),
        "ite": lambda F: c.IfThenElseSubstitution(F),
        "one2": lambda F: c.ExactlyOneSubstitution(F, 2),
        "eq2": lambda F: c.AllEqualSubstitution(F, 2),
        "neq3": lambda F: c.NotAllEqualSubstitution(F, 3),
        "xor2-shuffle": lambda F: c.Shuffle(c.XorSubstitution(F, 2)),
    }
    for tn, tf in trans.items():
        for k, F in enumerate(src if not q else src[:2]):
            try:
                _random.seed(ck.seed + k)
                out.append(("%s-of-%d" % (tn, k), tf(F)))
            except Exception:
                skipped += 1
    # random CNFs built by hand (repetitions, empty clauses, unused variables)
    for t in range(30 if q else 300):
        n = rng.randint(0, 12)
        m = rng.randint(0, 25)
        cls = []
        for _ in range(m):
            w = rng.choice([0, 1, 1, 2, 3, 3, 5]) if n else 0
            cls.append([rng.choice([-1, 1]) * rng.randint(1, n) for _ in range(w)])
        F = c.CNF(cls)
        F.update_variable_number(n + rng.choice([0, 0, 3]))
        out.append(("rand-%d" % t, F))
    ck.count("generators_skipped_on_exception", skipped)
    return out


def header_has_break(F):
    return any("\n" in str(k) or "\r" in str(k) or "\n" in str(v) or "\r" in str(v)
               for k, v in F.header.items())


def labels_have_break(F):
    return any("\n" in str(l) or "\r" in str(l) for l in F.all_variable_labels())


def write_records(ck, wd, formulas):
    """Real writer on every formula with the four option combinations."""
    recs, texts = [], []
    outdir = os.path.join(wd, "out")
    os.makedirs(outdir, exist_ok=True)
    for name, F in formulas:
        form = project(F)
        hb, lb = header_has_break(F), labels_have_break(F)
        for h in (False, True):
            for v in (False, True):
                rid = "w-%s-%d%d" % (name, h, v)
                path = os.path.join(outdir, rid + ".cnf")
                try:
                    F.to_file(path, export_header=h, export_varnames=v)
                except Exception as e:          # judged by the specification
                    recs.append({"id": rid, "kind": "write", "wrote": exc_name(e)[:24], "formula": form,
                                 "options": {"header": h, "varnames": v}, "lines": [],
                                 "reread": dict(NORESULT, outcome="not_written")})
                    continue
                with open(path, "rb") as f:
                    data = f.read()
                text = data.decode("utf-8")
                lines, huge = lex(text)
                if huge:
                    raise tlc.MachineryError("formula too large for TLC integers: " + rid)
                outcome, result = real_read(path)
                rr = dict(result or NORESULT)
                rr["outcome"] = outcome
                rec = {"id": rid, "kind": "write", "wrote": "ok", "formula": form,
                       "options": {"header": h, "varnames": v}, "lines": lines, "reread": rr}
                if h and hb:
                    rec["kf"] = "writer:header-field-linebreak"
                elif v and lb:
                    rec["kf"] = "writer:varname-linebreak"
                recs.append(rec)
                # the same text as a reader artefact
                rrec, _ = read_record(rid + "r", data, outcome, result, text=text)
                rrec.pop("raw_b64")
                recs.append(rrec)
                texts.append(text)
                os.unlink(path)
        # to_dimacs(): the string form, no header, no names
        try:
            s = F.to_dimacs()
            buf = io.StringIO()
            F.to_file(buf, fileformat="dimacs", export_header=True, export_varnames=True)
        except Exception as e:
            recs.append({"id": "w-%s-td" % name, "kind": "write", "wrote": exc_name(e)[:24],
                         "formula": form, "options": {"header": False, "varnames": False}, "lines": [],
                         "reread": dict(NORESULT, outcome="not_written")})
            continue
        lines, _ = lex(s)
        outcome, result = real_read(io.StringIO(s))
        rr = dict(result or NORESULT)
        rr["outcome"] = outcome
        recs.append({"id": "w-%s-td" % name, "kind": "write", "wrote": "ok", "formula": form,
                     "options": {"header": False, "varnames": False}, "lines": lines, "reread": rr})
        # to_file on a stream
        s2 = buf.getvalue()
        if not has_bare_cr(s2):
            lines, _ = lex(s2)
            outcome, result = real_read(io.StringIO(s2))
            rr = dict(result or NORESULT)
            rr["outcome"] = outcome
            rec = {"id": "w-%s-st" % name, "kind": "write", "wrote": "ok", "formula": form,
                   "options": {"header": True, "varnames": True}, "lines": lines, "reread": rr}
            if hb:
                rec["kf"] = "writer:header-field-linebreak"
            elif lb:
                rec["kf"] = "writer:varname-linebreak"
            recs.append(rec)
        # to_file on file objects whose name is not a string (anonymous and spooled temporary files)
        import tempfile
        for tag, mk in (("tf", lambda: tempfile.TemporaryFile("w+", encoding="utf-8", newline="")),
                        ("sp", lambda: tempfile.SpooledTemporaryFile(mode="w+", encoding="utf-8", newline=""))):
            if len(F) > 300:
                continue
            rid = "w-%s-%s" % (name, tag)
            with mk() as fh:
                try:
                    F.to_file(fh, export_header=False, export_varnames=False)
                    fh.seek(0)
                    s3 = fh.read()
                except Exception as e:
                    recs.append({"id": rid, "kind": "write", "wrote": exc_name(e)[:24], "formula": form,
                                 "options": {"header": False, "varnames": False}, "lines": [],
                                 "reread": dict(NORESULT, outcome="not_written")})
                    continue
            lines, _ = lex(s3)
            outcome, result = real_read(io.StringIO(s3))
            rr = dict(result or NORESULT)
            rr["outcome"] = outcome
            recs.append({"id": rid, "kind": "write", "wrote": "ok", "formula": form,
                         "options": {"header": False, "varnames": False}, "lines": lines, "reread": rr})
    return recs, texts


def filename_roundtrip(ck, wd):
    """A DIMACS file whose *name* contains a line break: from_file puts the name
    in the description, the writer then emits it in the header."""
    from cnfgen import CNF
    d = os.path.join(wd, "odd names")
    os.makedirs(d, exist_ok=True)
    out = []
    for tag, fname in (("lf", "my\nfile.cnf"), ("plain", "my file %.cnf"), ("lf-clause", "a\n1 0\n.cnf")):
        p = os.path.join(d, fname)
        with open(p, "w") as f:
            f.write("p cnf 2 2\n1 -2 0\n2 0\n")
        try:
            out.append(("fname-" + tag, CNF.from_file(p)))
        except Exception as e:      # the text is what the writer emits for [[1,-2],[2]]: a round trip failure
            ck.report({"id": "fname-" + tag, "text": "p cnf 2 2\n1 -2 0\n2 0\n", "file": p,
                       "kf": "reader:refuses-writer-style-text"}, "reread_" + exc_name(e))
    return out


# --------------------------------------------------------------------------
# (B') corrupted texts -> real reader -> TLC
# --------------------------------------------------------------------------
SOUP = ["p", "cnf", "c", "0", "0", "0", "1", "-1", "2", "-2", "3", "-3", "+1", "-0", "1_0", "0x1", "1.0",
        "x", "%", "p cnf 2 2", "p cnf 1 1", "p cnf 0 0", "p cnf 3 1", "c comment", "p cnf", "pcnf 1 2 1",
        "p dnf 2 1", "p cnf 2 1 0", "p cnf -1 1", "P CNF 1 1", "C",
        "\n", "\n", "\n", "\r\n", "\r", " ", " ", "\t", "\x0c", "\x0b", "\x1c", "\x85", " ", "\xa0",
        "٣", "１", "99999999999", "-99999999999", "2147483647", "e", "\x00", "﻿", "--1", "1-"]


def soup(rng):
    k = rng.randint(0, 14)
    return "".join(rng.choice(SOUP) + rng.choice(["", " ", " ", "\n"]) for _ in range(k))


def valid_text(rng):
    n = rng.randint(0, 4)
    m = rng.randint(0, 5)
    parts = []
    if rng.random() < 0.3:
        parts.append("c header\n")
    parts.append("p cnf %d %d\n" % (n, m))
    for _ in range(m):
        w = rng.randint(0, 3) if n else 0
        lits = [str(rng.choice([-1, 1]) * rng.randint(1, n)) for _ in range(w)]
        parts.append(" ".join(lits + ["0"]) + rng.choice(["\n", "\n", " ", "\nc x\n"]))
    return "".join(parts)


def layout_text(rng):
    """A valid formula in a free layout: clauses broken over lines, several clauses on a line, comments
    and blank lines anywhere between two tokens."""
    n = rng.randint(1, 6)
    m = rng.randint(0, 9)
    toks = []
    for _ in range(m):
        toks += [str(rng.choice([-1, 1]) * rng.randint(1, n)) for _ in range(rng.choice((0, 1, 1, 2, 2, 3, 4)))]
        toks.append("0")
    style = rng.choice(("lines", "free", "free", "dense", "tokens"))
    parts = [rng.choice(["", "c a comment\n", "c\n\n"]), "p cnf %d %d" % (n, m), rng.choice(["\n", " \n", "\r\n"])]
    for k, t in enumerate(toks):
        parts.append(t)
        if k == len(toks) - 1:
            parts.append(rng.choice(["\n", "", " ", "\n\n", "\nc end\n"]))
        elif style == "lines":
            parts.append("\n" if t == "0" else " ")
        elif style == "dense":
            parts.append(" " if rng.random() < .85 else "\n")
        elif style == "tokens":
            parts.append("\n")
        else:
            parts.append(rng.choice([" ", " ", " ", "\n", "\n", "  ", "\t", "\n\n", "\nc mid\n", " \n "]))
    return "".join(parts)


def mutate(text, rng):
    ops = rng.randint(1, 3)
    for _ in range(ops):
        op = rng.choice(["truncate", "delchar", "delline", "dupline", "swaplines", "settoken", "insline",
                         "pcount", "newline", "append", "dropzero", "concat"])
        lines = text.split("\n")
        if op == "truncate" and text:
            text = text[:rng.randrange(len(text))]
        elif op == "delchar" and text:
            i = rng.randrange(len(text))
            text = text[:i] + text[i + 1:]
        elif op == "delline" and lines:
            del lines[rng.randrange(len(lines))]
            text = "\n".join(lines)
        elif op == "dupline" and lines:
            i = rng.randrange(len(lines))
            lines.insert(i, lines[i])
            text = "\n".join(lines)
        elif op == "swaplines" and len(lines) > 1:
            i, j = rng.randrange(len(lines)), rng.randrange(len(lines))
            lines[i], lines[j] = lines[j], lines[i]
            text = "\n".join(lines)
        elif op == "settoken":
            toks = re.split(r"( +|\n)", text)
            idx = [i for i, t in enumerate(toks) if t.strip()]
            if idx:
                i = rng.choice(idx)
                toks[i] = rng.choice(["0", "1", "-1", "2", "7", "-7", "x", "+1", "00", "p", "c", "1.5", ""])
                text = "".join(toks)
        elif op == "insline":
            i = rng.randrange(len(lines) + 1)
            lines.insert(i, rng.choice(["", "c note", "p cnf 1 1", "1 0", "0", "x", "  ", "-1", "c", "%"]))
            text = "\n".join(lines)
        elif op == "pcount":
            def bump(mo):
                a, b = int(mo.group(1)), int(mo.group(2))
                if rng.random() < 0.5:
                    a += rng.choice([-1, 1])
                else:
                    b += rng.choice([-1, 1])
                return "p cnf %d %d" % (a, b)
            text = re.sub(r"p cnf (\d+) (\d+)", bump, text, count=1)
        elif op == "newline":
            text = text.replace("\n", rng.choice(["\r\n", "\r", "\n\n", " \n "]))
        elif op == "append":
            text += rng.choice(["0", "1", "1 0", "\n0\n", "x", "c end", "\n\n", " ", "p cnf 0 0\n"])
        elif op == "dropzero":
            text = re.sub(r" ?0\s*$", "", text)
        elif op == "concat":
            text = text + valid_text(rng)
    return text


def corrupted_inputs(ck, writer_texts):
    """(id, bytes) pairs."""
    rng = ck.rng
    q = ck.quick
    pool = [t for t in writer_texts if len(t) <= 1500]
    out = []
    for t in range(600 if q else 8000):
        out.append(("mut-%d" % t, mutate(rng.choice(pool), rng).encode("utf-8")))
    for t in range(500 if q else 8000):
        base = valid_text(rng)
        out.append(("val-%d" % t, (base if t % 3 == 0 else mutate(base, rng)).encode("utf-8")))
    for t in range(1200 if q else 12000):
        base = layout_text(rng)
        out.append(("lay-%d" % t, (base if t % 4 else mutate(base, rng)).encode("utf-8")))
    for t in range(500 if q else 8000):
        out.append(("soup-%d" % t, soup(rng).encode("utf-8")))
    for t in range(60 if q else 600):
        k = rng.randint(0, 24)
        head = rng.choice([b"", b"p cnf 1 1\n", b"p cnf 2 1\n1 "])
        out.append(("bytes-%d" % t, head + bytes(rng.randrange(256) for _ in range(k))))
    hand = ["", "\n", "c only a comment", "p cnf 0 0", "p cnf 0 0\n", "p cnf 1 1\n1 0", "p cnf 1 1\n1\n0\n",
            "p cnf 1 1\n2 0\n", "p cnf 1 1\n-2 0\n", "p cnf 1 2\n1 0\n", "p cnf 1 0\n1 0\n", "p cnf 1 1\n1\n",
            "p cnf 1 1\n1 0\np cnf 1 1\n", "1 0\np cnf 1 1\n", "p cnf 1\n", "p cnf 1 1 1\n", "p cnf -1 0\n",
            "p cnf a b\n", "p  cnf\t1   1 \r\n 1  0 \r\n", "p cnf 2 1\n1\nc mid clause comment\n2 0\n",
            "pcnf 1 2 1\n1 2 0\n", "p foo 1 1\n1 0\n", "p\n", "P CNF 1 1\n1 0\n", "p cnf 1 1\n+1 0\n",
            "p cnf 10 1\n1_0 0\n", "p cnf 1 1\n1 0 0\n", "p cnf 1 2\n0 0\n", "p cnf 1 1\n1.0 0\n",
            "﻿p cnf 1 1\n1 0\n", "p cnf 1 1\n1 0\n%\n0\n", "c\np cnf 1 1\nc\n1 0\nc\n", "p cnf 3 1\n٣ 0\n",
            "p cnf 1 1\r1 0\r", "p cnf 1 1\n1\x0c0\n", "p cnf 1 1\n1 0\x1a", "p cnf 1 1\n" + "9" * 5000 + " 0\n",
            "p cnf 99999999999 0\n", "p cnf 1 1\n99999999999 0\n", "p cnf 1 1\n1 0\n\x00"]
    for t, s in enumerate(hand):
        out.append(("hand-%d" % t, s.encode("utf-8")))
    return out


_B = {}


def _read_job(job):
    rid, data = job
    wd = _B["wd"]
    recs = []
    outcome, result = read_bytes(wd, data)
    rec, huge = read_record(rid + ":f", data, outcome, result)
    if huge:
        return [], 1
    recs.append(rec)
    if rec["enc"] == "ok":
        text = data.decode("utf-8")
        if not has_bare_cr(text):
            outcome, result = real_read(io.StringIO(text))
            rec2, _ = read_record(rid + ":s", data, outcome, result, text=text)
            recs.append(rec2)
    return recs, 0


def cli_records(ck, wd, inputs):
    """`cnfgen dimacs <file>` in process: a formula, or a clean command line
    error (argparse exit) which counts as the refusal; anything else is named."""
    from cnfgen.clitools.cnfgen import cli
    from cnfgen.clitools.cmdline import CLIError
    import contextlib
    recs = []
    path = os.path.join(wd, "cli_in.cnf")
    for rid, data in inputs:
        with open(path, "wb") as f:
            f.write(data)
        err = io.StringIO()
        try:
            with contextlib.redirect_stderr(err), contextlib.redirect_stdout(io.StringIO()):
                F = cli(["cnfgen", "-q", "dimacs", path], mode="formula")
            outcome, result = "accept", project(F)
        except SystemExit as e:
            outcome, result = ("ValueError" if e.code not in (0, None) else "exit0_without_formula"), None
        except (ValueError, CLIError):          # CLIError: the command line's own refusal
            outcome, result = "ValueError", None
        except Exception as e:
            outcome, result = exc_name(e), None
        rec, huge = read_record(rid + ":c", data, outcome, result)
        if not huge:
            recs.append(rec)
    return recs


def check_ids(recs):
    """TLC wraps printed tuples at 80 columns; tlc.judge reads one-line verdicts."""
    for r in recs:
        if len(r["id"]) > 30 or not re.match(r"^[A-Za-z0-9_.:+-]+$", r["id"]):
            raise tlc.MachineryError("record id too long or unsafe: %r" % r["id"])


def keyf(rec, why):
    return rec.get("kf") or "%s:%s" % ("reader" if rec.get("kind") == "read" else "writer", why)


def weight(rec):
    return 5 + sum(len(l["t"]) + 1 for l in rec.get("lines", []))


# --------------------------------------------------------------------------
def run_models(ck, wd):
    q = ck.quick
    # reader: all token paths (alphabet: comment, blank/eol, 22 problem line variants, ints -3..3, a word)
    if q:
        ck.model("DimacsIO", write_paths_cfg(os.path.join(wd, "mc_paths.cfg"), 6, export=False), workers=8)
    else:
        import concurrent.futures as cf
        cfgs = [write_paths_cfg(os.path.join(wd, "mc_paths_%d.cfg" % s), 7, s, export=False, maxm=3)
                for s in (0, 1, 2)]
        with cf.ThreadPoolExecutor(max_workers=3) as ex:
            list(ex.map(lambda c: ck.model("DimacsIO", c, workers=6, heap="6g", timeout=3000), cfgs))
    # writer + reader: Read(Write(F)) = F for all tiny F; what line breaks expose
    with open(os.path.join(tlc.SPEC, "DimacsIO_mc_roundtrip.cfg")) as f:
        s = f.read()
    if q:
        s = s.replace("MaxClauses = 3", "MaxClauses = 2")
    p = os.path.join(wd, "mc_roundtrip.cfg")
    with open(p, "w") as f:
        f.write(s)
    ck.model("DimacsIO", p, workers=8)
    ck.model("DimacsIO", "DimacsIO_mc_exposed.cfg", workers=4)


def replay_one(ck, wd, rec):
    """--replay: re-run the real code on the stored input and re-judge."""
    if "path" in rec:                                  # (A) artefact
        text = rec["text"]
        if rec["channel"] == "file":
            outcome, result = read_bytes(wd, text.encode("utf-8"))
        else:
            outcome, result = real_read(io.StringIO(text))
        why = check_against(rec["path"], outcome, result)
        ck.replayed(rec, why is None, why or "ok")
        return
    if rec.get("kind") == "read" and "raw_b64" in rec:
        data = base64.b64decode(rec["raw_b64"])
        rid = rec["id"]
        if rid.endswith(":s"):
            outcome, result = real_read(io.StringIO(data.decode("utf-8")))
        elif rid.endswith(":c"):
            new = cli_records(ck, wd, [(rid[:-2], data)])
            ck.judge("JudgeDimacs", new, cfg="JudgeDimacs.cfg", keyf=keyf)
            return
        else:
            outcome, result = read_bytes(wd, data)
        new, _ = read_record(rid, data, outcome, result)
        ck.judge("JudgeDimacs", [new], cfg="JudgeDimacs.cfg", keyf=keyf)
        return
    # writer artefacts: rebuild every formula (deterministic in tier and seed) and re-judge that one
    ck.tier, ck.seed = rec.get("tier", ck.tier), rec.get("seed", ck.seed)
    ck.quick = ck.tier == "quick"
    ck.rng = _random.Random(ck.seed * 1000003 + sum(map(ord, ck.pid)))
    formulas = edge_formulas(ck.quick) + filename_roundtrip(ck, wd) + family_formulas(ck)
    recs, _ = write_records(ck, wd, formulas)
    ck.judge("JudgeDimacs", recs, cfg="JudgeDimacs.cfg", keyf=keyf, weight=weight)


def main(argv=None):
    ck = common.Check("C06", argv)
    common.setup_repo_import()
    import cnfgen  # noqa: F401  (before any fork)
    wd = tlc.workdir("C06")
    rec = ck.replay_record()
    if rec is not None:
        replay_one(ck, wd, rec)
        return ck.finish()

    run_models(ck, wd)

    # (A)
    npaths = part_a(ck, wd)

    # (B)
    formulas = edge_formulas(ck.quick) + filename_roundtrip(ck, wd) + family_formulas(ck)
    formulas += rendered_then_changed([f for f in formulas if not f[0].startswith("large-")], ck.rng)
    wrecs, texts = write_records(ck, wd, formulas)
    for r in wrecs:
        r["tier"], r["seed"] = ck.tier, ck.seed
    ck.count("formulas_written", len(formulas))
    ck.count("writer_outputs_judged", sum(1 for r in wrecs if r["kind"] == "write"))
    ck.sample({k: wrecs[4][k] for k in ("id", "formula", "options", "lines", "reread")})

    # (B')
    inputs = corrupted_inputs(ck, texts)
    _B.update(wd=wd)
    rrecs, skipped = [], 0
    for recs, sk in common.pmap(_read_job, inputs):
        rrecs += recs
        skipped += sk
    pick = dict(inputs[::(25 if ck.quick else 40)] + inputs[-40:])
    crecs = cli_records(ck, wd, sorted(pick.items()))
    ck.count("corrupted_texts", len(inputs))
    ck.count("reader_artefacts_judged", len(rrecs) + len(crecs))
    ck.count("reader_artefacts_accepted", sum(1 for r in rrecs + crecs if r["outcome"] == "accept"))
    ck.count("reader_artefacts_undecodable", sum(1 for r in rrecs if r["enc"] != "ok"))
    ck.count("skipped_problem_line_beyond_32bit", skipped)
    ck.sample({k: rrecs[0][k] for k in ("id", "lines", "outcome", "result")})

    check_ids(wrecs + rrecs + crecs)
    ck.judge("JudgeDimacs", wrecs + rrecs + crecs, cfg="JudgeDimacs.cfg", keyf=keyf, weight=weight)

    ck.assumptions += [
        "a text is seen through the lexer of this harness: lines end at \\n, \\r\\n or \\r (text-file "
        "convention), tokens are separated by Unicode whitespace, Python int() decides what is an integer; "
        "a line whose first non-blank character is c / p is a comment / problem line",
        "a problem line is any line starting with p that has four tokens whose last two are integers >= 0 "
        "(format word and spelling of the first token unconstrained: lenient acceptance is allowed)",
        "blank lines in writer output are tolerated; integers beyond 32 bit are clamped in data lines, "
        "texts with such integers on the problem line are skipped",
        "model scope: token paths up to %d symbols over ints -3..3, n <= 2; round trip for nvars <= 2, "
        "<= %d clauses of width <= 2" % ((6, 2) if ck.quick else (7, 3)),
    ]
    if not ck.args.keep:
        import shutil
        shutil.rmtree(wd, ignore_errors=True)
    return ck.finish(
        rule="one case = one TLC token path rendered into 3 concrete texts and read by CNF.from_file "
             "(paths are distinct states of the exhaustive export), or one writer output / corrupted text "
             "judged by TLC; non-trivial = the real reader or writer ran on it and TLC computed the "
             "denotation / canonical form",
        distinct_nontrivial=npaths + len(wrecs) + len(rrecs) + len(crecs))


if __name__ == "__main__":
    common.main_wrapper(main)
