"""C20 - solve() and is_satisfiable() report what the SAT solver found.

TLC (Solver.tla) explores the documented solver bridge as a state machine
(Resolve -> Probe -> WriteInput -> Run -> ParseLine* -> Cleanup -> Return/Raise)
over every scenario of the scope and checks its invariants; the export config
prints every terminal state: the scenario rendered to concrete texts, the
outcome the caller may observe and the temporary files left (none).  The set
of terminal outcomes TLC reaches for one scenario is the set of allowed
outcomes of that scenario.

Direction A: for each scenario this harness materialises the prescribed fake
solver executables in a private PATH directory, points TMPDIR and the working
directory at empty scratch directories, calls the real CNF.solve() /
CNF.is_satisfiable() with the prescribed cmd / sameas on the prescribed
formula and compares (a) the projected result or exception class with TLC's
outcomes for that scenario, (b) the scratch directories' content with TLC's
(empty) set of leftover files.  Nothing here knows what the right answer is.
"""
import concurrent.futures as cf
import json
import os
import shutil
import sys
import tempfile

from . import common, tlc
from .exc import exc_name

PID = "C20"
# an argument longer than the kernel's per-argument limit: exec of the solver
# fails with OSError (E2BIG) although the executable is installed -- this is
# how the scenario flag `runfault` ("the solver cannot be executed") is realised
FAULT_ARG = " -" + "x" * 140000


# --------------------------------------------------------------------------
# fake solver executables (pure text templating of what TLC prescribed)

def _q(s):
    if "'" in s or "\n" in s:
        raise tlc.MachineryError("unquotable text %r" % s)
    return "'" + s + "'"


def _printf(lines, redirect=""):
    if not lines:
        return (": " + redirect) if redirect else ":"
    return "printf '%s\\n' " + " ".join(_q(l) for l in lines) + (" " + redirect if redirect else "")


def fake_script(scn, fk, logfile):
    """Shell text of the executable `fk` of scenario `scn`."""
    name, speaks = fk["name"], fk["speaks"]
    # what the executable does when it is probed with --help is not part of any convention: real solvers
    # print a usage text and exit with 0, or with 1, or take the word for a file name and fail
    import zlib
    hb = zlib.crc32(("%s/%s/%s" % (name, scn["n"], len(scn["cls"]))).encode()) % 3
    out = ["#!/bin/sh", "# fake solver %s speaking %s (%s)" % (name, speaks, fk["role"]),
           "exec 2>/dev/null",
           'for a in "$@"; do [ "$a" = "--help" ] && { echo "%s"; exit %d; }; done'
           % (("usage: %s [options]" % name, 0), ("usage: %s [options]" % name, 1),
              ("c cannot open file --help", 2))[hb]]
    if fk["role"] != "target":
        out += ['echo "%s decoy" >> %s' % (name, _q(logfile)), 'echo "c %s: I should not have been run"' % name, "exit 1"]
        return "\n".join(out) + "\n"
    out += ['npos=0; f1=; f2=; seen=" "',
            'for a in "$@"; do',
            '  case "$a" in',
            '    -*) seen="$seen$a " ;;',
            '    *) npos=$((npos+1)); if [ $npos = 1 ]; then f1="$a"; elif [ $npos = 2 ]; then f2="$a"; fi ;;',
            '  esac',
            'done',
            'echo "%s $npos" >> %s' % (name, _q(logfile))]
    for o in scn["opts"]:
        out.append('case "$seen" in *" %s "*) ;; *) echo "c option %s missing"; exit 2 ;; esac' % (o, o))
    pline = "p cnf %d %d" % (scn["n"], len(scn["cls"]))
    out += ['ok=0',
            'check() { while IFS= read -r l; do case "$l" in "%s"*) ok=1 ;; esac; done; }' % pline,
            'case "%s:$npos" in' % speaks,
            '  stdin:0|dual:0) mode=stdout; check ;;',
            '  filein:1) mode=stdout; [ -f "$f1" ] || exit 2; check < "$f1" ;;',
            '  fileout:2|dual:2) mode=file; [ -f "$f1" ] || exit 2; check < "$f1" ;;',
            '  *) echo "c bad invocation"; exit 2 ;;',
            'esac',
            '[ $ok = 1 ] || { echo "c the input is not the formula"; exit 3; }',
            'if [ $mode = stdout ]; then',
            "  " + _printf(scn["lines"]),
            'else',
            "  " + _printf(scn["lines"])]
    if scn["rfmode"] == "remove":
        out.append('  /bin/rm -f "$f2"')
    else:
        out.append("  " + _printf(scn["rfile"], '> "$f2"'))
    out += ['fi', 'exit %d' % scn["exit"]]
    return "\n".join(out) + "\n"


# --------------------------------------------------------------------------
# driving the implementation and projecting what it did

def project_result(api, val):
    if api == "solve":
        if isinstance(val, tuple) and len(val) == 2:
            a, w = val
            if a is True and isinstance(w, (list, tuple)) and all(type(x) is int for x in w):
                return {"ret": "sat", "w": list(w)}
            if a is True and w is None:
                return {"ret": "sat_none", "w": []}
            if a is False and w is None:
                return {"ret": "unsat", "w": []}
        return {"ret": "other_" + type(val).__name__, "w": []}
    if val is True:
        return {"ret": "true", "w": []}
    if val is False:
        return {"ret": "false", "w": []}
    return {"ret": "other_" + type(val).__name__, "w": []}


def _fresh(d):
    shutil.rmtree(d, ignore_errors=True)
    os.makedirs(d)


def run_scenario(scn):
    """Materialise the scenario, call the real code, return
    {"got": outcome record, "left": leftover files, "ran": [[name, npos]...]}."""
    from cnfgen import CNF
    base = os.path.join(tlc.WORK, PID, "run", str(os.getpid()))
    bind, tmpd, cwd = (os.path.join(base, x) for x in ("bin", "tmp", "cwd"))
    for d in (bind, tmpd, cwd):
        _fresh(d)
    log = os.path.join(base, "invoked.log")
    if os.path.exists(log):
        os.unlink(log)
    for fk in scn["fakes"]:
        p = os.path.join(bind, fk["name"])
        with open(p, "w") as f:
            f.write(fake_script(scn, fk, log))
        os.chmod(p, 0o755 if fk["mode"] == "ok" else 0o644)
    F = CNF()
    F.update_variable_number(scn["n"])
    for c in scn["cls"]:
        F.add_clause(list(c))
    kw = {}
    if scn["cmdkind"] != "none":
        kw["cmd"] = scn["cmd"] + (FAULT_ARG if scn["runfault"] else "")
    if scn["sameas"] != "":
        kw["sameas"] = scn["sameas"]
    saved = (os.environ.get("PATH"), os.environ.get("TMPDIR"), os.getcwd(), tempfile.tempdir)
    os.environ["PATH"] = bind
    os.environ["TMPDIR"] = tmpd
    tempfile.tempdir = None
    os.chdir(cwd)
    try:
        try:
            if scn["api"] == "solve":
                got = project_result("solve", F.solve(**kw))
            else:
                got = project_result("is_satisfiable", F.is_satisfiable(**kw))
        except Exception as e:          # the exception class is the observable
            got = {"ret": exc_name(e), "w": []}
    finally:
        os.chdir(saved[2])
        os.environ["PATH"] = saved[0] if saved[0] is not None else ""
        if saved[1] is None:
            os.environ.pop("TMPDIR", None)
        else:
            os.environ["TMPDIR"] = saved[1]
        tempfile.tempdir = saved[3]
    left = ["tmp"] * len(os.listdir(tmpd)) + ["cwd"] * len(os.listdir(cwd))
    ran = []
    if os.path.exists(log):
        with open(log) as f:
            ran = [l.split() for l in f.read().splitlines()]
    return {"got": got, "left": left, "ran": ran}


_MODE = {"0": "stdin", "1": "filein", "2": "fileout"}


def conv_label(rec, obs):
    """Which interface the failing call went through (for the finding key only)."""
    real = [r for r in obs["ran"] if len(r) == 2 and r[1] in _MODE]
    if real:
        return _MODE[real[-1][1]]
    convs = sorted(set(c for c in rec["convs"] if c))
    return convs[0] if len(convs) == 1 else ("none" if not convs else "auto")


def compare(rec, obs):
    """[(aspect, ok, why, kf)] - two equality tests against TLC's values."""
    scn = rec["scn"]
    res = []
    okay = obs["got"] in rec["allowed"]
    why = "ok" if okay else "outcome_%s_expected_%s" % (
        fmt(obs["got"]), "_or_".join(sorted(fmt(a) for a in rec["allowed"])))
    kf = None if okay else "%s:%s:%s" % (conv_label(rec, obs), scn["shape"], obs["got"]["ret"])
    res.append(("outcome", okay, why, kf))
    okay = obs["left"] == rec["tmp"]
    why = "ok" if okay else "leftover_files_%s_expected_none" % "+".join(obs["left"])
    kf = None if okay else "%s:tmp-leak" % conv_label(rec, obs)
    res.append(("tmp", okay, why, kf))
    return res


def fmt(o):
    if o["ret"] == "sat":
        return "True%s" % json.dumps(o["w"], separators=(",", ":"))
    return {"sat_none": "TrueNone", "unsat": "FalseNone"}.get(o["ret"], o["ret"])


def sample_tag(s):
    """Which of the (at most six) evidence samples this scenario may serve as."""
    if s["api"] != "solve":
        return None
    if s["fam"] == "doc" and s["kinds"].count("v") >= 2 and s["n"] >= 2:
        return "split-v-lines"
    if s["fam"] == "auto" and len(s["fakes"]) >= 2 and s["sameas"] == "":
        return "no-cmd"
    if s["fam"] == "rfile" and s["shape"] == "plain" and len(s["rfile"]) >= 2:
        return "minisat-result-file"
    if s["fam"] == "resolve" and s["sameas"] not in ("", "nosuchsolver") and s["opts"] and s["fakes"]:
        return "sameas"
    if s["fam"] == "fault":
        return "failing-solver"
    if s["shape"] == "zero-var-sat":
        return "zero-variables"
    return None


def _replay_one(rec):
    return run_scenario(rec["scn"])


# --------------------------------------------------------------------------

def group(objs):
    """Terminal states exported by TLC -> one record per scenario with the set
    of outcomes TLC reached for it (grouping by identical scenario only)."""
    by = {}
    for o in objs:
        key = json.dumps(o["scn"], sort_keys=True)
        g = by.setdefault(key, {"scn": o["scn"], "allowed": [], "tmp": None, "convs": []})
        if o["out"] not in g["allowed"]:
            g["allowed"].append(o["out"])
        if o["conv"] not in g["convs"]:
            g["convs"].append(o["conv"])
        t = list(o["tmp"])
        if g["tmp"] is None:
            g["tmp"] = t
        elif g["tmp"] != t:
            raise tlc.MachineryError("TLC exported different leftovers for one scenario")
    recs = []
    for k, key in enumerate(sorted(by)):
        g = by[key]
        s = g["scn"]
        g["id"] = "%s-%s-%05d" % (s["fam"], s["api"], k)
        g["allowed"].sort(key=lambda o: json.dumps(o, sort_keys=True))
        recs.append(g)
    return recs


def main(argv=None):
    ck = common.Check(PID, argv)
    common.setup_repo_import()
    import cnfgen.utils.solver  # noqa: F401  (a missing module is a machinery failure)
    wd = tlc.workdir(PID)
    rec = ck.replay_record()
    if rec is not None:
        obs = run_scenario(rec["scn"])
        for aspect, ok, why, kf in compare(rec, obs):
            if aspect == rec.get("aspect", "outcome"):
                r = dict(rec, observed=obs)
                if kf:
                    r["kf"] = kf
                ck.replayed(r, ok, why)
        shutil.rmtree(wd, ignore_errors=True)
        return ck.finish()

    suffix = "" if ck.quick else "_thorough"
    mc_cfg, ex_cfg = "Solver_mc%s.cfg" % suffix, "Solver_ex%s.cfg" % suffix
    # 1. exhaustive model check of the machine (all invariants, the action
    #    property and termination), started in the background while
    # 2. the export run prints every terminal state
    mcw = 1 if ck.quick else 4
    with cf.ThreadPoolExecutor(max_workers=1) as pool:
        fut = pool.submit(tlc.model_check, "Solver", mc_cfg, workers=mcw, heap="6g", timeout=3000)
        objs = ck.export("Solver", ex_cfg, heap="6g", timeout=3000)
        r = fut.result()
    ck.states += r["distinct"]
    ck.transitions += r["generated"]
    ck.model_runs.append({"module": "Solver", "cfg": mc_cfg, "distinct": r["distinct"],
                          "generated": r["generated"], "depth": r["depth"], "wall_s": round(r["wall"], 1)})
    recs = group(objs)
    if not recs:
        raise tlc.MachineryError("no behaviours exported")
    for rr in recs:
        if not rr["allowed"] or rr["tmp"] is None:
            raise tlc.MachineryError("scenario without outcome: %s" % rr["id"])

    # 3. replay every scenario into the real code
    sys.stdout.flush()
    results = common.pmap(_replay_one, recs)
    shown = set()
    verdicts = []
    for rr, obs in zip(recs, results):
        s = rr["scn"]
        ck.count("scenarios_" + s["fam"] + "_" + s["api"])
        ck.count("shape_" + s["shape"])
        if len(rr["allowed"]) > 1:
            ck.count("scenarios_with_several_allowed_outcomes")
        for name, npos in [x for x in obs["ran"] if len(x) == 2]:
            ck.count("fake_solver_runs_" + _MODE.get(npos, npos))
        tag = sample_tag(s)
        if tag is not None and tag not in shown:
            shown.add(tag)
            ck.sample({"api": s["api"], "formula": [s["n"], s["cls"]], "cmd": s["cmd"] if s["cmdkind"] != "none" else "(none)",
                       "sameas": s["sameas"], "installed": [[f["name"], f["speaks"], f["mode"]] for f in s["fakes"]],
                       "stdout": s["lines"], "result_file": s["rfile"], "tlc_allows": [fmt(a) for a in rr["allowed"]],
                       "implementation": fmt(obs["got"]), "left": obs["left"]})
        for k, (aspect, ok, why, kf) in enumerate(compare(rr, obs)):
            r2 = {"id": rr["id"] + "/" + aspect, "aspect": aspect, "scn": s, "allowed": rr["allowed"],
                  "tmp": rr["tmp"], "convs": rr["convs"], "observed": obs}
            if kf:
                r2["kf"] = kf
            verdicts.append((k == 0, r2, ok, why))
    # book-keeping; the first failing record of every distinct finding key goes
    # first, so that each one gets a replay file (finish() writes the first 50)
    seen, early, late = set(), [], []
    for v in verdicts:
        kf = v[1].get("kf")
        if not v[2] and kf not in seen:
            seen.add(kf)
            early.append(v)
        else:
            late.append(v)
    for counted, r2, ok, why in early + late:
        if counted:
            ck.replayed(r2, ok, why)
        elif not ok:
            ck.report(r2, why)
    if not ck.args.keep:
        shutil.rmtree(wd, ignore_errors=True)
    ck.assumptions += [
        "formulas {no variables; [[]]; [[1]]; 3 variables with 2 unused; 2 clauses; [[1],[-1]]}; every solver output of "
        "at most %s lines over the line kinds of %s (at most %s `v` lines, every way of cutting the model over them, "
        "printed in 3 orders) plus the 5-7 line outputs shaped like the documentation example; every name of the solver "
        "table plus one unsupported name; installed sets as listed in Solver.tla (AutoInstalls, InstallsFor)"
        % (("3", ex_cfg, "2") if ck.quick else ("4", ex_cfg, "3")),
        "solvers are honest (SATISFIABLE only with a real model of the formula, chosen by TLC; UNSATISFIABLE only for "
        "unsatisfiable formulas) and speak the convention the table / sameas announces",
        "'cannot be executed' is realised by an argument longer than the kernel limit (exec fails with OSError)",
        "which installed solver answers when no cmd is given is left open (any installed supported one)",
    ]
    return ck.finish(rule="one case = one scenario of Solver.tla (formula, cmd, sameas, installed executables, solver output) "
                          "with the set of outcomes of TLC's terminal states for it; the real solve()/is_satisfiable() is "
                          "called against fake executables and its result / exception class and the scratch TMPDIR are "
                          "compared with TLC's",
                     distinct_nontrivial=len(recs))


if __name__ == "__main__":
    common.main_wrapper(main)
