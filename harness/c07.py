"""C07 - output is a function of the command line and the seed only.

CliDet.tla is the product of two runs of the pipeline under different ambient
values; TLC proves SameOutput when graph arguments are drawn after seeding, a
falsy seed is honoured and the header has no ambient value, and produces a
counterexample for each of the three implementation facts when it is switched
on (expected-violation runs).  Direction C+B: every random sub-command, random
graph construction and modifier, random transformation, for cnfgen, pbgen and
cnfshuffle, is run 2-3 times as fresh processes with the same argv and --seed
but different PYTHONHASHSEED, working directory (inside /repo, inside another
git repository, outside any repository) and environment size; the random
module is wrapped in the child to log seeding and draws.  JudgeDet.tla flags
every byte difference and names the fact of CliDet.tla that explains it.
Library generators with a seed argument are called twice in two processes.
"""
import concurrent.futures as cf
import json
import os
import subprocess

from . import common, tlc

TOOLS = {"cnfgen": "cnfgen.clitools.cnfgen", "pbgen": "cnfgen.clitools.pbgen",
         "cnfshuffle": "cnfgen.clitools.cnfshuffle"}


def command_lines(ck, wd):
    cnf = os.path.join(wd, "in.cnf")
    with open(cnf, "w") as f:
        f.write("p cnf 5 4\n1 -2 0\n2 3 -4 0\n-1 5 0\n4 -5 0\n")
    dot = os.path.join(wd, "named.dot")
    with open(dot, "w") as f:
        f.write("graph G {\n  alpha -- beta;\n  beta -- gamma;\n  gamma -- delta;\n  delta -- alpha;\n  epsilon -- alpha;\n}\n")
    gml = os.path.join(wd, "named.gml")
    with open(gml, "w") as f:
        f.write("graph [\n node [ id 0 label \"zeta\" ]\n node [ id 1 label \"eta\" ]\n node [ id 2 label \"theta\" ]\n"
                " edge [ source 0 target 1 ]\n edge [ source 1 target 2 ]\n]\n")
    both = [
        # graph files whose vertices have names (not numbers): the numbering must not depend on the process
        ["kcolor", "2", dot], ["tseitin", "first", dot], ["domset", "2", gml], ["kcolor", "3", gml],
        ["randkcnf", "3", "10", "20"], ["randkcnf", "3", "8", "10", "--plant"], ["randkxor", "3", "8", "6"],
        ["php", "5", "4", "2"], ["tseitin", "8", "3"], ["tseitin", "random", "gnp", "7", ".5"],
        ["tseitin", "randomodd", "grid", "2", "3"], ["op", "6", "3"], ["subsetcard", "5", "2"],
        ["stone", "3", "pyramid", "2", "--sparse", "2"], ["pitfall", "4", "2", "2", "2", "2"],
        ["kcolor", "3", "gnp", "8", ".5"], ["kcolor", "3", "gnm", "8", "10"], ["kcolor", "3", "gnd", "8", "3"],
        ["kclique", "3", "gnp", "7", ".6", "plantclique", "3"], ["matching", "gnm", "6", "8", "addedges", "2"],
        ["kcolor", "2", "grid", "2", "3", "splitedges", "2"], ["php", "glrp", "4", "4", ".5"],
        ["php", "glrm", "4", "4", "6"], ["php", "glrm", "4", "4", "14"], ["php", "glrd", "4", "4", "2"],
        ["php", "regular", "4", "4", "2"], ["subsetcard", "glrd", "4", "4", "2", "plantbiclique", "2", "2"],
        ["kcolor", "2", "gnp", "6", ".5", "3"], ["iso", "gnp", "5", ".5", "-e", "gnm", "5", "5"],
        ["php", "3"], ["op", "4", "--total"], ["cpls", "2", "2", "2"],
        # several random components in the same graph argument (their order of application matters)
        ["kcolor", "3", "gnp", "8", ".5", "plantclique", "4", "addedges", "3"],
        ["kcolor", "3", "gnp", "8", ".5", "plantclique", "4", "addedges", "3", "splitedges", "2"],
        ["kclique", "3", "gnd", "10", "4", "addedges", "3", "splitedges", "2"],
        ["php", "glrp", "5", "4", ".5", "plantbiclique", "2", "2", "addedges", "3"],
        ["php", "glrd", "5", "4", "2", "plantbiclique", "2", "2", "addedges", "2"],
        ["tseitin", "first", "grid", "3", "3", "plantclique", "3", "addedges", "2"],
        ["subgraph", "-G", "gnp", "6", ".5", "addedges", "2", "-H", "gnm", "3", "2", "plantclique", "3"],
    ]
    only_cnfgen = [
        ["php", "4", "3", "-T", "shuffle"], ["php", "3", "2", "-T", "xorcomp", "6", "2"],
        ["op", "4", "-T", "majcomp", "6", "3"], ["randkcnf", "3", "6", "8", "-T", "shuffle", "-T", "xor", "2"],
        ["kcolor", "3", "gnp", "6", ".5", "-T", "shuffle", "--no-polarity-flips"],
        # random graph specifications as arguments of a transformation
        ["php", "3", "2", "-T", "xorcomp", "glrd", "6", "5", "2"], ["op", "4", "-T", "majcomp", "glrp", "6", "5", ".6"],
        ["php", "3", "2", "-T", "xorcomp", "regular", "6", "6", "2"], ["php", "3", "2", "-T", "majcomp", "glrm", "6", "4", "13"],
        ["php", "3", "2", "-T", "xorcomp", "glrd", "6", "5", "1", "addedges", "3"],
        ["kcolor", "2", "gnp", "4", ".5", "-T", "xorcomp", "glrd", "8", "6", "2", "-T", "shuffle"],
    ]
    out = []
    for a in both:
        out.append(("cnfgen", a))
        out.append(("pbgen", a))
    for a in only_cnfgen:
        out.append(("cnfgen", a))
    out.append(("cnfshuffle", ["-i", cnf]))
    out.append(("cnfshuffle", ["-i", cnf, "-p"]))
    out.append(("cnfshuffle", ["-i", cnf, "-q", "-c"]))
    return out


def ambient(wd, k, rng):
    """k-th ambient setting: working directory, hash seed, environment padding."""
    inside_other_repo = os.path.join(wd, "cwd_inside_verif")
    os.makedirs(inside_other_repo, exist_ok=True)
    cwds = [common.REPO, inside_other_repo, "/"]
    hs = [0, 5, 12345, 1, 987654321, 7][(k + rng.randint(0, 1) * 3) % 6] if k else 0
    return {"cwd": cwds[k % 3], "PYTHONHASHSEED": str(hs), "pad": "x" * (k * 997)}


def run_child(job):
    rid, k, code, amb, trace = job
    env = dict(os.environ)
    env.update({"PYTHONPATH": os.path.join(tlc.VERIF, "harness") + ":" + common.REPO, "PYTHONWARNINGS": "ignore",
                "PYTHONHASHSEED": amb["PYTHONHASHSEED"], "C07_TRACE": trace, "C07_PAD": amb["pad"],
                "PYTHONDONTWRITEBYTECODE": "1"})
    env.pop("CNFGEN_VERIF", None)
    try:
        p = subprocess.run(["/venv/bin/python", "-c", code], cwd=amb["cwd"], env=env, stdin=subprocess.DEVNULL,
                           stdout=subprocess.PIPE, stderr=subprocess.PIPE, timeout=120)
    except subprocess.TimeoutExpired:
        return rid, k, None, b"", {}
    try:
        with open(trace) as f:
            log = json.load(f)
    except Exception:
        log = {}
    return rid, k, p.returncode, p.stdout, log


def body_of(tool, out):
    """The output without its comment lines."""
    marks = (b"c", b"*", b"%")
    return b"\n".join(l for l in out.split(b"\n") if not l.startswith(marks))


def main(argv=None):
    ck = common.Check("C07", argv)
    common.setup_repo_import()
    wd = tlc.workdir("C07")
    ck.model("CliDet", "CliDet_ok.cfg", workers=2)
    for fact in ("graphs", "falsy", "version"):
        r = tlc.run_tlc("CliDet", "CliDet_%s.cfg" % fact, workers=2)
        if "Invariant SameOutput is violated" not in r["out"]:
            raise tlc.MachineryError("CliDet_%s.cfg was expected to exhibit a counterexample" % fact)
        ck.count("expected_counterexamples_found", 1)
    seeds = [0, 1, 42] if ck.quick else [0, 1, 42, -7, 2 ** 31 - 1, 10 ** 12]
    nruns = 3 if ck.quick else 5
    jobs, meta = [], {}
    n = 0
    lines = command_lines(ck, wd)
    for tool, args in lines:
        for s in seeds:
            if ck.quick and n % 2 == 1 and s == 42:
                pass
            n += 1
            rid = "p%04d" % n
            # the seed option in each of the spellings the argument parser accepts
            sp = n % 5 if s >= 0 else 0
            seedtok = (["--seed", str(s)], ["--seed=%d" % s], ["-S", str(s)], ["-S%d" % s], ["--see", str(s)])[sp]
            full = [tool] + seedtok + args
            code = "import c07_child; c07_child.run_tool(%r, %r)" % (TOOLS[tool], full)
            meta[rid] = {"tool": tool, "argv": " ".join(full), "seed": s, "kind": "cli"}
            for k in range(nruns):
                jobs.append((rid, k, code, ambient(wd, k, ck.rng), os.path.join(wd, "%s_%d.trace" % (rid, k))))
    # every formula command line of the TLC-exported LibCall table (CliTable.tla), random or not: the comment
    # header, the variable names and the clause order must not depend on anything ambient either
    groups = ck.export("CliExport", "CliExport.cfg")
    table = {g["name"]: g["items"] for g in groups}
    with open(os.path.join(wd, "null.dimacs"), "w") as f:
        f.write("c the null graph\np edge 0 0\n")
    with open(os.path.join(wd, "p3.dimacs"), "w") as f:
        f.write("p edge 3 2\ne 1 2\ne 2 3\n")
    gspec = {g["name"]: [os.path.join(wd, t[len("%file:"):]) if t.startswith("%file:") else t for t in g["spec"]]
             for g in table["graphs"]}
    cmds = sorted(table["formula"], key=lambda c: " ".join(c["argv"]))
    if ck.quick:
        # a sample, plus (always) a few command lines whose graph comes from a file given by its full path
        filegraphs = {g["name"] for g in table["graphs"] if any(t.startswith("%file:") for t in g["spec"])}
        withfile = [c for c in cmds if any(tok.startswith("@") and tok[1:] in filegraphs for tok in c["argv"])]
        cmds = ck.rng.sample(cmds, 40) + withfile[:: max(1, len(withfile) // 6)][:6]
    for c in cmds:
        args = [x for tok in c["argv"] for x in (gspec[tok[1:]] if tok.startswith("@") else [tok])]
        for tool in ("cnfgen", "pbgen"):
            n += 1
            rid = "t%04d" % n
            s = seeds[n % 3]
            full = [tool, "--seed", str(s)] + args
            code = "import c07_child; c07_child.run_tool(%r, %r)" % (TOOLS[tool], full)
            meta[rid] = {"tool": tool, "argv": " ".join(full), "seed": s, "kind": "cli"}
            for k in (0, 1 + n % 2):
                jobs.append((rid, k, code, ambient(wd, k, ck.rng), os.path.join(wd, "%s_%d.trace" % (rid, k))))
    ck.count("table_command_lines", len(cmds))
    libs = ["RandomKCNF", "RandomKXOR", "RandomKCNF_planted", "RandomKCNF_dense", "RandomKCNF_dense_b", "RandomKXOR_dense", "left_regular", "regular", "m_edges_sparse", "m_edges_dense",
            "bipartite_random", "split_random_edges", "add_random_missing_edges", "networkx_input", "networkx_digraph_input"]
    for name in libs:
        for s in seeds[:3]:
            n += 1
            rid = "l%04d" % n
            code = "import c07_child; c07_child.run_lib(%r, %r)" % (name, s)
            meta[rid] = {"tool": "library", "argv": "%s(seed=%d)" % (name, s), "seed": s, "kind": "lib"}
            for k in range(2):
                jobs.append((rid, k, code, ambient(wd, k, ck.rng), os.path.join(wd, "%s_%d.trace" % (rid, k))))
    with cf.ThreadPoolExecutor(max_workers=tlc.NCPU) as ex:
        results = list(ex.map(run_child, jobs))
    by = {}
    for rid, k, rc, out, log in results:
        by.setdefault(rid, []).append((k, rc, out, log))
    recs = []
    failed_runs = 0
    for rid, runs in sorted(by.items()):
        runs.sort()
        m = meta[rid]
        if any(rc is None for _, rc, _, _ in runs):
            failed_runs += 1
            continue
        outs = [o for _, _, o, _ in runs]
        same = all(o == outs[0] for o in outs) and len({rc for _, rc, _, _ in runs}) == 1
        if m["kind"] == "lib":
            # also the two calls inside each process must agree
            for o in outs:
                try:
                    d = json.loads(o.decode())
                    same = same and d["first"] == d["second"]
                except Exception:
                    same = False
        bodies = [body_of(m["tool"], o) for o in outs]
        rec = {"id": rid, "tool": m["tool"], "argv": m["argv"], "seed_given": True, "same_output": bool(same),
               "same_body": all(b == bodies[0] for b in bodies), "exits": [rc for _, rc, _, _ in runs],
               "runs": [{"seed_calls": int(l.get("seed_calls", 0)), "draws_before_seed": int(l.get("draws_before_seed", 0)),
                         "draws_after_seed": int(l.get("draws_after_seed", 0))} for _, _, _, l in runs]}
        if not same:
            a, b = outs[0].split(b"\n"), next(o for o in outs if o != outs[0]).split(b"\n") if any(o != outs[0] for o in outs) else outs[0].split(b"\n")
            for x, y in zip(a, b):
                if x != y:
                    rec["first_difference"] = [x.decode("utf8", "replace")[:120], y.decode("utf8", "replace")[:120]]
                    break
        recs.append(rec)
    ck.count("command_lines", len(lines))
    ck.count("process_pairs_or_triples", len(recs))
    ck.count("processes_run", len(jobs))
    ck.count("runs_that_hit_the_time_limit", failed_runs)
    ck.count("runs_with_draws", sum(1 for r in recs if any(x["draws_after_seed"] + x["draws_before_seed"] > 0 for x in r["runs"])))
    if sum(1 for r in recs if all(e == 0 for e in r["exits"])) < len(recs) * 0.8:
        raise tlc.MachineryError("driver broken: most runs fail")
    for r in recs[:2] + recs[-1:]:
        ck.sample(r)
    ck.judge("JudgeDet", recs, cfg="Judge.cfg")
    ck.assumptions += ["a violation is declared only for an observed byte difference between runs (sound by construction); "
                       "absence of an ambient dependency that never shows in the sampled runs is not proved",
                       "ambient settings: cwd in /repo, inside another git repository, and /; PYTHONHASHSEED 0 / 12345 / 987654321; "
                       "environment padding"]
    return ck.finish(rule="one case = one command line (or library generator) with one seed, run as 2-3 fresh processes under "
                          "different ambient settings; non-trivial = the processes ended and their outputs were compared")


if __name__ == "__main__":
    common.main_wrapper(main)
