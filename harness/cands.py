"""Candidate assignments for large-scope instances.

This module only *proposes* assignments (by local search on the recorded
clauses/constraints, perturbation and random choice).  Whether a candidate is
a model and whether it is an object is decided by TLC on both sides; a bad
proposal can only make a check weaker, never wrong."""


def _constraints(rec):
    """Uniform view: list of (terms[(coef, lit)], op, deg)."""
    if rec["cls"] == "CNF":
        return [([(1, l) for l in c], ">=", 1) for c in rec["clauses"]]
    return [([(t[0], t[1]) for t in c["terms"]], c["op"], c["deg"]) for c in rec["constraints"]]


def _holds(c, a):
    terms, op, deg = c
    s = sum(co for co, l in terms if (a[abs(l)] if l > 0 else not a[abs(l)]))
    return s >= deg if op == ">=" else s == deg


def walk(rec, rng, steps=4000, noise=0.4):
    """WalkSAT-like search. Returns (assignment list of bool, #violated)."""
    n = rec["nvars"]
    cs = _constraints(rec)
    a = [False] + [rng.random() < .5 for _ in range(n)]
    best, bestv = list(a), len(cs) + 1
    for _ in range(steps):
        viol = [c for c in cs if not _holds(c, a)]
        if len(viol) < bestv:
            best, bestv = list(a), len(viol)
            if bestv == 0:
                break
        c = rng.choice(viol)
        vs = [abs(l) for _, l in c[0]] or [rng.randint(1, n)] if n else []
        if not vs:
            break
        if rng.random() < noise:
            v = rng.choice(vs)
        else:
            def cost(v):
                a[v] = not a[v]
                k = sum(1 for c2 in cs if not _holds(c2, a))
                a[v] = not a[v]
                return k
            sample = vs if len(vs) <= 6 else rng.sample(vs, 6)
            v = min(sample, key=cost)
        a[v] = not a[v]
    return best, bestv


def propose(rec, rng, k):
    n = rec["nvars"]
    if n == 0:
        return [[]]
    out = []
    seen = set()

    def push(a):
        t = tuple(a[1:])
        if t not in seen and len(out) < k:
            seen.add(t)
            out.append([bool(x) for x in t])

    tries = 0
    while len(out) < k // 2 and tries < 6:
        tries += 1
        a, v = walk(rec, rng, steps=1500 if n > 60 else 3000)
        push(a)
        for _ in range(4):          # one-flip neighbours
            b = list(a)
            j = rng.randint(1, n)
            b[j] = not b[j]
            push(b)
        for _ in range(2):          # two-flip neighbours
            b = list(a)
            for j in rng.sample(range(1, n + 1), min(2, n)):
                b[j] = not b[j]
            push(b)
    while len(out) < k:
        dens = rng.choice((.1, .3, .5, .8))
        push([False] + [rng.random() < dens for _ in range(n)])
    return out
