"""Candidate assignments for large-scope instances.

This module only *proposes* assignments (by local search on the recorded
clauses/constraints, perturbation and random choice).  Whether a candidate is
a model and whether it is an object is decided by TLC on both sides; a bad
proposal can only make a check weaker, never wrong."""


def _constraints(rec):
    """Uniform view: list of (terms[(coef, lit)], op, deg)."""
    if rec["cls"] == "CNF":
        return [([(1, l) for l in c], ">=", 1) for c in rec["clauses"]]
    return [([(t[0], t[1]) for t in c["terms"]], c["op"], c["deg"]) for c in rec["constraints"]]


def _holds(c, a):
    terms, op, deg = c
    s = sum(co for co, l in terms if (a[abs(l)] if l > 0 else not a[abs(l)]))
    return s >= deg if op == ">=" else s == deg


def walk(rec, rng, steps=4000, noise=0.4):
    """WalkSAT-like search with incremental bookkeeping. Returns (assignment list of bool, #violated)."""
    n = rec["nvars"]
    cs = _constraints(rec)
    a = [False] + [rng.random() < .5 for _ in range(n)]
    occ = [[] for _ in range(n + 1)]
    for ci, (terms, op, deg) in enumerate(cs):
        for co, l in terms:
            if 1 <= abs(l) <= n:
                occ[abs(l)].append(ci)
    lhs = [sum(co for co, l in terms if 1 <= abs(l) <= n and (a[abs(l)] if l > 0 else not a[abs(l)]))
           for terms, op, deg in cs]

    def ok(ci):
        return lhs[ci] >= cs[ci][2] if cs[ci][1] == ">=" else lhs[ci] == cs[ci][2]
    viol = set(ci for ci in range(len(cs)) if not ok(ci))

    def flip(v):
        a[v] = not a[v]
        for ci in occ[v]:
            terms = cs[ci][0]
            lhs[ci] = sum(co for co, l in terms if 1 <= abs(l) <= n and (a[abs(l)] if l > 0 else not a[abs(l)]))
            if ok(ci):
                viol.discard(ci)
            else:
                viol.add(ci)
    best, bestv = list(a), len(viol)
    budget = 400000
    for _ in range(steps):
        if not viol or budget <= 0:
            break
        ci = rng.choice(sorted(viol)) if len(viol) < 50 else next(iter(viol))
        vs = [abs(l) for _, l in cs[ci][0] if 1 <= abs(l) <= n]
        if not vs:
            if n == 0:
                break
            vs = [rng.randint(1, n)]
        if rng.random() < noise:
            v = rng.choice(vs)
        else:
            cand = vs if len(vs) <= 4 else rng.sample(vs, 4)
            scores = []
            for w in cand:
                flip(w)
                scores.append((len(viol), w))
                flip(w)
                budget -= 2 * sum(len(cs[c][0]) for c in occ[w])
            v = min(scores)[1]
        flip(v)
        budget -= sum(len(cs[c][0]) for c in occ[v])
        if len(viol) < bestv:
            best, bestv = list(a), len(viol)
    return best, bestv


def propose(rec, rng, k):
    n = rec["nvars"]
    if n == 0:
        return [[]]
    out = []
    seen = set()
    k = min(k, 2 ** min(n, 20))      # there are only 2^n assignments

    def push(a):
        t = tuple(a[1:])
        if t not in seen and len(out) < k:
            seen.add(t)
            out.append([bool(x) for x in t])

    tries = 0
    while len(out) < k // 2 and tries < 6:
        tries += 1
        a, v = walk(rec, rng, steps=1500 if n > 60 else 3000)
        push(a)
        for _ in range(4):          # one-flip neighbours
            b = list(a)
            j = rng.randint(1, n)
            b[j] = not b[j]
            push(b)
        for _ in range(2):          # two-flip neighbours
            b = list(a)
            for j in rng.sample(range(1, n + 1), min(2, n)):
                b[j] = not b[j]
            push(b)
    attempts = 0
    while len(out) < k and attempts < 50 * k:
        attempts += 1
        dens = rng.choice((.1, .3, .5, .8))
        push([False] + [rng.random() < dens for _ in range(n)])
    return out
