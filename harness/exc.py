"""How an exception is named in a record: the property texts speak of ValueError (TypeError, ...) the way
`except ValueError` sees it, so a project-defined subclass is recorded under its nearest built-in base."""


def exc_name(e):
    t = type(e)
    if t.__module__ == "builtins":
        return t.__name__
    for b in t.__mro__[1:]:
        if b.__module__ == "builtins" and b not in (Exception, BaseException, object):
            return b.__name__
    return t.__name__
