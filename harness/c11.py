"""C11 - variable groups map indices to identifiers bijectively, with names aligned.

TLC (Formula.tla) model-checks the variable store machine: for every group
shape in scope the closed forms the group classes compute with (mixed radix,
offsets + bisect, bit arithmetic, itertools tables) agree with the documented
enumeration, IdOf/IndexOf are mutually inverse, Indices is in identifier order,
ranges are contiguous/disjoint/fresh, names are aligned.

Direction A: TLC exports behaviours (sequences of new_* / add_clause /
update_variable_number calls) with, for every step, the expected number of
variables and the expected name of every variable (abstract labels), and for
every group its first id, length, index sequence, ids, the answer to every
index / wildcard pattern in a probe universe and the ids that must be refused.
Each behaviour is replayed into a real cnfgen.CNF() and a real OPB() and every
observable is compared with TLC's value after every step.  Python only renders
abstract labels through the format strings it passed and compares for equality.
"""
import concurrent.futures as cf
import io
import os
import random
import re
import time

from . import common, tlc
from .exc import exc_name

W = -9  # Formula.tla's wildcard = None

INVARIANTS = ["TypeOK", "ClosedFormsAgree", "MutuallyInverse", "IndicesInIdOrder",
              "PatternsInIdOrder", "Layout", "NamesAligned"]
PROPERTIES = ["Fresh", "GroupsImmutable", "Monotone"]


# ----------------------------------------------------------------------------
# driving the implementation

def label_format(no, lstyle, arity):
    """The label format string the harness passes for group number `no`."""
    if lstyle == "name":
        return "N%d" % no
    if lstyle == "joined":
        return "w%d<{}>" % no
    return "v%d(" % no + ",".join(["{}"] * arity) + ")"


def render(lab, fmts, styles):
    """Abstract label [g, idx] -> the string the implementation must report."""
    g, idx = lab["g"], lab["idx"]
    if g == 0:
        return "x{}".format(*idx)
    st = styles[g]
    if st == "name":
        return fmts[g]
    if st == "joined":
        return fmts[g].format(",".join(str(x) for x in idx))
    return fmts[g].format(*idx)


def create(F, shape, fmt, rng):
    """Call the public constructor for a TLC shape. Returns whatever it returns."""
    from cnfgen.graphs import Graph, DirectedGraph, BipartiteGraph
    kind, par = shape["kind"], shape["par"]
    edges = [tuple(e) for e in shape["edges"]]
    rng.shuffle(edges)          # insertion order of the edges must not matter
    if kind == "var":
        return F.new_variable(fmt)
    if kind == "block":
        return F.new_block(*par, label=fmt)
    if kind == "comb":
        return F.new_combinations(par[0], par[1], label=fmt)
    if kind == "perm":
        return F.new_permutations(par[0], par[1], label=fmt)
    if kind == "words":
        return F.new_words(par[0], par[1], label=fmt)
    if kind in ("bip", "smap"):
        B = BipartiteGraph(par[0], par[1])
        for u, v in edges:
            B.add_edge(u, v)
        if kind == "bip":
            return F.new_bipartite_edges(B, label=fmt)
        return F.new_sparse_mapping(B, label=fmt)
    if kind == "graph":
        G = Graph(par[0])
        for u, v in edges:
            if rng.random() < 0.5:
                u, v = v, u
            G.add_edge(u, v)
        return F.new_graph_edges(G, label=fmt)
    if kind == "digraph":
        D = DirectedGraph(par[0])
        for u, v in edges:
            D.add_edge(u, v)
        return F.new_digraph_edges(D, label=fmt, sortby=shape["sort"])
    if kind == "map":
        return F.new_mapping(par[0], par[1], label=fmt)
    if kind == "bmap":
        return F.new_binary_mapping(par[0], par[1], label=fmt)
    raise tlc.MachineryError("unknown group kind %r" % kind)


def _attempt(fn):
    """('val', value) | ('exc', class name, is ValueError). Iterables are consumed."""
    try:
        v = fn()
        if isinstance(v, (int, str)):
            return ("val", "scalar", v)
        return ("val", "seq", list(v))
    except tlc.MachineryError:
        raise
    except Exception as e:  # noqa
        return ("exc", exc_name(e), isinstance(e, ValueError))


def _judge_call(got, res, scalar, want_scalar, want_seq):
    """Compare the outcome of a call with TLC's expectation (res / scalar come from TLC).
    Returns None when it conforms, else a short description."""
    if got[0] == "exc":
        if res in ("ValueError", "ok_or_ValueError", "ValueError_or_empty") and got[2]:
            return None
        if res == "ok":
            return "raised_%s" % got[1]
        return "raised_%s_expected_ValueError" % got[1]
    if res == "ValueError":
        return "accepted_expected_ValueError_got_%r" % (got[2],)
    if res == "ValueError_or_empty":
        return None if (got[1] == "seq" and got[2] == []) else "got_%r_expected_ValueError_or_empty" % (got[2],)
    shape, val = got[1], got[2]
    if scalar in ("yes", "either") and shape == "scalar" and val == want_scalar:
        return None
    if scalar in ("no", "either") and shape == "seq" and val == want_seq:
        return None
    return "got_%r_expected_%r" % (val, want_scalar if scalar == "yes" else want_seq)


def check_group(g, d, fmt, numvar, fails, where):
    """Compare every observable of group object g with TLC's Detail record d."""
    kind = d["kind"]
    no = d["no"]
    ids = d["ids"]
    indices = [tuple(i) for i in d["indices"]]
    n = 0

    def bad(tag, detail):
        fails.setdefault("group:%s:%s" % (kind, tag),
                         "%s:group%d:%s%s:%s:%s" % (where, no, kind, tuple(d["par"]), detail, tag))

    def lab(idx):
        if d["lstyle"] == "name":
            return fmt
        if d["lstyle"] == "joined":
            return fmt.format(",".join(str(x) for x in idx))
        return fmt.format(*idx)

    # contiguous range of identifiers
    got = _attempt(lambda: len(g))
    if got != ("val", "scalar", d["len"]):
        bad("len", "got_%r_expected_%r" % (got[1:], d["len"]))
    got = _attempt(lambda: iter(g))
    if got != ("val", "seq", ids):
        bad("ids", "got_%r_expected_%r" % (got[2], ids))
    # legal indices in identifier order
    got = _attempt(lambda: [tuple(i) for i in g.indices()])
    if got != ("val", "seq", indices):
        bad("indices", "got_%r_expected_%r" % (got[2], indices))
    n += 3
    # identifier -> index, both signs; refused identifiers
    for idx, vid in zip(indices, ids):
        for lit in (vid, -vid):
            got = _attempt(lambda: tuple(g.to_index(lit)))
            if got[0] != "val" or tuple(got[2]) != idx:
                bad("to_index" if lit > 0 else "to_index_negative",
                    "lit_%d_got_%r_expected_%r" % (lit, got[1:], idx))
        n += 2
    for b in d["badids"]:
        for lit in (b, -b):
            got = _attempt(lambda: tuple(g.to_index(lit)))
            if not (got[0] == "exc" and got[2]):
                bad("to_index_refusal", "lit_%d_got_%r_expected_ValueError" % (lit, got[1:]))
            n += 1
    # membership
    for v in range(-(numvar + 1), numvar + 2):
        got = _attempt(lambda: bool(v in g))
        if got != ("val", "scalar", abs(v) in ids):
            bad("contains", "lit_%d_got_%r" % (v, got[1:]))
        n += 1
    if kind == "var":
        # SingletonVariableGroup: the only index is (); the name is the label
        got = _attempt(lambda: g())
        if got != ("val", "scalar", ids[0]):
            bad("call", "got_%r_expected_%r" % (got[1:], ids[0]))
        got = _attempt(lambda: g.label())
        if got != ("val", "scalar", fmt):
            bad("label", "got_%r_expected_%r" % (got[1:], fmt))
        return n + 2
    # index -> identifier and index -> label for every legal index
    for idx, vid in zip(indices, ids):
        got = _attempt(lambda: g(*idx))
        why = _judge_call(got, "ok", "either" if len(idx) == 0 else "yes", vid, [vid])
        if why:
            bad("call", "index_%r_%s" % (idx, why))
        got = _attempt(lambda: g.label(*idx))
        why = _judge_call(got, "ok", "either" if len(idx) == 0 else "yes", lab(idx), [lab(idx)])
        if why:
            bad("label", "index_%r_%s" % (idx, why))
        n += 2
    # every pattern of TLC's probe universe (full indices in and out of the
    # domain, wildcards, wrong arities)
    for p in d["pats"]:
        pat = tuple(None if x == W else x for x in p["pat"])
        res, scalar = p["res"], p["scalar"]
        idxs = [tuple(i) for i in p["idxs"]]
        pids = p["ids"]
        tagk = "pattern" if (None in pat or len(pat) == 0) else ("index" if res == "ok" else "refusal")
        why = _judge_call(_attempt(lambda: g(*pat)), res, scalar, pids[0] if pids else None, pids)
        if why:
            bad(tagk + "_call", "%r_%s" % (pat, why))
        got = _attempt(lambda: [tuple(i) for i in g.indices(*pat)])
        why = _judge_call(got, res, "no", None, idxs)
        if why:
            bad(tagk + "_indices", "%r_%s" % (pat, why))
        labs = [lab(i) for i in idxs]
        why = _judge_call(_attempt(lambda: g.label(*pat)), res, scalar, labs[0] if labs else None, labs)
        if why:
            bad(tagk + "_label", "%r_%s" % (pat, why))
        n += 3
    return n


def names_key(expected, got, details):
    """Stable finding key for a name misalignment: what TLC expected at the
    first position that differs (a default name in the gap before a group of
    some kind, or a label of a group of some kind)."""
    for i, lab in enumerate(expected):
        if i >= len(got) or got[i] != lab[1]:
            if lab[0]["g"] == 0:
                later = sorted((d["first"], d["kind"]) for d in details if d["len"] > 0 and d["first"] > i + 1)
                return "names:gap-before-%s" % (later[0][1] if later else "end")
            return "names:label-of-%s" % details[lab[0]["g"] - 1]["kind"]
    return "names:length"


def varname_lines(F):
    out = io.StringIO()
    F.to_file(out, export_header=False, export_varnames=True)
    names = []
    for line in out.getvalue().splitlines():
        # "c varname <id> <name>": the blanks between the fields are layout (ids may be aligned in a column);
        # one blank separates the id from the name, which is taken verbatim
        m = re.match(r"^[c*][ \t]+varname[ \t]+(\S+)(?: (.*))?$", line)
        if m:
            names.append((m.group(1), m.group(2) or ""))
    return names


def replay(beh, cls, seed=0):
    """Replay one TLC behaviour into a fresh formula of class `cls`.
    Returns (failures: list of (kf, why), number of comparisons)."""
    import cnfgen
    from cnfgen.formula.opb import OPB
    F = OPB() if cls == "OPB" else cnfgen.CNF()
    loaded = 0
    if cls == "CNFfile":
        # the state before the first group is reached by another history: the formula is read from a DIMACS
        # file declaring that many variables and holding those clauses
        pre = []
        for st in beh["steps"]:
            if st["op"] == "new" or st["res"] not in ("ok",):
                break
            pre.append(st)
        if pre:
            cl = [st["c"] for st in pre if st["op"] == "clause"]
            text = "p cnf %d %d\n" % (pre[-1]["numvar"], len(cl)) + "".join(
                " ".join(map(str, list(c) + [0])) + "\n" for c in cl)
            F = cnfgen.CNF.from_file(io.StringIO(text))
            loaded = len(pre)
        cls = "CNF"
    rng = random.Random(seed)
    details = beh["groups"]
    fmts = {d["no"]: label_format(d["no"], d["lstyle"], d["arity"]) for d in details}
    styles = {d["no"]: d["lstyle"] for d in details}
    objs = {}                  # group number -> implementation object (None: refused / unavailable)
    fails = {}
    ncmp = 0
    idfmt = "{}" if cls == "CNF" else "x{}"
    for t, st in enumerate(beh["steps"], start=1):
        op = st["op"]
        where = "step%d:%s" % (t, op)
        if t < loaded:
            continue
        if t == loaded:
            where += ":read_from_dimacs"
        elif op == "new":
            no = st["ngroups"]
            d = details[no - 1]
            where += "_" + d["kind"]
            got = _attempt(lambda: (create(F, st["shape"], fmts[no], rng),))
            if got[0] == "exc":
                if st["res"] == "ok_or_ValueError" and got[2]:
                    objs[no] = None      # permitted refusal: TLC's state has an empty group here
                else:
                    fails.setdefault("outcome:new:%s" % d["kind"],
                                     "%s%s:raised_%s:outcome" % (where, tuple(d["par"]), got[1]))
                    break
            else:
                r = got[2][0]
                if d["kind"] == "var":
                    if r != d["first"]:
                        fails.setdefault("group:var:new_variable_id",
                                         "%s:returned_%r_expected_%r:new_variable_id" % (where, r, d["first"]))
                    gs = getattr(F, "_groups", None)
                    objs[no] = gs[-1] if gs else None
                else:
                    objs[no] = r
        elif op == "clause":
            got = _attempt(lambda: F.add_clause(list(st["c"])) or 0)
            if got[0] == "exc":
                fails.setdefault("outcome:add_clause", "%s%r:raised_%s:outcome" % (where, st["c"], got[1]))
                break
        elif op == "update":
            got = _attempt(lambda: F.update_variable_number(st["k"]) or 0)
            if got[0] == "exc":
                fails.setdefault("outcome:update_variable_number", "%s(%d):raised_%s:outcome" % (where, st["k"], got[1]))
                break
        else:
            raise tlc.MachineryError("unknown call %r" % op)
        # ---- observables after the step ------------------------------------
        nv = F.number_of_variables()
        ncmp += 1
        if nv != st["numvar"]:
            fails.setdefault("numvar:%s" % op, "%s:got_%r_expected_%r:number_of_variables" % (where, nv, st["numvar"]))
        live = details[:st["ngroups"]]
        expected = [(lab, render(lab, fmts, styles)) for lab in st["labels"]]
        want = [s for _, s in expected]
        got = _attempt(lambda: F.all_variable_labels())
        ncmp += 1
        if got[0] == "exc":
            fails.setdefault("names:raises-%s" % got[1], "%s:raised_%s:all_variable_labels" % (where, got[1]))
        elif got[2] != want:
            fails.setdefault(names_key(expected, got[2], live),
                             "%s:got_%r_expected_%r:all_variable_labels" % (where, got[2], want))
        got = _attempt(lambda: varname_lines(F))
        ncmp += 1
        wantl = [(idfmt.format(i), s) for i, s in enumerate(want, start=1)]
        if got[0] == "exc":
            fails.setdefault("names:raises-%s" % got[1], "%s:raised_%s:to_file_varnames" % (where, got[1]))
        elif got[2] != wantl:
            fails.setdefault(names_key(expected, [s for _, s in got[2]], live),
                             "%s:got_%r_expected_%r:to_file_varnames" % (where, got[2], wantl))
        for d in live:
            g = objs.get(d["no"])
            if g is not None:
                ncmp += check_group(g, d, fmts[d["no"]], st["numvar"], fails, where)
    return sorted(fails.items()), ncmp


def binding_demo(behs):
    """The comparison really binds TLC's values to the implementation: on a
    behaviour that replays cleanly, corrupting one expected field or dropping
    one replayed call must make the replay fail.  (When nothing replays cleanly
    the run is failing anyway and the demonstration is skipped.)"""
    import copy
    for beh in behs[:400]:
        big = [d for d in beh["groups"] if d["len"] >= 2 and d["kind"] != "var"]
        if not big or replay(beh, "CNF")[0]:
            continue
        d0 = big[0]
        no = d0["no"]
        flipped = []
        # (1) two expected identifiers swapped
        b = copy.deepcopy(beh)
        d = b["groups"][no - 1]
        d["ids"][0], d["ids"][1] = d["ids"][1], d["ids"][0]
        flipped.append(("swapped_ids", bool(replay(b, "CNF")[0])))
        # (2) two expected names swapped
        b = copy.deepcopy(beh)
        labs = b["steps"][-1]["labels"]
        i = d0["first"] - 1
        labs[i], labs[i + 1] = labs[i + 1], labs[i]
        flipped.append(("swapped_names", any(kf.startswith("names:") for kf, _ in replay(b, "CNF")[0])))
        # (3) an out-of-domain index declared legal
        b = copy.deepcopy(beh)
        for p in b["groups"][no - 1]["pats"]:
            if p["res"] == "ValueError" and len(p["pat"]) == d0["arity"]:
                p["res"], p["scalar"], p["ids"], p["idxs"] = "ok", "yes", [d0["first"]], [p["pat"]]
                break
        flipped.append(("refusal_expected_ok", bool(replay(b, "CNF")[0])))
        # (4) the creating call is not replayed: expectations of later steps no longer hold
        b = copy.deepcopy(beh)
        t = [k for k, st in enumerate(b["steps"]) if st["op"] == "new" and st["ngroups"] == no][0]
        b["steps"][t] = dict(b["steps"][t], op="update", k=0)
        flipped.append(("dropped_call", bool(replay(b, "CNF")[0])))
        if not all(f for _, f in flipped):
            raise tlc.MachineryError("binding demonstration failed: %r" % flipped)
        return len(flipped)
    return 0


def _replay_item(item):
    cls, tag, j, beh, seed = item
    return replay(beh, cls, seed)


# ----------------------------------------------------------------------------
# TLC runs

def write_cfg(path, first, later, clauses, updates, maxsteps, export, shard=0, nshards=1, mc=False,
              closing=False):
    lines = ["SPECIFICATION Spec", "CONSTANTS",
             "  ShapesFirst <- %s" % first, "  ShapesLater <- %s" % later,
             "  Clauses <- %s" % clauses,
             "  Updates = {%s}" % ", ".join(str(k) for k in updates),
             "  MaxSteps = %d" % maxsteps, "  Export = %s" % ("TRUE" if export else "FALSE"),
             "  Closing = %s" % ("TRUE" if closing else "FALSE"),
             "  Shard = %d" % shard, "  NShards = %d" % nshards, "CHECK_DEADLOCK FALSE"]
    if mc:
        lines += ["INVARIANT %s" % i for i in INVARIANTS]
        lines += ["PROPERTY %s" % p for p in PROPERTIES]
        lines += ["VIEW ModelView"]
    if export:
        lines += ["INVARIANT Emit"]
    with open(path, "w") as f:
        f.write("\n".join(lines) + "\n")
    return path


def run_jobs(ck, jobs):
    """Run TLC jobs concurrently (model checks with a few workers each, exports
    with one worker each) and do Check.model / Check.export's bookkeeping.
    job = dict(kind='mc'|'ex', cfg=..., tag=..., extra=[...], workers=n)
    Returns {tag: list of exported behaviours}."""
    def one(job):
        if job["kind"] == "mc":
            return job, tlc.model_check("Formula", job["cfg"], workers=job.get("workers", 4),
                                        timeout=3000, heap="4g"), None
        objs, r = tlc.export("Formula", job["cfg"], extra=job.get("extra", ()), timeout=3000, heap="4g")
        return job, r, objs
    out = {}
    width = max(2, tlc.NCPU // 2)
    with cf.ThreadPoolExecutor(max_workers=width) as ex:
        for job, r, objs in ex.map(one, jobs):
            ck.states += r["distinct"]
            ck.transitions += r["generated"]
            run = {"module": "Formula", "cfg": os.path.basename(job["cfg"]), "distinct": r["distinct"],
                   "generated": r["generated"], "wall_s": round(r["wall"], 1)}
            if objs is None:
                run["depth"] = r["depth"]
            else:
                run["exported"] = len(objs)
                out.setdefault(job["tag"], []).extend(objs)
            ck.model_runs.append(run)
    return out


def main(argv=None):
    ck = common.Check("C11", argv)
    common.setup_repo_import()
    rec = ck.replay_record()
    if rec is not None:
        fails, _ = replay(rec["behaviour"], rec["cls"], rec.get("seed", 0))
        fails = [(kf, why) for kf, why in fails if kf == rec.get("kf")] or fails
        if not fails:
            ck.replayed(rec, True, "ok")
        for kf, why in fails:
            ck.replayed(dict(rec, kf=kf, fam=kf), False, why)
        return ck.finish()
    wd = tlc.workdir("C11")
    q = ck.quick
    P = lambda name: os.path.join(wd, name + ".cfg")  # noqa
    jobs = []
    # 1. exhaustive model checks of Formula.tla
    #    (a) every shape in scope, created after an update / a clause / nothing
    jobs.append(dict(kind="mc", tag="mc", workers=6, cfg=write_cfg(
        P("mc_shapes"), "NoShapes", "AllShapes", "ClausesTiny", [0, 1, 3], 2, False, mc=True)))
    #    (b) every interleaving of creations, clauses, updates over the small alphabet
    #        (quick: depth 3 over 15 shapes + depth 4 over 7; thorough: depth 4 resp. 5)
    jobs.append(dict(kind="mc", tag="mc", workers=6, cfg=write_cfg(
        P("mc_hist"), "SomeShapes", "SomeShapes", "ClausesSome", [0, 2, 5], 3 if q else 4, False, mc=True)))
    jobs.append(dict(kind="mc", tag="mc", workers=6, cfg=write_cfg(
        P("mc_hist_few"), "FewShapes", "FewShapes", "ClausesSome", [0, 2, 5], 4 if q else 5, False, mc=True)))
    #    (c) every shape followed by a group of the small alphabet (freshness after any shape)
    jobs.append(dict(kind="mc", tag="mc", workers=4, cfg=write_cfg(
        P("mc_after"), "AllShapes", "SomeShapes" if q else "SimShapes", "NoClauses", [4], 2, False, mc=True)))
    #    (d) shapes beyond the sizes at which an implementation would switch representation
    jobs.append(dict(kind="mc", tag="mc", workers=4, cfg=write_cfg(
        P("mc_large"), "NoShapes", "LargeShapes", "NoClauses", [0, 3], 2, False, mc=True)))
    # 2. exports
    jobs.append(dict(kind="ex", tag="shapes", cfg=write_cfg(
        P("ex_large"), "NoShapes", "LargeShapes", "NoClauses", [0, 3], 2, True)))
    #    (a) every shape in scope after update(0) / update(3) (thorough: also after the clause [1,-2])
    for fam, ns in (("ShapesBlock", 1), ("ShapesBip", 1), ("ShapesSmap", 1), ("ShapesMisc", 1),
                    ("ShapesDigraph3", 2 if q else 3)):
        for sh in range(ns):
            jobs.append(dict(kind="ex", tag="shapes", cfg=write_cfg(
                P("ex_%s_%d" % (fam, sh)), "NoShapes", fam, "NoClauses" if q else "ClausesOne", [0, 3], 2, True,
                sh, ns)))
    #    (b) every history of depth 3 over the small alphabet (+ depth 4 over a smaller one)
    ns = 6
    for sh in range(ns):
        jobs.append(dict(kind="ex", tag="hist3", cfg=write_cfg(
            P("ex_hist3_%d" % sh), "SomeShapes", "SomeShapes", "ClausesSome", [0, 2, 5], 3, True, sh, ns)))
    if not q:
        ns = 12
        for sh in range(ns):
            jobs.append(dict(kind="ex", tag="hist4", cfg=write_cfg(
                P("ex_hist4_%d" % sh), "FewShapes", "FewShapes", "ClausesSome", [0, 2, 5], 4, True, sh, ns)))
    #    (c) long random walks over medium shapes
    wdepth = 10 if q else 14
    nsim, per = (8, 50) if q else (16, 250)
    cfg = write_cfg(P("sim"), "SimShapes", "SimShapes", "ClausesSim", [0, 2, 5, 11, 30], wdepth + 1, True,
                    closing=True)
    for sh in range(nsim):
        jobs.append(dict(kind="ex", tag="walks", cfg=cfg,
                         extra=["-simulate", "num=%d" % per, "-depth", str(wdepth + 3),
                                "-seed", str(ck.seed * 1000 + 17 + sh)]))
    t0 = time.time()
    got = run_jobs(ck, jobs)
    ck.count("tlc_phase_wall_s", int(time.time() - t0))
    items = []
    for tag in ("shapes", "hist3", "hist4", "walks"):
        behs = got.get(tag, [])
        if tag != "hist4" or not q:
            if not behs:
                raise tlc.MachineryError("no behaviours exported for %s" % tag)
        ck.count("behaviours_" + tag, len(behs))
        for j, beh in enumerate(behs):
            for cls in ("CNF", "OPB"):
                items.append((cls, tag, j, beh, ck.seed * 7919 + j))
            if tag in ("hist3", "hist4", "walks") and beh["steps"] and beh["steps"][0]["op"] != "new" \
                    and (tag == "walks" or j % 5 == 0):
                items.append(("CNFfile", tag, j, beh, ck.seed * 7919 + j))
    ck.count("binding_demonstrations_flipped", binding_demo(got["hist3"]))
    results = common.pmap(_replay_item, items)
    ncmp = 0
    kinds = {}
    for (cls, tag, j, beh, seed), (fails, n) in zip(items, results):
        ncmp += n
        if cls == "CNF":
            for d in beh["groups"]:
                kinds[d["kind"]] = kinds.get(d["kind"], 0) + 1
        rid = "%s-%s-%d" % (cls, tag, j)
        if tag == "walks" and j == 0 and cls == "CNF" or tag == "hist3" and j == 4000 and cls == "OPB":
            ck.sample({"class": cls, "calls": [[s["op"], s["shape"]["kind"], s["shape"]["par"], s["c"], s["k"],
                                                 s["numvar"]] for s in beh["steps"]]})
        base = {"id": rid, "cls": cls, "seed": seed, "behaviour": beh}
        if not fails:
            ck.replayed(base, True, "ok")
        for n_, (kf, why) in enumerate(fails):
            r = dict(base, id=rid if n_ == 0 else "%s_%d" % (rid, n_), kf=kf, fam=kf)
            if n_ == 0:
                ck.replayed(r, False, why)
            else:
                ck.report(r, why)
    ck.count("comparisons_with_tlc_values", ncmp)
    for k in ("var", "block", "comb", "perm", "words", "bip", "graph", "digraph", "map", "smap", "bmap"):
        if not kinds.get(k):
            raise tlc.MachineryError("no group of kind %s was replayed" % k)
        ck.count("groups_replayed_" + k, kinds[k])
    ck.assumptions += [
        "scope: blocks with ranges 0..3 and <= 3 dimensions; combinations/permutations/words n <= 4, k <= 3; "
        "every bipartite graph <= 2x3 (edge groups and sparse mappings); every simple graph and every directed "
        "graph (loops allowed, both sort orders) on <= 3 vertices; mappings <= 3x4; binary mappings n <= 3, m <= 5; "
        "one or two large instances per kind (17-40 per component); histories of bounded depth; labels are always passed explicitly (one format per group)",
        "interpretation: a full index outside the domain, a wrong number of index components and an identifier "
        "outside the group must raise ValueError (documented in BaseVariableGroup.__call__ / to_index); a wildcard "
        "pattern with a fixed component out of range may raise ValueError or match nothing; word-indexed groups "
        "(combinations/permutations/words) may refuse wildcard patterns; new_binary_mapping with n = 0 or m = 0 may "
        "raise ValueError or create an empty group; for 0-ary indices g() may return the id or the sequence of ids; "
        "patterns enumerate in identifier order (as in every documented example)",
        "the SingletonVariableGroup object is reached through the protected list F._groups when it exists "
        "(new_variable only returns the identifier); otherwise only the identifier and the names are compared"]
    return ck.finish(rule="one case = one TLC behaviour (sequence of group creations / add_clause / "
                          "update_variable_number calls) replayed into CNF() or OPB() with every observable of every "
                          "group and every variable name compared with TLC's expected value after every call",
                     distinct_nontrivial=len(items))


if __name__ == "__main__":
    common.main_wrapper(main)
