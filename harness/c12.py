"""C12 - OPB and LaTeX renderings denote the formula held in memory.

Specification: spec/OpbLatexIO.tla (denotation of a lexed OPB text, OpbWhy /
OpbOK; denotation of lexed LaTeX rows, LatexWhy / LatexOK; abstract writers),
spec/OpbLatexMC.tla (every tiny formula built by add_clause / add_constraint
steps: round trip through the abstract writers, sensitivity to mutations, the
verdicts the code-shaped writers get), spec/JudgeOpbLatex.tla (judge).

  model  TLC explores all tiny CNF / OPB formulas (OpbLatexMC_*.cfg).
  (B)    code -> spec: formulas of every kind (catalogue of edge cases, cnfgen
         families in both classes, transformations, random CNFs / OPBs) are
         rendered by the real writers -- to_opb(), to_latex(), to_file() on
         streams and file names with every header / varnames combination, the
         command line tools cnfgen / pbgen in process and as subprocesses --,
         the text is lexed by the independent lexers below and TLC judges
         OpbWhy / LatexWhy on the lexed text and the projected formula.

Python here drives the writers, lexes (from the formats: OPB lines and
whitespace separated tokens; LaTeX align blocks, rows, brace matching), and
reads TLC's verdicts.  It never decides what a row should contain.
"""
import contextlib
import io
import os
import random as _random
import re
import subprocess
import sys

from . import common, tlc, project, cliargs
from .exc import exc_name

INT_LIMIT = 2 ** 31 - 2
MARK = "\x00"                       # marks default (un-named) labels, see project_formula
_LINEBREAK = re.compile(r"\r\n|\r|\n")            # text-file line terminators
_SAFEWORD = re.compile(r"^[A-Za-z0-9_.+%$#@!?*=<>()\[\]{}:;,/|~^&'-]{1,24}$")
_INT = re.compile(r"^[+-]?[0-9]+$")
_VAR = re.compile(r"^(~?)x([1-9][0-9]*)$")


# --------------------------------------------------------------------------
# independent lexer 1: OPB text -> lines of tokens
# --------------------------------------------------------------------------
def split_lines(text):
    parts = _LINEBREAK.split(text)
    if parts and parts[-1] == "":
        parts.pop()                 # the terminator of the last line does not open a new line
    return parts


def _otok(k, i=0, w=""):
    return {"k": k, "i": i, "w": w}


def opb_pieces(word):
    """`;' is a token by itself; `>=1' / `=1' are a relation and an integer."""
    out = []
    for piece in re.split(r"(;)", word):
        if piece == "":
            continue
        if piece.startswith(">=") and len(piece) > 2:
            out += [">=", piece[2:]]
        elif piece.startswith("=") and len(piece) > 1:
            out += ["=", piece[1:]]
        else:
            out.append(piece)
    return out


def opb_token(piece):
    if _INT.match(piece):
        v = int(piece)
        if abs(v) > INT_LIMIT:
            raise tlc.MachineryError("integer beyond TLC's range in OPB text: %s" % piece[:40])
        return _otok("int", v)
    m = _VAR.match(piece)
    if m:
        v = int(m.group(2))
        if v > INT_LIMIT:
            raise tlc.MachineryError("variable index beyond TLC's range")
        return _otok("nvar" if m.group(1) else "var", v)
    if piece in (">=", "="):
        return _otok("rel", 0, piece)
    if piece == ";":
        return _otok("semi")
    return _otok("word", 0, piece if _SAFEWORD.match(piece) else "<word>")


def lex_opb(text):
    lines = []
    for idx, raw in enumerate(split_lines(text)):
        words = raw.split()
        if not words:
            lines.append({"k": "b", "t": []})
        elif words[0][0] == "*":
            # a comment; only the first line of the text is looked at
            toks = [opb_token(p) for w in words for p in opb_pieces(w)] if idx == 0 else []
            lines.append({"k": "c", "t": toks})
        else:
            lines.append({"k": "d", "t": [opb_token(p) for w in words for p in opb_pieces(w)]})
    return lines


# --------------------------------------------------------------------------
# independent lexer 2: LaTeX -> pages (align blocks) of rows of tokens
# --------------------------------------------------------------------------
BEGIN, END = "\\begin{align}", "\\end{align}"
DECO_WORDS = {"land", "wedge", "pagebreak", "nonumber", "notag", "quad", "qquad", "displaystyle",
              "bigl", "bigr", "Bigl", "Bigr", "biggl", "biggr", "newpage", "allowbreak"}
SYMBOL_WORDS = {"lor": "lor", "vee": "lor", "geq": "geq", "ge": "geq", "geqslant": "geq",
                "square": "square", "Box": "square", "bot": "square", "top": "top"}
NEG_WORDS = {"neg", "lnot"}


def _ltok(k, i=0, n=""):
    return {"k": k, "i": i, "n": list(n)}


def read_group(s, i):
    """s[i] == '{': returns (content, index after the matching '}') or (None, i)."""
    depth, j, n = 0, i, len(s)
    while j < n:
        ch = s[j]
        if ch == "\\":
            j += 2
            continue
        if ch == "{":
            depth += 1
        elif ch == "}":
            depth -= 1
            if depth == 0:
                return s[i + 1:j], j + 1
        j += 1
    return None, i


def read_suffix(s, i):
    """sub/superscripts directly attached: (_|^)({group} | \\word | char)*"""
    n, start = len(s), i
    while i < n and s[i] in "_^":
        j = i + 1
        if j < n and s[j] == "{":
            grp, e = read_group(s, j)
            if grp is None:
                break
            i = e
        elif j < n and s[j] == "\\":
            k = j + 1
            while k < n and s[k].isalpha():
                k += 1
            i = max(k, j + 2)
        elif j < n and not s[j].isspace():
            i = j + 1
        else:
            break
    return s[start:i], i


def read_overline(s, i):
    """s[i:] starts with \\overline: returns (name, end) with name = overlined part + attached rest."""
    j = i + len("\\overline")
    n = len(s)
    while j < n and s[j].isspace():
        j += 1
    if j < n and s[j] == "{":
        grp, e = read_group(s, j)
        if grp is not None:
            return grp, e
    return None, i


def braced_literal(inner):
    """{...}: {\\overline{A}B} is the negative literal AB, anything else the positive literal."""
    st = inner.lstrip()
    if st.startswith("\\overline") and not st[len("\\overline"):len("\\overline") + 1].isalpha():
        a, e = read_overline(st, 0)
        if a is not None:
            return "neg", a + st[e:]
    return "pos", inner


def plain_name(s, i):
    """an unbraced name: letters, digits, unknown control words, attached scripts"""
    n, start = len(s), i
    while i < n:
        ch = s[i]
        if ch.isalnum():
            i += 1
        elif ch in "_^":
            _, e = read_suffix(s, i)
            if e == i:
                break
            i = e
        elif ch == "\\" and i + 1 < n and s[i + 1].isalpha():
            k = i + 1
            while k < n and s[k].isalpha():
                k += 1
            w = s[i + 1:k]
            if w in DECO_WORDS or w in SYMBOL_WORDS or w in NEG_WORDS or w in ("overline", "left", "right"):
                break
            i = k
        else:
            break
    return s[start:i], i


def lex_block(s):
    rows = [[]]
    i, n = 0, len(s)
    negate = False          # a pending \neg

    def emit(tok):
        nonlocal negate
        if negate:
            if tok["k"] == "pos":
                tok = dict(tok, k="neg")
            else:
                rows[-1].append(_ltok("junk"))
            negate = False
        rows[-1].append(tok)

    while i < n:
        ch = s[i]
        if ch.isspace():
            i += 1
        elif ch == "\\":
            if s.startswith("\\\\", i):
                if negate:
                    emit(_ltok("junk"))
                rows.append([])
                i += 2
                continue
            j = i + 1
            while j < n and s[j].isalpha():
                j += 1
            if j == i + 1:                      # control symbol (\, \; \! spacing; anything else unknown)
                emit(_ltok("deco") if s[i:i + 2] in ("\\,", "\\;", "\\!", "\\:", "\\ ") else _ltok("junk"))
                i += 2
                continue
            w = s[i + 1:j]
            if w == "overline":
                a, e = read_overline(s, i)
                if a is None:
                    emit(_ltok("junk"))
                    i = j
                else:
                    suf, e2 = read_suffix(s, e)
                    emit(_ltok("neg", 0, a + suf))
                    i = e2
            elif w in ("left", "right"):
                k = j
                while k < n and s[k].isspace():
                    k += 1
                i = k + 1 if k < n and s[k] in "()[]|." else j
                emit(_ltok("deco"))
            elif w in DECO_WORDS:
                emit(_ltok("deco"))
                i = j
            elif w in SYMBOL_WORDS:
                emit(_ltok(SYMBOL_WORDS[w]))
                i = j
            elif w in NEG_WORDS:
                if negate:
                    emit(_ltok("junk"))
                negate = True
                i = j
            else:
                name, e = plain_name(s, i)
                emit(_ltok("pos", 0, name))
                i = max(e, j)
        elif ch == "{":
            grp, e = read_group(s, i)
            if grp is None:
                emit(_ltok("junk"))
                i += 1
            else:
                kind, name = braced_literal(grp)
                suf, e2 = read_suffix(s, e)
                emit(_ltok(kind, 0, name + suf))
                i = e2
        elif ch in "&()":
            emit(_ltok("deco"))
            i += 1
        elif ch == "+":
            emit(_ltok("plus"))
            i += 1
        elif ch == "=":
            emit(_ltok("eq"))
            i += 1
        elif ch == ">" and s.startswith(">=", i):
            emit(_ltok("geq"))
            i += 2
        elif ch == "≥":
            emit(_ltok("geq"))
            i += 1
        elif ch.isdigit() or (ch == "-" and i + 1 < n and s[i + 1].isdigit()):
            j = i + 1
            while j < n and s[j].isdigit():
                j += 1
            v = int(s[i:j])
            if abs(v) > INT_LIMIT:
                raise tlc.MachineryError("integer beyond TLC's range in LaTeX text")
            emit(_ltok("int", v))
            i = j
        elif ch.isalpha():
            name, e = plain_name(s, i)
            emit(_ltok("pos", 0, name))
            i = max(e, i + 1)
        else:
            emit(_ltok("junk"))
            i += 1
    if negate:
        rows[-1].append(_ltok("junk"))
    if len(rows) > 1 and not rows[-1]:
        rows.pop()                  # a row separator at the very end does not open a row
    return rows


def lex_latex(text):
    pages, pos = [], 0
    while True:
        a = text.find(BEGIN, pos)
        if a < 0:
            break
        b = text.find(END, a + len(BEGIN))
        body = text[a + len(BEGIN):] if b < 0 else text[a + len(BEGIN):b]
        pages.append(lex_block(body))
        if b < 0:
            break
        pos = b + len(END)
    return pages


# --------------------------------------------------------------------------
# projection of the formula held in memory
# --------------------------------------------------------------------------
def project_formula(F):
    n = int(F.number_of_variables())
    labels = [str(x) for x in F.all_variable_labels()]
    marked = [str(x) for x in F.all_variable_labels(default_label_format=MARK + "{}")]
    rec = {"nvars": n, "labels": [list(l) for l in labels],
           "named": [not m.startswith(MARK) for m in marked]}
    if project.is_opb(F):
        rec["cls"] = "OPB"
        rec["constraints"] = project.constraints_of(F)
    else:
        rec["cls"] = "CNF"
        rec["clauses"] = project.clauses_of(F)
    return rec


def has_zero_coefficient(form):
    return any(t[0] == 0 for c in form.get("constraints", []) for t in c["terms"])


def has_break(s):
    return "\n" in s or "\r" in s


def header_has_break(F):
    return any(has_break(str(k)) or has_break(str(v)) for k, v in F.header.items())


def labels_have_break(F):
    return any(has_break(str(l)) for l in F.all_variable_labels())


# --------------------------------------------------------------------------
# formulas
# --------------------------------------------------------------------------
ODD_LABELS = ["a_{2^k}", "s_{n^2}", "y^{a_b}", "t^{u_{1}}_{2}",      # scripts nested inside scripts
              "a", "b_1", "c^2", "d_1^2", "e^2_1", "{f_1}", "{g}_{1}", "h_{1,2}^{3}", "_u", "^v", "x y",
              "\\alpha_{1}", "k_", "f(1)=2", "e[1]_{1,2}", "p+q", "m\\lor n", "1", "{{r_{{1,1}}}}^{i}",
              "{s_{1}}^2", "X_{p_{1,1}}^1", "(f_{1}(2))_{3}", "x2", "x_2", "è", "中_1", "w'", "a",
              "t_{\\overline{z}}", "12x", "n\\geq 1", "q=3", "G_1(2,3)"]


def cnf_with_labels(labels, extra_unnamed=0, rows=None):
    from cnfgen import CNF
    F = CNF()
    vs = [F.new_variable(label=l) for l in labels]
    n = len(vs) + extra_unnamed
    F.update_variable_number(n)
    if rows is None:
        rows = []
        for k in range(n):
            a, b, c = k + 1, (k + 1) % n + 1, (k + 5) % n + 1
            rows.append([-a, b] if k % 2 else [a, -b, -c])
        rows.append([-(k + 1) for k in range(n)])
        rows.append([k + 1 for k in range(n)])
    for r in rows:
        F.add_clause(r)
    return F


def opb_with_labels(labels, extra_unnamed=0):
    from cnfgen.formula.opb import OPB
    F = OPB()
    vs = [F.new_variable(label=l) for l in labels]
    n = len(vs) + extra_unnamed
    F.update_variable_number(n)
    for k in range(n):
        a, b, c = k + 1, (k + 1) % n + 1, (k + 5) % n + 1
        if k % 3 == 0:
            F.add_constraint([(2 + k, -a), (1, b), (3, -c), "==", 2 + k % 4])
        elif k % 3 == 1:
            F.add_constraint([(1, a), (5, -b), ">=", 1 + k % 3])
        else:
            F.add_constraint([(k, -a), (1, -b), (2, c), "<=", 2])
    F.add_constraint([(1 + k % 3, -(k + 1)) for k in range(n)] + ["==", n // 2])
    F.add_clause([-(k + 1) for k in range(n)])
    return F


def unit_rows_cnf(m, n=5):
    from cnfgen import CNF
    F = CNF([[(-1) ** k * (1 + k % n)] + ([1 + (k * 3) % n] if k % 4 == 1 else []) + ([] if k % 11 else [-(1 + (k + 2) % n)])
             for k in range(m)])
    F.update_variable_number(n)
    return F


def unit_rows_opb(m, n=5):
    from cnfgen.formula.opb import OPB
    F = OPB()
    F.update_variable_number(n)
    for k in range(m):
        terms = [(1 + k % 4, (-1) ** k * (1 + k % n))]
        if k % 3 == 1:
            terms.append((2, -(1 + (k * 3) % n)))
        F.add_constraint(terms + [("==" if k % 5 == 0 else ">="), k % 7])
    return F


def catalogue(ck):
    from cnfgen import CNF
    from cnfgen.formula.opb import OPB
    out = []

    def add(name, F):
        out.append((name, F))

    # ---- CNF ----
    add("c-empty", CNF())
    F = CNF(); F.update_variable_number(3); add("c-novars-n3", F)
    add("c-emptycl", CNF([[]]))
    add("c-2emptycl", CNF([[], []]))
    add("c-mixempty", CNF([[1, -2], [], [2], [], [-3, -1]]))
    F = CNF([[1]]); F.update_variable_number(5); add("c-unused", F)
    add("c-repopp", CNF([[1, 1], [1, -1], [1, 1], [-1, 1], [2, -2, 2]]))
    add("c-wide", CNF([list(range(1, 61)), [-k for k in range(1, 61)]]))
    for m in (1, 34, 35, 36, 70, 71) + (() if ck.quick else (69, 72, 105, 106, 140, 141)):
        add("c-rows%d" % m, unit_rows_cnf(m))
    add("c-labels", cnf_with_labels(ODD_LABELS))
    add("c-labels+un", cnf_with_labels(ODD_LABELS[:9], extra_unnamed=4))
    add("c-nolabels", cnf_with_labels([], extra_unnamed=12))
    add("c-duplabels", cnf_with_labels(["a", "a", "{a}", "a_1", "a_{1}"], extra_unnamed=1))
    F = CNF(); F.new_block(2, 3, label="p_{{{},{}}}"); F.new_variable("Z"); F.new_block(2, label="q^{}")
    F.add_clauses_from([[1, -6, 7], [-2, -8, 9], [3], [-9, -7]]); F.update_variable_number(11); F.add_clause([10, -11])
    add("c-blocks", F)
    F = CNF(); F.new_block(40, label="y_{{{}}}")
    F.add_clauses_from([[k, -(k % 40 + 1)] for k in range(1, 41)] + [[-k for k in range(30, 41)]])
    add("c-block40", F)
    descs = {"pct": "100% of $HOME {0} {} %s \\n", "utf": "formula è ü λ 中",
             "star": "* #variable= 9 #constraint= 9", "cons": "+1 x1 >= 1 ;", "tabs": "a\tb\x0cc",
             "us": "under_score and ^ & # ~", "empty": "", "min": "min: +1 x1 ;"}
    for k, d in descs.items():
        add("c-desc-" + k, CNF([[1, -2], [2]], description=d))
    breaks = {"lf": "first line\nsecond line", "lfcons": "first\n+1 x1 >= 1 ;", "crlf": "a\r\nb", "cr": "a\rb",
              "lfstar": "first\n* shielded by luck", "lftrail": "ends with a line break\n"}
    for k, d in breaks.items():
        add("c-brk-" + k, CNF([[1, -2], [2]], description=d))
    F = CNF([[1, -2], [2]]); F.header["my\nkey"] = "value"; add("c-brk-key", F)
    F = CNF([[1, -2], [2]]); F.header["extra"] = 17; F.header["note"] = "x: y: z"; add("c-hdr-extra", F)
    F = CNF([[1, -2], [2]]); F.header.clear(); add("c-hdr-none", F)
    F = CNF([[1, -2], [2]]); del F.header["description"]; add("c-hdr-nodesc", F)
    add("c-lbl-brk", cnf_with_labels(["a\nb", "z"], rows=[[1, -2], [2]]))
    add("c-lbl-brkcons", cnf_with_labels(["a\n+1 x1 >= 1 ;", "z"], rows=[[1, -2], [2]]))
    # ---- OPB ----
    add("o-empty", OPB())
    F = OPB(); F.update_variable_number(3); add("o-novars-n3", F)
    F = OPB(); F.add_constraint([(2, 1), (3, -2), (1, 3), ">=", 4]); F.add_constraint([(5, -1), (7, -3), "==", 5])
    F.add_constraint([(1, 1), (1, 2), (1, -3), ">=", 1]); add("o-coefs", F)
    F = OPB(); F.add_constraint([(1, 1), (2, -2), ">=", 3]); F.add_constraint([">=", 3]); F.add_constraint(["==", 0])
    F.add_constraint([">=", -2]); F.add_clause([]); F.add_constraint([(4, 2), "==", 4]); add("o-emptycons", F)
    F = OPB(); F.add_constraint(["==", 1]); add("o-only-empty", F)
    F = OPB()
    for op in ("<=", "<", ">", ">=", "=="):
        F.add_constraint([(3, 1), (-2, 2), (1, -3), (-4, -4), op, 2])
        F.add_constraint([(-1, 1), (-1, 2), op, -1])
    add("o-ops", F)
    F = OPB(); F.add_constraint([(1, 1), (2, 2), (3, 3), "<=", 0]); F.add_constraint([(2, -1), "<", -5]); add("o-negdeg", F)
    F = OPB(); F.add_constraint([(0, 1), (2, -2), ">=", 1]); F.add_constraint([(1, 1), (0, -3), (0, 3), "==", 1])
    add("o-zerocoef", F)
    F = OPB(); F.add_constraint([(1000000, 1), (999999, -2), (2147483, 3), ">=", 1500000]); add("o-bigcoef", F)
    F = OPB(); F.add_constraint([(1, 1), (2, 1), (1, -1), (3, 2), (3, 2), "==", 4]); add("o-repopp", F)
    F = OPB(); F.add_clause([1, -2, 3]); F.add_clause([-3]); F.add_clauses_from([[2, 2], [-1, 1]]); add("o-clauses", F)
    F = OPB(); F.add_constraint([(k % 5 + 1, (-1) ** k * k) for k in range(1, 61)] + [">=", 30]); add("o-wide", F)
    for m in (1, 34, 35, 36, 70, 71) + (() if ck.quick else (69, 72, 105, 106)):
        add("o-rows%d" % m, unit_rows_opb(m))
    add("o-labels", opb_with_labels(ODD_LABELS))
    add("o-labels+un", opb_with_labels(ODD_LABELS[:7], extra_unnamed=3))
    add("o-nolabels", opb_with_labels([], extra_unnamed=9))
    F = OPB(); f = F.new_mapping(3, 2); F.force_complete_mapping(f); F.force_injective_mapping(f)
    F.force_functional_mapping(f); add("o-mapping", F)
    F = OPB(); F.new_block(2, 2, label="p_{{{},{}}}"); F.cardinality_eq([1, -2, 3], 2); F.cardinality_leq([1, 4, 2], 2)
    F.cardinality_geq([-1, -4], 1); F.add_parity([1, 2, 3], 1); add("o-card", F)
    F = OPB(description="first\nsecond"); F.add_constraint([(2, 1), (1, -2), ">=", 2]); add("o-brk-lf", F)
    F = OPB(description="a\n+1 x1 >= 1 ;"); F.add_constraint([(2, 1), (1, -2), ">=", 2]); add("o-brk-lfcons", F)
    F = OPB(description="utf è 中 {} %s"); F.add_constraint([(2, 1), (1, -2), "==", 2]); add("o-desc-utf", F)
    F = OPB(); F.header.clear(); F.add_constraint([(2, 1), (1, -2), "==", 2]); add("o-hdr-none", F)
    F = OPB(); v = F.new_variable("a\nb"); F.add_constraint([(2, v), ">=", 1]); add("o-lbl-brk", F)
    # sizes around the powers of two a buffered writer would pick
    for m in (4097,) + (() if ck.quick else (9000, 16385)):
        add("c-big%d" % m, unit_rows_cnf(m, n=7))
        add("o-big%d" % m, unit_rows_opb(m, n=7))
    # the same objects used again: rendered once, then changed (variables only / a row only / both) - what the
    # writers produce afterwards must be the formula as it is now
    import copy
    again = []
    for name, F in out:
        if len(F) > 150 or header_has_break(F) or labels_have_break(F):
            continue
        for kind in ("v", "r", "b"):
            G = copy.deepcopy(F)
            try:
                G.to_opb(); G.to_latex()
                to_stream(G, fileformat="opb", export_header=True, export_varnames=True)
                to_stream(G, fileformat="latex", export_header=True)
            except Exception:
                continue
            n = G.number_of_variables()
            if kind in "vb":
                G.update_variable_number(n + 1)
                G.new_variable("late_{{{}}}".format(n))
            if kind in "rb":
                G.add_clause([-max(1, G.number_of_variables())] if G.number_of_variables() else [])
            again.append(("%s.%s" % (name[:14], kind), G))
    return out + again


def family_formulas(ck):
    import cnfgen
    from cnfgen.formula.opb import OPB
    out, skipped = [], 0
    calls = cliargs.library_calls(ck, small=True)
    if ck.quick:
        calls = [c for c in calls if c[0].endswith("0")]
    for name, fn in calls:
        for tag, cls in (("c", cnfgen.CNF), ("o", OPB)):
            try:
                _random.seed(777)
                out.append(("f%s-%s" % (tag, name), fn(cls)))
            except Exception:           # generator failures belong to other properties
                skipped += 1
    base = [F for n, F in out if n in ("fc-php0", "fc-op0", "fc-peb0", "fc-randkcnf0")]
    trans = {"shuffle": lambda F: cnfgen.Shuffle(F), "flip": lambda F: cnfgen.FlipPolarity(F),
             "xor2": lambda F: cnfgen.XorSubstitution(F, 2), "or2": lambda F: cnfgen.OrSubstitution(F, 2),
             "lift2": lambda F: cnfgen.FormulaLifting(F, 2), "maj3": lambda F: cnfgen.MajoritySubstitution(F, 3),
             "ite": lambda F: cnfgen.IfThenElseSubstitution(F), "one2": lambda F: cnfgen.ExactlyOneSubstitution(F, 2),
             "eq2": lambda F: cnfgen.AllEqualSubstitution(F, 2), "neq3": lambda F: cnfgen.NotAllEqualSubstitution(F, 3),
             "xorcomp": lambda F: cnfgen.VariableCompression(F, 4, 2, "xor")}
    for tn, tf in trans.items():
        for k, F in enumerate(base if not ck.quick else base[:2]):
            try:
                _random.seed(ck.seed + k)
                out.append(("t-%s-%d" % (tn, k), tf(F)))
            except Exception:
                skipped += 1
    ck.count("generators_skipped_on_exception", skipped)
    return out


LABEL_POOL = ["a_{2^k}", "y^{a_b}", "a", "b_1", "c^2", "d_{1,2}", "{e_1}^2", "x_{10}", "f(2)", "y^{3}_{1}", "x7", "P_{1,3}", "e_{2,1}"]


def random_formulas(ck):
    from cnfgen import CNF
    from cnfgen.formula.opb import OPB
    rng = ck.rng
    out = []
    N = 40 if ck.quick else 300
    for t in range(N):
        n = rng.randint(0, 9)
        m = rng.choice([0, 1, 2, 3, 5, 8, 12, 12, 20]) if t % 10 else rng.choice([34, 35, 36, 37, 69, 70, 71, 72])
        nl = rng.choice([0, 0, n // 2, n])
        labels = [rng.choice(LABEL_POOL) + ("" if rng.random() < .5 else "^{%d}" % k) for k in range(nl)]
        # CNF
        F = CNF()
        for l in labels:
            F.new_variable(l)
        F.update_variable_number(n)
        for _ in range(m):
            w = rng.choice([0, 1, 1, 2, 3, 3, 5]) if n else 0
            F.add_clause([rng.choice([-1, 1]) * rng.randint(1, n) for _ in range(w)])
        out.append(("rc-%d" % t, F))
        # OPB
        G = OPB()
        for l in labels:
            G.new_variable(l)
        G.update_variable_number(n)
        for _ in range(m):
            w = rng.choice([0, 1, 2, 2, 3, 4]) if n else 0
            terms = [(rng.choice([0, 1, 1, 1, 2, 3, 5, 100, -1, -2, -7]) if rng.random() < .9 else rng.randint(-50, 50),
                      rng.choice([-1, 1]) * rng.randint(1, n)) for _ in range(w)]
            if rng.random() < .75:
                terms = [(c if c else 1, l) for c, l in terms]
            G.add_constraint(terms + [rng.choice(["<=", "<", ">", ">=", ">=", "==", "=="]), rng.randint(-4, 12)])
        out.append(("ro-%d" % t, G))
    return out


# --------------------------------------------------------------------------
# driving the real writers
# --------------------------------------------------------------------------
def rec_opb(rid, form, text, header, varnames, via, wrote="ok"):
    return {"id": rid, "kind": "opb", "wrote": wrote, "formula": form,
            "options": {"header": header, "varnames": varnames, "form": "text", "via": via},
            "lines": lex_opb(text) if wrote == "ok" else []}


def rec_latex(rid, form, text, header, doc, via, wrote="ok"):
    return {"id": rid, "kind": "latex", "wrote": wrote, "formula": form,
            "options": {"header": header, "varnames": False, "form": "document" if doc else "snippet", "via": via},
            "pages": lex_latex(text) if wrote == "ok" else []}


def attempt(fn):
    """-> (text, "ok") or ("", exception name): what the writer raised is judged by the specification"""
    try:
        return fn(), "ok"
    except tlc.MachineryError:
        raise
    except Exception as e:
        return "", exc_name(e)[:24]


def to_stream(F, **kw):
    buf = io.StringIO()
    F.to_file(buf, **kw)
    return buf.getvalue()


def to_stdout(F, **kw):
    buf = io.StringIO()
    with contextlib.redirect_stdout(buf):
        F.to_file(**kw)
    return buf.getvalue()


def to_path(F, path, **kw):
    F.to_file(path, **kw)
    with open(path, "rb") as f:
        data = f.read()
    os.unlink(path)
    return data.decode("utf-8")


def to_named_stream(F, path, **kw):
    """a file object that has a name: the format is guessed from the name"""
    with open(path, "w", encoding="utf-8") as f:
        F.to_file(f, **kw)
    with open(path, "rb") as f:
        data = f.read()
    os.unlink(path)
    return data.decode("utf-8")


def module_level(F, what):
    from cnfgen.utils.opb import to_opb_file
    from cnfgen.utils.latexoutput import to_latex_string, to_latex_document
    buf = io.StringIO()
    if what == "opb":
        to_opb_file(F, buf)
    elif what == "snippet":
        return to_latex_string(F)
    else:
        to_latex_document(F, buf)
    return buf.getvalue()


def write_records(ck, wd, formulas, full):
    """Every formula through every writer entry point.  full=False: the main entry points only."""
    recs = []
    outdir = os.path.join(wd, "out")
    os.makedirs(outdir, exist_ok=True)
    for idx, (name, F) in enumerate(formulas):
        form = project_formula(F)
        opb_cls = form["cls"] == "OPB"
        hb, lb = header_has_break(F), labels_have_break(F)
        zero = has_zero_coefficient(form)
        nodesc = "description" not in F.header
        new = []

        def opb(tag, fn, h, v, via):
            text, wrote = attempt(fn)
            r = rec_opb("%s:%s" % (name, tag), form, text, h, v, via, wrote)
            if h and hb:
                r["kf"] = "opb:header-linebreak"
            elif v and lb:
                r["kf"] = "opb:varname-linebreak"
            new.append(r)

        def latex(tag, fn, h, doc, via):
            text, wrote = attempt(fn)
            r = rec_latex("%s:%s" % (name, tag), form, text, h, doc, via, wrote)
            if doc and nodesc:
                r["kf"] = "latex:header-without-description"
            elif zero:
                r["kf"] = "latex:zero-coefficient"
            new.append(r)

        base = os.path.join(outdir, "f%d" % idx)
        opb("o", lambda: F.to_opb(), False, False, "to_opb")
        for h in (False, True):
            for v in (False, True):
                if full or h == v:
                    opb("o%d%d" % (h, v), lambda: to_stream(F, fileformat="opb", export_header=h, export_varnames=v),
                        h, v, "to_file-stream")
        opb("op", lambda: to_path(F, base + ".opb"), True, False, "to_file-name.opb")
        latex("l", lambda: F.to_latex(), False, False, "to_latex")
        latex("l1", lambda: to_stream(F, fileformat="latex", export_header=True), True, True, "to_file-stream")
        latex("lp", lambda: to_path(F, base + ".tex", extra_text="Extra text with $x_1 \\lor y$.\n"), True, True,
              "to_file-name.tex")
        if full:
            latex("l0", lambda: to_stream(F, fileformat="latex", export_header=False, export_varnames=True), False, True,
                  "to_file-stream")
            opb("on", lambda: to_named_stream(F, base + "n.opb", export_varnames=True), True, True, "to_file-named-stream")
            latex("ln", lambda: to_named_stream(F, base + "n.tex", export_header=False), False, True, "to_file-named-stream")
            opb("of", lambda: to_path(F, base + "x.txt", fileformat="opb", export_header=False, export_varnames=True),
                False, True, "to_file-name+format")
            if opb_cls:
                opb("od", lambda: to_path(F, base + "d.txt"), True, False, "to_file-default")
            opb("om", lambda: module_level(F, "opb"), True, False, "to_opb_file")
            opb("os", lambda: to_stdout(F, fileformat="opb", export_header=False), False, False, "to_file-stdout")
            latex("ls", lambda: to_stdout(F, fileformat="latex"), True, True, "to_file-stdout")
            latex("lm", lambda: module_level(F, "snippet"), False, False, "to_latex_string")
            latex("ld", lambda: module_level(F, "document"), True, True, "to_latex_document")
        recs += new
    return recs


# --------------------------------------------------------------------------
# command line tools
# --------------------------------------------------------------------------
def run_cli(toolname, argv, mode):
    """cnfgen / pbgen cli() in process -> (return value, what it printed on stdout)"""
    import cnfgen.clitools.msg as msg
    mod = cliargs.tool(toolname)
    msg._prefix = ""
    out, err = io.StringIO(), io.StringIO()
    _random.seed(12345)
    with contextlib.redirect_stderr(err), contextlib.redirect_stdout(out):
        try:
            res = mod.cli(list(argv), mode=mode)
        finally:
            msg._prefix = ""
    return res, out.getvalue()


def cli_records(ck, wd):
    lines = cliargs.formula_command_lines(ck, wd, small=True)
    if ck.quick:
        lines = lines[::4]
    recs, skipped, helpers = [], 0, set()
    outdir = os.path.join(wd, "cli")
    os.makedirs(outdir, exist_ok=True)
    for j, (helper, args) in enumerate(lines):
        for toolname in ("cnfgen", "pbgen"):
            pre = [toolname, "--seed", "7"]
            try:
                F, _ = run_cli(toolname, pre + ["-q"] + args, "formula")
                form = project_formula(F)
            except (SystemExit, Exception):       # refusals and crashes belong to C17 / C18
                skipped += 1
                continue
            helpers.add(helper)
            hb, lb = False, labels_have_break(F)
            zero = has_zero_coefficient(form)
            rid = "%s%03d" % (toolname[0], j)

            def mark(r):
                if r["kind"] == "latex" and zero:
                    r["kf"] = "latex:zero-coefficient"
                r["argv"] = " ".join(r.pop("_argv"))
                recs.append(r)

            def via_string(tag, fmt):
                argv = pre + ["-q", "-of", fmt] + args
                text, wrote = attempt(lambda: run_cli(toolname, argv, "string")[0])
                r = (rec_opb(rid + tag, form, text, False, False, "cli-string", wrote) if fmt == "opb"
                     else rec_latex(rid + tag, form, text, False, False, "cli-string", wrote))
                r["_argv"] = argv
                mark(r)

            def via_stdout(tag, fmt, quiet, varnames):
                argv = pre + (["-q"] if quiet else []) + (["--varnames"] if varnames else []) + ["-of", fmt] + args
                text, wrote = attempt(lambda: run_cli(toolname, argv, "output")[1])
                r = (rec_opb(rid + tag, form, text, not quiet, varnames, "cli-stdout", wrote) if fmt == "opb"
                     else rec_latex(rid + tag, form, text, not quiet, True, "cli-stdout", wrote))
                r["_argv"] = argv
                mark(r)

            def via_file(tag, ext):
                path = os.path.join(outdir, "%s.%s" % (rid, ext))
                # cnfgen guesses the format from the file name; pbgen's format defaults to opb
                fmt = ([] if toolname == "cnfgen" else ["-of", "opb"] if ext == "opb" else [["-l"], ["-of", "latex"]][j % 2])
                argv = pre + ["--varnames"] + fmt + ["-o", path] + args

                def go():
                    run_cli(toolname, argv, "output")
                    with open(path, "rb") as f:
                        data = f.read()
                    if not data:            # argparse opened the file; it is closed with the namespace
                        import gc
                        gc.collect()
                        with open(path, "rb") as f:
                            data = f.read()
                    return data.decode("utf-8")
                text, wrote = attempt(go)
                r = (rec_opb(rid + tag, form, text, True, True, "cli-file.opb", wrote) if ext == "opb"
                     else rec_latex(rid + tag, form, text, True, True, "cli-file.tex", wrote))
                r["_argv"] = argv
                mark(r)

            via_string("so", "opb")
            via_string("sl", "latex")
            via_stdout("po", "opb", False, j % 2 == 0)
            via_stdout("pl", "latex", j % 2 == 1, False)
            if j % 4 == 0 or not ck.quick:
                via_stdout("qo", "opb", True, j % 2 == 1)
                via_file("fo", "opb")
                via_file("fl", "tex")
    ck.cover["cli_helpers_exercised"] = sorted(helpers)
    ck.count("cli_command_lines_skipped", skipped)
    return recs


SUBPROCESS_LINES = [("cnfgen", ["-of", "opb", "php", "3", "2"]), ("cnfgen", ["-q", "-of", "latex", "op", "4"]),
                    ("pbgen", ["-of", "opb", "--varnames", "php", "3", "2"]), ("pbgen", ["-of", "latex", "php", "4", "3"]),
                    ("cnfgen", ["-of", "latex", "php", "6", "5"]), ("pbgen", ["-q", "-of", "opb", "cliquecoloring", "3", "2", "2"])]


def subprocess_records(ck, wd):
    """the tools as separate processes, standard output captured"""
    import concurrent.futures as cf
    env = dict(os.environ)
    env.update({common.GUARD: "1", "PYTHONHASHSEED": "0", "PYTHONWARNINGS": "ignore", "PYTHONDONTWRITEBYTECODE": "1"})

    def one(job):
        toolname, args = job
        p = subprocess.run([sys.executable, "-m", "cnfgen.clitools." + toolname] + args, cwd=common.REPO, env=env,
                           stdout=subprocess.PIPE, stderr=subprocess.PIPE, timeout=300)
        return p.returncode, p.stdout.decode("utf-8", "replace")
    lines = SUBPROCESS_LINES if ck.quick else SUBPROCESS_LINES + [
        ("cnfgen", ["-of", "opb", "--varnames", "tseitin", "first", "grid", "2", "3"]),
        ("pbgen", ["-of", "latex", "-q", "subsetcard", "complete", "2", "3"]), ("cnfgen", ["-of", "latex", "-S", "5", "randkcnf", "3", "8", "80"])]
    with cf.ThreadPoolExecutor(max_workers=6) as ex:
        outs = list(ex.map(one, lines))
    recs = []
    for j, ((toolname, args), (rc, text)) in enumerate(zip(lines, outs)):
        F, _ = run_cli(toolname, [toolname] + args, "formula")
        form = project_formula(F)
        quiet, varnames = "-q" in args, "--varnames" in args
        fmt = args[args.index("-of") + 1]
        wrote = "ok" if rc == 0 else "exit_%d" % (rc % 256)
        rid = "sub%02d" % j
        r = (rec_opb(rid, form, text, not quiet, varnames, "subprocess", wrote) if fmt == "opb"
             else rec_latex(rid, form, text, not quiet, True, "subprocess", wrote))
        r["argv"] = toolname + " " + " ".join(args)
        recs.append(r)
    return recs


# --------------------------------------------------------------------------
EXPECTED_WHY = {"latex:zero-coefficient": {"wrong_coefficient"},
                "latex:header-without-description": {"writer_raised_KeyError"}}


def keyf(rec, why):
    """finding key of a failing record (which input / call site), never a verdict"""
    if why == "constraint_not_terminated":
        return "opb:no-semicolon"
    kf = rec.get("kf")
    if kf and (kf not in EXPECTED_WHY or why in EXPECTED_WHY[kf]):
        return kf
    return "%s:%s" % (rec.get("kind"), why)


def weight(rec):
    if rec["kind"] == "opb":
        return 5 + sum(len(l["t"]) + 1 for l in rec["lines"])
    return 5 + sum(len(r) + 1 for p in rec["pages"] for r in p) + 3 * rec["formula"]["nvars"]


def check_ids(recs):
    for r in recs:
        if len(r["id"]) > 28 or not re.match(r"^[A-Za-z0-9_.:+-]+$", r["id"]):
            raise tlc.MachineryError("record id too long or unsafe: %r" % r["id"])


def condense(ck, per_key=3):
    """Many artefacts fail for the same reason at the same call site: keep a few
    per finding key as VIOLATION lines / replay files, count all of them."""
    seen, keep = {}, []
    for rid, why, rec in ck.fail:
        k = keyf(rec, why)
        seen[k] = seen.get(k, 0) + 1
        if seen[k] <= per_key:
            rec = dict(rec, kf=k)
            keep.append((rid, why, rec))
    ck.fail = keep
    ck.cover["failing_artefacts_by_finding_key"] = dict(sorted(seen.items()))
    for k, hits in ck.known_hits.items():
        ck.cover.setdefault("known_finding_artefacts", {})[k] = len(hits)
    return seen


QUICK_MODELS = ["OpbLatexMC_cnf.cfg", "OpbLatexMC_cnf_pages.cfg", "OpbLatexMC_opb.cfg", "OpbLatexMC_opb_pages.cfg"]
THOROUGH_MODELS = QUICK_MODELS + ["OpbLatexMC_cnf_thorough.cfg", "OpbLatexMC_cnf_wide_thorough.cfg",
                                  "OpbLatexMC_opb_pages_thorough.cfg", "OpbLatexMC_opb_thorough.cfg"]


def run_models(ck):
    """All model configurations, side by side (TLC processes; called from a helper thread)."""
    import concurrent.futures as cf
    cfgs = QUICK_MODELS if ck.quick else THOROUGH_MODELS
    with cf.ThreadPoolExecutor(max_workers=4) as ex:
        list(ex.map(lambda c: ck.model("OpbLatexMC", c, workers=2 if ck.quick else 4, heap="3g", timeout=3000), cfgs))


def all_records(ck, wd):
    cat = catalogue(ck)
    fam = family_formulas(ck)
    rnd = random_formulas(ck)
    recs = write_records(ck, wd, cat, full=True)
    recs += write_records(ck, wd, fam, full=not ck.quick)
    recs += write_records(ck, wd, rnd, full=not ck.quick)
    ck.count("formulas_catalogue", len(cat))
    ck.count("formulas_families_and_transformations", len(fam))
    ck.count("formulas_random", len(rnd))
    cli = cli_records(ck, wd)
    sub = subprocess_records(ck, wd)
    ck.count("artefacts_library", len(recs))
    ck.count("artefacts_cli_in_process", len(cli))
    ck.count("artefacts_cli_subprocess", len(sub))
    recs += cli + sub
    for r in recs:
        r["tier"], r["seed"] = ck.tier, ck.seed
    return recs


def main(argv=None):
    ck = common.Check("C12", argv)
    common.setup_repo_import()
    import cnfgen  # noqa: F401
    wd = tlc.workdir("C12")
    rec = ck.replay_record()
    if rec is not None:
        # every artefact is a function of tier and seed: rebuild them, TLC re-judges the stored one
        ck.tier, ck.seed = rec.get("tier", ck.tier), rec.get("seed", ck.seed)
        ck.quick = ck.tier == "quick"
        ck.rng = _random.Random(ck.seed * 1000003 + sum(map(ord, ck.pid)))
        recs = all_records(ck, wd)
        ck.judge("JudgeOpbLatex", recs, cfg="JudgeOpbLatex.cfg", keyf=keyf, weight=weight)
        return ck.finish()

    import concurrent.futures as cf
    with cf.ThreadPoolExecutor(max_workers=1) as ex:
        models = ex.submit(run_models, ck)          # TLC on the model while the real writers run
        recs = all_records(ck, wd)
        models.result()
    check_ids(recs)
    ck.count("artefacts_opb", sum(1 for r in recs if r["kind"] == "opb"))
    ck.count("artefacts_latex_snippet", sum(1 for r in recs if r["kind"] == "latex" and r["options"]["form"] == "snippet"))
    ck.count("artefacts_latex_document", sum(1 for r in recs if r["kind"] == "latex" and r["options"]["form"] == "document"))
    ck.count("latex_documents_with_page_split", sum(1 for r in recs if r["kind"] == "latex" and len(r["pages"]) > 1))
    ck.count("writer_exceptions", sum(1 for r in recs if r["wrote"] != "ok"))
    for r in (recs[3], next(x for x in recs if x["id"] == "o-coefs:l")):
        ck.sample({k: r[k] for k in ("id", "kind", "formula", "options", "lines", "pages") if k in r})
    ck.judge("JudgeOpbLatex", recs, cfg="JudgeOpbLatex.cfg", keyf=keyf, weight=weight)
    total_fail = len(ck.fail)
    condense(ck)
    ck.assumptions += [
        "an OPB text is seen through the lexer of this harness: lines end at \\n, \\r\\n or \\r, a line whose first "
        "non-blank character is * is a comment (only the first line's tokens are looked at), tokens are separated "
        "by whitespace, `;' is a token by itself, [+-]digits is an integer, [~]x<k> a literal",
        "a LaTeX text is seen through the lexer of this harness: the align environments, rows separated by \\\\ "
        "at brace depth 0, {X} / plain X a positive and \\overline{X}, {\\overline{A}B}, \\neg X a negative "
        "literal; names are compared with braces and blanks removed (grouping is typesetting), an un-named "
        "variable x<i> may be shown as x_<i>; labels are assumed brace-balanced and free of \\\\ and \\overline",
        "the order of the terms inside one constraint / row is not part of the property (bags are compared); "
        "the order of the rows is; a document page may be shorter than 35 rows, never longer",
        "model scope (quick): CNF 2 variables, <= 2 clauses of width <= 2 and <= 3 clauses of width <= 1; OPB 2 "
        "variables, one constraint of <= 2 terms and <= 2 constraints of <= 1 term, coefficients {0,1,3}, degrees "
        "{-1,2}; (thorough, in addition): CNF <= 3 clauses of width <= 2, 3 variables with <= 2 clauses; OPB <= 2 "
        "constraints of <= 2 terms with coefficients {0,2}",
        "formulas are well formed (literals in range); integers stay below 2^31",
    ]
    return ck.finish(
        rule="one case = one text produced by a real writer entry point (library call or command line) for one "
             "formula and one option combination, lexed and judged by TLC against the projected formula; "
             "non-trivial = the real writer ran and TLC computed the denotation of its output",
        distinct_nontrivial=len(recs),
        extra={"failing_artefacts_total": total_fail})


if __name__ == "__main__":
    common.main_wrapper(main)
