SPECIFICATION Spec
CONSTANT Part = "multifull"
INVARIANT Multipartite_Characterised
INVARIANT Multipartite_Balanced
