SPECIFICATION SpecStore
CHECK_DEADLOCK FALSE
POSTCONDITION AllJudged
