------------------------------ MODULE Formula ------------------------------
(***************************************************************************)
(* The variable store of a cnfgen formula (CNF / OPB) as a state machine:  *)
(* properties C11 (variable groups: bijection, order, names) and, later,   *)
(* C10 / C19 (literals in range, fresh identifiers).                       *)
(*                                                                         *)
(* State: the declared number of variables, the groups in creation order   *)
(* (kind, shape parameters, first identifier, length), the number of       *)
(* clauses and the largest variable mentioned by a clause.  One action per *)
(* public mutator of VariablesManager / BaseCNF.                           *)
(*                                                                         *)
(* For every group kind the module defines TWICE what the documentation of *)
(* the group classes promises:                                             *)
(*   - abstractly: IndexSet(g) (the legal indices) and the order in which  *)
(*     identifiers are handed out (Key), hence Indices(g) = the legal      *)
(*     indices sorted by that order, IdOf / IndexOf by position;           *)
(*   - implementation-shaped: the closed forms the classes compute with    *)
(*     (mixed-radix weights, per-vertex offsets + bisect, bit arithmetic,  *)
(*     itertools enumeration tables): IdImpl / IndexImpl.                  *)
(* The model invariants say the two agree, that IdImpl / IndexImpl are     *)
(* mutually inverse on Indices, that Indices is strictly increasing in     *)
(* identifier, and that group ranges are contiguous, disjoint and fresh.   *)
(*                                                                         *)
(* Wildcards: a pattern is a sequence whose components are integers or W   *)
(* (= Python None).  Indices are 1-based except the bit position of a      *)
(* binary mapping (k-1 .. 0).                                              *)
(***************************************************************************)
EXTENDS Integers, Sequences, FiniteSets, SequencesExt, TLC, Json

CONSTANTS ShapesFirst,   \* group shapes that may be created by the first call
          ShapesLater,   \* group shapes that may be created by later calls
          Clauses,       \* clauses (sequences of non-zero literals) tried by AddClause
          Updates,       \* arguments tried by UpdateVarNumber
          MaxSteps,      \* number of calls in a history
          Export,        \* TRUE: keep the history and print every complete behaviour
          Closing,       \* TRUE: the last call of a history is the no-op update_variable_number(0)
                         \*       (random walks: one successor at the last step, one behaviour per walk)
          Shard, NShards \* export sharding: the first call has index = Shard mod NShards

VARIABLES numvar,        \* declared number of variables
          groups,        \* sequence of group records, creation order
          nclauses,      \* number of clauses inserted
          maxMentioned,  \* largest variable mentioned by a clause (history variable, C10)
          steps,         \* number of calls so far
          res,           \* outcome of the last call
          hist           \* the calls so far with the expected numvar / number of groups

vars == <<numvar, groups, nclauses, maxMentioned, steps, res, hist>>

W == -9                  \* the wildcard (None)

-----------------------------------------------------------------------------
(* small helpers                                                            *)
Max2(a, b) == IF a >= b THEN a ELSE b
Abs(x) == IF x < 0 THEN -x ELSE x
MaxSeq(s) == IF Len(s) = 0 THEN 0 ELSE CHOOSE m \in {s[i] : i \in 1..Len(s)} : \A i \in 1..Len(s) : s[i] <= m
MaxAbs(c) == MaxSeq([i \in 1..Len(c) |-> Abs(c[i])])
LexLess(a, b) == \E i \in 1..Len(a) : a[i] < b[i] /\ \A j \in 1..(i - 1) : a[j] = b[j]
Pos(seq, x) == CHOOSE p \in 1..Len(seq) : seq[p] = x
SortedInts(S) == SetToSortSeq(S, <)
SortedTuples(S) == SetToSortSeq(S, LexLess)
Tup(f) == SubSeq(f, 1, Len(f))

-----------------------------------------------------------------------------
(* shapes: what the caller passes when creating a group                     *)
(*   kind   par            E                  sort                          *)
(*   var    <<>>                                      single variable       *)
(*   block  ranges                                    cartesian product     *)
(*   comb   <<n,k>>                                   k-subsets of [n]      *)
(*   perm   <<n,k>>                                   injective k-tuples    *)
(*   words  <<n,k>>                                   all k-tuples          *)
(*   bip    <<L,R>>        edges (u,v)                bipartite graph edges *)
(*   graph  <<n>>          edges (u,v), u < v         simple graph edges    *)
(*   digraph <<n>>         edges (u,v)        pred|succ  directed edges     *)
(*   map    <<n,m>>                                   unary mapping n -> m  *)
(*   smap   <<L,R>>        edges (u,v)                sparse mapping        *)
(*   bmap   <<n,m>>                                   binary mapping        *)

Sh(kind, par, E, sort) == [kind |-> kind, par |-> par, E |-> E, sort |-> sort]
NoShape == Sh("none", <<>>, {}, "")
WordKinds == {"comb", "perm", "words"}
BipKinds == {"bip", "smap", "map"}

\* k = the smallest integer such that m <= 2^k (documentation of new_binary_mapping)
Bits(m) == IF m <= 1 THEN 0 ELSE CHOOSE k \in 1..30 : 2^(k - 1) < m /\ m <= 2^k

Arity(s) == CASE s.kind = "var" -> 0
              [] s.kind = "block" -> Len(s.par)
              [] s.kind \in WordKinds -> s.par[2]
              [] OTHER -> 2

\* how a label is built from the format string the caller passes:
\* "name" the string itself, "each" one placeholder per index component,
\* "joined" one placeholder receiving the comma separated index
LStyle(s) == CASE s.kind = "var" -> "name"
               [] s.kind \in WordKinds -> "joined"
               [] OTHER -> "each"

\* ---- the legal indices ---------------------------------------------------
IndexSet(s) ==
    CASE s.kind = "var"     -> {<<>>}
      [] s.kind = "block"   -> {Tup(t) : t \in {t \in [1..Len(s.par) -> 1..MaxSeq(s.par)] :
                                                 \A i \in 1..Len(s.par) : t[i] <= s.par[i]}}
      [] s.kind = "comb"    -> {Tup(t) : t \in {t \in [1..s.par[2] -> 1..s.par[1]] :
                                                 \A i, j \in 1..s.par[2] : i < j => t[i] < t[j]}}
      [] s.kind = "perm"    -> {Tup(t) : t \in {t \in [1..s.par[2] -> 1..s.par[1]] :
                                                 \A i, j \in 1..s.par[2] : i < j => t[i] # t[j]}}
      [] s.kind = "words"   -> {Tup(t) : t \in [1..s.par[2] -> 1..s.par[1]]}
      [] s.kind \in {"bip", "smap", "graph", "digraph"} -> s.E
      [] s.kind = "map"     -> (1..s.par[1]) \X (1..s.par[2])
      [] s.kind = "bmap"    -> (1..s.par[1]) \X (0..(Bits(s.par[2]) - 1))

\* ---- the order in which identifiers are handed out -----------------------
\* lexicographic in the index, except: directed edges sorted by successor are
\* ordered by (head, tail); bits of a binary mapping go from high to low.
Key(s, idx) ==
    CASE s.kind = "digraph" /\ s.sort = "succ" -> <<idx[2], idx[1]>>
      [] s.kind = "bmap"                        -> <<idx[1], -idx[2]>>
      [] OTHER                                  -> idx

Indices(s) == LET less(a, b) == LexLess(Key(s, a), Key(s, b)) IN SetToSortSeq(IndexSet(s), less)

\* an undirected edge may be named in either orientation
Canon(s, idx) == IF s.kind = "graph" /\ Len(idx) = 2 /\ idx[1] > idx[2] THEN <<idx[2], idx[1]>> ELSE idx

InDomain(s, idx) == Len(idx) = Arity(s) /\ Canon(s, idx) \in IndexSet(s)

\* group record = shape + first identifier + length + creation number
Covers(g, id) == g.first <= id /\ id < g.first + g.len
\* (the ...X forms take the precomputed sequence ix = Indices(g))
IdOfX(g, ix, idx) == g.first + Pos(ix, Canon(g, idx)) - 1
IndexOfX(g, ix, id) == ix[id - g.first + 1]
IdOf(g, idx) == IdOfX(g, Indices(g), idx)
IndexOf(g, id) == IndexOfX(g, Indices(g), id)
LabelOf(g, idx) == [g |-> g.no, idx |-> Canon(g, idx)]      \* abstract label
DefaultLabel(i) == [g |-> 0, idx |-> <<i>>]                  \* rendered 'x{}'.format(i)

\* ---- wildcard patterns -----------------------------------------------------
HasW(pat) == \E i \in 1..Len(pat) : pat[i] = W
\* legal values of component i of an index
CompDom(s, i) ==
    CASE s.kind = "block" -> 1..s.par[i]
      [] s.kind \in WordKinds -> 1..s.par[1]
      [] s.kind \in BipKinds -> 1..s.par[i]
      [] s.kind \in {"graph", "digraph"} -> 1..s.par[1]
      [] s.kind = "bmap" -> IF i = 1 THEN 1..s.par[1] ELSE 0..(Bits(s.par[2]) - 1)
Matches(s, pat, idx) ==
    IF s.kind = "graph"
    THEN \* (w, None) and (None, w) both mean: the edges incident to w
         \A i \in 1..2 : pat[i] = W \/ pat[i] \in {idx[1], idx[2]}
    ELSE \A i \in 1..Len(pat) : pat[i] = W \/ pat[i] = idx[i]
\* the indices matching a pattern, in identifier order
Pattern(s, pat) ==
    IF Len(pat) = 0 THEN Indices(s)
    ELSE LET m(idx) == Matches(s, pat, idx) IN SelectSeq(Indices(s), m)
FixedInRange(s, pat) == \A i \in 1..Len(pat) : pat[i] = W \/ pat[i] \in CompDom(s, i)

\* What a call g(*pat) / g.indices(*pat) / g.label(*pat) must do.
\*  "ok"                 the matching identifiers in identifier order (scalar for a full index)
\*  "ValueError"         documented refusal: wrong arity, or a full index outside the domain
\*  "ok_or_ValueError"   word-indexed groups document only the empty pattern and full indices
\*  "ValueError_or_empty" a wildcard pattern with a fixed component out of range matches nothing
PatRes(s, pat) ==
    CASE Len(pat) = 0 -> "ok"
      [] Len(pat) # Arity(s) -> "ValueError"
      [] ~HasW(pat) -> IF InDomain(s, pat) THEN "ok" ELSE "ValueError"
      [] s.kind \in WordKinds -> "ok_or_ValueError"
      [] FixedInRange(s, pat) -> "ok"
      [] OTHER -> "ValueError_or_empty"
\* the empty pattern of a group with 0-ary indices is at the same time its only index
PatScalar(s, pat) ==
    CASE Len(pat) = 0 /\ Arity(s) = 0 -> IF s.kind = "var" THEN "yes" ELSE "either"
      [] Len(pat) = 0 -> "no"
      [] HasW(pat) -> "no"
      [] OTHER -> "yes"

-----------------------------------------------------------------------------
(* implementation-shaped closed forms                                        *)

\* -- BlockOfVariables: mixed radix, weights = products of the later ranges
RECURSIVE ProdFrom(_, _)
ProdFrom(par, i) == IF i > Len(par) THEN 1 ELSE par[i] * ProdFrom(par, i + 1)
Weight(par, i) == ProdFrom(par, i + 1)          \* Weight(par, 0) = number of variables
RECURSIVE MixedRadix(_, _, _)
MixedRadix(par, idx, i) == IF i > Len(par) THEN 0 ELSE (idx[i] - 1) * Weight(par, i) + MixedRadix(par, idx, i + 1)
BlockId(g, idx) == g.first + MixedRadix(g.par, idx, 1)
BlockIndex(g, id) == [i \in 1..Len(g.par) |-> ((id - g.first) % Weight(g.par, i - 1)) \div Weight(g.par, i) + 1]

\* -- WordOfIndicesVariables: a table filled in itertools order
RECURSIVE CombFrom(_, _, _)
CombFrom(lo, n, k) ==
    IF k = 0 THEN << <<>> >>
    ELSE FlattenSeq([j \in 1..(n - lo + 1) |->
            LET a == lo + j - 1
                sub == CombFrom(a + 1, n, k - 1)
            IN  [p \in 1..Len(sub) |-> <<a>> \o sub[p]]])
RECURSIVE PermFrom(_, _, _)
PermFrom(used, n, k) ==
    IF k = 0 THEN << <<>> >>
    ELSE FlattenSeq([a \in 1..n |->
            IF a \in used THEN <<>>
            ELSE LET sub == PermFrom(used \cup {a}, n, k - 1)
                 IN  [p \in 1..Len(sub) |-> <<a>> \o sub[p]]])
RECURSIVE WordsFrom(_, _)
WordsFrom(n, k) ==
    IF k = 0 THEN << <<>> >>
    ELSE FlattenSeq([a \in 1..n |->
            LET sub == WordsFrom(n, k - 1) IN [p \in 1..Len(sub) |-> <<a>> \o sub[p]]])
Table(s) == CASE s.kind = "comb"  -> CombFrom(1, s.par[1], s.par[2])
              [] s.kind = "perm"  -> PermFrom({}, s.par[1], s.par[2])
              [] s.kind = "words" -> WordsFrom(s.par[1], s.par[2])

\* -- BipartiteEdgesVariables: offset of every left vertex, position among its sorted neighbours
Offset(first, E, u) == first + Cardinality({e \in E : e[1] < u})
NbrSeq(E, u) == SortedInts({e[2] : e \in {f \in E : f[1] = u}})
BipId(first, E, idx) == Offset(first, E, idx[1]) + Pos(NbrSeq(E, idx[1]), idx[2]) - 1
BipIndex(first, L, E, id) ==
    LET below == {w \in 1..L : Offset(first, E, w) <= id}      \* bisect_right(offset, id) - 1
        u == CHOOSE w \in below : \A x \in below : x <= w
    IN  <<u, NbrSeq(E, u)[id - Offset(first, E, u) + 1]>>
\* the bipartite graph the group classes build internally
EffE(s) == CASE s.kind = "map" -> (1..s.par[1]) \X (1..s.par[2])
             [] s.kind = "digraph" /\ s.sort = "succ" -> {<<e[2], e[1]>> : e \in s.E}
             [] OTHER -> s.E
Swap(s, p) == IF s.kind = "digraph" /\ s.sort = "succ" THEN <<p[2], p[1]>> ELSE p

\* -- BinaryMappingVariables: bit arithmetic
BmapId(g, idx) == (g.first - 1) + idx[1] * Bits(g.par[2]) - idx[2]
BmapIndex(g, id) ==
    LET k == Bits(g.par[2])
        v == id - (g.first - 1)
    IN  <<(v - 1) \div k + 1, k - 1 - ((v - 1) % k)>>

\* tab = the table kept by the group object (word-indexed groups only)
TableOf(g) == IF g.kind \in WordKinds THEN Table(g) ELSE <<>>
IdImplX(g, tab, idx) ==
    CASE g.kind = "var"   -> g.first
      [] g.kind = "block" -> BlockId(g, idx)
      [] g.kind \in WordKinds -> g.first + Pos(tab, idx) - 1
      [] g.kind = "bmap"  -> BmapId(g, idx)
      [] OTHER            -> BipId(g.first, EffE(g), Swap(g, Canon(g, idx)))
IndexImplX(g, tab, id) ==
    CASE g.kind = "var"   -> <<>>
      [] g.kind = "block" -> BlockIndex(g, id)
      [] g.kind \in WordKinds -> tab[id - g.first + 1]
      [] g.kind = "bmap"  -> BmapIndex(g, id)
      [] OTHER            -> Swap(g, BipIndex(g.first, g.par[1], EffE(g), id))
IdImpl(g, idx) == IdImplX(g, TableOf(g), idx)
IndexImpl(g, id) == IndexImplX(g, TableOf(g), id)

\* GraphEdgesVariables enumerates the edges at w as: edges (u, w) with u < w, then edges (w, x)
GraphAtImpl(g, w) ==
    LET lo == SortedTuples({e \in g.E : e[2] = w})
        hi == SortedTuples({e \in g.E : e[1] = w})
    IN  lo \o hi

-----------------------------------------------------------------------------
(* the state machine                                                         *)

NewGroup(s) ==
    LET n == Cardinality(IndexSet(s))
        g == [kind |-> s.kind, par |-> s.par, E |-> s.E, sort |-> s.sort,
              first |-> numvar + 1, len |-> n, no |-> Len(groups) + 1]
    IN  /\ groups' = Append(groups, g)
        /\ numvar' = numvar + n
        /\ UNCHANGED <<nclauses, maxMentioned>>

\* new_binary_mapping documents "non negative" sizes, the group class refuses
\* n < 1 or m < 1: both an empty group and a ValueError are allowed there
MayRefuse(s) == s.kind = "bmap" /\ (s.par[1] = 0 \/ s.par[2] = 0)
Outcome(s) == IF MayRefuse(s) THEN "ok_or_ValueError" ELSE "ok"

NewVariable             == NewGroup(Sh("var", <<>>, {}, ""))         /\ res' = "ok"
NewBlock(ranges)        == NewGroup(Sh("block", ranges, {}, ""))     /\ res' = "ok"
NewCombinations(n, k)   == NewGroup(Sh("comb", <<n, k>>, {}, ""))    /\ res' = "ok"
NewPermutations(n, k)   == NewGroup(Sh("perm", <<n, k>>, {}, ""))    /\ res' = "ok"
NewWords(n, k)          == NewGroup(Sh("words", <<n, k>>, {}, ""))   /\ res' = "ok"
NewBipartiteEdges(L, R, E) == NewGroup(Sh("bip", <<L, R>>, E, ""))   /\ res' = "ok"
NewGraphEdges(n, E)     == NewGroup(Sh("graph", <<n>>, E, ""))       /\ res' = "ok"
NewDigraphEdges(n, E, sortby) == NewGroup(Sh("digraph", <<n>>, E, sortby)) /\ res' = "ok"
NewMapping(n, m)        == NewGroup(Sh("map", <<n, m>>, {}, ""))     /\ res' = "ok"
NewSparseMapping(L, R, E) == NewGroup(Sh("smap", <<L, R>>, E, ""))   /\ res' = "ok"
NewBinaryMapping(n, m)  == LET s == Sh("bmap", <<n, m>>, {}, "") IN NewGroup(s) /\ res' = Outcome(s)

NewOfShape(s) ==
    CASE s.kind = "var"     -> NewVariable
      [] s.kind = "block"   -> NewBlock(s.par)
      [] s.kind = "comb"    -> NewCombinations(s.par[1], s.par[2])
      [] s.kind = "perm"    -> NewPermutations(s.par[1], s.par[2])
      [] s.kind = "words"   -> NewWords(s.par[1], s.par[2])
      [] s.kind = "bip"     -> NewBipartiteEdges(s.par[1], s.par[2], s.E)
      [] s.kind = "graph"   -> NewGraphEdges(s.par[1], s.E)
      [] s.kind = "digraph" -> NewDigraphEdges(s.par[1], s.E, s.sort)
      [] s.kind = "map"     -> NewMapping(s.par[1], s.par[2])
      [] s.kind = "smap"    -> NewSparseMapping(s.par[1], s.par[2], s.E)
      [] s.kind = "bmap"    -> NewBinaryMapping(s.par[1], s.par[2])

\* add_clause(c, check): with check the variable count is raised to the largest
\* variable mentioned; without it the count is left alone (C10: the caller's duty)
AddClause(c, check) ==
    /\ nclauses' = nclauses + 1
    /\ maxMentioned' = Max2(maxMentioned, MaxAbs(c))
    /\ numvar' = IF check THEN Max2(numvar, MaxAbs(c)) ELSE numvar
    /\ UNCHANGED groups
    /\ res' = "ok"

\* update_variable_number(k): raise the count to k, never lower it
UpdateVarNumber(k) ==
    /\ numvar' = Max2(numvar, k)
    /\ UNCHANGED <<groups, nclauses, maxMentioned>>
    /\ res' = "ok"

\* ---- calls ------------------------------------------------------------------
NewCall(s)    == [op |-> "new",    shape |-> s,       c |-> <<>>, k |-> 0]
ClauseCall(c) == [op |-> "clause", shape |-> NoShape, c |-> c,    k |-> 0]
UpdateCall(k) == [op |-> "update", shape |-> NoShape, c |-> <<>>, k |-> k]
CallsOf(shapes) == {NewCall(s) : s \in shapes} \cup {ClauseCall(c) : c \in Clauses}
                   \cup {UpdateCall(k) : k \in Updates}
FirstCalls == LET all == SetToSeq(CallsOf(ShapesFirst))
              IN  {all[i] : i \in {j \in 1..Len(all) : j % NShards = Shard}}
LaterCalls == CallsOf(ShapesLater)

Do(call) ==
    CASE call.op = "new"    -> NewOfShape(call.shape)
      [] call.op = "clause" -> AddClause(call.c, TRUE)
      [] call.op = "update" -> UpdateVarNumber(call.k)

Log(call) ==
    /\ steps' = steps + 1
    /\ hist' = IF Export
               THEN Append(hist, [call |-> call, res |-> res', numvar |-> numvar', ngroups |-> Len(groups')])
               ELSE hist

Init == /\ numvar = 0 /\ groups = <<>> /\ nclauses = 0 /\ maxMentioned = 0
        /\ steps = 0 /\ res = "init" /\ hist = <<>>

Next == /\ steps < MaxSteps
        /\ \E call \in (IF steps = 0 THEN FirstCalls
                       ELSE IF Closing /\ steps = MaxSteps - 1 THEN {UpdateCall(0)}
                       ELSE LaterCalls) : Do(call) /\ Log(call)

Spec == Init /\ [][Next]_vars

-----------------------------------------------------------------------------
(* model invariants                                                          *)

GroupSeq == [j \in 1..Len(groups) |-> groups[j]]

TypeOK == /\ numvar \in Nat /\ nclauses \in Nat /\ maxMentioned \in Nat /\ steps \in 0..MaxSteps
          /\ \A j \in 1..Len(groups) : groups[j].no = j /\ groups[j].first \in Nat \ {0} /\ groups[j].len \in Nat

\* the closed forms the classes compute with agree with the documented enumeration
ClosedFormsAgree ==
    \A j \in 1..Len(groups) :
        LET g == groups[j]
            ix == Indices(g)
            tab == TableOf(g)
        IN  /\ g.len = Len(ix)
            /\ \A p \in 1..Len(ix) : /\ IdImplX(g, tab, ix[p]) = g.first + p - 1
                                     /\ IdOfX(g, ix, ix[p]) = g.first + p - 1
                                     /\ IndexImplX(g, tab, g.first + p - 1) = ix[p]
                                     /\ IndexOfX(g, ix, g.first + p - 1) = ix[p]

\* index -> identifier -> index and identifier -> index -> identifier lose nothing
MutuallyInverse ==
    \A j \in 1..Len(groups) :
        LET g == groups[j]
            tab == TableOf(g)
            dom == IndexSet(g)
        IN
        /\ \A idx \in dom : Covers(g, IdImplX(g, tab, idx)) /\ IndexImplX(g, tab, IdImplX(g, tab, idx)) = idx
        /\ \A id \in g.first..(g.first + g.len - 1) :
               IndexImplX(g, tab, id) \in dom /\ IdImplX(g, tab, IndexImplX(g, tab, id)) = id

\* the legal indices are enumerated in identifier order, each exactly once
IndicesInIdOrder ==
    \A j \in 1..Len(groups) :
        LET g == groups[j]
            ix == Indices(g)
            tab == TableOf(g)
            idv == [p \in 1..Len(ix) |-> IdImplX(g, tab, ix[p])]
        IN  /\ {ix[p] : p \in 1..Len(ix)} = IndexSet(g)
            /\ \A p \in 1..(Len(ix) - 1) : idv[p] < idv[p + 1]

\* wildcard patterns select a subsequence of Indices; the enumeration used for
\* the edges at a vertex of a simple graph is in identifier order as well
PatternsInIdOrder ==
    \A j \in 1..Len(groups) :
        LET g == groups[j] IN
        /\ Pattern(g, <<>>) = Indices(g)
        /\ Arity(g) = 2 => Pattern(g, <<W, W>>) = Indices(g)
        /\ g.kind = "graph" =>
              \A w \in 1..g.par[1] : /\ Pattern(g, <<w, W>>) = GraphAtImpl(g, w)
                                     /\ Pattern(g, <<W, w>>) = GraphAtImpl(g, w)
        /\ g.kind = "block" /\ Len(g.par) = 2 =>
              \A a \in 1..g.par[1] : Pattern(g, <<a, W>>) = [b \in 1..g.par[2] |-> <<a, b>>]

\* group ranges: contiguous by construction (first, len), inside 1..numvar,
\* pairwise disjoint and in creation order
Layout ==
    /\ \A j \in 1..Len(groups) : groups[j].first >= 1 /\ groups[j].first + groups[j].len - 1 <= numvar
    /\ \A i, j \in 1..Len(groups) : i < j => groups[i].first + groups[i].len <= groups[j].first
    /\ maxMentioned <= numvar           \* every AddClause of this module is checked

\* a new group starts right after the variables that exist and raises the count by its length;
\* existing groups never change; the count never decreases
Fresh == [][Len(groups') > Len(groups) =>
               LET g == groups'[Len(groups')] IN
               /\ Len(groups') = Len(groups) + 1
               /\ g.first = numvar + 1 /\ numvar' = numvar + g.len
               /\ g.first > maxMentioned]_vars
GroupsImmutable == [][SubSeq(groups', 1, Len(groups)) = groups]_vars
Monotone == [][numvar' >= numvar]_vars

\* names: variable i is named by the group covering it, else by the default name
AllLabelsAt(nv, ng) ==
    LET ixs == [j \in 1..ng |-> Indices(groups[j])] IN
    [i \in 1..nv |->
        IF \E j \in 1..ng : Covers(groups[j], i)
        THEN LET j == CHOOSE jj \in 1..ng : Covers(groups[jj], i)
             IN  LabelOf(groups[j], IndexOfX(groups[j], ixs[j], i))
        ELSE DefaultLabel(i)]
AllLabels == AllLabelsAt(numvar, Len(groups))

\* every identifier has exactly one name; names of a group are exactly its labels in order
NamesAligned ==
    LET labs == AllLabels IN
    /\ Len(labs) = numvar
    /\ \A j \in 1..Len(groups) :
          LET g == groups[j]
              ix == Indices(g)
          IN  \A p \in 1..g.len : labs[g.first + p - 1] = LabelOf(g, ix[p])
    /\ \A i \in 1..numvar : (\A j \in 1..Len(groups) : ~Covers(groups[j], i)) => labs[i] = DefaultLabel(i)

ModelView == <<numvar, groups, nclauses, maxMentioned, steps>>

-----------------------------------------------------------------------------
(* export: what the implementation must answer, per group and per step       *)

\* values probed for component i: the legal ones, one below, one above, and the wildcard
CompVals(s, i) ==
    LET d == CompDom(s, i)
        lo == IF s.kind = "bmap" /\ i = 2 THEN 0 ELSE 1
        hi == lo + Cardinality(d) - 1
    IN  ((lo - 1)..(hi + 1)) \cup {W}
ProbeVals(s) == UNION {CompVals(s, i) : i \in 1..Arity(s)}
Patterns(s) ==
    LET a == Arity(s)
        full == {Tup(t) : t \in {t \in [1..a -> ProbeVals(s)] : \A i \in 1..a : t[i] \in CompVals(s, i)}}
        wrong == IF s.kind = "var" THEN {}
                 ELSE {[i \in 1..(a + 1) |-> 1], [i \in 1..(a + 1) |-> W]}
                      \cup (IF a >= 2 THEN {[i \in 1..(a - 1) |-> 1]} ELSE {})
    IN  {<<>>} \cup full \cup {Tup(t) : t \in wrong}

PatRec(g, ix, pat) ==
    LET r == PatRes(g, pat)
        sel(idx) == Matches(g, pat, idx)
        m == IF r = "ValueError" THEN <<>>
             ELSE IF Len(pat) = 0 THEN ix
             ELSE IF HasW(pat) THEN SelectSeq(ix, sel)         \* = Pattern(g, pat)
             ELSE <<Canon(g, pat)>>
    IN  [pat |-> pat, res |-> r, scalar |-> PatScalar(g, pat),
         idxs |-> m, ids |-> [p \in 1..Len(m) |-> IdOfX(g, ix, m[p])]]

Detail(g) ==
    LET ix == Indices(g)
        shortlex(a, b) == Len(a) < Len(b) \/ (Len(a) = Len(b) /\ LexLess(a, b))
        pats == SetToSortSeq(Patterns(g), shortlex)
    IN  [no |-> g.no, kind |-> g.kind, par |-> g.par, edges |-> SortedTuples(g.E), sort |-> g.sort,
         first |-> g.first, len |-> g.len, arity |-> Arity(g), lstyle |-> LStyle(g),
         indices |-> ix,
         ids |-> [p \in 1..Len(ix) |-> IdOfX(g, ix, ix[p])],
         badids |-> SortedInts({0, g.first - 1, g.first + g.len}),
         pats |-> [p \in 1..Len(pats) |-> PatRec(g, ix, pats[p])]]

ShapeJson(s) == [kind |-> s.kind, par |-> s.par, edges |-> SortedTuples(s.E), sort |-> s.sort]
Behaviour ==
    [steps  |-> [t \in 1..Len(hist) |->
                    [op |-> hist[t].call.op, shape |-> ShapeJson(hist[t].call.shape),
                     c |-> hist[t].call.c, k |-> hist[t].call.k, res |-> hist[t].res,
                     numvar |-> hist[t].numvar, ngroups |-> hist[t].ngroups,
                     labels |-> AllLabelsAt(hist[t].numvar, hist[t].ngroups)]],
     groups |-> [j \in 1..Len(groups) |-> Detail(groups[j])]]

Emit == (Export /\ steps = MaxSteps) => PrintT(ToJson(Behaviour))

-----------------------------------------------------------------------------
(* shape universes (substituted for ShapesFirst / ShapesLater in the configs)  *)

TuplesOver(S, d) == {Tup(t) : t \in [1..d -> S]}
SubsetsOfPairs(A, B) == SUBSET (A \X B)

ShapesVar == {Sh("var", <<>>, {}, "")}
\* blocks with ranges in 0..3, at most 3 dimensions
ShapesBlock == UNION {{Sh("block", r, {}, "") : r \in TuplesOver(0..3, d)} : d \in 1..3}
\* combinations / permutations / words, n <= 4, k <= 3
ShapesWords == {Sh(w, <<n, k>>, {}, "") : w \in WordKinds, n \in 0..4, k \in 0..3}
\* every bipartite graph with at most 2 x 3 vertices
BipOf(kind) == UNION {{Sh(kind, <<L, R>>, E, "") : E \in SubsetsOfPairs(1..L, 1..R)} : L \in 0..2, R \in 0..3}
ShapesBip == BipOf("bip")
ShapesSmap == BipOf("smap")
\* every simple graph with at most 3 vertices
ShapesGraph == UNION {{Sh("graph", <<n>>, E, "") : E \in SUBSET {p \in (1..n) \X (1..n) : p[1] < p[2]}} : n \in 0..3}
\* every directed graph (loops allowed) with at most 3 vertices, both sort orders
DigraphOf(ns) == UNION {{Sh("digraph", <<n>>, E, s) : E \in SubsetsOfPairs(1..n, 1..n), s \in {"pred", "succ"}} : n \in ns}
ShapesDigraphSmall == DigraphOf(0..2)
ShapesDigraph3 == DigraphOf({3})
ShapesDigraph == DigraphOf(0..3)
\* mappings n <= 3, m <= 4; binary mappings n <= 3, m <= 5
ShapesMap == {Sh("map", <<n, m>>, {}, "") : n \in 0..3, m \in 0..4}
ShapesBmap == {Sh("bmap", <<n, m>>, {}, "") : n \in 0..3, m \in 0..5}

ShapesMisc == ShapesVar \cup ShapesWords \cup ShapesGraph \cup ShapesMap \cup ShapesBmap \cup ShapesDigraphSmall
AllShapes == ShapesVar \cup ShapesBlock \cup ShapesWords \cup ShapesBip \cup ShapesSmap \cup ShapesGraph
             \cup ShapesDigraph \cup ShapesMap \cup ShapesBmap
NoShapes == {}

\* clause alphabets (substituted for Clauses; the cfg syntax has no tuples)
NoClauses == {}
ClausesOne == { <<1, -2>> }
ClausesTiny == { <<>>, <<1, -2>> }
ClausesSome == { <<>>, <<-2, 1>>, <<4, -6>> }
ClausesSim == { <<>>, <<-2, 1>>, <<4, -6>>, <<3>>, <<-9, 2, 5>>, <<12>>, <<-20, 15>> }

\* a small alphabet with one or two tiny representatives per kind (interleaving histories)
SomeShapes ==
    { Sh("var", <<>>, {}, ""),
      Sh("block", <<2>>, {}, ""), Sh("block", <<2, 0>>, {}, ""), Sh("block", <<1, 2>>, {}, ""),
      Sh("comb", <<3, 2>>, {}, ""), Sh("perm", <<2, 2>>, {}, ""), Sh("words", <<2, 1>>, {}, ""),
      Sh("bip", <<2, 2>>, {<<1, 2>>, <<2, 1>>}, ""), Sh("bip", <<1, 1>>, {}, ""),
      Sh("graph", <<3>>, {<<1, 2>>, <<2, 3>>}, ""),
      Sh("digraph", <<2>>, {<<1, 2>>, <<2, 1>>, <<2, 2>>}, "succ"),
      Sh("map", <<1, 2>>, {}, ""), Sh("smap", <<2, 2>>, {<<2, 1>>}, ""),
      Sh("bmap", <<1, 3>>, {}, ""), Sh("bmap", <<0, 1>>, {}, "") }
FewShapes ==
    { Sh("var", <<>>, {}, ""), Sh("block", <<2>>, {}, ""), Sh("block", <<0>>, {}, ""),
      Sh("comb", <<2, 1>>, {}, ""), Sh("graph", <<2>>, {<<1, 2>>}, ""),
      Sh("digraph", <<2>>, {<<2, 1>>}, "pred"), Sh("bmap", <<1, 2>>, {}, "") }
\* medium shapes for long random walks
SimShapes ==
    SomeShapes \cup
    { Sh("block", <<3, 2, 2>>, {}, ""), Sh("block", <<2, 3>>, {}, ""), Sh("block", <<3, 0, 2>>, {}, ""),
      Sh("comb", <<4, 2>>, {}, ""), Sh("comb", <<4, 3>>, {}, ""), Sh("perm", <<3, 2>>, {}, ""),
      Sh("words", <<3, 2>>, {}, ""), Sh("words", <<2, 3>>, {}, ""), Sh("comb", <<2, 3>>, {}, ""),
      Sh("bip", <<2, 3>>, {<<1, 3>>, <<2, 1>>, <<2, 2>>}, ""),
      Sh("bip", <<2, 3>>, {<<2, 1>>, <<2, 3>>}, ""),
      Sh("graph", <<3>>, {<<1, 2>>, <<1, 3>>, <<2, 3>>}, ""), Sh("graph", <<3>>, {<<1, 3>>}, ""),
      Sh("graph", <<0>>, {}, ""),
      Sh("digraph", <<3>>, {<<1, 2>>, <<1, 3>>, <<2, 3>>, <<3, 1>>, <<3, 3>>}, "pred"),
      Sh("digraph", <<3>>, {<<1, 2>>, <<1, 3>>, <<2, 3>>, <<3, 1>>, <<3, 3>>}, "succ"),
      Sh("digraph", <<3>>, {<<3, 1>>, <<2, 1>>}, "succ"),
      Sh("map", <<2, 3>>, {}, ""), Sh("map", <<3, 0>>, {}, ""),
      Sh("smap", <<2, 3>>, {<<1, 2>>, <<1, 3>>, <<2, 1>>, <<2, 3>>}, ""),
      Sh("bmap", <<2, 5>>, {}, ""), Sh("bmap", <<3, 4>>, {}, ""), Sh("bmap", <<2, 1>>, {}, "") }
\* shapes beyond the sizes at which an implementation would switch representation (16, 32, 64 ...)
LargeShapes ==
    { Sh("block", <<20>>, {}, ""), Sh("block", <<5, 7>>, {}, ""), Sh("block", <<2, 17>>, {}, ""),
      Sh("block", <<3, 3, 4>>, {}, ""),
      Sh("comb", <<7, 3>>, {}, ""), Sh("comb", <<18, 1>>, {}, ""), Sh("perm", <<5, 2>>, {}, ""),
      Sh("words", <<3, 3>>, {}, ""), Sh("words", <<6, 2>>, {}, ""), Sh("words", <<17, 1>>, {}, ""),
      Sh("bip", <<2, 20>>, {<<1, v>> : v \in 1..20} \cup {<<2, 2>>, <<2, 5>>, <<2, 19>>}, ""),
      Sh("bip", <<3, 18>>, {<<2, v>> : v \in 2..18} \cup {<<1, 18>>, <<3, 1>>}, ""),
      Sh("bip", <<18, 2>>, {<<u, 2>> : u \in 1..18} \cup {<<4, 1>>}, ""),
      Sh("smap", <<2, 19>>, {<<1, v>> : v \in 1..19} \cup {<<2, v>> : v \in {1, 19}}, ""),
      Sh("graph", <<20>>, {<<1, v>> : v \in 2..20} \cup {<<2, 3>>, <<5, 20>>, <<19, 20>>}, ""),
      Sh("graph", <<19>>, {<<2, v>> : v \in 3..19} \cup {<<1, 19>>}, ""),
      Sh("digraph", <<19>>, {<<1, v>> : v \in 1..19} \cup {<<v, 2>> : v \in 1..19}, "succ"),
      Sh("digraph", <<19>>, {<<1, v>> : v \in 1..19} \cup {<<v, 2>> : v \in 1..19}, "pred"),
      Sh("digraph", <<18>>, {<<18, v>> : v \in 1..18} \cup {<<3, 1>>}, "pred"),
      Sh("map", <<2, 18>>, {}, ""), Sh("map", <<17, 2>>, {}, ""),
      Sh("bmap", <<2, 40>>, {}, ""), Sh("bmap", <<3, 17>>, {}, ""), Sh("bmap", <<17, 2>>, {}, "") }
=============================================================================
