------------------------------ MODULE Sampler ------------------------------
(***************************************************************************)
(* Random k-CNF / k-XOR sampling (property C13).                           *)
(*                                                                         *)
(* Part 1 - vocabulary and result predicates (used by JudgeSampler):       *)
(*   clauses / parities on k distinct variables of 1..n, the sets `All` of *)
(*   those compatible with a set P of planted total assignments, the CNF   *)
(*   encoding of a parity, the Shape verdicts for a recorded formula and   *)
(*   the outcome rule  ValueError <=> k > n \/ m > |All|.                  *)
(*                                                                         *)
(* Part 2 - the design, as an implementation-shaped state machine of       *)
(*   sample_clauses / sample_parities: a sparse phase of rejection sampling*)
(*   (draw with repetition; skip duplicates; skip items falsified by a     *)
(*   planted assignment) bounded by TriesFactor*m tries, then either Done  *)
(*   or a dense phase that enumerates All and fails iff |All| < m, else    *)
(*   picks m of them.  TLC checks that every terminating run of the design *)
(*   satisfies the Shape verdict and the outcome rule, and that every run  *)
(*   terminates.                                                           *)
(*                                                                         *)
(* An assignment is a function [1..n -> BOOLEAN] (= a sequence of          *)
(* booleans).  In part 1 a recorded formula is a sequence of clauses, each *)
(* a sequence of DIMACS literals; inside the machine a k-clause is the SET *)
(* of its literals and a parity is a pair <<X, b>> (variables, constant).  *)
(***************************************************************************)
EXTENDS CnfSem, TLC, Json

-----------------------------------------------------------------------------
(* Part 1a.  Clauses and parities on k distinct variables                   *)

\* k-element subsets of 1..n (recursive: no 2^n blow-up for large n)
RECURSIVE KSubsets(_, _)
KSubsets(n, k) == IF k = 0 THEN {{}}
                  ELSE IF k > n \/ k < 0 THEN {}
                  ELSE KSubsets(n - 1, k) \cup {s \cup {n} : s \in KSubsets(n - 1, k - 1)}

\* m-element subsets of an arbitrary finite set
RECURSIVE SubsetsOfSize(_, _)
SubsetsOfSize(S, m) == IF m = 0 THEN {{}}
                       ELSE IF m > Cardinality(S) \/ m < 0 THEN {}
                       ELSE LET x == CHOOSE y \in S : TRUE
                            IN  SubsetsOfSize(S \ {x}, m)
                                \cup {T \cup {x} : T \in SubsetsOfSize(S \ {x}, m - 1)}

RECURSIVE Binomial(_, _)
Binomial(n, k) == IF k < 0 \/ k > n THEN 0
                  ELSE IF k = 0 THEN 1
                  ELSE Binomial(n - 1, k - 1) + Binomial(n - 1, k)

VarsOf(c)    == {Abs(l) : l \in c}                       \* c: set of literals
NegCount(c)  == Cardinality({l \in c : l < 0})
SatSet(a, c) == \E l \in c : Lit(a, l)                   \* clause as a set of literals

\* all 2^|X| clauses whose variable set is exactly X
ClausesOn(X) == {{s[x] * x : x \in X} : s \in [X -> {1, -1}]}

\* a set of literals is a clause on k distinct variables of 1..n
ClauseOnK(k, n, c) == /\ \A l \in c : l # 0 /\ Abs(l) <= n
                      /\ Cardinality(c) = k
                      /\ Cardinality(VarsOf(c)) = k

PlantedOKClause(P, c) == \A a \in P : SatSet(a, c)

\* the clauses a random k-CNF with planted set P may contain
AllClauses(k, n, P) ==
    {c \in UNION {ClausesOn(X) : X \in KSubsets(n, k)} : PlantedOKClause(P, c)}

\* parity constraint <<X, b>>:  sum of the variables in X = b (mod 2)
ParSat(a, p) == Cardinality({x \in p[1] : a[x]}) % 2 = p[2]
PlantedOKParity(P, p) == \A a \in P : ParSat(a, p)
AllParities(k, n, P) ==
    {p \in KSubsets(n, k) \X {0, 1} : PlantedOKParity(P, p)}

\* CNF encoding of a parity: the clauses on X that exclude exactly the
\* assignments of X with the wrong parity.  The assignment falsifying a
\* clause sets to true precisely the negated variables.
Enc(p) == {c \in ClausesOn(p[1]) : NegCount(c) % 2 # p[2]}
UnionEnc(T) == UNION {Enc(p) : p \in T}
\* the only parity in whose encoding a clause c can occur
Decode(c) == <<VarsOf(c), 1 - (NegCount(c) % 2)>>

Solutions(n, T) == {a \in Assignments(n) : \A p \in T : ParSat(a, p)}

-----------------------------------------------------------------------------
(* Part 1b.  The outcome rule                                               *)

AllCount(kind, k, n, P) ==
    IF kind = "kcnf" THEN Cardinality(AllClauses(k, n, P))
                     ELSE Cardinality(AllParities(k, n, P))

\* the request must be answered with ValueError exactly in this case
MustRefuse(kind, k, n, m, P) == k > n \/ m > AllCount(kind, k, n, P)

-----------------------------------------------------------------------------
(* Part 1c.  Shape verdicts for a recorded formula F (sequence of clauses). *)
(* Each returns "ok" or the name of the first clause of the property that   *)
(* fails.  Clause order, literal order and repeated literals do not matter. *)

KcnfVerdict(k, n, m, P, nvars, F) ==
    IF nvars # n THEN "number_of_variables_is_not_n"
    ELSE IF ~WellFormed(n, F) THEN "literal_out_of_range"
    ELSE IF Len(F) # m THEN "number_of_clauses_is_not_m"
    ELSE IF \E j \in 1..Len(F) : ~ClauseOnK(k, n, ClauseSet(F[j]))
         THEN "clause_not_on_k_distinct_variables"
    ELSE IF Cardinality(CnfAsSet(F)) # m THEN "clauses_not_pairwise_distinct"
    ELSE IF \E j \in 1..Len(F) : ~PlantedOKClause(P, ClauseSet(F[j]))
         THEN "clause_falsified_by_planted_assignment"
    ELSE "ok"

\* The parities of a k-XOR, read off its clause set CS.  For k >= 1 they are
\* determined (Decode); for k = 0 the parity <<{}, 0>> has the empty encoding
\* and may or may not be among them.
ParityCandidates(k, CS) ==
    LET D == {Decode(c) : c \in CS}
    IN  IF k = 0 THEN {D, D \cup {<<{}, 0>>}} ELSE {D}

KxorVerdict(k, n, m, P, nvars, F, withModels) ==
    IF nvars # n THEN "number_of_variables_is_not_n"
    ELSE IF ~WellFormed(n, F) THEN "literal_out_of_range"
    ELSE IF \E j \in 1..Len(F) : ~ClauseOnK(k, n, ClauseSet(F[j]))
         THEN "clause_not_on_k_distinct_variables"
    ELSE LET CS == CnfAsSet(F)
             TS == {T \in ParityCandidates(k, CS) : Cardinality(T) = m}
         IN  IF TS = {} THEN "not_m_distinct_parities"
             ELSE LET T == CHOOSE T \in TS : TRUE
                  IN  IF UnionEnc(T) # CS THEN "not_a_union_of_parity_encodings"
                      ELSE IF \E p \in T : ~PlantedOKParity(P, p)
                           THEN "parity_violated_by_planted_assignment"
                      ELSE IF withModels /\ Models(n, F) # Solutions(n, T)
                           THEN "models_differ_from_solutions_of_the_system"
                      ELSE "ok"

ShapeVerdict(kind, k, n, m, P, nvars, F, withModels) ==
    IF kind = "kcnf" THEN KcnfVerdict(k, n, m, P, nvars, F)
                     ELSE KxorVerdict(k, n, m, P, nvars, F, withModels)

-----------------------------------------------------------------------------
(* Part 2.  The sampler as a state machine                                  *)

CONSTANTS Kind,          \* "kcnf" | "kxor"
          K, N,          \* width, number of variables
          Ps,            \* the sets of planted assignments explored (chosen at Init)
          Ms(_),         \* P |-> the values of m explored (chosen at Init)
          Pools(_),      \* P |-> the sets the draws are taken from (MC: {Items})
          DensePicks(_, _),  \* (fullset, m) |-> the outcomes of random.sample explored
          TriesFactor    \* the sparse phase makes at most TriesFactor*m draws (code: 10)

VARIABLES P,       \* planted assignments (fixed in a behaviour)
          m,       \* number of clauses / parities requested (fixed)
          pool,    \* the draws of this behaviour come from this set (fixed)
          phase,   \* "sparse" | "dense" | "done" | "fail"
          t,       \* number of draws made                     (code: t)
          seen,    \* set of accepted items                    (code: sampled / sampled_set)
          acc,     \* list of accepted items, in order         (code: clauses / sampled_list)
          result,  \* the items returned (phase = "done")
          hist     \* export only: the draws with the decision taken

vars == <<P, m, pool, phase, t, seen, acc, result, hist>>

\* everything random.sample + the sign / constant draws can produce
Items == IF Kind = "kcnf" THEN AllClauses(K, N, {}) ELSE AllParities(K, N, {})
Good(x, Q) == IF Kind = "kcnf" THEN PlantedOKClause(Q, x) ELSE PlantedOKParity(Q, x)
All(Q) == {x \in Items : Good(x, Q)}       \* = fullset of the dense phase

Init == /\ P \in Ps
        /\ m \in Ms(P)
        /\ pool \in Pools(P)
        /\ phase = IF K > N THEN "fail" ELSE "sparse"   \* "if k > n: raise ValueError"
        /\ t = 0 /\ seen = {} /\ acc = <<>> /\ result = {} /\ hist = <<>>

Fixed == UNCHANGED <<P, m, pool>>

Looping == Len(acc) < m /\ t < TriesFactor * m     \* the while condition

\* one iteration of the while loop, having drawn item x
Draw(x) ==
    /\ phase = "sparse" /\ Looping
    /\ t' = t + 1
    /\ LET d == IF x \in seen THEN "dup"
                ELSE IF ~Good(x, P) THEN "unplanted"
                ELSE "accept"
       IN  /\ IF d = "accept"
              THEN seen' = seen \cup {x} /\ acc' = Append(acc, x)
              ELSE UNCHANGED <<seen, acc>>
           /\ hist' = Append(hist, [x |-> x, d |-> d])
    /\ UNCHANGED <<phase, result>> /\ Fixed

\* loop left with enough items: return them
DoneSparse ==
    /\ phase = "sparse" /\ ~Looping /\ Len(acc) = m
    /\ phase' = "done" /\ result' = Range(acc)
    /\ UNCHANGED <<t, seen, acc, hist>> /\ Fixed

\* loop left because the tries are used up; what was sampled so far is
\* dropped (the code never looks at `clauses` / `sampled` again)
SwitchDense ==
    /\ phase = "sparse" /\ ~Looping /\ Len(acc) # m
    /\ phase' = "dense" /\ seen' = {} /\ acc' = <<>>
    /\ hist' = Append(hist, [d |-> "switch"])
    /\ UNCHANGED <<t, result>> /\ Fixed

\* dense phase: "if len(fullset) < m: raise ValueError"
Fail ==
    /\ phase = "dense" /\ Cardinality(All(P)) < m
    /\ phase' = "fail"
    /\ UNCHANGED <<t, seen, acc, result, hist>> /\ Fixed

\* dense phase: "return random.sample(fullset, m)"
PickDense(S) ==
    /\ phase = "dense" /\ Cardinality(All(P)) >= m
    /\ phase' = "done" /\ result' = S
    /\ UNCHANGED <<t, seen, acc, hist>> /\ Fixed

Terminated == phase \in {"done", "fail"} /\ UNCHANGED vars

Next == \/ \E x \in pool : Draw(x)
        \/ DoneSparse \/ SwitchDense \/ Fail
        \/ (phase = "dense" /\ \E S \in DensePicks(All(P), m) : PickDense(S))

Spec   == Init /\ [][Next]_vars                      \* export: ends in a deadlock
SpecMC == Init /\ [][Next \/ Terminated]_vars        \* model check: deadlock = stuck

\* the order of acc and the history are observations only; in a final state
\* only the outcome matters
ModelView == IF phase \in {"done", "fail"} THEN <<P, m, pool, phase, result>>
             ELSE <<P, m, pool, phase, t, seen, Range(acc), Len(acc)>>

-----------------------------------------------------------------------------
(* Invariants                                                               *)

TypeOK == /\ phase \in {"sparse", "dense", "done", "fail"}
          /\ t \in 0..(TriesFactor * m)
          /\ seen \subseteq Items
          /\ result \subseteq Items

AccInAll    == /\ \A x \in Range(acc) : x \in Items /\ Good(x, P)
               /\ \A x \in result : x \in Items /\ Good(x, P)      \* i.e. \subseteq All(P)
AccDistinct == Len(acc) = Cardinality(Range(acc)) /\ seen = Range(acc)
LoopBound   == Len(acc) <= m /\ (phase # "sparse" /\ K <= N => ~Looping)
DoneCount   == phase = "done" => Cardinality(result) = m
\* with termination (below) this is  Fail <=> K > N \/ m > |All|
FailRule    == /\ phase = "fail" => MustRefuse(Kind, K, N, m, P)
               /\ phase = "done" => ~MustRefuse(Kind, K, N, m, P)
\* the dense phase is entered only if the sparse phase fell short
DenseOnlyWhenShort ==
    [][phase = "sparse" /\ phase' = "dense" => Len(acc) < m /\ t = TriesFactor * m]_vars

\* the returned items, written as a formula, pass the judge's verdict
RECURSIVE SeqOfSet(_)
SeqOfSet(S) == IF S = {} THEN <<>>
               ELSE LET x == CHOOSE y \in S : TRUE IN <<x>> \o SeqOfSet(S \ {x})
ResultFormula ==
    LET CS == IF Kind = "kcnf" THEN result ELSE UnionEnc(result)
    IN  [j \in 1..Cardinality(CS) |-> SeqOfSet(SeqOfSet(CS)[j])]
DoneShape == phase = "done" =>
                ShapeVerdict(Kind, K, N, m, P, N, ResultFormula, TRUE) = "ok"

\* Termination: every step strictly increases (phase rank, t); together with
\* "no deadlock outside done/fail" (CHECK_DEADLOCK on SpecMC) every run ends
\* in done or fail.
PhaseRank(ph) == CASE ph = "sparse" -> 0 [] ph = "dense" -> 1 [] OTHER -> 2
Progress == \/ PhaseRank(phase') > PhaseRank(phase)
            \/ PhaseRank(phase') = PhaseRank(phase) /\ t' > t
            \/ phase \in {"done", "fail"}
Terminates  == [][Progress]_vars
ParamsFixed == [][P' = P /\ m' = m]_vars

-----------------------------------------------------------------------------
(* Lemmas about the vocabulary (constant level: TLC evaluates them once,    *)
(* as ASSUME, for the constants of the config).                            *)

LitsOf(n) == {l \in (-n)..n : l # 0}
\* All is exactly "on K distinct variables and satisfied by the planted ones"
AllIsExact(Q) ==
    IF Kind = "kcnf"
    THEN \A c \in SUBSET LitsOf(N) :
            c \in All(Q) <=> ClauseOnK(K, N, c) /\ PlantedOKClause(Q, c)
    ELSE \A X \in SUBSET (1..N), b \in {0, 1} :
            <<X, b>> \in All(Q) <=> Cardinality(X) = K /\ PlantedOKParity(Q, <<X, b>>)
\* closed forms: no planted assignment; one planted assignment (whichever)
AllClosedForm(Q) ==
    /\ Q = {} => Cardinality(All(Q)) =
                   Binomial(N, K) * (IF Kind = "kcnf" THEN Pow2(K) ELSE 2)
    /\ Cardinality(Q) = 1 => Cardinality(All(Q)) =
                   Binomial(N, K) * (IF Kind = "kcnf" THEN Pow2(K) - 1 ELSE 1)
\* the encoding of a parity has exactly its solutions as models, 2^(k-1)
\* clauses (k >= 1), and each of its clauses decodes to it (so encodings of
\* different parities are disjoint)
EncIsRight ==
    \A p \in AllParities(K, N, {}) :
        /\ \A a \in Assignments(N) : ParSat(a, p) <=> \A c \in Enc(p) : SatSet(a, c)
        /\ K >= 1 => Cardinality(Enc(p)) = Pow2(K - 1)
        /\ \A c \in Enc(p) : Decode(c) = p
Lemmas == /\ \A Q \in Ps : AllIsExact(Q) /\ AllClosedForm(Q)
          /\ Kind = "kxor" => EncIsRight
ASSUME Lemmas

-----------------------------------------------------------------------------
(* Scopes for the configs                                                   *)

PsUpTo2 == {Q \in SUBSET Assignments(N) : Cardinality(Q) <= 2}
PsNone  == {{}}
PsAntipodal == {{a, [x \in 1..N |-> ~a[x]]} : a \in Assignments(N)}
PsOneAntipodal == {{[x \in 1..N |-> TRUE], [x \in 1..N |-> FALSE]}}
PsSome  == {{}} \cup {{a} : a \in Assignments(N)} \cup PsAntipodal
MsAll(Q)  == 0..(Cardinality(All(Q)) + 1)                 \* 0 .. exact maximum + 1
MsEnds(Q) == {mm \in MsAll(Q) : mm <= 1 \/ mm >= Cardinality(All(Q)) - 1}
PoolFull(Q)  == {Items}
\* export: draws confined to one or two items, so that the tries run out
PoolSmall(Q) == SubsetsOfSize(Items, 1) \cup SubsetsOfSize(Items, 2) \cup {Items}

EveryPick(A, mm) == SubsetsOfSize(A, mm)                 \* model check: all of them
OnePick(A, mm)   == IF mm > Cardinality(A) THEN {}       \* export: the pick is not scripted
                    ELSE {{SeqOfSet(A)[j] : j \in 1..mm}}

\* export: one JSON line per finished behaviour; `expect` is the clause set
\* a run that follows the machine returns when it ends in the sparse phase
ItemJson(x) == IF Kind = "kcnf" THEN [c |-> SeqOfSet(x)]
                                ELSE [X |-> SeqOfSet(x[1]), b |-> x[2]]
Emit == phase \in {"done", "fail"} =>
          PrintT(ToJson([kind |-> Kind, k |-> K, n |-> N, m |-> m,
                         planted |-> SeqOfSet(P),
                         draws |-> [j \in 1..Len(hist) |->
                                      IF hist[j].d = "switch" THEN [d |-> "switch"]
                                      ELSE [d |-> hist[j].d] @@ ItemJson(hist[j].x)],
                         outcome |-> IF phase = "done" THEN "ok" ELSE "ValueError",
                         dense |-> \E j \in 1..Len(hist) : hist[j].d = "switch",
                         expect |-> LET CS == IF Kind = "kcnf" THEN Range(acc)
                                              ELSE UnionEnc(Range(acc))
                                    IN  [j \in 1..Cardinality(CS) |->
                                            SeqOfSet(SeqOfSet(CS)[j])]]))
=============================================================================
