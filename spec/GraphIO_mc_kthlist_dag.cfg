SPECIFICATION Spec
CONSTANTS
  Fmt = "kthlist"
  Type = "dag"
  N = 3
  MaxLen = 6
  Mode = "free"
  Prune = TRUE
  Guide = FALSE
  Emit = FALSE
INVARIANT TypeOK
INVARIANT Conforms
INVARIANT Complete
INVARIANT DagAccept
INVARIANT RoundTripOK
CHECK_DEADLOCK FALSE
