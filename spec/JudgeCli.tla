------------------------------ MODULE JudgeCli ------------------------------
(***************************************************************************)
(* Trace module for C18: every observed run of a command line tool must be *)
(* one of the terminal outcomes of the pipeline machine (Cli.tla):         *)
(*   success  - exit 0 and the output is a complete formula that the       *)
(*              strict reader of the chosen format accepts (DimacsText /   *)
(*              OpbLatexIO denotations: header counts match the body,      *)
(*              nothing but comments around it), no traceback;             *)
(*   help     - exit 0, help text (only when help was asked for);          *)
(*   clierror - exit # 0, nothing but comments on stdout, a message on     *)
(*              stderr whose every line carries the comment marker of the  *)
(*              chosen format (or the tool's default marker: the format is *)
(*              not established while parsing), no traceback.              *)
(* Record: [id, tool, fmt, dev, expect, exit, traceback, out_nonblank,     *)
(*          out_marks, err_marks, dlines | olines]                         *)
(*   *_marks = first two characters of every non-blank line.               *)
(***************************************************************************)
EXTENDS Integers, Sequences, FiniteSets, TLC, Json, IOUtils

D == INSTANCE DimacsText
O == INSTANCE OpbLatexIO

Trace == ndJsonDeserialize(IOEnv.TRACE_FILE)
VARIABLE pos
vars == <<pos>>

Marker(fmt) == CASE fmt = "dimacs" -> "c " [] fmt = "opb" -> "* " [] fmt = "latex" -> "% "
DefaultMarker(tool) == IF tool = "pbgen" THEN "* " ELSE "c "
\* a bare marker line ("c" or "*" alone) is a comment too
Bare(m) == SubSeq(m, 1, 1)

RangeOf(s) == {s[j] : j \in 1..Len(s)}
Shielded(marks, allowed) == \A j \in 1..Len(marks) : marks[j] \in allowed

OpbComplete(lines) ==
    /\ O!HasOpbDenotation(lines)
    /\ LET den == O!OpbDenotes(lines) IN
       /\ Len(den.cons) = den.ncons
       /\ \A j \in 1..Len(den.cons) : \A t \in 1..Len(den.cons[j].terms) :
             LET l == den.cons[j].terms[t][2] IN l # 0 /\ (IF l < 0 THEN -l ELSE l) <= den.nvars

FormulaOK(r) ==
    CASE r.fmt = "dimacs" -> D!HasDenotation(r.dlines)
      [] r.fmt = "opb"    -> OpbComplete(r.olines)
      [] r.fmt = "latex"  -> r.out_nonblank > 0

ErrMarks(r) == {"c ", "c", "* ", "*", "% ", "%"} \cap
               {Marker(r.fmt), SubSeq(Marker(r.fmt), 1, 1), DefaultMarker(r.tool), SubSeq(DefaultMarker(r.tool), 1, 1)}
OutMarks(r) == ErrMarks(r)

Verdict(r) ==
    IF r.traceback THEN "terminated_by_unhandled_exception"
    ELSE IF r.exit = 0 THEN
        IF r.dev \in {"help", "sub_help", "raw_help"} THEN (IF r.out_nonblank > 0 THEN "ok" ELSE "help_printed_nothing")
        ELSE IF r.out_nonblank = 0 /\ r.fmt # "latex" THEN "exit_0_without_output"
        ELSE IF ~FormulaOK(r) THEN "exit_0_with_incomplete_or_malformed_formula"
        ELSE IF Len(r.err_marks) > 0 /\ ~Shielded(r.err_marks, ErrMarks(r)) THEN "unshielded_text_on_stderr"
        ELSE "ok"
    ELSE IF r.expect = "must_succeed" THEN "valid_command_line_refused"
    ELSE IF r.expect = "help" THEN "help_request_refused"
    ELSE IF Len(r.err_marks) = 0 THEN "error_exit_without_message"
    \* refused while building: the format is known, only its own marker will do
    ELSE IF r.expect = "any_strict_marker" /\ ~Shielded(r.err_marks, {Marker(r.fmt), Bare(Marker(r.fmt))})
         THEN "error_not_shielded_with_the_marker_of_the_chosen_format"
    ELSE IF ~Shielded(r.err_marks, ErrMarks(r)) THEN "error_message_not_shielded"
    ELSE IF ~Shielded(r.out_marks, OutMarks(r)) THEN "partial_output_on_error"
    ELSE "ok"

Init == pos = 1
Next == /\ pos <= Len(Trace)
        /\ PrintT(<<"VERDICT", Trace[pos].id, Verdict(Trace[pos])>>)
        /\ pos' = pos + 1
Spec == Init /\ [][Next]_vars
AllJudged == TLCGet("distinct") = Len(Trace) + 1
=============================================================================
