SPECIFICATION Spec
CONSTANTS
  Fmt = "kthlist"
  Type = "simple"
  N = 4
  MaxLen = 0
  Mode = "roundtrip"
  Prune = TRUE
  Guide = FALSE
  Emit = FALSE
INVARIANT TypeOK
INVARIANT Conforms
INVARIANT Complete
INVARIANT DagAccept
INVARIANT RoundTripOK
CHECK_DEADLOCK FALSE
