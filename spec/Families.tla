------------------------------ MODULE Families ------------------------------
(***************************************************************************)
(* Reference semantics of the formula families (DESIGN.md Appendix A).     *)
(*                                                                         *)
(* Every family is given by                                                *)
(*   - the sets of index tuples of its variable groups, in the documented  *)
(*     order of the groups (XxxGroups), and                                *)
(*   - the predicate "this valuation of the named variables describes an   *)
(*     object of the documented kind" (XxxObj), which receives the         *)
(*     valuation as operator arguments X(_,_) ... so that it is independent*)
(*     of how identifiers are laid out.                                    *)
(* Nothing here looks at clauses: these are the *meanings*.                *)
(***************************************************************************)
EXTENDS CnfSem, TLC

-----------------------------------------------------------------------------
(* Finite graphs.  A simple graph is [n |-> N, edges |-> <<<<u,v>>,...>>]   *)
(* with u < v; a bipartite graph is [L, R, edges] with u in 1..L, v in 1..R;*)
(* a digraph has edges <<u,v>> meaning u -> v.                              *)

EdgeSet(G)      == Range(G.edges)
Adj(G, u, v)    == <<u, v>> \in EdgeSet(G) \/ <<v, u>> \in EdgeSet(G)
Nbr(G, v)       == {u \in 1..G.n : Adj(G, u, v)}
Deg(G, v)       == Cardinality(Nbr(G, v))
BNbrL(B, u)     == {v \in 1..B.R : <<u, v>> \in EdgeSet(B)}   \* right neighbours of left u
BNbrR(B, v)     == {u \in 1..B.L : <<u, v>> \in EdgeSet(B)}   \* left neighbours of right v
Pred(D, v)      == {u \in 1..D.n : <<u, v>> \in EdgeSet(D)}
Succ(D, v)      == {w \in 1..D.n : <<v, w>> \in EdgeSet(D)}

AtMostOne(S, P(_))  == \A x, y \in S : P(x) /\ P(y) => x = y
ExactlyOne(S, P(_)) == (\E x \in S : P(x)) /\ AtMostOne(S, P)
CountP(S, P(_))     == Cardinality({x \in S : P(x)})

-----------------------------------------------------------------------------
(* C01 families                                                             *)

\* PigeonholePrinciple(m, n, functional, onto):  p(i,j), i in 1..m, j in 1..n
PHPGroups(m, n) == << {<<i, j>> : i \in 1..m, j \in 1..n} >>
PHPObj(m, n, fun, onto, P(_, _)) ==
    /\ \A i \in 1..m : \E j \in 1..n : P(i, j)
    /\ \A j \in 1..n : AtMostOne(1..m, LAMBDA i : P(i, j))
    /\ fun  => \A i \in 1..m : AtMostOne(1..n, LAMBDA j : P(i, j))
    /\ onto => \A j \in 1..n : \E i \in 1..m : P(i, j)

\* GraphPigeonholePrinciple(B, functional, onto): p(u,v), (u,v) in E(B)
GPHPGroups(B) == << EdgeSet(B) >>
GPHPObj(B, fun, onto, P(_, _)) ==
    /\ \A u \in 1..B.L : \E v \in BNbrL(B, u) : P(u, v)
    /\ \A v \in 1..B.R : AtMostOne(BNbrR(B, v), LAMBDA u : P(u, v))
    /\ fun  => \A u \in 1..B.L : AtMostOne(BNbrL(B, u), LAMBDA v : P(u, v))
    /\ onto => \A v \in 1..B.R : \E u \in BNbrR(B, v) : P(u, v)

\* BinaryPigeonholePrinciple(m, n): v(i,b), i in 1..m, b in 0..k-1, k = ceil(log2 n)
\* pigeon i sits in hole h(i) = sum_b 2^b v(i,b); h(i) < n; h injective.
BPHPBits(n) == IF n <= 1 THEN 0 ELSE CeilLog2(n)
BPHPGroups(m, n) == << {<<i, b>> : i \in 1..m, b \in 0..(BPHPBits(n) - 1)} >>
RECURSIVE BinCode(_, _, _)
BinCode(V(_, _), i, b) == IF b < 0 THEN 0
                          ELSE (IF V(i, b) THEN Pow2(b) ELSE 0) + BinCode(V, i, b - 1)
BPHPObj(m, n, V(_, _)) ==
    LET h(i) == BinCode(V, i, BPHPBits(n) - 1)
    IN  /\ \A i \in 1..m : h(i) < n
        /\ \A i, j \in 1..m : i # j => h(i) # h(j)

\* RelativizedPigeonholePrinciple(m, r, n): p(u,v), q(v,w), r(v)  (axioms 3.1a-e)
RPHPGroups(m, r, n) == << {<<u, v>> : u \in 1..m, v \in 1..r},
                          {<<v, w>> : v \in 1..r, w \in 1..n},
                          {<<v>> : v \in 1..r} >>
RPHPObj(m, r, n, P(_, _), Q(_, _), Rr(_)) ==
    /\ \A u \in 1..m : \E v \in 1..r : P(u, v)                                   \* 3.1a
    /\ \A v \in 1..r : AtMostOne(1..m, LAMBDA u : P(u, v))                       \* 3.1b
    /\ \A u \in 1..m, v \in 1..r : P(u, v) => Rr(v)                              \* 3.1c
    /\ \A v \in 1..r : Rr(v) => \E w \in 1..n : Q(v, w)                          \* 3.1d
    /\ \A w \in 1..n : \A v1, v2 \in 1..r :
          (v1 # v2 /\ Rr(v1) /\ Rr(v2)) => ~(Q(v1, w) /\ Q(v2, w))               \* 3.1e

\* CountingPrinciple(M, p): X(S), S a p-subset of 1..M; labels list S increasingly
SortedTuples(M, p) == {t \in [1..p -> 1..M] : \A i \in 1..(p - 1) : t[i] < t[i + 1]}
CountGroups(M, p) == << SortedTuples(M, p) >>
CountObj(M, p, X(_)) ==
    \A e \in 1..M : ExactlyOne({t \in SortedTuples(M, p) : \E i \in 1..p : t[i] = e}, X)

\* PerfectMatchingPrinciple(G): e(u,v), u<v an edge
MatchGroups(G) == << EdgeSet(G) >>
MatchObj(G, E(_, _)) ==
    \A v \in 1..G.n : ExactlyOne({e \in EdgeSet(G) : e[1] = v \/ e[2] = v},
                                 LAMBDA e : E(e[1], e[2]))

\* SubsetCardinalityFormula(B, equalities): x(u,v), (u,v) in E(B)
SubsetCardGroups(B) == << EdgeSet(B) >>
SubsetCardObj(B, eq, X(_, _)) ==
    /\ \A u \in 1..B.L :
          LET d == Cardinality(BNbrL(B, u))
              s == CountP(BNbrL(B, u), LAMBDA v : X(u, v))
          IN  IF eq THEN s = (d + 1) \div 2 ELSE 2 * s >= d
    /\ \A v \in 1..B.R :
          LET d == Cardinality(BNbrR(B, v))
              s == CountP(BNbrR(B, v), LAMBDA u : X(u, v))
          IN  IF eq THEN s = d \div 2 ELSE 2 * s <= d

\* CliqueColoring(n, k, c): e{u,v} u<v ; q(i,v) i in 1..k ; r(v,l) l in 1..c
CliqueColGroups(n, k, c) == << {<<u, v>> : u \in 1..n, v \in 1..n} \cap {t \in (1..n) \X (1..n) : t[1] < t[2]},
                               {<<i, v>> : i \in 1..k, v \in 1..n},
                               {<<v, l>> : v \in 1..n, l \in 1..c} >>
CliqueColObj(n, k, c, E(_, _), Q(_, _), Rc(_, _)) ==
    LET Ed(u, v) == IF u < v THEN E(u, v) ELSE E(v, u)
    IN  /\ \A i \in 1..k : ExactlyOne(1..n, LAMBDA v : Q(i, v))        \* q total, functional
        /\ \A v \in 1..n : AtMostOne(1..k, LAMBDA i : Q(i, v))         \* q injective
        /\ \A v \in 1..n : ExactlyOne(1..c, LAMBDA l : Rc(v, l))       \* r total, functional
        /\ \A i, j \in 1..k : \A u, v \in 1..n :
              (i # j /\ u # v /\ Q(i, u) /\ Q(j, v)) => Ed(u, v)       \* image is a clique
        /\ \A u, v \in 1..n : \A l \in 1..c :
              (u < v /\ E(u, v)) => ~(Rc(u, l) /\ Rc(v, l))            \* colouring is proper

-----------------------------------------------------------------------------
(* C02 families (G a simple graph on 1..G.n)                                *)

XorP(S, P(_)) == CountP(S, P) % 2 = 1          \* parity of the true ones is odd

\* TseitinFormula(G, charges): E(u,v), u<v an edge.  Charges normalisation as
\* documented: none given => first vertex odd; short => padded with even;
\* long => the surplus is ignored.
TseitinCharge(G, chmode, ch, v) ==
    IF chmode = "none" THEN v = 1
    ELSE IF v <= Len(ch) THEN ch[v] ELSE FALSE
TseitinGroups(G) == << EdgeSet(G) >>
TseitinObj(G, chmode, ch, E(_, _)) ==
    \A v \in 1..G.n :
       XorP(Nbr(G, v), LAMBDA u : IF u < v THEN E(u, v) ELSE E(v, u)) = TseitinCharge(G, chmode, ch, v)

\* number of connected components / closed form for the number of solutions
RECURSIVE ReachFrom(_, _)
ReachFrom(G, S) == LET T == S \cup UNION {Nbr(G, v) : v \in S}
                   IN  IF T = S THEN S ELSE ReachFrom(G, T)
Components(G) == {ReachFrom(G, {v}) : v \in 1..G.n}

\* GraphColoringFormula(G, k, functional): x(v,c)
KColorGroups(G, k) == << {<<v, c>> : v \in 1..G.n, c \in 1..k} >>
KColorObj(G, k, fun, X(_, _)) ==
    /\ \A v \in 1..G.n : \E c \in 1..k : X(v, c)
    /\ fun => \A v \in 1..G.n : AtMostOne(1..k, LAMBDA c : X(v, c))
    /\ \A e \in EdgeSet(G) : \A c \in 1..k : ~(X(e[1], c) /\ X(e[2], c))

\* EvenColoringFormula(G): e(u,v); refused (ValueError) when some degree is odd
EvenColGroups(G) == << EdgeSet(G) >>
EvenColDefined(G) == \A v \in 1..G.n : Deg(G, v) % 2 = 0
EvenColObj(G, E(_, _)) ==
    \A v \in 1..G.n :
       2 * CountP(Nbr(G, v), LAMBDA u : IF u < v THEN E(u, v) ELSE E(v, u)) = Deg(G, v)

\* DominatingSet(G, d, alternative): x(v) ; f(v,i) i in 1..d.  The witness is the
\* set {v : x(v)}: the projections of the models are the dominating sets of size <= d.
DomGroups(G, d) == << {<<v>> : v \in 1..G.n}, {<<v, i>> : v \in 1..G.n, i \in 1..d} >>
ClosedNbr(G, v) == Nbr(G, v) \cup {v}
IsDominating(G, S) == \A v \in 1..G.n : ClosedNbr(G, v) \cap S # {}
DomWitnesses(G, d) == {S \in SUBSET (1..G.n) : IsDominating(G, S) /\ Cardinality(S) <= d}

\* Tiling(G): x(v); every closed neighbourhood contains exactly one chosen vertex
TilingGroups(G) == << {<<v>> : v \in 1..G.n} >>
TilingObj(G, X(_)) == \A v \in 1..G.n : ExactlyOne(ClosedNbr(G, v), X)

\* GraphIsomorphism(G1, G2): x(u,v), u in V1, v in V2 : the graph of an isomorphism
IsoGroups(G1, G2) == << {<<u, v>> : u \in 1..G1.n, v \in 1..G2.n} >>
IsoObj(G1, G2, X(_, _)) ==
    /\ \A u \in 1..G1.n : ExactlyOne(1..G2.n, LAMBDA v : X(u, v))
    /\ \A v \in 1..G2.n : ExactlyOne(1..G1.n, LAMBDA u : X(u, v))
    /\ \A u1, u2 \in 1..G1.n : \A v1, v2 \in 1..G2.n :
          (u1 # u2 /\ X(u1, v1) /\ X(u2, v2)) => (Adj(G1, u1, u2) <=> Adj(G2, v1, v2))
AutoObj(G, X(_, _)) == IsoObj(G, G, X) /\ \E u \in 1..G.n : ~X(u, u)

\* SubgraphFormula(G, H, induced, symbreak): s(i,j), i in V(H), j in V(G)
SubgraphGroups(G, H) == << {<<i, j>> : i \in 1..H.n, j \in 1..G.n} >>
InjMapObj(k, N, incr, S(_, _)) ==
    /\ \A i \in 1..k : ExactlyOne(1..N, LAMBDA j : S(i, j))
    /\ \A j \in 1..N : AtMostOne(1..k, LAMBDA i : S(i, j))
    /\ incr => \A i1, i2 \in 1..k : \A j1, j2 \in 1..N :
                  (i1 < i2 /\ S(i1, j1) /\ S(i2, j2)) => j1 < j2
SubgraphObj(G, H, induced, sb, S(_, _)) ==
    /\ InjMapObj(H.n, G.n, sb, S)
    /\ \A i1, i2 \in 1..H.n : \A j1, j2 \in 1..G.n :
          (i1 # i2 /\ S(i1, j1) /\ S(i2, j2)) =>
              /\ Adj(H, i1, i2) => Adj(G, j1, j2)
              /\ induced => (Adj(G, j1, j2) => Adj(H, i1, i2))

\* CliqueFormula(G, k, symbreak): s(i,j), i in 1..k
CliqueGroups(G, k) == << {<<i, j>> : i \in 1..k, j \in 1..G.n} >>
CliqueObj(G, k, sb, S(_, _)) ==
    /\ InjMapObj(k, G.n, sb, S)
    /\ \A i1, i2 \in 1..k : \A j1, j2 \in 1..G.n :
          (i1 # i2 /\ S(i1, j1) /\ S(i2, j2)) => Adj(G, j1, j2)

\* BinaryCliqueFormula(G, k, symbreak): y(i,b); code c (0-based) stands for vertex c+1
BinCliqueGroups(G, k) == << {<<i, b>> : i \in 1..k, b \in 0..(BPHPBits(G.n) - 1)} >>
BinCliqueObj(G, k, sb, Y(_, _)) ==
    LET h(i) == BinCode(Y, i, BPHPBits(G.n) - 1)
    IN  /\ \A i \in 1..k : h(i) < G.n
        /\ \A i, j \in 1..k : i # j => (h(i) # h(j) /\ Adj(G, h(i) + 1, h(j) + 1))
        /\ sb => \A i, j \in 1..k : i < j => h(i) < h(j)

\* RamseyWitnessFormula(G, k, s): C ; s(i,j).  Documented: satisfiable iff G has a
\* k-clique or an s-independent set.
HasClique(G, k) == \E S \in SUBSET (1..G.n) :
                      Cardinality(S) = k /\ \A u, v \in S : u # v => Adj(G, u, v)
HasIndep(G, k)  == \E S \in SUBSET (1..G.n) :
                      Cardinality(S) = k /\ \A u, v \in S : u # v => ~Adj(G, u, v)

=============================================================================
