------------------------------ MODULE Families ------------------------------
(***************************************************************************)
(* Reference semantics of the formula families (DESIGN.md Appendix A).     *)
(*                                                                         *)
(* Every family is given by                                                *)
(*   - the sets of index tuples of its variable groups, in the documented  *)
(*     order of the groups (XxxGroups), and                                *)
(*   - the predicate "this valuation of the named variables describes an   *)
(*     object of the documented kind" (XxxObj), which receives the         *)
(*     valuation as operator arguments X(_,_) ... so that it is independent*)
(*     of how identifiers are laid out.                                    *)
(* Nothing here looks at clauses: these are the *meanings*.                *)
(***************************************************************************)
EXTENDS CnfSem, TLC

-----------------------------------------------------------------------------
(* Finite graphs.  A simple graph is [n |-> N, edges |-> <<<<u,v>>,...>>]   *)
(* with u < v; a bipartite graph is [L, R, edges] with u in 1..L, v in 1..R;*)
(* a digraph has edges <<u,v>> meaning u -> v.                              *)

EdgeSet(G)      == Range(G.edges)
Adj(G, u, v)    == <<u, v>> \in EdgeSet(G) \/ <<v, u>> \in EdgeSet(G)
Nbr(G, v)       == {u \in 1..G.n : Adj(G, u, v)}
Deg(G, v)       == Cardinality(Nbr(G, v))
BNbrL(B, u)     == {v \in 1..B.R : <<u, v>> \in EdgeSet(B)}   \* right neighbours of left u
BNbrR(B, v)     == {u \in 1..B.L : <<u, v>> \in EdgeSet(B)}   \* left neighbours of right v
Pred(D, v)      == {u \in 1..D.n : <<u, v>> \in EdgeSet(D)}
Succ(D, v)      == {w \in 1..D.n : <<v, w>> \in EdgeSet(D)}

AtMostOne(S, P(_))  == \A x, y \in S : P(x) /\ P(y) => x = y
ExactlyOne(S, P(_)) == (\E x \in S : P(x)) /\ AtMostOne(S, P)
CountP(S, P(_))     == Cardinality({x \in S : P(x)})

-----------------------------------------------------------------------------
(* C01 families                                                             *)

\* PigeonholePrinciple(m, n, functional, onto):  p(i,j), i in 1..m, j in 1..n
PHPGroups(m, n) == << {<<i, j>> : i \in 1..m, j \in 1..n} >>
PHPObj(m, n, fun, onto, P(_, _)) ==
    /\ \A i \in 1..m : \E j \in 1..n : P(i, j)
    /\ \A j \in 1..n : AtMostOne(1..m, LAMBDA i : P(i, j))
    /\ fun  => \A i \in 1..m : AtMostOne(1..n, LAMBDA j : P(i, j))
    /\ onto => \A j \in 1..n : \E i \in 1..m : P(i, j)

\* GraphPigeonholePrinciple(B, functional, onto): p(u,v), (u,v) in E(B)
GPHPGroups(B) == << EdgeSet(B) >>
GPHPObj(B, fun, onto, P(_, _)) ==
    /\ \A u \in 1..B.L : \E v \in BNbrL(B, u) : P(u, v)
    /\ \A v \in 1..B.R : AtMostOne(BNbrR(B, v), LAMBDA u : P(u, v))
    /\ fun  => \A u \in 1..B.L : AtMostOne(BNbrL(B, u), LAMBDA v : P(u, v))
    /\ onto => \A v \in 1..B.R : \E u \in BNbrR(B, v) : P(u, v)

\* BinaryPigeonholePrinciple(m, n): v(i,b), i in 1..m, b in 0..k-1, k = ceil(log2 n)
\* pigeon i sits in hole h(i) = sum_b 2^b v(i,b); h(i) < n; h injective.
BPHPBits(n) == IF n <= 1 THEN 0 ELSE CeilLog2(n)
BPHPGroups(m, n) == << {<<i, b>> : i \in 1..m, b \in 0..(BPHPBits(n) - 1)} >>
RECURSIVE BinCode(_, _, _)
BinCode(V(_, _), i, b) == IF b < 0 THEN 0
                          ELSE (IF V(i, b) THEN Pow2(b) ELSE 0) + BinCode(V, i, b - 1)
BPHPObj(m, n, V(_, _)) ==
    LET h(i) == BinCode(V, i, BPHPBits(n) - 1)
    IN  /\ \A i \in 1..m : h(i) < n
        /\ \A i, j \in 1..m : i # j => h(i) # h(j)

\* RelativizedPigeonholePrinciple(m, r, n): p(u,v), q(v,w), r(v)  (axioms 3.1a-e)
RPHPGroups(m, r, n) == << {<<u, v>> : u \in 1..m, v \in 1..r},
                          {<<v, w>> : v \in 1..r, w \in 1..n},
                          {<<v>> : v \in 1..r} >>
RPHPObj(m, r, n, P(_, _), Q(_, _), Rr(_)) ==
    /\ \A u \in 1..m : \E v \in 1..r : P(u, v)                                   \* 3.1a
    /\ \A v \in 1..r : AtMostOne(1..m, LAMBDA u : P(u, v))                       \* 3.1b
    /\ \A u \in 1..m, v \in 1..r : P(u, v) => Rr(v)                              \* 3.1c
    /\ \A v \in 1..r : Rr(v) => \E w \in 1..n : Q(v, w)                          \* 3.1d
    /\ \A w \in 1..n : \A v1, v2 \in 1..r :
          (v1 # v2 /\ Rr(v1) /\ Rr(v2)) => ~(Q(v1, w) /\ Q(v2, w))               \* 3.1e

\* CountingPrinciple(M, p): X(S), S a p-subset of 1..M; labels list S increasingly
SortedTuples(M, p) == {t \in [1..p -> 1..M] : \A i \in 1..(p - 1) : t[i] < t[i + 1]}
CountGroups(M, p) == << SortedTuples(M, p) >>
CountObj(M, p, X(_)) ==
    \A e \in 1..M : ExactlyOne({t \in SortedTuples(M, p) : \E i \in 1..p : t[i] = e}, X)

\* PerfectMatchingPrinciple(G): e(u,v), u<v an edge
MatchGroups(G) == << EdgeSet(G) >>
MatchObj(G, E(_, _)) ==
    \A v \in 1..G.n : ExactlyOne({e \in EdgeSet(G) : e[1] = v \/ e[2] = v},
                                 LAMBDA e : E(e[1], e[2]))

\* SubsetCardinalityFormula(B, equalities): x(u,v), (u,v) in E(B)
SubsetCardGroups(B) == << EdgeSet(B) >>
SubsetCardObj(B, eq, X(_, _)) ==
    /\ \A u \in 1..B.L :
          LET d == Cardinality(BNbrL(B, u))
              s == CountP(BNbrL(B, u), LAMBDA v : X(u, v))
          IN  IF eq THEN s = (d + 1) \div 2 ELSE 2 * s >= d
    /\ \A v \in 1..B.R :
          LET d == Cardinality(BNbrR(B, v))
              s == CountP(BNbrR(B, v), LAMBDA u : X(u, v))
          IN  IF eq THEN s = d \div 2 ELSE 2 * s <= d

\* CliqueColoring(n, k, c): e{u,v} u<v ; q(i,v) i in 1..k ; r(v,l) l in 1..c
CliqueColGroups(n, k, c) == << {<<u, v>> : u \in 1..n, v \in 1..n} \cap {t \in (1..n) \X (1..n) : t[1] < t[2]},
                               {<<i, v>> : i \in 1..k, v \in 1..n},
                               {<<v, l>> : v \in 1..n, l \in 1..c} >>
CliqueColObj(n, k, c, E(_, _), Q(_, _), Rc(_, _)) ==
    LET Ed(u, v) == IF u < v THEN E(u, v) ELSE E(v, u)
    IN  /\ \A i \in 1..k : ExactlyOne(1..n, LAMBDA v : Q(i, v))        \* q total, functional
        /\ \A v \in 1..n : AtMostOne(1..k, LAMBDA i : Q(i, v))         \* q injective
        /\ \A v \in 1..n : ExactlyOne(1..c, LAMBDA l : Rc(v, l))       \* r total, functional
        /\ \A i, j \in 1..k : \A u, v \in 1..n :
              (i # j /\ u # v /\ Q(i, u) /\ Q(j, v)) => Ed(u, v)       \* image is a clique
        /\ \A u, v \in 1..n : \A l \in 1..c :
              (u < v /\ E(u, v)) => ~(Rc(u, l) /\ Rc(v, l))            \* colouring is proper

-----------------------------------------------------------------------------
(* C02 families (G a simple graph on 1..G.n)                                *)

XorP(S, P(_)) == CountP(S, P) % 2 = 1          \* parity of the true ones is odd

\* TseitinFormula(G, charges): E(u,v), u<v an edge.  Charges normalisation as
\* documented: none given => first vertex odd; short => padded with even;
\* long => the surplus is ignored.
TseitinCharge(G, chmode, ch, v) ==
    IF chmode = "none" THEN v = 1
    ELSE IF v <= Len(ch) THEN ch[v] ELSE FALSE
TseitinGroups(G) == << EdgeSet(G) >>
TseitinObj(G, chmode, ch, E(_, _)) ==
    \A v \in 1..G.n :
       XorP(Nbr(G, v), LAMBDA u : IF u < v THEN E(u, v) ELSE E(v, u)) = TseitinCharge(G, chmode, ch, v)

\* number of connected components / closed form for the number of solutions
RECURSIVE ReachFrom(_, _)
ReachFrom(G, S) == LET T == S \cup UNION {Nbr(G, v) : v \in S}
                   IN  IF T = S THEN S ELSE ReachFrom(G, T)
Components(G) == {ReachFrom(G, {v}) : v \in 1..G.n}

\* GraphColoringFormula(G, k, functional): x(v,c)
KColorGroups(G, k) == << {<<v, c>> : v \in 1..G.n, c \in 1..k} >>
KColorObj(G, k, fun, X(_, _)) ==
    /\ \A v \in 1..G.n : \E c \in 1..k : X(v, c)
    /\ fun => \A v \in 1..G.n : AtMostOne(1..k, LAMBDA c : X(v, c))
    /\ \A e \in EdgeSet(G) : \A c \in 1..k : ~(X(e[1], c) /\ X(e[2], c))

\* EvenColoringFormula(G): e(u,v); refused (ValueError) when some degree is odd
EvenColGroups(G) == << EdgeSet(G) >>
EvenColDefined(G) == \A v \in 1..G.n : Deg(G, v) % 2 = 0
EvenColObj(G, E(_, _)) ==
    \A v \in 1..G.n :
       2 * CountP(Nbr(G, v), LAMBDA u : IF u < v THEN E(u, v) ELSE E(v, u)) = Deg(G, v)

\* DominatingSet(G, d, alternative): x(v) ; f(v,i) i in 1..d.  The witness is the
\* set {v : x(v)}: the projections of the models are the dominating sets of size <= d.
DomGroups(G, d) == << {<<v>> : v \in 1..G.n}, {<<v, i>> : v \in 1..G.n, i \in 1..d} >>
ClosedNbr(G, v) == Nbr(G, v) \cup {v}
IsDominating(G, S) == \A v \in 1..G.n : ClosedNbr(G, v) \cap S # {}
DomWitnesses(G, d) == {S \in SUBSET (1..G.n) : IsDominating(G, S) /\ Cardinality(S) <= d}

\* Tiling(G): x(v); every closed neighbourhood contains exactly one chosen vertex
TilingGroups(G) == << {<<v>> : v \in 1..G.n} >>
TilingObj(G, X(_)) == \A v \in 1..G.n : ExactlyOne(ClosedNbr(G, v), X)

\* GraphIsomorphism(G1, G2): x(u,v), u in V1, v in V2 : the graph of an isomorphism
IsoGroups(G1, G2) == << {<<u, v>> : u \in 1..G1.n, v \in 1..G2.n} >>
IsoObj(G1, G2, X(_, _)) ==
    /\ \A u \in 1..G1.n : ExactlyOne(1..G2.n, LAMBDA v : X(u, v))
    /\ \A v \in 1..G2.n : ExactlyOne(1..G1.n, LAMBDA u : X(u, v))
    /\ \A u1, u2 \in 1..G1.n : \A v1, v2 \in 1..G2.n :
          (u1 # u2 /\ X(u1, v1) /\ X(u2, v2)) => (Adj(G1, u1, u2) <=> Adj(G2, v1, v2))
AutoObj(G, X(_, _)) == IsoObj(G, G, X) /\ \E u \in 1..G.n : ~X(u, u)

\* SubgraphFormula(G, H, induced, symbreak): s(i,j), i in V(H), j in V(G)
SubgraphGroups(G, H) == << {<<i, j>> : i \in 1..H.n, j \in 1..G.n} >>
InjMapObj(k, N, incr, S(_, _)) ==
    /\ \A i \in 1..k : ExactlyOne(1..N, LAMBDA j : S(i, j))
    /\ \A j \in 1..N : AtMostOne(1..k, LAMBDA i : S(i, j))
    /\ incr => \A i1, i2 \in 1..k : \A j1, j2 \in 1..N :
                  (i1 < i2 /\ S(i1, j1) /\ S(i2, j2)) => j1 < j2
SubgraphObj(G, H, induced, sb, S(_, _)) ==
    /\ InjMapObj(H.n, G.n, sb, S)
    /\ \A i1, i2 \in 1..H.n : \A j1, j2 \in 1..G.n :
          (i1 # i2 /\ S(i1, j1) /\ S(i2, j2)) =>
              /\ Adj(H, i1, i2) => Adj(G, j1, j2)
              /\ induced => (Adj(G, j1, j2) => Adj(H, i1, i2))

\* CliqueFormula(G, k, symbreak): s(i,j), i in 1..k
CliqueGroups(G, k) == << {<<i, j>> : i \in 1..k, j \in 1..G.n} >>
CliqueObj(G, k, sb, S(_, _)) ==
    /\ InjMapObj(k, G.n, sb, S)
    /\ \A i1, i2 \in 1..k : \A j1, j2 \in 1..G.n :
          (i1 # i2 /\ S(i1, j1) /\ S(i2, j2)) => Adj(G, j1, j2)

\* BinaryCliqueFormula(G, k, symbreak): y(i,b); code c (0-based) stands for vertex c+1
BinCliqueGroups(G, k) == << {<<i, b>> : i \in 1..k, b \in 0..(BPHPBits(G.n) - 1)} >>
BinCliqueObj(G, k, sb, Y(_, _)) ==
    LET h(i) == BinCode(Y, i, BPHPBits(G.n) - 1)
    IN  /\ \A i \in 1..k : h(i) < G.n
        /\ \A i, j \in 1..k : i # j => (h(i) # h(j) /\ Adj(G, h(i) + 1, h(j) + 1))
        /\ sb => \A i, j \in 1..k : i < j => h(i) < h(j)

\* RamseyWitnessFormula(G, k, s): C ; s(i,j).  Documented: satisfiable iff G has a
\* k-clique or an s-independent set.
HasClique(G, k) == \E S \in SUBSET (1..G.n) :
                      Cardinality(S) = k /\ \A u, v \in S : u # v => Adj(G, u, v)
HasIndep(G, k)  == \E S \in SUBSET (1..G.n) :
                      Cardinality(S) = k /\ \A u, v \in S : u # v => ~Adj(G, u, v)

-----------------------------------------------------------------------------
(* C03 families.  For the contradictions the documentation lists the axioms;*)
(* Axioms_xxx is that list as a set of clauses, a clause being a set of     *)
(* named literals <<sign, group, index...>> (sign = 1 | -1, group = position*)
(* of the variable group in XxxGroups).                                     *)

PosL(g, t) == <<1, g>> \o t
NegL(g, t) == <<-1, g>> \o t

\* --- (graph) ordering principle ---------------------------------------------
\* x(u,v) reads "u precedes v".  non-smart: ordered pairs u # v; smart: pairs u < v.
GOPGroups(G, smart) ==
    IF smart THEN << {t \in (1..G.n) \X (1..G.n) : t[1] < t[2]} >>
             ELSE << {t \in (1..G.n) \X (1..G.n) : t[1] # t[2]} >>
GOPAxioms(G, total, smart, plant, knuth) ==
    LET n == G.n
        V == 1..n
        X(u, v)  == PosL(1, <<u, v>>)
        NX(u, v) == NegL(1, <<u, v>>)
        Sm(u, v)  == IF u < v THEN X(u, v) ELSE NX(v, u)      \* "u precedes v" in the compact encoding
        NonMin == {v \in V : ~(plant /\ v = n)}
    IN  IF smart
        THEN    {{Sm(u, v) : u \in Nbr(G, v)} : v \in NonMin}
           \cup {{X(t[1], t[2]), X(t[2], t[3]), NX(t[1], t[3])} :
                     t \in {w \in V \X V \X V : w[1] < w[2] /\ w[2] < w[3]}}
           \cup {{NX(t[1], t[2]), NX(t[2], t[3]), X(t[1], t[3])} :
                     t \in {w \in V \X V \X V : w[1] < w[2] /\ w[2] < w[3]}}
        ELSE    {{X(u, v) : u \in Nbr(G, v)} : v \in NonMin}
           \cup {{NX(t[1], t[2]), NX(t[2], t[3]), X(t[1], t[3])} :
                     t \in {w \in V \X V \X V :
                              /\ w[1] # w[2] /\ w[2] # w[3] /\ w[1] # w[3]
                              /\ knuth = 2 => (w[2] > w[1] /\ w[2] > w[3])
                              /\ knuth = 3 => (w[3] > w[1] /\ w[3] > w[2])}}
           \cup {{NX(t[1], t[2]), NX(t[2], t[1])} : t \in {w \in V \X V : w[1] < w[2]}}
           \cup (IF total THEN {{X(t[1], t[2]), X(t[2], t[1])} : t \in {w \in V \X V : w[1] < w[2]}}
                          ELSE {})
Connected(G) == G.n = 0 \/ ReachFrom(G, {1}) = 1..G.n

\* --- pebbling / stone formulas on a DAG D (edges go upward) ------------------
PebGroups(D) == << {<<v>> : v \in 1..D.n} >>
IsSink(D, v) == Succ(D, v) = {}
PebAxioms(D) ==
       {{NegL(1, <<p>>) : p \in Pred(D, v)} \cup {PosL(1, <<v>>)} : v \in 1..D.n}
  \cup {{NegL(1, <<v>>)} : v \in {w \in 1..D.n : IsSink(D, w)}}

\* SparseStoneFormula(D, B): R(j) stones j in 1..B.R ; P(v,j), (v,j) in E(B)
StoneGroups(D, B) == << {<<j>> : j \in 1..B.R}, EdgeSet(B) >>
StoneAxioms(D, B) ==
    LET R(j)  == PosL(1, <<j>>)     NR(j) == NegL(1, <<j>>)
        P(v, j) == PosL(2, <<v, j>>)  NP(v, j) == NegL(2, <<v, j>>)
        Choices(v, j) == {s \in [Pred(D, v) -> 1..B.R] :
                             \A p \in Pred(D, v) : s[p] \in BNbrL(B, p) \ {j}}
    IN     {{P(v, j) : j \in BNbrL(B, v)} : v \in 1..D.n}
      \cup UNION { UNION { { {NP(p, s[p]) : p \in Pred(D, v)} \cup {NP(v, j)}
                               \cup {NR(s[p]) : p \in Pred(D, v)} \cup {R(j)}
                             : s \in Choices(v, j) }
                         : j \in BNbrL(B, v) }
                 : v \in 1..D.n }
      \cup UNION { {{NP(v, j), NR(j)} : j \in BNbrL(B, v)} : v \in {w \in 1..D.n : IsSink(D, w)} }
CompleteBip(L, R) == [L |-> L, R |-> R, edges |-> [k \in 1..(L * R) |-> <<((k - 1) \div R) + 1, ((k - 1) % R) + 1>>]]

\* --- Thapen's CPLS(a, b, c), b and c powers of two ---------------------------
\* G(i,x,y) ; bits of f_i(x) (i in 1..a) ; bits of u(x).  Unary indices start at 1,
\* bit strings count from 0: f_i(x) = x' is the binary representation of x'-1.
CPLSGroups(a, b, c) ==
    << {<<i, x, y>> : i \in 1..a, x \in 1..b, y \in 1..c} >>
    \o [i \in 1..a |-> {<<x, t>> : x \in 1..b, t \in 0..(CeilLog2(b) - 1)}]
    \o << {<<x, t>> : x \in 1..b, t \in 0..(CeilLog2(c) - 1)} >>
\* the clause that is false exactly when the bits of element x in group g spell j
Forbid(g, x, j, nbits) == {<<(IF Bit(j, t) = 0 THEN 1 ELSE -1), g, x, t>> : t \in 0..(nbits - 1)}
CPLSAxioms(a, b, c) ==
    LET lb == CeilLog2(b)  lc == CeilLog2(c)
        Gp(i, x, y) == PosL(1, <<i, x, y>>)   Gn(i, x, y) == NegL(1, <<i, x, y>>)
    IN     {{Gn(1, 1, y)} : y \in 1..c}
      \cup {Forbid(1 + t[1], t[2], t[3] - 1, lb) \cup {Gn(t[1] + 1, t[3], t[4]), Gp(t[1], t[2], t[4])} :
                t \in (1..(a - 1)) \X (1..b) \X (1..b) \X (1..c)}
      \cup {Forbid(a + 2, t[1], t[2] - 1, lc) \cup {Gp(a, t[1], t[2])} : t \in (1..b) \X (1..c)}

\* --- Pitfall(v, d, ny, nz, k) on the drawn d-regular graph Gamma --------------
RECURSIVE SortedEdgeSeq(_)
SortedEdgeSeq(S) ==
    IF S = {} THEN <<>>
    ELSE LET e == CHOOSE x \in S : \A y \in S : x[1] < y[1] \/ (x[1] = y[1] /\ x[2] <= y[2])
         IN  <<e>> \o SortedEdgeSeq(S \ {e})
IsRegular(G, d) == \A v \in 1..G.n : Deg(G, v) = d
\* clauses of the parity constraint "xor of lits = charge" over a set of items
ParityClauses(Items, charge, Pos(_), Neg(_)) ==
    {{Neg(e) : e \in T} \cup {Pos(e) : e \in Items \ T} :
        T \in {U \in SUBSET Items : (Cardinality(U) % 2 = 1) # charge}}
PitfallGroups(G, ny, nz, k) ==
    [j \in 1..k |-> EdgeSet(G)]
    \o << {<<j, i>> : j \in 1..k, i \in 1..ny},
          {<<j, i>> : j \in 1..k, i \in 1..nz},
          {<<j, i>> : j \in 1..k, i \in 1..(Cardinality(EdgeSet(G)) + nz)},
          {<<j, i>> : j \in 1..k, i \in 1..3} >>
PitfallAxioms(G, ny, nz, k) ==
    LET nx == Cardinality(EdgeSet(G))
        Es == SortedEdgeSeq(EdgeSet(G))
        L  == nx + nz
        Y(j, i) == PosL(k + 1, <<j, i>>)   NY(j, i) == NegL(k + 1, <<j, i>>)
        Z(j, i) == PosL(k + 2, <<j, i>>)   NZ(j, i) == NegL(k + 2, <<j, i>>)
        P(j, i) == PosL(k + 3, <<j, i>>)   NP(j, i) == NegL(k + 3, <<j, i>>)
        A(j, i) == PosL(k + 4, <<j, i>>)   NA(j, i) == NegL(k + 4, <<j, i>>)
        Inc(w) == {e \in EdgeSet(G) : e[1] = w \/ e[2] = w}
        \* S_t : the e[j] variables in identifier order, then z(j,1..nz)
        S(j, t)  == IF t <= nx THEN PosL(j, Es[t]) ELSE Z(j, t - nx)
        NS(j, t) == IF t <= nx THEN NegL(j, Es[t]) ELSE NZ(j, t - nx)
        Hard(j) == UNION { {C \cup {Z(j, i) : i \in 1..nz} :
                              C \in ParityClauses(Inc(w), w = 1, LAMBDA e : PosL(j, e), LAMBDA e : NegL(j, e))}
                         : w \in 1..G.n }
        Pit(j)  == {{Y(j, t[1]), Y(j, t[2]), NP(j, t[3])} :
                       t \in {w \in (1..ny) \X (1..ny) \X (1..L) : w[1] < w[2]}}
        PipeClause(j, s, t) ==
               {Y(j, s)} \cup {P(j, q) : q \in (1..L) \ {L + 1 - t}}
            \cup {S(j, h) : h \in {g \in 1..(t - 1) : ~(t = L /\ g = nx + 1)}}
            \cup {NS(j, t)}
        Pipe(j) == {PipeClause(j, t[1], t[2]) : t \in (1..ny) \X (1..L)}
        TailC(j) == UNION {{ {NA(j, 1), A(j, 3), NZ(j, t[2])}, {NA(j, 2), NA(j, 3), NZ(j, t[2])},
                            {A(j, 1), NZ(j, t[2]), NY(j, t[1])}, {A(j, 2), NZ(j, t[2]), NY(j, t[1])} }
                          : t \in (1..ny) \X (1..nz)}
        Easy == {UNION {{NY(j, i), NY(j, i + 1)} : j \in 1..k} : i \in {h \in 1..(ny - 1) : h % 2 = 1}}
    IN  UNION {Hard(j) \cup Pit(j) \cup Pipe(j) \cup TailC(j) : j \in 1..k} \cup Easy

\* --- Ramsey number, van der Waerden, Pythagorean triples ---------------------
RamGroups(N) == << {t \in (1..N) \X (1..N) : t[1] < t[2]} >>
RamObj(s, k, N, E(_, _)) ==
    /\ \A S \in Subsets(1..N, s) : \E u, v \in S : u < v /\ E(u, v)     \* no independent s-set
    /\ \A S \in Subsets(1..N, k) : \E u, v \in S : u < v /\ ~E(u, v)    \* no k-clique
\* arithmetic progressions of length len inside 1..N (length 1: the singletons)
APs(N, len) == {{i + d * t : t \in 0..(len - 1)} :
                    i \in 1..N, d \in 1..(IF len = 1 THEN 1 ELSE N)}
               \cap SUBSET (1..N)
VdwGroups(N, K) == IF Len(K) = 2 THEN << {<<i>> : i \in 1..N} >>
                   ELSE << {<<i, c>> : i \in 1..N, c \in 1..Len(K)} >>
\* Col(i, c): number i has colour c
VdwColObj(N, K, Col(_, _)) ==
    /\ \A i \in 1..N : ExactlyOne(1..Len(K), LAMBDA c : Col(i, c))
    /\ \A c \in 1..Len(K) : \A ap \in APs(N, K[c]) : \E i \in ap : ~Col(i, c)
PtnGroups(N) == << {<<i>> : i \in 1..N} >>
PtnObj(N, Vv(_)) ==
    \A x, y, z \in 1..N : (x < y /\ x * x + y * y = z * z) =>
        ~((Vv(x) /\ Vv(y) /\ Vv(z)) \/ (~Vv(x) /\ ~Vv(y) /\ ~Vv(z)))

=============================================================================
