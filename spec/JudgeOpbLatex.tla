--------------------------- MODULE JudgeOpbLatex ---------------------------
(***************************************************************************)
(* Trace module (direction B) for property C12: judges what the real OPB   *)
(* and LaTeX writers of cnfgen produced, lexed by harness/c12.py, against  *)
(* OpbLatexIO.tla.  One step per record of IOEnv.TRACE_FILE (ndjson), one  *)
(* VERDICT line per step (ids and verdict names are short: TLC wraps       *)
(* printed tuples at 80 columns).                                          *)
(*                                                                         *)
(*  [id, kind |-> "opb", wrote, formula, options, lines]                   *)
(*  [id, kind |-> "latex", wrote, formula, options, pages]                 *)
(*     wrote   : "ok" or the name of the exception the writer raised;      *)
(*     formula : [cls, nvars, clauses | constraints, labels, named]        *)
(*               labels[v]: the name of variable v as a sequence of        *)
(*               characters, named[v]: it has a name of its own;           *)
(*     options : [header, varnames, form |-> "snippet" | "document", via]; *)
(*     lines   : the OPB text, lexed;   pages : the align blocks, lexed.   *)
(*  verdict: OpbWhy / LatexWhy, i.e. "ok" or the first failing clause.     *)
(***************************************************************************)
EXTENDS OpbLatexIO, Json, IOUtils

PageSize == 35      \* rows that fit on a page (cnfgen.utils.latexoutput.to_latex_document)

Trace == ndJsonDeserialize(IOEnv.TRACE_FILE)

VARIABLE i
vars == <<i>>

Verdict(r) ==
    IF r.wrote # "ok" THEN "writer_raised_" \o r.wrote
    ELSE IF r.kind = "opb" THEN OpbWhy(r.formula, r.lines)
    ELSE IF r.kind = "latex"
         THEN LatexWhy(r.formula, r.formula.labels, r.formula.named, r.pages, r.options.form, PageSize)
    ELSE "unknown_record_kind"

Init == i = 1
Next == /\ i <= Len(Trace)
        /\ PrintT(<<"VERDICT", Trace[i].id, Verdict(Trace[i])>>)
        /\ i' = i + 1
Spec == Init /\ [][Next]_vars

AllJudged == TLCGet("distinct") = Len(Trace) + 1
=============================================================================
