SPECIFICATION Spec
CONSTANT Part = "norm"
INVARIANT Blast_Correct
INVARIANT Parity_Correct
INVARIANT Normalize_Correct
INVARIANT BinMap_Correct
