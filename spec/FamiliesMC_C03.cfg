SPECIFICATION Spec
CONSTANT Scope = "C03"
INVARIANT GOP_Unsat_or_Planted
INVARIANT Peb_Unsat
INVARIANT Stone_Unsat
INVARIANT CPLS_Unsat
