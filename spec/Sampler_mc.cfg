\* Exhaustive model check of the sampler design for one scope (the harness
\* writes one such config per (Kind, K, N) into .work/C13/).
SPECIFICATION SpecMC
CONSTANTS
  Kind = "kcnf"
  K = 2
  N = 3
  Ps <- PsSome
  Ms <- MsEnds
  Pools <- PoolFull
  DensePicks <- EveryPick
  TriesFactor = 1
INVARIANT TypeOK
INVARIANT AccInAll
INVARIANT AccDistinct
INVARIANT LoopBound
INVARIANT DoneCount
INVARIANT FailRule
INVARIANT DoneShape
PROPERTY Terminates
PROPERTY ParamsFixed
PROPERTY DenseOnlyWhenShort
VIEW ModelView
CHECK_DEADLOCK TRUE
