SPECIFICATION Spec
CONSTANTS
  Mode = "paths"
  MaxN = 2
  MaxM = 2
  MaxLit = 3
  Depth = 4
  ShardN = 99
  MaxClauses = 0
  MaxWidth = 0
  Exposures <- Clean
  Export = TRUE
INVARIANT Emit
CHECK_DEADLOCK FALSE
