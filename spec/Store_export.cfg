SPECIFICATION Spec
CONSTANTS MaxVar = 3
  Depth = 4
  Discipline = TRUE
INVARIANT Emit
CHECK_DEADLOCK FALSE
