----------------------------- MODULE CliExport -----------------------------
(* Prints the LibCall table (CliTable.tla) as JSON for the harness: one line *)
(* per group, so that spec -> code test generation reads TLC's own values.   *)
EXTENDS CliTable
VARIABLE done
Groups == << [name |-> "formula", items |-> FormulaCmds],
             [name |-> "transformations", items |-> Transformations],
             [name |-> "output_options", items |-> OutputOptions],
             [name |-> "formats", items |-> FormatCases],
             [name |-> "graphs", items |-> {[name |-> g, gtype |-> GraphSpec[g].gtype, spec |-> GraphSpec[g].spec] : g \in DOMAIN GraphSpec}] >>
Init == done = 0
Next == /\ done < Len(Groups)
        /\ PrintT(ToJson(Groups[done + 1]))
        /\ done' = done + 1
Spec == Init /\ [][Next]_done
=============================================================================
