SPECIFICATION Spec
INVARIANT Composition
