SPECIFICATION Spec
CONSTANTS
  ShapesFirst <- AllShapes
  ShapesLater <- SomeShapes
  Clauses <- NoClauses
  Updates = {4}
  MaxSteps = 2
  Export = FALSE
  Closing = FALSE
  Shard = 0
  NShards = 1
CHECK_DEADLOCK FALSE
INVARIANT TypeOK
INVARIANT ClosedFormsAgree
INVARIANT MutuallyInverse
INVARIANT IndicesInIdOrder
INVARIANT PatternsInIdOrder
INVARIANT Layout
INVARIANT NamesAligned
PROPERTY Fresh
PROPERTY GroupsImmutable
PROPERTY Monotone
VIEW ModelView
