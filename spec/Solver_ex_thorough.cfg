\* behaviour export, thorough scope: every terminal state as one JSON line (-workers 1)
SPECIFICATION Spec
CONSTANTS
  Fams = {"resolve", "auto", "parse", "doc", "rfile", "fault", "isat"}
  Kinds = {"c", "cx", "blank", "sSAT", "sUNSAT", "sOTHER", "sSHORT", "v", "junk", "vjunk", "sjunk"}
  MaxLines = 4
  MaxV = 3
  IsatLines = 3
  WideResolve = TRUE
  Export = TRUE
INVARIANT Emit
CHECK_DEADLOCK FALSE
