------------------------------- MODULE Solver -------------------------------
(***************************************************************************)
(* The SAT solver bridge: CNF.solve() / CNF.is_satisfiable()  (property    *)
(* C20; cnfgen/utils/solver.py: sat_solve and the three interface          *)
(* functions).                                                             *)
(*                                                                         *)
(* The machine is shaped like the implementation, one action per pipeline  *)
(* stage:                                                                  *)
(*                                                                         *)
(*   Resolve(cmd, sameas) -> Probe(installed?) -> WriteInput -> Run ->     *)
(*   ParseLine (one step per output line / result-file line) -> Cleanup -> *)
(*   Return | Raise                                                        *)
(*                                                                         *)
(* but it is the *documented* bridge: temporary files are removed on       *)
(* every path, a satisfiable answer always carries an assignment, and the  *)
(* only exceptions are the documented ones (RuntimeError: "it is not       *)
(* possible to correctly invoke the solver needed"; ValueError: "sameas is *)
(* set and does not match the name of a supported solver").                *)
(*                                                                         *)
(* A behaviour starts from a *scenario* chosen in Init: the formula, the   *)
(* arguments cmd/sameas, which executables are installed (usable / present *)
(* but not executable), and what the solver does (the lines it prints, the *)
(* result file it writes, whether it can be executed at all).  A terminal  *)
(* state carries the outcome the caller may observe.  Where the            *)
(* documentation leaves a choice the machine branches, so the set of       *)
(* terminal outcomes of a scenario is the set of *allowed* outcomes:       *)
(*   - which installed solver is picked when no cmd is given (the doc      *)
(*     says "tried in succession until one is found", no order);           *)
(*   - both errors when two documented error conditions hold at once;      *)
(*   - an empty command line (doc silent): as None, or refused;            *)
(*   - output that does not follow the DIMACS output convention (blank or  *)
(*     junk lines, a malformed or second `s` line): read leniently, or     *)
(*     refused with RuntimeError -- never another exception, never a       *)
(*     wrong verdict, never a leaked file;                                 *)
(*   - "satisfiable" with no model printed for a formula that has          *)
(*     variables: (True, []), (True, None) or RuntimeError.                *)
(*                                                                         *)
(* The export configuration prints every terminal state (scenario rendered *)
(* to concrete text + outcome + leftover temporary files); the harness     *)
(* materialises fake solver executables from the scenario, calls the real  *)
(* solve() / is_satisfiable() and compares.                                *)
(***************************************************************************)
EXTENDS CnfSem, TLC, Json

CONSTANTS Fams,       \* scenario families enumerated by Init, subset of
                      \* {"resolve","auto","parse","doc","rfile","fault","isat"}
          Kinds,      \* parse family: line kinds used in output skeletons
          MaxLines,   \* parse family: at most this many output lines
          MaxV,       \* parse family: at most this many `v` lines
          IsatLines,  \* isat family: parse scenarios of at most this many lines
          WideResolve,\* TRUE: more sameas values / options in the resolve family
          Export      \* TRUE: Emit prints terminal states

VARIABLES scn,        \* the scenario (never changes)
          stage,      \* "resolve","probe","write","run","parse","cleanup","return","done"
          solver,     \* executable picked by Probe ("" before)
          conv,       \* interface used: "stdin" | "filein" | "fileout" ("" before)
          tmpfiles,   \* temporary files currently on disk, subset of {"cnf","res"}
          todo,       \* solver output not yet parsed (sequence of line records)
          answer,     \* "none" | "SAT" | "UNSAT"
          nS,         \* number of `s` lines seen
          lits,       \* literals collected from `v` lines / the result file, in print order
          strict,     \* output seen so far follows the output convention
          result      \* outcome handed to the caller: [ret |-> ..., w |-> ...]
vars == <<scn, stage, solver, conv, tmpfiles, todo, answer, nS, lits, strict, result>>

-----------------------------------------------------------------------------
(* The table of supported solvers and the convention each one really       *)
(* speaks.  stdin = DIMACS on stdin, s/v lines on stdout; filein = input   *)
(* file as last argument, s/v lines on stdout; fileout = minisat style     *)
(* `solver <input file> <result file>`.                                    *)

Table == << <<"cadical", "stdin">>, <<"kissat", "stdin">>, <<"lingeling", "stdin">>,
            <<"plingeling", "stdin">>, <<"precosat", "stdin">>, <<"picosat", "stdin">>,
            <<"march", "filein">>, <<"cryptominisat", "stdin">>, <<"minisat", "fileout">>,
            <<"glucose", "stdin">>, <<"sat4j", "filein">> >>
Names == {Table[i][1] : i \in DOMAIN Table}
ConvOf(name) == Table[CHOOSE i \in DOMAIN Table : Table[i][1] = name][2]
\* what a fake executable with that name accepts.  glucose reads stdin and
\* prints s/v lines, and is also a drop-in replacement of minisat (the doc
\* says so, the table says stdin): its fake accepts both invocations.
SpeaksOf(name) == IF name = "glucose" THEN "dual"
                  ELSE IF name \in Names THEN ConvOf(name) ELSE "stdin"

-----------------------------------------------------------------------------
(* Formulas of the scope                                                    *)

Formula(f) ==
    CASE f = "F0"      -> [n |-> 0, cls |-> << >>]                     \* no variables, no clauses
      [] f = "Fbot"    -> [n |-> 0, cls |-> << << >> >>]               \* the empty clause
      [] f = "F1"      -> [n |-> 1, cls |-> << <<1>> >>]
      [] f = "Funused" -> [n |-> 3, cls |-> << <<-2>> >>]              \* variables 1 and 3 unused
      [] f = "F2"      -> [n |-> 2, cls |-> << <<1, 2>>, <<-1>> >>]
      [] f = "Fcontra" -> [n |-> 1, cls |-> << <<1>>, <<-1>> >>]
FormulaIds == {"F0", "Fbot", "F1", "Funused", "F2", "Fcontra"}

AsSeq(s) == IF DOMAIN s = {} THEN << >> ELSE s      \* empty function -> empty tuple
LitsOf(a, n) == AsSeq([v \in 1..n |-> IF a[v] THEN v ELSE -v])
\* the models of f as literal sequences in variable order (real models, found by TLC)
ModelsOf(f) == {LitsOf(a, Formula(f).n) : a \in Models(Formula(f).n, Formula(f).cls)}
IsSat(f) == ModelsOf(f) # {}

Rev(s) == AsSeq([i \in 1..Len(s) |-> s[Len(s) + 1 - i]])
Rot(s) == IF Len(s) < 2 THEN s ELSE Tail(s) \o <<Head(s)>>
\* the orders in which the solver prints a model
Prints(m) == {m, Rev(m), Rot(m)}

-----------------------------------------------------------------------------
(* Solver output: a sequence of line records [k, lits, z]                   *)

L(kind) == [k |-> kind, lits |-> << >>, z |-> FALSE]
V(chunk, last) == [k |-> "v", lits |-> chunk, z |-> last]       \* "v l1 l2 ... [0]"
FL(chunk, last) == [k |-> "flits", lits |-> chunk, z |-> last]  \* result file: "l1 l2 ... [0]"

VerdictKinds == {"sSAT", "sUNSAT"}
SKinds       == {"sSAT", "sUNSAT", "sOTHER", "sSHORT", "sjunk"}   \* first character is 's'
\* kinds that are not lines of the documented output convention
NonConvKinds == {"blank", "sSHORT", "junk", "vjunk", "sjunk"}

\* the solver's literals, in print order
RECURSIVE PrintedLits(_)
PrintedLits(out) == IF out = << >> THEN << >> ELSE Head(out).lits \o PrintedLits(Tail(out))
SaidSat(out)   == \E i \in DOMAIN out : out[i].k \in {"sSAT", "fSAT"}
SaidUnsat(out) == \E i \in DOMAIN out : out[i].k \in {"sUNSAT", "fUNSAT"}
Conforming(out) ==
    /\ \A i \in DOMAIN out : out[i].k \notin NonConvKinds
    /\ Cardinality({i \in DOMAIN out : out[i].k \in SKinds}) <= 1

\* skeletons: sequences of kinds; `v` only after the (single, truthful) verdict line
KindSeqs(maxlen) == UNION {[1..len -> Kinds] : len \in 0..maxlen}
VPos(ks) == {i \in DOMAIN ks : ks[i] = "v"}
GoodSkel(ks, sat) ==
    LET vp == {i \in DOMAIN ks : ks[i] \in VerdictKinds} IN
    /\ Cardinality(vp) <= 1
    /\ \A i \in vp : ks[i] = IF sat THEN "sSAT" ELSE "sUNSAT"
    /\ \A i \in VPos(ks) : \E j \in vp : j < i
    \* at most one malformed `s` / `v` line per output (keeps the failing inputs separable)
    /\ Cardinality({i \in DOMAIN ks : ks[i] \in {"sSHORT", "vjunk"}}) <= 1
\* ways to cut a sequence of length len into j consecutive (possibly empty) chunks
Cuts(len, j) == IF j = 0 THEN {<< >>}
                ELSE {c \in [1..(j - 1) -> 0..len] : \A i \in 1..(j - 2) : c[i] <= c[i + 1]}
\* skeleton ks filled with the printed literals p cut at c; the last `v` line carries the 0
Fill(ks, p, c) ==
    LET j == Cardinality(VPos(ks))
        rank(i) == Cardinality({h \in VPos(ks) : h <= i})
        lo(r) == IF r = 1 THEN 0 ELSE c[r - 1]
        hi(r) == IF r = j THEN Len(p) ELSE c[r]
    IN  AsSeq([i \in DOMAIN ks |->
            IF ks[i] = "v" THEN V(SubSeq(p, lo(rank(i)) + 1, hi(rank(i))), rank(i) = j)
            ELSE L(ks[i])])

\* the plain, convention-abiding way of giving the answer
StdSkel(sat, p)  == IF sat THEN << L("c"), L("sSAT"), V(p, TRUE) >> ELSE << L("c"), L("sUNSAT") >>
StdRfile(sat, p) == IF sat THEN << L("fSAT"), FL(p, TRUE) >> ELSE << L("fUNSAT") >>

-----------------------------------------------------------------------------
(* Scenarios                                                                *)

Mk(fam, api, f, cmdkind, cmdname, cmdopts, blank, sameas, usable, noexec, skel, rfile, rfmode, fault) ==
    [fam |-> fam, api |-> api, f |-> f, cmdkind |-> cmdkind, cmdname |-> cmdname,
     cmdopts |-> cmdopts, blank |-> blank, sameas |-> sameas, usable |-> usable,
     noexec |-> noexec, skel |-> skel, rfile |-> rfile, rfmode |-> rfmode, runfault |-> fault]

\* one model of f printed in reverse variable order (so that sorting matters)
StdPrint(f) == IF IsSat(f) THEN Rev(CHOOSE m \in ModelsOf(f) : TRUE) ELSE << >>
StdOut(f) == [skel |-> StdSkel(IsSat(f), StdPrint(f)), rfile |-> StdRfile(IsSat(f), StdPrint(f))]

\* --- resolve: an explicit command line; every name of the table and an unsupported one
Decoy(t) == IF t = "kissat" THEN "cadical" ELSE "kissat"
InstallsFor(t) == { [u |-> {t}, x |-> {}], [u |-> {}, x |-> {}], [u |-> {Decoy(t)}, x |-> {}],
                    [u |-> {t, Decoy(t)}, x |-> {}], [u |-> {Decoy(t)}, x |-> {t}] }
OptChoices(t) == IF t \in {"lingeling", "minisat", "mysolver"} \/ WideResolve
                 THEN {<< >>, <<"--plain", "-q">>} ELSE {<< >>}
SameasChoices == {"", "lingeling", "sat4j", "minisat", "nosuchsolver"}
                 \cup (IF WideResolve THEN {"march", "cadical", "cryptominisat", "MiniSat"} ELSE {})
ResolveFor(t) ==
    { Mk("resolve", "solve", f, "name", t, o, "", sa, inst.u, inst.x,
         StdOut(f).skel, StdOut(f).rfile, "write", FALSE) :
        f \in {"F2", "Fcontra"}, o \in OptChoices(t), sa \in SameasChoices, inst \in InstallsFor(t) }
ResolveScen == UNION {ResolveFor(t) : t \in Names \cup {"mysolver"}}

\* --- auto: no command line (None, "" or blanks); any installed supported solver may answer
AutoInstalls == (SUBSET {"cadical", "sat4j", "minisat", "mysolver"})
                \cup {{s} : s \in Names} \cup {Names} \cup {{"glucose", "march"}}
AutoScen ==
    { Mk("auto", "solve", f, ck[1], "", << >>, ck[2], sa, u, x,
         StdOut(f).skel, StdOut(f).rfile, "write", FALSE) :
        f \in {"F2", "Fcontra"}, ck \in {<<"none", "">>, <<"blank", "">>, <<"blank", "  ">>},
        sa \in {"", "nosuchsolver", "minisat", "lingeling"}, u \in AutoInstalls,
        x \in {{}, {"cadical"}} }
\* with no command line the doc does not say what a (valid) sameas means: keep
\* only the scenarios in which every reading gives the same interface
AutoOk(s) == /\ s.noexec \cap s.usable = {}
             /\ s.sameas \in Names => \A t \in s.usable \cap Names : ConvOf(t) = ConvOf(s.sameas)

\* --- parse: every output skeleton for the two stdout conventions.  This family
\* is large, so it is enumerated by nested choices instead of being built as a set.
ParseSolvers == {"lingeling", "sat4j"}
PrintsOf(f) == IF IsSat(f) THEN UNION {Prints(m) : m \in ModelsOf(f)} ELSE {<< >>}
ParseChoice(s, fam, api, skels) ==
    \E f \in FormulaIds : \E ks \in {k \in skels : GoodSkel(k, IsSat(f))} :
      \E p \in (IF VPos(ks) = {} THEN {<< >>} ELSE PrintsOf(f)) :
        \E c \in Cuts(Len(p), Cardinality(VPos(ks))) : \E t \in ParseSolvers :
          s = Mk(fam, api, f, "name", t, << >>, "", "", {t}, {}, Fill(ks, p, c), << >>, "write", FALSE)
\* all skeletons of at most maxlen lines with at most MaxV `v` lines
Skels(maxlen) == {k \in KindSeqs(maxlen) : Cardinality(VPos(k)) <= MaxV}
\* --- doc: longer outputs shaped like the example in the documentation (comments
\* before, between and after the answer and the `v` lines)
DocSkels == { <<"c", "c", "sSAT", "c", "v", "v", "c">>, <<"c", "sSAT", "v", "c", "v", "c", "v">>,
              <<"sSAT", "c", "c", "v", "c">>, <<"c", "c", "sUNSAT", "c", "c">>, <<"c", "c", "c", "c">>,
              <<"c", "sOTHER", "c">> }

\* --- rfile: contents of the result file in the minisat convention
RfileChoices(f) ==
    IF IsSat(f)
    THEN UNION { {<< L("fSAT"), FL(p, TRUE) >>, << L("fSAT") >>}
                 \cup {<< L("fSAT"), FL(SubSeq(p, 1, k), FALSE), FL(SubSeq(p, k + 1, Len(p)), TRUE) >> :
                          k \in 0..Len(p)} :
                 p \in UNION {Prints(m) : m \in ModelsOf(f)} }
         \cup {<< >>, << L("fOTHER") >>}
    ELSE {<< L("fUNSAT") >>, << >>, << L("fOTHER") >>}
RfileFor(f) ==
    { Mk("rfile", "solve", f, "name", tc[1], << >>, "", tc[2], {tc[1]}, {},
         << L("junk") >>, rf, "write", FALSE) :
        tc \in {<<"minisat", "">>, <<"mysolver", "minisat">>}, rf \in RfileChoices(f) }
RfileScen == UNION {RfileFor(f) : f \in FormulaIds}

\* --- fault: the solver cannot be executed when it is run (exec fails), or
\* it removes its result file instead of writing it
FaultTargets == {<<"lingeling", "">>, <<"sat4j", "">>, <<"minisat", "">>, <<"march", "">>,
                 <<"mysolver", "lingeling">>, <<"mysolver", "sat4j">>, <<"mysolver", "minisat">>}
FaultScen ==
    { Mk("fault", "solve", f, "name", tc[1], << >>, "", tc[2], {tc[1]}, {},
         StdOut(f).skel, StdOut(f).rfile, "write", TRUE) :
        f \in {"F2", "Fcontra"}, tc \in FaultTargets }
    \cup
    { Mk("fault", "solve", f, "name", tc[1], << >>, "", tc[2], {tc[1]}, {},
         << L("junk") >>, StdOut(f).rfile, "remove", FALSE) :
        f \in {"F2", "Fcontra"}, tc \in {<<"minisat", "">>, <<"mysolver", "minisat">>} }

Small == (IF "resolve" \in Fams THEN ResolveScen ELSE {})
         \cup (IF "auto" \in Fams THEN {s \in AutoScen : AutoOk(s)} ELSE {})
         \cup (IF "rfile" \in Fams THEN RfileScen ELSE {})
         \cup (IF "fault" \in Fams THEN FaultScen ELSE {})

\* --- isat: the same scenarios through is_satisfiable()
IsatSmall == {[s EXCEPT !.api = "is_satisfiable"] :
                 s \in {x \in ResolveScen \cup {y \in AutoScen : AutoOk(y)} : x.cmdopts = << >>}
                        \cup RfileScen \cup FaultScen}

IsScenario(s) ==
    \/ s \in Small
    \/ "parse" \in Fams /\ ParseChoice(s, "parse", "solve", Skels(MaxLines))
    \/ "doc" \in Fams /\ ParseChoice(s, "doc", "solve", DocSkels)
    \/ "isat" \in Fams /\ \/ s \in IsatSmall
                          \/ ParseChoice(s, "parse", "is_satisfiable", Skels(IsatLines))
                          \/ ParseChoice(s, "doc", "is_satisfiable", DocSkels)

-----------------------------------------------------------------------------
(* Static facts about the scenario in the current state                     *)

CmdGiven    == scn.cmdkind = "name"
BadSameas   == scn.sameas # "" /\ scn.sameas \notin Names
Unsupported == CmdGiven /\ scn.cmdname \notin Names /\ scn.sameas \notin Names
Candidates  == IF CmdGiven THEN {scn.cmdname} ELSE Names
UsableCands == Candidates \cap scn.usable
\* the convention the bridge has to use for executable s
WantedConv(s) == IF CmdGiven /\ scn.sameas \in Names THEN ConvOf(scn.sameas) ELSE ConvOf(s)
\* what the executable named s accepts in this scenario
Speaks(s) == IF CmdGiven /\ s = scn.cmdname /\ scn.sameas \in Names THEN ConvOf(scn.sameas)
             ELSE SpeaksOf(s)
\* the channel the bridge reads in convention cv
OutputRead(cv) == IF cv = "fileout"
                  THEN (IF scn.rfmode = "remove" THEN << >> ELSE scn.rfile)
                  ELSE scn.skel

-----------------------------------------------------------------------------
(* sorted(witness, key=abs): stable insertion sort by variable              *)

RECURSIVE InsertByVar(_, _)
InsertByVar(s, x) == IF s = << >> THEN <<x>>
                     ELSE IF Abs(Head(s)) <= Abs(x) THEN <<Head(s)>> \o InsertByVar(Tail(s), x)
                     ELSE <<x>> \o s
RECURSIVE SortFrom(_, _)
SortFrom(acc, s) == IF s = << >> THEN acc ELSE SortFrom(InsertByVar(acc, Head(s)), Tail(s))
SortByVar(s) == SortFrom(<< >>, s)

-----------------------------------------------------------------------------
(* Outcomes                                                                 *)

Sat(w)  == [ret |-> "sat", w |-> w]           \* (True, w)
SatNone == [ret |-> "sat_none", w |-> << >>]  \* (True, None)
Unsat   == [ret |-> "unsat", w |-> << >>]     \* (False, None)
Err(e)  == [ret |-> e, w |-> << >>]           \* raises e
NoResult == [ret |-> "", w |-> << >>]
\* is_satisfiable() is the first component of solve()
Project(o) == IF scn.api = "solve" THEN o
              ELSE IF o.ret \in {"sat", "sat_none"} THEN [ret |-> "true", w |-> << >>]
              ELSE IF o.ret = "unsat" THEN [ret |-> "false", w |-> << >>]
              ELSE o

Init ==
    /\ IsScenario(scn)
    /\ stage = "resolve" /\ solver = "" /\ conv = "" /\ tmpfiles = {} /\ todo = << >>
    /\ answer = "none" /\ nS = 0 /\ lits = << >> /\ strict = TRUE /\ result = NoResult

Finish(o) ==
    /\ result' = Project(o) /\ stage' = "done"
    /\ UNCHANGED <<scn, solver, conv, tmpfiles, todo, answer, nS, lits, strict>>

\* sat_solve: argument checks.  No file exists yet, so raising is immediate.
Resolve ==
    /\ stage = "resolve"
    /\ \/ BadSameas /\ Finish(Err("ValueError"))
       \/ Unsupported /\ Finish(Err("RuntimeError"))
       \/ BadSameas /\ UsableCands = {} /\ Finish(Err("RuntimeError"))     \* both conditions hold
       \/ scn.cmdkind = "blank" /\ \E e \in {"RuntimeError", "ValueError"} : Finish(Err(e))
       \/ /\ ~BadSameas /\ ~Unsupported
          /\ stage' = "probe"
          /\ UNCHANGED <<scn, solver, conv, tmpfiles, todo, answer, nS, lits, strict, result>>

\* some_solver_installed: a candidate that can be executed, else RuntimeError
Probe ==
    /\ stage = "probe"
    /\ IF UsableCands = {} THEN Finish(Err("RuntimeError"))
       ELSE \E s \in UsableCands :
              /\ solver' = s /\ conv' = WantedConv(s) /\ stage' = "write"
              /\ UNCHANGED <<scn, tmpfiles, todo, answer, nS, lits, strict, result>>

\* the formula goes to stdin, to a temporary file, or to a temporary file next
\* to a temporary result file
WriteInput ==
    /\ stage = "write"
    /\ tmpfiles' = CASE conv = "stdin"   -> {}
                     [] conv = "filein"  -> {"cnf"}
                     [] conv = "fileout" -> {"cnf", "res"}
    /\ stage' = "run"
    /\ UNCHANGED <<scn, solver, conv, todo, answer, nS, lits, strict, result>>

\* the solver runs; when it cannot be executed there is no output at all
Run ==
    /\ stage = "run"
    /\ IF scn.runfault THEN todo' = << >> /\ stage' = "cleanup"
       ELSE todo' = OutputRead(conv) /\ stage' = "parse"
    /\ UNCHANGED <<scn, solver, conv, tmpfiles, answer, nS, lits, strict, result>>

ParseLine ==
    /\ stage = "parse"
    /\ IF todo = << >>
       THEN stage' = "cleanup" /\ UNCHANGED <<todo, answer, nS, lits, strict>>
       ELSE LET l == Head(todo) IN
            /\ todo' = Tail(todo)
            /\ stage' = "parse"
            /\ answer' = CASE l.k \in {"sSAT", "fSAT"}     -> "SAT"
                           [] l.k \in {"sUNSAT", "fUNSAT"} -> "UNSAT"
                           [] OTHER                        -> answer
            /\ nS' = IF l.k \in SKinds THEN nS + 1 ELSE nS
            /\ lits' = IF l.k \in {"v", "flits"} THEN lits \o l.lits ELSE lits
            /\ strict' = (strict /\ l.k \notin NonConvKinds /\ ~(l.k \in SKinds /\ nS >= 1))
    /\ UNCHANGED <<scn, solver, conv, tmpfiles, result>>

\* temporary files are removed whatever happened
Cleanup ==
    /\ stage = "cleanup"
    /\ tmpfiles' = {}
    /\ stage' = "return"
    /\ UNCHANGED <<scn, solver, conv, todo, answer, nS, lits, strict, result>>

Outcomes ==
    (CASE answer = "SAT"   -> IF lits = << >> /\ Formula(scn.f).n > 0
                              THEN {Sat(<< >>), SatNone, Err("RuntimeError")}   \* no model given
                              ELSE {Sat(SortByVar(lits))}
       [] answer = "UNSAT" -> {Unsat}
       [] OTHER            -> {Err("RuntimeError")})
    \cup (IF strict THEN {} ELSE {Err("RuntimeError")})
Return ==
    /\ stage = "return"
    /\ \E o \in Outcomes : result' = Project(o)
    /\ stage' = "done"
    /\ UNCHANGED <<scn, solver, conv, tmpfiles, todo, answer, nS, lits, strict>>

Next == Resolve \/ Probe \/ WriteInput \/ Run \/ ParseLine \/ Cleanup \/ Return
Spec == Init /\ [][Next]_vars /\ WF_vars(Next)

-----------------------------------------------------------------------------
(* Properties.  They are stated on the scenario (what the solver printed,   *)
(* what is installed), not on the machine's parsing variables.              *)

Done    == stage = "done"
Out     == OutputRead(conv)                    \* meaningful once conv is set
Verdict == result.ret \in {"sat", "sat_none", "unsat", "true", "false"}
Positive == result.ret \in {"sat", "sat_none", "true"}
Negative == result.ret \in {"unsat", "false"}
Fm == Formula(scn.f)

TypeOK ==
    /\ stage \in {"resolve", "probe", "write", "run", "parse", "cleanup", "return", "done"}
    /\ conv \in {"", "stdin", "filein", "fileout"}
    /\ tmpfiles \subseteq {"cnf", "res"}
    /\ answer \in {"none", "SAT", "UNSAT"}
    /\ result.ret \in {"", "sat", "sat_none", "unsat", "true", "false", "RuntimeError", "ValueError"}
    /\ (result.ret = "") <=> ~Done

\* temporary files are removed: none at any exit, and none outside the solver call
NoLeak == Done => tmpfiles = {}
FilesOnlyDuringCall == tmpfiles # {} => stage \in {"run", "parse", "cleanup"}

\* the executable that is run is installed, is the one asked for (or a supported
\* one when nothing was asked for), and is spoken to in the convention it accepts
RightSolver ==
    solver # "" =>
        /\ solver \in scn.usable
        /\ CmdGiven => solver = scn.cmdname
        /\ ~CmdGiven => solver \in Names
        /\ Speaks(solver) \in {conv, "dual"}

\* (True, w): the solver said satisfiable, w is exactly the solver's literals,
\* ordered by variable, and (the solver being honest) satisfies the formula
IsSortedByVar(w) == \A i \in 1..(Len(w) - 1) : Abs(w[i]) < Abs(w[i + 1])
AsAssignment(w) == [v \in 1..Fm.n |-> v \in Range(w)]
ReturnTrueSound ==
    (Done /\ result.ret = "sat") =>
        /\ SaidSat(Out) /\ ~SaidUnsat(Out)
        /\ IsSortedByVar(result.w)
        /\ Range(result.w) = Range(PrintedLits(Out)) /\ Len(result.w) = Len(PrintedLits(Out))
        /\ (Len(result.w) = Fm.n => SatCNF(AsAssignment(result.w), Fm.cls))
        /\ (result.w = << >> => (Fm.n = 0 \/ PrintedLits(Out) = << >>))
\* (True, None) is tolerated only when the solver gave no model for a formula with variables
TrueNoneOnlyWithoutModel ==
    (Done /\ result.ret = "sat_none") => SaidSat(Out) /\ PrintedLits(Out) = << >> /\ Fm.n > 0
PositiveSound == (Done /\ Positive) => SaidSat(Out) /\ ~SaidUnsat(Out)
\* (False, None) <=> the solver answered unsatisfiable
NegativeSound == (Done /\ Negative) => SaidUnsat(Out) /\ ~SaidSat(Out)
\* a verdict needs a solver that was found, could be run, and valid arguments
VerdictNeedsSolver ==
    (Done /\ Verdict) => solver # "" /\ ~scn.runfault /\ ~BadSameas /\ ~Unsupported
\* an answer given in the documented convention is reported, not refused
AnswerReported ==
    (Done /\ solver # "" /\ ~scn.runfault /\ Conforming(Out)) =>
        /\ SaidUnsat(Out) => Negative
        /\ (SaidSat(Out) /\ (PrintedLits(Out) # << >> \/ Fm.n = 0)) => Positive /\ result.ret # "sat_none"
\* no answer, failing / missing / unsupported solver => RuntimeError; unknown sameas => ValueError
\* (either, when both conditions hold)
NoAnswerRaises ==
    (Done /\ solver # "" /\ ~SaidSat(Out) /\ ~SaidUnsat(Out)) => result.ret = "RuntimeError"
FailingSolverRaises == (Done /\ solver # "" /\ scn.runfault) => result.ret = "RuntimeError"
MissingSolverRaises ==
    (Done /\ UsableCands = {}) =>
        \/ result.ret = "RuntimeError"
        \/ result.ret = "ValueError" /\ (BadSameas \/ scn.cmdkind = "blank")
UnsupportedRaises ==
    (Done /\ Unsupported) => result.ret = "RuntimeError" \/ (result.ret = "ValueError" /\ BadSameas)
BadSameasRaises ==
    (Done /\ BadSameas) =>
        \/ result.ret = "ValueError"
        \/ result.ret = "RuntimeError" /\ (Unsupported \/ UsableCands = {} \/ scn.cmdkind = "blank")
\* each documented error only for its documented reason
ValueErrorOnlyDocumented == (Done /\ result.ret = "ValueError") => BadSameas \/ scn.cmdkind = "blank"
RuntimeErrorOnlyDocumented ==
    (Done /\ result.ret = "RuntimeError") =>
        \/ Unsupported \/ UsableCands = {} \/ scn.cmdkind = "blank" \/ scn.runfault
        \/ solver # "" /\ ( \/ ~SaidSat(Out) /\ ~SaidUnsat(Out)
                            \/ ~Conforming(Out)
                            \/ SaidSat(Out) /\ PrintedLits(Out) = << >> /\ Fm.n > 0 )
\* is_satisfiable() yields a bare boolean, solve() a pair
ApiShape == Done => (result.ret \in {"true", "false"} <=> (Verdict /\ scn.api = "is_satisfiable"))

\* files appear only in WriteInput and disappear only in Cleanup
FilesStepwise == [][tmpfiles' # tmpfiles => (stage = "write" \/ stage = "cleanup")]_vars
\* every call ends
Termination == <>Done

\* ---------------------------------------------------------------------------
\* Export: the scenario rendered to the concrete texts the fake solvers print

RECURSIVE JoinInts(_)
JoinInts(s) == IF s = << >> THEN "" ELSE " " \o ToString(Head(s)) \o JoinInts(Tail(s))
Text(l) ==
    CASE l.k = "c"      -> "c a comment line"
      [] l.k = "cx"     -> "c v 7 -8 0 s UNSATISFIABLE"
      [] l.k = "blank"  -> ""
      [] l.k = "sSAT"   -> "s SATISFIABLE"
      [] l.k = "sUNSAT" -> "s UNSATISFIABLE"
      [] l.k = "sOTHER" -> "s UNKNOWN"
      [] l.k = "sSHORT" -> "s"
      [] l.k = "v"      -> "v" \o JoinInts(l.lits) \o (IF l.z THEN " 0" ELSE "")
      [] l.k = "junk"   -> "WARNING: not a dimacs output line"
      [] l.k = "vjunk"  -> "version 1.0"
      [] l.k = "sjunk"  -> "starting search"
      [] l.k = "fSAT"   -> "SAT"
      [] l.k = "fUNSAT" -> "UNSAT"
      [] l.k = "fOTHER" -> "INDET"
      [] l.k = "flits"  -> JoinInts(l.lits) \o (IF l.z THEN " 0" ELSE "")
Texts(out) == AsSeq([i \in DOMAIN out |-> Text(out[i])])
KindsOf(out) == AsSeq([i \in DOMAIN out |-> out[i].k])

RECURSIVE JoinWords(_)
JoinWords(s) == IF s = << >> THEN "" ELSE " " \o Head(s) \o JoinWords(Tail(s))
CmdText(s) == IF s.cmdkind = "name" THEN s.cmdname \o JoinWords(s.cmdopts) ELSE s.blank

\* label of the scenario's distinguishing feature (used in finding keys only)
Shape(s) ==
    LET ks == {s.skel[i].k : i \in DOMAIN s.skel}
        sat == SaidSat(s.skel) \/ (s.fam \in {"rfile"} /\ SaidSat(s.rfile)) IN
    IF s.runfault THEN "exec-fails"
    ELSE IF s.rfmode = "remove" THEN "result-file-removed"
    ELSE IF "sSHORT" \in ks THEN "s-one-token"
    ELSE IF "vjunk" \in ks THEN "v-nonint"
    ELSE IF s.fam \in {"parse", "doc", "rfile"} /\ sat
            /\ PrintedLits(IF s.fam = "rfile" THEN s.rfile ELSE s.skel) = << >>
         THEN (IF Formula(s.f).n = 0 THEN "zero-var-sat" ELSE "sat-no-model")
    ELSE IF s.cmdkind # "name" THEN "no-cmd"
    ELSE "plain"

\* the executables present in the private PATH directory
Fakes(s) ==
    { [name |-> x,
       mode |-> IF x \in s.usable THEN "ok" ELSE "noexec",
       role |-> IF (s.cmdkind = "name" /\ x = s.cmdname) \/ (s.cmdkind # "name" /\ x \in Names)
                THEN "target" ELSE "decoy",
       speaks |-> IF s.cmdkind = "name" /\ x = s.cmdname /\ s.sameas \in Names
                  THEN ConvOf(s.sameas) ELSE SpeaksOf(x)] : x \in s.usable \cup s.noexec }

Render(s) ==
    [fam |-> s.fam, api |-> s.api, shape |-> Shape(s), f |-> s.f,
     n |-> Formula(s.f).n, cls |-> Formula(s.f).cls,
     cmdkind |-> s.cmdkind, cmd |-> CmdText(s), opts |-> s.cmdopts, sameas |-> s.sameas,
     fakes |-> Fakes(s), runfault |-> s.runfault,
     lines |-> Texts(s.skel), kinds |-> KindsOf(s.skel),
     rfile |-> Texts(s.rfile), rfmode |-> s.rfmode,
     exit |-> IF SaidSat(s.skel) \/ SaidSat(s.rfile) THEN 10
              ELSE IF SaidUnsat(s.skel) \/ SaidUnsat(s.rfile) THEN 20 ELSE 1]

Emit == (Export /\ Done) =>
            PrintT(ToJson([scn |-> Render(scn), out |-> result, conv |-> conv, tmp |-> tmpfiles]))
=============================================================================
