SPECIFICATION Spec
CONSTANTS GraphsDrawnBeforeSeed = FALSE
  FalsySeedSkipped = FALSE
  VersionFromCwd = TRUE
INVARIANT SameOutput
INVARIANT NoUnseededDraw
CHECK_DEADLOCK FALSE
