------------------------------- MODULE Graphs -------------------------------
(***************************************************************************)
(* Graph objects under update sequences (property C16).                    *)
(*                                                                         *)
(* The state is implementation-shaped: the adjacency lists kept sorted by  *)
(* bisect insertion, the edge set used for membership, the edge counter    *)
(* and the "still a dag" flag, exactly the fields cnfgen.graphs keeps for  *)
(* Graph / DirectedGraph / BipartiteGraph.  Next to it runs the abstract   *)
(* state: the vertex count(s) and the set E of edges actually inserted.    *)
(* The invariant ViewsAgree says that every view computed from the         *)
(* implementation-shaped fields equals the view derived from E.            *)
(*                                                                         *)
(* One action per public mutator.  A refused call (ValueError) is a step   *)
(* that changes nothing but `res`.  add_edges_from is the composition of   *)
(* add_edge steps that stops at the first refusal.                         *)
(***************************************************************************)
EXTENDS Integers, Sequences, FiniteSets, SequencesExt, TLC, Json

CONSTANTS Kind,      \* "simple" | "digraph" | "bipartite"
          MaxN,      \* vertex counts (each side, for bipartite) range over 0..MaxN
          Batches,   \* argument lists tried for add_edges_from
          NegArgs,   \* how many negative numbers the arguments range over (Python indices from the end)
          Depth      \* export: length of the behaviours printed (0 = no export)

VARIABLES n,        \* number of vertices (left side for bipartite)
          r,        \* right side (bipartite), else 0
          adj,      \* simple: adjlist; digraph: succ; bipartite: ladj   (vertex -> sorted seq)
          adjb,     \* digraph: pred; bipartite: radj; simple: unused (= adj)
          edgeset,  \* membership structure (both orientations for simple graphs)
          m,        \* edge counter
          dag,      \* DirectedGraph.still_a_dag
          E,        \* ABSTRACT: edges actually inserted (simple: <<min,max>>)
          res,      \* outcome of the last call: "ok" | "ValueError"
          act,      \* name of the last call
          hist      \* history of calls with the expected abstract views (export only)

implVars == <<n, r, adj, adjb, edgeset, m, dag>>
vars == <<n, r, adj, adjb, edgeset, m, dag, E, res, act, hist>>

-----------------------------------------------------------------------------
(* sequence helpers (the bisect/insert/remove the code uses)                *)

\* position after the last element <= x in the sorted sequence s (bisect_right)
BisectRight(s, x) == Cardinality({k \in 1..Len(s) : s[k] <= x})
InsAt(s, k, x) == SubSeq(s, 1, k) \o <<x>> \o SubSeq(s, k + 1, Len(s))
InsertSorted(s, x) == InsAt(s, BisectRight(s, x), x)
\* list.remove: drop the first occurrence
ListRemove(s, x) ==
    IF \E k \in 1..Len(s) : s[k] = x
    THEN LET k == CHOOSE j \in 1..Len(s) : s[j] = x /\ \A h \in 1..(j - 1) : s[h] # x
         IN  SubSeq(s, 1, k - 1) \o SubSeq(s, k + 1, Len(s))
    ELSE s
SortedSeq(S) == SetToSortSeq(S, <)
LexLess(a, b) == a[1] < b[1] \/ (a[1] = b[1] /\ a[2] < b[2])
SortedEdges(S) == SetToSortSeq(S, LexLess)

-----------------------------------------------------------------------------
(* abstract views, derived from (n, r, E) only                              *)

AbsNbr(v) ==      \* simple: neighbours; digraph: successors; bipartite: right nbrs of left v
    CASE Kind = "simple"    -> {u \in 1..n : <<u, v>> \in E \/ <<v, u>> \in E}
      [] Kind = "digraph"   -> {w \in 1..n : <<v, w>> \in E}
      [] Kind = "bipartite" -> {w \in 1..r : <<v, w>> \in E}
AbsNbrB(v) ==     \* digraph: predecessors; bipartite: left nbrs of right v
    CASE Kind = "digraph"   -> {u \in 1..n : <<u, v>> \in E}
      [] Kind = "bipartite" -> {u \in 1..n : <<u, v>> \in E}
      [] OTHER              -> AbsNbr(v)
AbsHas(u, v) == IF Kind = "simple" THEN <<u, v>> \in E \/ <<v, u>> \in E ELSE <<u, v>> \in E
AbsDag == \A e \in E : e[1] < e[2]
SideB == IF Kind = "bipartite" THEN r ELSE n

AbsViews == [ n     |-> n,
              r     |-> r,
              m     |-> Cardinality(E),
              edges |-> SortedEdges(E),
              nbr   |-> [v \in 1..n |-> SortedSeq(AbsNbr(v))],
              nbrb  |-> [v \in 1..SideB |-> SortedSeq(AbsNbrB(v))],
              dag   |-> IF Kind = "digraph" THEN AbsDag ELSE FALSE ]

-----------------------------------------------------------------------------
(* views as the implementation computes them                                *)

ImplEdges ==
    CASE Kind = "simple" ->     \* GraphEdgeList: for u in 1..n-1, entries of adjlist[u] above u
           LET Row(u) == SelectSeq(adj[u], LAMBDA v : v > u)
               RECURSIVE Cat(_)
               Cat(u) == IF u >= n THEN <<>> ELSE [k \in 1..Len(Row(u)) |-> <<u, Row(u)[k]>>] \o Cat(u + 1)
           IN  Cat(1)
      [] OTHER ->               \* for src in 1..n: for dest in succ[src]
           LET RECURSIVE Cat(_)
               Cat(u) == IF u > n THEN <<>> ELSE [k \in 1..Len(adj[u]) |-> <<u, adj[u][k]>>] \o Cat(u + 1)
           IN  Cat(1)

ViewsAgree ==
    /\ m = Cardinality(E)                                             \* number_of_edges
    /\ ImplEdges = SortedEdges(E)                                     \* edges(): sorted, each once
    /\ \A u, v \in 0..(MaxN + 1) : (<<u, v>> \in edgeset) <=> AbsHas(u, v)   \* has_edge
    /\ \A v \in 1..n : adj[v] = SortedSeq(AbsNbr(v))                  \* neighbours / successors
    /\ \A v \in 1..SideB : adjb[v] = SortedSeq(AbsNbrB(v))            \* predecessors / left nbrs
    /\ Kind = "digraph" => (dag <=> AbsDag)                           \* is_dag

TypeOK ==
    /\ n \in 0..MaxN /\ r \in 0..MaxN /\ m \in Nat /\ dag \in BOOLEAN
    /\ res \in {"ok", "ValueError", "init"}
    /\ DOMAIN adj = 1..n /\ DOMAIN adjb = 1..SideB

-----------------------------------------------------------------------------
Sizes == 0..MaxN
Args  == (0 - NegArgs)..(MaxN + 1)       \* includes 0, one vertex too many and negative numbers (Python indices from the end)

Log(name, args, outcome) ==
    /\ act' = name
    /\ IF Depth = 0 THEN hist' = hist
       ELSE hist' = Append(hist, [act |-> name, args |-> args, res |-> outcome, exp |-> AbsViews'])

Init ==
    /\ n \in Sizes
    /\ r \in (IF Kind = "bipartite" THEN Sizes ELSE {0})
    /\ adj = [v \in 1..n |-> <<>>]
    /\ adjb = [v \in 1..(IF Kind = "bipartite" THEN r ELSE n) |-> <<>>]
    /\ edgeset = {} /\ m = 0 /\ dag = TRUE /\ E = {} /\ res = "init" /\ act = "init"
    /\ hist = IF Depth = 0 THEN <<>>
              ELSE << [act |-> "init", args |-> <<n, r>>, res |-> "ok", exp |-> AbsViews] >>

\* --- the effect of one add_edge on the implementation-shaped fields --------
AddLegal(u, v) ==
    CASE Kind = "simple"    -> 1 <= u /\ u <= n /\ 1 <= v /\ v <= n /\ u # v
      [] Kind = "digraph"   -> 1 <= u /\ u <= n /\ 1 <= v /\ v <= n
      [] Kind = "bipartite" -> 1 <= u /\ u <= n /\ 1 <= v /\ v <= r

\* state record -> state record, so that add_edges_from can fold it
St == [adj |-> adj, adjb |-> adjb, edgeset |-> edgeset, m |-> m, dag |-> dag, E |-> E]

AddStep(s, u, v) ==     \* precondition: AddLegal(u, v)
    IF <<u, v>> \in s.edgeset THEN s
    ELSE CASE Kind = "simple" ->
                LET a == IF u < v THEN u ELSE v
                    b == IF u < v THEN v ELSE u
                    adj1 == [s.adj EXCEPT ![a] = InsertSorted(@, b)]
                    adj2 == [adj1 EXCEPT ![b] = InsertSorted(@, a)]
                IN  [adj |-> adj2, adjb |-> adj2, edgeset |-> s.edgeset \cup {<<a, b>>, <<b, a>>},
                     m |-> s.m + 1, dag |-> s.dag, E |-> s.E \cup {<<a, b>>}]
           [] Kind = "digraph" ->
                [adj |-> [s.adj EXCEPT ![u] = InsertSorted(@, v)],
                 adjb |-> [s.adjb EXCEPT ![v] = InsertSorted(@, u)],
                 edgeset |-> s.edgeset \cup {<<u, v>>}, m |-> s.m + 1,
                 dag |-> IF u >= v THEN FALSE ELSE s.dag, E |-> s.E \cup {<<u, v>>}]
           [] Kind = "bipartite" ->
                [adj |-> [s.adj EXCEPT ![u] = InsertSorted(@, v)],
                 adjb |-> [s.adjb EXCEPT ![v] = InsertSorted(@, u)],
                 edgeset |-> s.edgeset \cup {<<u, v>>}, m |-> s.m + 1,
                 dag |-> s.dag, E |-> s.E \cup {<<u, v>>}]

Install(s) ==
    /\ adj' = s.adj /\ adjb' = s.adjb /\ edgeset' = s.edgeset
    /\ m' = s.m /\ dag' = s.dag /\ E' = s.E

AddEdge(u, v) ==
    /\ UNCHANGED <<n, r>>
    /\ IF AddLegal(u, v)
       THEN Install(AddStep(St, u, v)) /\ res' = "ok"
       ELSE UNCHANGED <<adj, adjb, edgeset, m, dag, E>> /\ res' = "ValueError"
    /\ Log("add_edge", <<u, v>>, res')

\* add_edges_from(<<e1, e2>>): successive add_edge, stops at the first refusal
RECURSIVE Fold(_, _)
Fold(s, es) ==      \* returns <<state, outcome>>
    IF es = <<>> THEN <<s, "ok">>
    ELSE LET e == Head(es) IN
         IF AddLegal(e[1], e[2]) THEN Fold(AddStep(s, e[1], e[2]), Tail(es))
         ELSE <<s, "ValueError">>
AddEdgesFrom(es) ==
    /\ UNCHANGED <<n, r>>
    /\ LET f == Fold(St, es) IN Install(f[1]) /\ res' = f[2]
    /\ Log("add_edges_from", es, res')

\* simple graphs only
RemoveEdge(u, v) ==
    /\ Kind = "simple"
    /\ UNCHANGED <<n, r, dag>>
    /\ IF <<u, v>> \in edgeset
       THEN /\ edgeset' = edgeset \ {<<u, v>>, <<v, u>>}
            /\ LET adj1 == [adj EXCEPT ![u] = ListRemove(@, v)]
                   adj2 == [adj1 EXCEPT ![v] = ListRemove(@, u)]
               IN  adj' = adj2 /\ adjb' = adj2
            /\ m' = m - 1
            /\ E' = E \ {<<u, v>>, <<v, u>>}
       ELSE UNCHANGED <<adj, adjb, edgeset, m, E>>
    /\ res' = "ok"
    /\ Log("remove_edge", <<u, v>>, res')

UpdateVertexNumber(k) ==
    /\ Kind = "simple"
    /\ UNCHANGED <<r, edgeset, m, dag, E>>
    /\ IF k < 0
       THEN UNCHANGED <<n, adj, adjb>> /\ res' = "ValueError"
       ELSE /\ n' = IF k > n THEN k ELSE n
            /\ adj' = [v \in 1..n' |-> IF v <= n THEN adj[v] ELSE <<>>]
            /\ adjb' = adj'
            /\ res' = "ok"
    /\ Log("update_vertex_number", <<k>>, res')

Pairs == Args \X Args
AllBatches == {<<e1, e2>> : e1, e2 \in Pairs}
\* the export configs use a hand-picked set of batches instead of all pairs of pairs
SomeBatches == { <<>>, << <<1, 2>> >>, << <<1, 2>>, <<2, 3>> >>, << <<1, 2>>, <<0, 1>> >>,
                 << <<MaxN + 1, 1>>, <<1, 2>> >>, << <<2, 1>>, <<1, 2>> >>,
                 << <<1, 3>>, <<2, 2>>, <<2, 3>> >>, << <<3, 1>>, <<1, 1>> >> }
Next ==
    /\ (Depth = 0 \/ Len(hist) <= Depth)
    /\ \/ \E u, v \in Args : AddEdge(u, v)
       \/ \E u, v \in Args : RemoveEdge(u, v)
       \/ \E k \in -1..MaxN : UpdateVertexNumber(k)
       \/ \E es \in Batches : AddEdgesFrom(es)

Spec == Init /\ [][Next]_vars

-----------------------------------------------------------------------------
(* properties of the model                                                  *)

\* a refused call has no side effect; a duplicate insertion changes nothing
\* (add_edges_from keeps the edges inserted before the refused one: it is the
\* composition of add_edge calls, which is what the code does)
RefusalIsNoop == [][(res' = "ValueError" /\ act' # "add_edges_from") => UNCHANGED implVars]_vars
EdgesOnlyGrowByAdd ==
    [][\A e \in E' \ E : AddLegal(e[1], e[2]) \/ AddLegal(e[2], e[1])]_vars

\* exhaustive config hides the observation variables
ModelView == <<n, r, adj, adjb, edgeset, m, dag, E>>

\* export config: print every behaviour with Depth calls (hist[1] is the constructor)
Emit == (Depth > 0 /\ Len(hist) = Depth + 1) => PrintT(ToJson([kind |-> Kind, hist |-> hist]))
=============================================================================
