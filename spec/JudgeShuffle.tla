---------------------------- MODULE JudgeShuffle ----------------------------
(***************************************************************************)
(* Trace module for C09.  One record per call of the real Shuffle (library *)
(* call, cnfshuffle tool, cnfgen ... -T shuffle):                          *)
(*                                                                         *)
(*   [id, route,                                                           *)
(*    F: [nvars, clauses],            the formula handed to Shuffle        *)
(*    G: [nvars, clauses],            what came back (0 / <<>> on error)   *)
(*    args: [flips, perm, cperm]      each [k: shuffle|fixed|explicit|     *)
(*                                          wrongtype, v: <<int>>]         *)
(*    outcome: "ok" | exception class name,                                *)
(*    hasw: 0|1, w: [f, p, cmap]]     the witness the code says it used    *)
(*                                    (hook), cmap = <<<<old, new>>, ...>> *)
(*                                    0-based positions                    *)
(*                                                                         *)
(* Verdict (first failing clause):                                         *)
(*  1. the outcome is one of AllowedOutcomes(F, args): invalid explicit    *)
(*     arguments are refused with ValueError, valid ones are not refused;  *)
(*  2. on success: same number of variables and clauses, literals in range;*)
(*  3. the recorded witness, if any, is valid, agrees with the arguments   *)
(*     (identity for 'fixed', the sequence itself for explicit ones) and   *)
(*     G = Apply(F, witness)  (clauses as multisets of literals);          *)
(*  4. if 3 does not settle it (no witness recorded, or the recorded one   *)
(*     does not check out) and either both flips and variable permutation  *)
(*     are determined by the arguments or the formula is small (<= 5       *)
(*     variables, <= 6 clauses): TLC searches all admissible witnesses --  *)
(*     the verdict is then exact whatever the hook says;                   *)
(*  5. otherwise, with a recorded witness that does not check out: fail;   *)
(*     without one: only the invariants implied by the property are        *)
(*     checked (ShuffleMC: they never reject an explained output); the     *)
(*     harness counts these records as judged_by.invariants_only.          *)
(***************************************************************************)
EXTENDS Shuffle, Json, IOUtils

Trace == ndJsonDeserialize(IOEnv.TRACE_FILE)
VARIABLE pos
vars == <<pos>>

SmallVars    == 5
SmallClauses == 6

\* the recorded clause mapping as the documented sequence S (S[i] = new position of clause i-1)
ValidCMap(M, cmap) == /\ Len(cmap) = M
                      /\ \A k \in 1..M : Len(cmap[k]) = 2
                      /\ {cmap[k][1] : k \in 1..M} = 0..(M - 1)
                      /\ {cmap[k][2] : k \in 1..M} = 0..(M - 1)
CPermOfMap(cmap) == [i \in 1..Len(cmap) |-> cmap[CHOOSE k \in 1..Len(cmap) : cmap[k][1] = i - 1][2]]

Searchable(F, args) ==
    \/ args.flips.k # "shuffle" /\ args.perm.k # "shuffle"
    \/ NVars(F) <= SmallVars /\ NClauses(F) <= SmallClauses

\* why a recorded witness does not check out ("ok" if it does)
WitnessVerdict(r) ==
    LET F == r.F  G == r.G  N == NVars(F)  M == NClauses(F) IN
    IF ~ValidFlips(N, r.w.f) THEN "witness_flips_invalid"
    ELSE IF ~ValidPerm(N, r.w.p) THEN "witness_variable_map_not_a_bijection"
    ELSE IF ~ValidCMap(M, r.w.cmap) THEN "witness_clause_map_not_a_bijection"
    ELSE LET w == [f |-> r.w.f, p |-> r.w.p, c |-> CPermOfMap(r.w.cmap)] IN
         IF ~AdmitsFlips(N, r.args.flips, w.f)
            THEN (IF r.args.flips.k = "fixed" THEN "fixed_flips_not_identity" ELSE "explicit_flips_not_used_as_given")
         ELSE IF ~AdmitsPerm(N, r.args.perm, w.p)
            THEN (IF r.args.perm.k = "fixed" THEN "fixed_variables_not_identity" ELSE "explicit_variable_permutation_not_used_as_given")
         ELSE IF ~AdmitsCPerm(M, r.args.cperm, w.c)
            THEN (IF r.args.cperm.k = "fixed" THEN "fixed_clause_order_not_identity" ELSE "explicit_clause_permutation_not_used_as_given")
         ELSE IF ~IsSignedRenaming(F, G, w) THEN "output_is_not_Apply_of_recorded_witness"
         ELSE "ok"

\* name of the failure when the search finds no admissible witness
SearchFailure(r) ==
    LET F == r.F  G == r.G
        anyw == [flips |-> [k |-> "shuffle", v |-> <<>>], perm |-> [k |-> "shuffle", v |-> <<>>],
                 cperm |-> [k |-> "shuffle", v |-> <<>>]]
    IN  IF r.args = anyw THEN "not_a_signed_renaming_of_the_input"
        ELSE IF NVars(F) <= SmallVars /\ NClauses(F) <= SmallClauses /\ ExplainedFast(F, anyw, G)
             THEN "signed_renaming_but_not_the_one_given_by_the_arguments"
        ELSE "not_Apply_of_the_given_arguments"

SuccessVerdict(r) ==
    LET F == r.F  G == r.G IN
    IF NVars(G) # NVars(F) THEN "number_of_variables_changed"
    ELSE IF NClauses(G) # NClauses(F) THEN "number_of_clauses_changed"
    ELSE IF ~WellFormed(NVars(G), G.clauses) THEN "literal_out_of_range"
    ELSE LET wv == IF r.hasw = 1 THEN WitnessVerdict(r) ELSE "no_witness" IN
         IF wv = "ok" THEN "ok"
         ELSE IF Searchable(F, r.args)
              THEN (IF ExplainedFast(F, r.args, G) THEN "ok" ELSE SearchFailure(r))
         ELSE IF r.hasw = 1 THEN wv
         ELSE IF ~SameWidthBag(F, G) THEN "clause_widths_changed"
         ELSE IF ~SameShapeBag(F, G) THEN "clause_shapes_changed"
         ELSE IF ~SameProfileBag(F, G) THEN "variable_occurrence_profiles_changed"
         ELSE "ok"

Verdict(r) ==
    IF ~ArgsWellTagged(r.args) \/ ~WellFormed(NVars(r.F), r.F.clauses) THEN "malformed_record"
    ELSE LET allowed == AllowedOutcomes(r.F, r.args) IN
         IF r.outcome \notin allowed
         THEN (IF r.outcome = "ok" THEN "invalid_arguments_accepted"
               ELSE IF "ok" \in allowed THEN "valid_arguments_refused_" \o r.outcome
               ELSE "invalid_arguments_raise_" \o r.outcome)
         ELSE IF r.outcome # "ok" THEN "ok"
         ELSE SuccessVerdict(r)

Init == pos = 1
Next == /\ pos <= Len(Trace)
        /\ PrintT(<<"VERDICT", Trace[pos].id, Verdict(Trace[pos])>>)
        /\ pos' = pos + 1
Spec == Init /\ [][Next]_vars
AllJudged == TLCGet("distinct") = Len(Trace) + 1
=============================================================================
