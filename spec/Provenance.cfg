SPECIFICATION Spec
CONSTANTS MaxObjects = 4
  MaxSteps = 5
INVARIANT ChainNumbering
PROPERTY NoAlias
PROPERTY ProvenanceStep
CHECK_DEADLOCK FALSE
