------------------------------ MODULE LinearMC ------------------------------
(***************************************************************************)
(* "TLC on the model" for C04: the documented encodings (clause blasting of *)
(* cardinality constraints, parity, OPB normalisation, binary mapping       *)
(* clauses) mean what the constraint says, for every literal list over 3    *)
(* variables (any polarity, repetitions), every operator and every constant *)
(* from below 0 to above the length.                                        *)
(***************************************************************************)
EXTENDS Linear, TLC

CONSTANT Part    \* "blast" | "parity" | "norm" | "binmap"

VARIABLE inst
vars == <<inst>>

NV == 3
LitSet == {l \in -NV..NV : l # 0}
SeqsUpTo(S, n) == UNION {[1..k -> S] : k \in 0..n}

Instances ==
    CASE Part = "blast"  -> {[lits |-> ls, op |-> op, k |-> k] :
                                ls \in SeqsUpTo(LitSet, 4), op \in Ops, k \in -2..6}
      [] Part = "parity" -> {[lits |-> ls, odd |-> b] : ls \in SeqsUpTo(LitSet, 4), b \in BOOLEAN}
      [] Part = "norm"   -> {[terms |-> ts, op |-> op, deg |-> d] :
                                ts \in SeqsUpTo(({-2, -1, 1, 2, 3}) \X LitSet, 2) \cup
                                       {<<<<c1, 1>>, <<c2, -2>>, <<c3, 3>>>> : c1, c2, c3 \in {-2, -1, 1, 3}},
                                op \in {"<=", ">=", "<", ">", "=="}, d \in -4..5}
      [] Part = "binmap" -> {[n |-> n, m |-> m] : n \in 1..3, m \in 1..5}

Init == inst \in Instances
Next == UNCHANGED inst
Spec == Init /\ [][Next]_vars

Blast_Correct ==
    Part = "blast" =>
      /\ inst.k > Len(inst.lits) + 2 \/
         \A a \in Assignments(NV) :
            SatClauses(a, Blast(inst.lits, inst.op, inst.k)) <=> MeaningLinear(a, inst.lits, inst.op, inst.k)

Parity_Correct ==
    Part = "parity" =>
      \A a \in Assignments(NV) :
         SatClauses(a, ParityEnc(inst.lits, inst.odd)) <=> MeaningParity(a, inst.lits, inst.odd)

Normalize_Correct ==
    Part = "norm" =>
      LET c == [terms |-> inst.terms, op |-> inst.op, deg |-> inst.deg]
          d == Normalize(c)
      IN  /\ IsNormal(d)
          /\ \A i \in 1..Len(d.terms) : d.terms[i][1] > 0
          /\ \A a \in Assignments(NV) : SatPB(a, c) <=> SatPB(a, d)

\* binary mappings: variables v(i,b) -> identifier (i-1)*bits + (bits-b), most significant first
BinMap_Correct ==
    Part = "binmap" =>
      LET n == inst.n  m == inst.m
          bits == CeilLog2(m)
          id(i, b) == (i - 1) * bits + (bits - b)
          \* the clause that is false exactly when i is mapped to code j
          forbid(i, j) == [t \in 1..bits |-> IF Bit(j, bits - t) = 0 THEN id(i, bits - t) ELSE -id(i, bits - t)]
          RECURSIVE code(_, _, _)
          code(a, i, b) == IF b < 0 THEN 0 ELSE (IF a[id(i, b)] THEN Pow2(b) ELSE 0) + code(a, i, b - 1)
          complete == {forbid(i, j) : i \in 1..n, j \in m..(Pow2(bits) - 1)}
          inj == {forbid(t[1], t[3]) \o forbid(t[2], t[3]) :
                     t \in {w \in (1..n) \X (1..n) \X (0..(m - 1)) : w[1] < w[2]}}
          nondec == {forbid(t[1], t[4]) \o forbid(t[2], t[3]) :
                     t \in {w \in (1..n) \X (1..n) \X (0..(m - 1)) \X (0..(m - 1)) : w[1] < w[2] /\ w[3] < w[4]}}
      IN  \A a \in Assignments(n * bits) :
             LET h(i) == code(a, i, bits - 1) IN
             /\ SatClauses(a, complete) <=> BinComplete(n, m, h)
             /\ SatClauses(a, inj) <=> BinInjective(n, m, h)
             /\ SatClauses(a, nondec) <=> BinNonDecreasing(n, m, h)
=============================================================================
