\* Exhaustive model check, k-XOR, with the bound of the code (10 tries per item).
SPECIFICATION SpecMC
CONSTANTS
  Kind = "kxor"
  K = 2
  N = 2
  Ps <- PsUpTo2
  Ms <- MsAll
  Pools <- PoolFull
  DensePicks <- EveryPick
  TriesFactor = 10
INVARIANT TypeOK
INVARIANT AccInAll
INVARIANT AccDistinct
INVARIANT LoopBound
INVARIANT DoneCount
INVARIANT FailRule
INVARIANT DoneShape
PROPERTY Terminates
PROPERTY ParamsFixed
PROPERTY DenseOnlyWhenShort
VIEW ModelView
CHECK_DEADLOCK TRUE
