----------------------------- MODULE CliTable -----------------------------
(***************************************************************************)
(* The command line tools (properties C17, C18, C07).                      *)
(*                                                                         *)
(* Part 1 - LibCall table (C17): for every formula sub-command, option     *)
(*   combination and transformation, the library call the documentation    *)
(*   says the command line stands for.  A command is                       *)
(*     [tool, argv (sequence of string tokens), call, chain]               *)
(*   call = [pre, fn, pos]; pos = sequence of argument values              *)
(*   [t, i, s] (t = "int" | "bool" | "graph" | "ilist" | "str" | "ref");   *)
(*   pre = calls whose result is bound to a name and used as "ref".        *)
(*   Graph arguments are named; GraphSpec gives the command line tokens of *)
(*   each name, so argv and the library call talk about the same graph.    *)
(*                                                                         *)
(* Part 2 - the pipeline as a state machine (C18, C07): stages Parse ->    *)
(*   Seed -> Build -> Transform* -> Header -> Write with a possible        *)
(*   failure at every stage, the terminal outcomes a user may observe, and *)
(*   the product of two runs for determinism.                              *)
(***************************************************************************)
EXTENDS Integers, Sequences, FiniteSets, TLC, Json

-----------------------------------------------------------------------------
(* Part 1: the LibCall table                                                *)

A(t, i, s) == [t |-> t, i |-> i, s |-> s]
I(n)  == A("int", n, "")
Bo(b) == A("bool", IF b THEN 1 ELSE 0, "")
Gr(g) == A("graph", 0, g)
Ref(x) == A("ref", 0, x)
Str(x) == A("str", 0, x)
RECURSIVE Join(_)
Join(s) == IF s = <<>> THEN "" ELSE IF Len(s) = 1 THEN ToString(s[1])
           ELSE ToString(s[1]) \o "," \o Join(Tail(s))
Il(s) == A("ilist", 0, Join(s))
S(n) == ToString(n)                     \* integer token on the command line

Call(fn, pos) == [pre |-> <<>>, fn |-> fn, pos |-> pos]
CallPre(pre, fn, pos) == [pre |-> pre, fn |-> fn, pos |-> pos]
Pre(name, fn, pos) == [name |-> name, fn |-> fn, pos |-> pos]

\* named graphs: type, command line tokens, number of vertices (left, right for bipartite)
GraphSpec ==
    [ g4  |-> [gtype |-> "simple",    spec |-> <<"grid", "2", "2">>,            n |-> 4, r |-> 0],
      k3  |-> [gtype |-> "simple",    spec |-> <<"complete", "3">>,             n |-> 3, r |-> 0],
      e2  |-> [gtype |-> "simple",    spec |-> <<"empty", "2">>,                n |-> 2, r |-> 0],
      t33 |-> [gtype |-> "simple",    spec |-> <<"torus", "3", "3">>,           n |-> 9, r |-> 0],
      k4p |-> [gtype |-> "simple",    spec |-> <<"empty", "4", "plantclique", "3">>, n |-> 4, r |-> 0],
      g3s |-> [gtype |-> "simple",    spec |-> <<"grid", "3", "2", "splitedges", "2">>, n |-> 8, r |-> 0],
      g4a |-> [gtype |-> "simple",    spec |-> <<"grid", "2", "2", "addedges", "1", "splitedges", "1">>, n |-> 5, r |-> 0],
      bpa |-> [gtype |-> "bipartite", spec |-> <<"empty", "3", "3", "plantbiclique", "2", "2", "addedges", "2">>, n |-> 3, r |-> 3],
      \* graphs read from files the harness writes ("%file:<name>" stands for the path): the null graph,
      \* a path on three vertices, and the same path file followed by a modifier
      nul |-> [gtype |-> "simple",    spec |-> <<"%file:null.dimacs">>,                  n |-> 0, r |-> 0],
      fp3 |-> [gtype |-> "simple",    spec |-> <<"%file:p3.dimacs">>,                    n |-> 3, r |-> 0],
      fpk |-> [gtype |-> "simple",    spec |-> <<"%file:p3.dimacs", "plantclique", "3">>, n |-> 3, r |-> 0],
      fpa |-> [gtype |-> "simple",    spec |-> <<"%file:p3.dimacs", "addedges", "1">>,   n |-> 3, r |-> 0],
      b23 |-> [gtype |-> "bipartite", spec |-> <<"complete", "2", "3">>,        n |-> 2, r |-> 3],
      bsh |-> [gtype |-> "bipartite", spec |-> <<"shift", "3", "4", "1", "2">>, n |-> 3, r |-> 4],
      py2 |-> [gtype |-> "dag",       spec |-> <<"pyramid", "2">>,              n |-> 6, r |-> 0],
      pa3 |-> [gtype |-> "dag",       spec |-> <<"path", "3">>,                 n |-> 4, r |-> 0],
      tr2 |-> [gtype |-> "dag",       spec |-> <<"tree", "2">>,                 n |-> 7, r |-> 0] ]
Simple == {"g4", "k3", "e2", "k4p"}
FromFile == {"nul", "fp3", "fpk", "fpa"}
Modified == {"g3s", "g4a"}          \* graphs built with random modifiers: only the saved file names them
Bips   == {"b23", "bsh"}
Dags   == {"py2", "pa3", "tr2"}
\* in argv a graph argument appears as the placeholder "@name"; its tokens are GraphSpec[name].spec
GTok(g) == << "@" \o g >>

Cmd(argv, call) == [argv |-> argv, call |-> call]
B2 == BOOLEAN
Opt(b, tok) == IF b THEN <<tok>> ELSE <<>>

PhpCmds ==
       {Cmd(<<"php", S(n)>> \o Opt(f, "--functional") \o Opt(o, "--onto"),
            Call("PigeonholePrinciple", <<I(n + 1), I(n), Bo(f), Bo(o)>>)) : n \in 0..3, f \in B2, o \in B2}
  \cup {Cmd(<<"php", S(m), S(n)>> \o Opt(f, "--functional") \o Opt(o, "--onto"),
            Call("PigeonholePrinciple", <<I(m), I(n), Bo(f), Bo(o)>>)) : m \in 0..3, n \in 0..3, f \in B2, o \in B2}
  \cup {Cmd(<<"php", S(m), S(n), S(n)>>,
            Call("PigeonholePrinciple", <<I(m), I(n), Bo(FALSE), Bo(FALSE)>>)) : m \in 1..3, n \in 1..3}
  \cup {Cmd(<<"php", S(t[1]), S(t[2]), S(t[3])>> \o Opt(f, "--functional"),
            CallPre(<< Pre("B", "bipartite_random_left_regular", <<I(t[1]), I(t[2]), I(t[3])>>) >>,
                    "GraphPigeonholePrinciple", <<Ref("B"), Bo(f), Bo(FALSE)>>)) :
            t \in {<<4, 3, 2>>, <<3, 4, 1>>, <<5, 4, 3>>}, f \in B2}
  \cup {Cmd(<<"php">> \o GTok(g) \o Opt(f, "--functional") \o Opt(o, "--onto"),
            Call("GraphPigeonholePrinciple", <<Gr(g), Bo(f), Bo(o)>>)) : g \in Bips, f \in B2, o \in B2}

SimpleFamilyCmds ==
       {Cmd(<<"bphp", S(m), S(n)>>, Call("BinaryPigeonholePrinciple", <<I(m), I(n)>>)) : m \in 1..3, n \in 1..5}
  \cup {Cmd(<<"cliquecoloring", S(n), S(k), S(c)>>, Call("CliqueColoring", <<I(n), I(k), I(c)>>)) :
            n \in 0..4, k \in 1..2, c \in 1..2}
  \cup {Cmd(<<"ram", S(s), S(k), S(n)>>, Call("RamseyNumber", <<I(s), I(k), I(n)>>)) : s \in 1..3, k \in 1..3, n \in 0..4}
  \cup {Cmd(<<"vdw", S(n), S(k1), S(k2)>>, Call("VanDerWaerden", <<I(n), I(k1), I(k2)>>)) : n \in 0..6, k1 \in 1..3, k2 \in 2..3}
  \cup {Cmd(<<"vdw", S(n), "2", "3", S(k3)>>, Call("VanDerWaerden", <<I(n), I(2), I(3), I(k3)>>)) : n \in 0..5, k3 \in 1..3}
  \cup {Cmd(<<"vdw", "5", "2", "2", "2", "3">>, Call("VanDerWaerden", <<I(5), I(2), I(2), I(2), I(3)>>))}
  \cup {Cmd(<<"ptn", S(n)>>, Call("PythagoreanTriples", <<I(n)>>)) : n \in {0, 1, 5, 13, 25}}
  \cup {Cmd(<<"rphp", S(p), S(r), S(h)>>, Call("RelativizedPigeonholePrinciple", <<I(p), I(r), I(h)>>)) :
            p \in 0..2, r \in 0..2, h \in 0..2}
  \cup {Cmd(<<"parity", S(n)>>, Call("CountingPrinciple", <<I(n), I(2)>>)) : n \in 0..6}
  \cup {Cmd(<<"count", S(m), S(p)>>, Call("CountingPrinciple", <<I(m), I(p)>>)) : m \in 0..6, p \in 1..3}
  \cup {Cmd(<<"cpls", S(a), S(b), S(c)>>, Call("CPLSFormula", <<I(a), I(b), I(c)>>)) : a \in 1..2, b \in {1, 2, 4}, c \in {1, 2}}
  \cup {Cmd(<<"pitfall", S(t[1]), S(t[2]), S(t[3]), S(t[4]), S(t[5])>>,
            Call("PitfallFormula", <<I(t[1]), I(t[2]), I(t[3]), I(t[4]), I(t[5])>>)) :
            t \in {<<2, 1, 2, 2, 2>>, <<4, 2, 2, 3, 2>>, <<4, 3, 3, 2, 4>>}}
  \cup {Cmd(<<"randkcnf", S(k), S(n), S(m)>>, Call("RandomKCNF", <<I(k), I(n), I(m)>>)) :
            k \in 1..3, n \in 3..5, m \in {0, 3, 6}}
  \cup {Cmd(<<"randkxor", S(k), S(n), S(m)>>, Call("RandomKXOR", <<I(k), I(n), I(m)>>)) :
            k \in 1..3, n \in 3..5, m \in {0, 2, 3}}
  \* --plant: the command line draws a hidden total assignment and plants it.  Which random numbers it
  \* consumes for that is not documented, so no library call can be named that yields the very same formula:
  \* the variant is judged existentially by C13 (JudgeSampler: some total assignment satisfies every clause;
  \* shape and count as promised), not here.

Charges(kind, n) == CASE kind = "first" -> [v \in 1..n |-> IF v = 1 THEN 1 ELSE 0]
                      [] kind = "zero"  -> [v \in 1..n |-> 0]
                      [] kind = "one"   -> [v \in 1..n |-> 1]
GraphFamilyCmds ==
       {Cmd(<<"matching">> \o GTok(g), Call("PerfectMatchingPrinciple", <<Gr(g)>>)) : g \in Simple}
  \cup {Cmd(<<"tseitin", c>> \o GTok(g), Call("TseitinFormula", <<Gr(g), Il(Charges(c, GraphSpec[g].n))>>)) :
            c \in {"first", "zero", "one"}, g \in Simple}
  \cup {Cmd(<<"subsetcard">> \o GTok(g) \o Opt(e, "--equal"), Call("SubsetCardinalityFormula", <<Gr(g), Bo(e)>>)) :
            g \in Bips, e \in B2}
  \cup {Cmd(<<"kcolor", S(k)>> \o GTok(g), Call("GraphColoringFormula", <<Gr(g), I(k)>>)) : k \in 1..3, g \in Simple}
  \cup {Cmd(<<"ec">> \o GTok(g), Call("EvenColoringFormula", <<Gr(g)>>)) : g \in {"g4", "e2", "t33"}}
  \cup {Cmd(<<"domset">> \o Opt(a, "--alternative") \o <<S(d)>> \o GTok(g), Call("DominatingSet", <<Gr(g), I(d), Bo(a)>>)) :
            a \in B2, d \in 1..2, g \in Simple}
  \cup {Cmd(<<"tiling">> \o GTok(g), Call("Tiling", <<Gr(g)>>)) : g \in Simple \cup Modified}
  \cup {Cmd(<<"kcolor", "2">> \o GTok(g), Call("GraphColoringFormula", <<Gr(g), I(2)>>)) : g \in Modified}
  \cup {Cmd(<<"tseitin", "first">> \o GTok(g), Call("TseitinFormula", <<Gr(g), Il(Charges("first", GraphSpec[g].n))>>)) : g \in Modified}
  \* the same file named twice in one command line, the second time with a modifier: each argument
  \* is its own graph
  \cup {Cmd(<<"iso">> \o GTok(g) \o <<"-e">> \o GTok(h), Call("GraphIsomorphism", <<Gr(g), Gr(h)>>)) :
            g \in FromFile, h \in FromFile}
  \cup {Cmd(<<"iso">> \o GTok(g), Call("GraphAutomorphism", <<Gr(g)>>)) : g \in FromFile}
  \cup {Cmd(<<"subgraph", "-G">> \o GTok(g) \o <<"-H">> \o GTok(h),
            Call("SubgraphFormula", <<Gr(g), Gr(h), Bo(FALSE), Bo(FALSE)>>)) : g \in {"fpk", "fpa"}, h \in {"fp3", "nul"}}
  \cup {Cmd(<<"kcolor", "2">> \o GTok(g), Call("GraphColoringFormula", <<Gr(g), I(2)>>)) : g \in FromFile}
  \cup {Cmd(<<"php">> \o GTok("bpa"), Call("GraphPigeonholePrinciple", <<Gr("bpa"), Bo(FALSE), Bo(FALSE)>>))}
  \cup {Cmd(<<"iso">> \o GTok(g), Call("GraphAutomorphism", <<Gr(g)>>)) : g \in Simple}
  \cup {Cmd(<<"iso">> \o GTok(g) \o <<"-e">> \o GTok(h), Call("GraphIsomorphism", <<Gr(g), Gr(h)>>)) :
            g \in Simple, h \in Simple}
  \cup {Cmd(<<"kclique", S(k)>> \o GTok(g) \o Opt(~sb, "--no-symmetry-breaking"),
            Call("CliqueFormula", <<Gr(g), I(k), Bo(sb)>>)) : k \in 0..3, g \in Simple, sb \in B2}
  \cup {Cmd(<<"kcliquebin", S(k)>> \o GTok(g), Call("BinaryCliqueFormula", <<Gr(g), I(k)>>)) : k \in 1..3, g \in Simple}
  \cup {Cmd(<<"ramlb", S(k), S(s)>> \o GTok(g), Call("RamseyWitnessFormula", <<Gr(g), I(k), I(s)>>)) :
            k \in 1..3, s \in 1..3, g \in Simple}
  \cup {Cmd(<<"subgraph", "-G">> \o GTok(g) \o <<"-H">> \o GTok(h),
            Call("SubgraphFormula", <<Gr(g), Gr(h), Bo(FALSE), Bo(FALSE)>>)) : g \in Simple, h \in {"k3", "e2"}}
  \cup {Cmd(<<"peb">> \o GTok(d), Call("PebblingFormula", <<Gr(d)>>)) : d \in Dags}
  \cup {Cmd(<<"stone", S(s)>> \o GTok(d), Call("StoneFormula", <<Gr(d), I(s)>>)) : s \in 1..3, d \in Dags}
  \cup {Cmd(<<"stone", S(t[1])>> \o GTok(d) \o <<"--sparse", S(t[2])>>,
            CallPre(<< Pre("B", "bipartite_random_left_regular", <<I(GraphSpec[d].n), I(t[1]), I(t[2])>>) >>,
                    "SparseStoneFormula", <<Gr(d), Ref("B")>>)) : t \in {<<3, 2>>, <<4, 1>>, <<2, 2>>}, d \in Dags}

\* ordering principle: the mutually exclusive variant flags, and --plant
OpVariants == { [tok |-> <<>>,            total |-> FALSE, smart |-> FALSE, knuth |-> 0],
                [tok |-> <<"--total">>,   total |-> TRUE,  smart |-> FALSE, knuth |-> 0],
                [tok |-> <<"--smart">>,   total |-> FALSE, smart |-> TRUE,  knuth |-> 0],
                [tok |-> <<"--knuth2">>,  total |-> FALSE, smart |-> FALSE, knuth |-> 2],
                [tok |-> <<"--knuth3">>,  total |-> FALSE, smart |-> FALSE, knuth |-> 3] }
OpCmds ==
       {Cmd(<<"op", S(n)>> \o v.tok \o Opt(p, "--plant"),
            Call("OrderingPrinciple", <<I(n), Bo(v.total), Bo(v.smart), Bo(p), I(v.knuth)>>)) :
            n \in 0..4, v \in OpVariants, p \in B2}
  \cup {Cmd(<<"op">> \o GTok(g) \o v.tok \o Opt(p, "--plant"),
            Call("GraphOrderingPrinciple", <<Gr(g), Bo(v.total), Bo(v.smart), Bo(p), I(v.knuth)>>)) :
            g \in Simple, v \in OpVariants, p \in B2}

FormulaCmds == PhpCmds \cup SimpleFamilyCmds \cup GraphFamilyCmds \cup OpCmds

\* transformations: command line tokens after -T, and the transformation function
Transformations ==
       {[tok |-> <<kd[1], S(k)>>, fn |-> kd[2], pos |-> <<I(k)>>] :
            kd \in {<<"or", "OrSubstitution">>, <<"xor", "XorSubstitution">>, <<"eq", "AllEqualSubstitution">>,
                    <<"neq", "NotAllEqualSubstitution">>, <<"maj", "MajoritySubstitution">>,
                    <<"one", "ExactlyOneSubstitution">>, <<"lift", "FormulaLifting">>}, k \in 1..3}
  \cup {[tok |-> <<kd[1], S(n), S(k)>>, fn |-> kd[2], pos |-> <<I(n), I(k)>>] :
            kd \in {<<"atleast", "AtLeastKSubstitution">>, <<"atmost", "AtMostKSubstitution">>,
                    <<"exact", "ExactlyKSubstitution">>, <<"anybut", "AnythingButKSubstitution">>}, n \in 1..3, k \in 1..3}
  \* variable compression onto N new variables through a random d-left-regular graph drawn when
  \* the transformation is applied (the library call is VariableCompression(F, B, function))
  \cup {[tok |-> <<kd[1], S(t[1]), S(t[2])>>, fn |-> kd[2], pos |-> <<I(t[1]), I(t[2])>>] :
            kd \in {<<"xorcomp", "VariableCompression_xor_random">>, <<"majcomp", "VariableCompression_maj_random">>},
            t \in {<<4, 2>>, <<5, 3>>, <<6, 1>>}}
  \* ... with the degree left out: the documented default is 3 ("d  arity of majority (default: 3)")
  \cup {[tok |-> <<kd[1], S(n)>>, fn |-> kd[2], pos |-> <<I(n), I(3)>>] :
            kd \in {<<"xorcomp", "VariableCompression_xor_random">>, <<"majcomp", "VariableCompression_maj_random">>},
            n \in {4, 6}}
  \cup {[tok |-> <<"ite">>,  fn |-> "IfThenElseSubstitution", pos |-> <<>>],
        [tok |-> <<"flip">>, fn |-> "FlipPolarity", pos |-> <<>>],
        [tok |-> <<"none">>, fn |-> "identity", pos |-> <<>>]}
  \cup {[tok |-> <<"shuffle">> \o Opt(np, "--no-polarity-flips") \o Opt(nv, "--no-variables-permutation")
                               \o Opt(nc, "--no-clauses-permutation"),
         fn |-> "Shuffle",
         pos |-> <<Str(IF np THEN "fixed" ELSE "shuffle"), Str(IF nv THEN "fixed" ELSE "shuffle"),
                   Str(IF nc THEN "fixed" ELSE "shuffle")>>] : np \in B2, nv \in B2, nc \in B2}

\* output options that must leave the formula unchanged
OutputOptions == { <<>>, <<"-q">>, <<"-v">>, <<"--varnames">>, <<"-q", "--varnames">>,
                   <<"--output-format", "dimacs">>, <<"-of", "opb">>, <<"-of", "latex">> }

\* how the output format is chosen: an explicit request wins, otherwise the extension of the
\* output file name, otherwise DIMACS (documented in guess_output_format)
GuessFormat(req, ext) ==
    IF req \in {"latex", "dimacs", "opb"} THEN req
    ELSE IF req = "none" THEN (CASE ext = "tex" -> "latex" [] ext = "opb" -> "opb" [] OTHER -> "dimacs")
    ELSE "ValueError"
FormatCases == {[req |-> q, ext |-> e, named |-> nm, expect |-> GuessFormat(q, IF nm THEN e ELSE "")] :
                   q \in {"none", "latex", "dimacs", "opb", "tex", "xyz"},
                   e \in {"tex", "opb", "cnf", "", "txt", "TEX", "dimacs"}, nm \in BOOLEAN}

-----------------------------------------------------------------------------
(* Part 2: the pipeline                                                     *)

Stages == <<"parse", "seed", "build", "transform", "header", "write", "done">>
Formats == {"dimacs", "opb", "latex"}
Marker(fmt) == CASE fmt = "dimacs" -> "c " [] fmt = "opb" -> "* " [] fmt = "latex" -> "% "
DefaultMarker(tool) == IF tool = "pbgen" THEN "* " ELSE "c "

\* terminal outcomes a user may observe
\*   success : exit 0, complete formula of the chosen format, nothing else on stdout
\*   help    : exit 0, help text
\*   clierror: exit # 0, nothing (or only comments) on stdout, every stderr line shielded
Outcomes == {"success", "help", "clierror"}

\* what the judge accepts for an observed run (record r), as a predicate
AllowedRun(r) ==
    \/ r.class = "success"  /\ r.exit = 0 /\ r.stdout_formula_ok /\ ~r.traceback
    \/ r.class = "help"     /\ r.exit = 0 /\ ~r.traceback
    \/ r.class = "clierror" /\ r.exit # 0 /\ r.stdout_shielded /\ r.stderr_shielded /\ ~r.traceback

-----------------------------------------------------------------------------
(* Determinism (C07): the output is a sequence of items, each a constant, a *)
(* draw of a random source, or an ambient value.  Two runs with the same    *)
(* arguments and seed agree iff no ambient value and no draw from an        *)
(* unseeded source reaches the output.                                      *)

ItemKinds == {"const", "seeded_draw", "unseeded_draw", "ambient"}
\* value of an item in a run with ambient valuation amb (amb differs between processes)
ItemValue(kind, amb) == CASE kind = "const" -> 0
                          [] kind = "seeded_draw" -> 1          \* a function of the seed only
                          [] kind = "unseeded_draw" -> 100 + amb \* OS entropy / time
                          [] kind = "ambient" -> 200 + amb       \* hash seed, cwd, addresses
Deterministic(items) == \A i \in 1..Len(items) : items[i] \in {"const", "seeded_draw"}
RunOutput(items, amb) == [i \in 1..Len(items) |-> ItemValue(items[i], amb)]
\* the theorem the pair check relies on (checked by TLC over all item sequences up to length 4)
DeterminismLemma ==
    \A items \in UNION {[1..n -> ItemKinds] : n \in 0..4} :
        (RunOutput(items, 1) = RunOutput(items, 2)) <=> Deterministic(items)
\* pipeline facts that decide the kind of each draw: a draw is seeded iff a seed was given,
\* it is honoured (not skipped for being falsy) and it is installed before the draw happens
DrawKind(seedGiven, seedHonoured, drawStage, seedStage) ==
    IF seedGiven /\ seedHonoured /\ seedStage <= drawStage THEN "seeded_draw" ELSE "unseeded_draw"
=============================================================================
