--------------------------- MODULE JudgeTransform ---------------------------
(***************************************************************************)
(* Trace module for C05: the formula the real transformation returned must *)
(* compose the input formula with the gadget (for all assignments of the   *)
(* new variables) and have the documented number of variables.             *)
(* Record: [id, p: [kind, k, C, graph?], N, F, out: [nvars, clauses], outcome] *)
(***************************************************************************)
EXTENDS Transform, Json, IOUtils, TLC

Trace == ndJsonDeserialize(IOEnv.TRACE_FILE)
VARIABLE pos
vars == <<pos>>

Cands(r) == IF "cand" \in DOMAIN r THEN Range(r.cand) ELSE Assignments(r.out.nvars)

Verdict(r) ==
    IF r.outcome # "ok" THEN "unexpected_" \o r.outcome
    ELSE IF r.out.nvars # NewVarCount(r.p, r.N) THEN "wrong_number_of_variables"
    ELSE IF ~WellFormed(r.out.nvars, r.out.clauses) THEN "literal_out_of_range"
    ELSE IF \A a \in Cands(r) : Composes(r.p, r.N, r.F, r.out.clauses, a) THEN "ok"
    ELSE IF \E a \in Cands(r) : SatCNF(a, r.out.clauses) /\ ~(SideCondition(r.p, r.N, a) /\ SatCNF(Induced(r.p, r.N, a), r.F))
         THEN "accepts_assignment_whose_induced_assignment_falsifies_F"
    ELSE "rejects_assignment_whose_induced_assignment_satisfies_F"

Init == pos = 1
Next == /\ pos <= Len(Trace)
        /\ PrintT(<<"VERDICT", Trace[pos].id, Verdict(Trace[pos])>>)
        /\ pos' = pos + 1
Spec == Init /\ [][Next]_vars
AllJudged == TLCGet("distinct") = Len(Trace) + 1
=============================================================================
