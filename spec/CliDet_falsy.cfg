SPECIFICATION Spec
CONSTANTS GraphsDrawnBeforeSeed = FALSE
  FalsySeedSkipped = TRUE
  VersionFromCwd = FALSE
INVARIANT SameOutput
INVARIANT NoUnseededDraw
CHECK_DEADLOCK FALSE
