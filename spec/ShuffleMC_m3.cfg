\* theorem, quick scope B: <= 2 variables, <= 3 clauses (one representative per unordered width-2 clause)
SPECIFICATION Spec
CONSTANTS
  MaxVars = 2
  MaxClauses = 3
  OrderedClauses = FALSE
  Pairs = FALSE
CHECK_DEADLOCK FALSE
INVARIANT Theorem
INVARIANT Identity
