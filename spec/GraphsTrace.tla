---------------------------- MODULE GraphsTrace ----------------------------
(***************************************************************************)
(* Trace validation (code -> spec) for the graph machine of Graphs.tla:    *)
(* the sequence of add_edge / remove_edge / update_vertex_number calls that *)
(* the real random helpers (split_random_edges, add_random_missing_edges,  *)
(* the planting modifiers) perform on a real graph object, recorded with   *)
(* their outcome and the vertex and edge counters after each call, must be *)
(* a behaviour of the specification; ViewsAgree is evaluated at every step *)
(* and the final edge listing must be the one the object reports.          *)
(* Several traces are validated in one run: Init picks the trace.          *)
(***************************************************************************)
EXTENDS Graphs, IOUtils

Traces == JsonDeserialize(IOEnv.TRACE_FILE)     \* sequence of [id, n0, r0, events, final_edges]

VARIABLES tid, l
tvars == <<vars, tid, l>>

Ev == Traces[tid].events[l]
IsEvent(op) == l <= Len(Traces[tid].events) /\ Ev.op = op /\ l' = l + 1 /\ tid' = tid

TraceInit == /\ tid \in 1..Len(Traces)
             /\ l = 1
             /\ n = Traces[tid].n0 /\ r = Traces[tid].r0
             /\ adj = [v \in 1..n |-> <<>>]
             /\ adjb = [v \in 1..(IF Kind = "bipartite" THEN r ELSE n) |-> <<>>]
             /\ edgeset = {} /\ m = 0 /\ dag = TRUE /\ E = {} /\ res = "init" /\ act = "init" /\ hist = <<>>

\* the logged counters and outcome must be what the action produces
Logged == res' = Ev.res /\ m' = Ev.m /\ n' = Ev.n

TraceAdd    == IsEvent("add_edge") /\ AddEdge(Ev.u, Ev.v) /\ Logged
TraceRemove == IsEvent("remove_edge") /\ RemoveEdge(Ev.u, Ev.v) /\ Logged
TraceUpdate == IsEvent("update_vertex_number") /\ UpdateVertexNumber(Ev.u) /\ Logged
\* the last event of a trace is the observation of the final edge listing
TraceFinal  == /\ IsEvent("final")
               /\ SortedEdges(E) = Ev.edges
               /\ PrintT(<<"ACCEPTED", Traces[tid].id>>)
               /\ UNCHANGED vars

TraceNext == TraceAdd \/ TraceRemove \/ TraceUpdate \/ TraceFinal
TraceSpec == TraceInit /\ [][TraceNext]_tvars
=============================================================================
