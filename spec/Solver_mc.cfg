\* exhaustive model check of the solver bridge machine, quick scope
SPECIFICATION Spec
CONSTANTS
  Fams = {"resolve", "auto", "parse", "doc", "rfile", "fault", "isat"}
  Kinds = {"c", "blank", "sSAT", "sUNSAT", "sOTHER", "sSHORT", "v", "junk", "vjunk"}
  MaxLines = 3
  MaxV = 2
  IsatLines = 2
  WideResolve = FALSE
  Export = FALSE
INVARIANT TypeOK
INVARIANT NoLeak
INVARIANT FilesOnlyDuringCall
INVARIANT RightSolver
INVARIANT ReturnTrueSound
INVARIANT TrueNoneOnlyWithoutModel
INVARIANT PositiveSound
INVARIANT NegativeSound
INVARIANT VerdictNeedsSolver
INVARIANT AnswerReported
INVARIANT NoAnswerRaises
INVARIANT FailingSolverRaises
INVARIANT MissingSolverRaises
INVARIANT UnsupportedRaises
INVARIANT BadSameasRaises
INVARIANT ValueErrorOnlyDocumented
INVARIANT RuntimeErrorOnlyDocumented
INVARIANT ApiShape
PROPERTY FilesStepwise
PROPERTY Termination
CHECK_DEADLOCK FALSE
