SPECIFICATION Spec
CONSTANTS Kind = "simple"
  MaxN = 3
  NegArgs = 2
  Depth = 2
  Batches <- SomeBatches
INVARIANT Emit
CHECK_DEADLOCK FALSE
