SPECIFICATION Spec
CONSTANTS Kind = "simple"
  MaxN = 3
  Depth = 2
  Batches <- SomeBatches
INVARIANT Emit
CHECK_DEADLOCK FALSE
