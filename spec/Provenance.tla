----------------------------- MODULE Provenance -----------------------------
(***************************************************************************)
(* Transformations return new formulas, leave their inputs untouched and   *)
(* record provenance (property C19).                                       *)
(*                                                                         *)
(* State: a pool of formula objects.  A formula is abstracted to its       *)
(* header (sequence of <<key, value>>), a content tag (standing for        *)
(* clauses, variable count and names) and nothing else.  Actions:          *)
(*   Transform(i, t)   a new object j is added; header(j) = header(i) plus *)
(*                     <<"transformation k", t>> with k the least unused   *)
(*                     index; object i is unchanged                        *)
(*   AddClause(i), AddEntry(i, key)   later mutations of one object        *)
(* NoAlias: every action changes at most the object it names.              *)
(***************************************************************************)
EXTENDS Integers, Sequences, FiniteSets, TLC

CONSTANTS MaxObjects, MaxSteps

VARIABLES pool,      \* sequence of [header, content, parent, applied]
          steps
vars == <<pool, steps>>

Keys(h) == {h[i][1] : i \in 1..Len(h)}
TKey(k) == "transformation " \o ToString(k)
\* least index k >= 1 such that "transformation k" is not a key of h
RECURSIVE LeastUnused(_, _)
LeastUnused(h, k) == IF TKey(k) \in Keys(h) THEN LeastUnused(h, k + 1) ELSE k
\* the documented header rule
NewHeader(h, text) == Append(h, <<TKey(LeastUnused(h, 1)), text>>)

InitialHeaders ==
    { << <<"description", "d">> >>,
      << <<"description", "d">>, <<"generator", "g">> >>,
      << <<"description", "d">>, <<"transformation 2", "old">> >>,
      << <<"description", "d">>, <<"transformation 1", "a">>, <<"transformation 2", "b">> >> }

Init == /\ pool \in {<< [header |-> h, content |-> 0, parent |-> 0, applied |-> 0] >> : h \in InitialHeaders}
        /\ steps = 0

Transform(i, t) ==
    /\ Len(pool) < MaxObjects
    /\ pool' = Append(pool, [header |-> NewHeader(pool[i].header, t), content |-> pool[i].content + 100,
                             parent |-> i, applied |-> pool[i].applied + 1])
AddClause(i) == pool' = [pool EXCEPT ![i].content = @ + 1]
AddEntry(i)  == pool' = [pool EXCEPT ![i].header = Append(@, <<"note", "x">>)]

Next == /\ steps < MaxSteps
        /\ steps' = steps + 1
        /\ \E i \in 1..Len(pool) : Transform(i, "T") \/ AddClause(i) \/ AddEntry(i)
Spec == Init /\ [][Next]_vars

-----------------------------------------------------------------------------
IsPrefixOf(s, t) == Len(s) <= Len(t) /\ SubSeq(t, 1, Len(s)) = s
\* at most one object changes per step, and existing objects never disappear
NoAlias == [][ /\ Len(pool') >= Len(pool)
               /\ Cardinality({i \in 1..Len(pool) : pool'[i] # pool[i]}) <= 1 ]_vars
\* a freshly created object extends its parent's header (as it was then) by exactly one
\* numbered entry whose key was not used before
ProvenanceStep ==
    [][Len(pool') > Len(pool) =>
          LET j == Len(pool')  p == pool'[j].parent IN
          /\ pool'[p] = pool[p]
          /\ Len(pool'[j].header) = Len(pool[p].header) + 1
          /\ IsPrefixOf(pool[p].header, pool'[j].header)
          /\ pool'[j].header[Len(pool'[j].header)][1] \notin Keys(pool[p].header)
          /\ \E k \in 1..(Len(pool[p].header) + 1) : pool'[j].header[Len(pool'[j].header)][1] = TKey(k) ]_vars
\* after n steps on a header without transformation entries the entries are 1..n in order
ChainNumbering ==
    \A j \in 1..Len(pool) :
       LET h == pool[j].header
           tk == SelectSeq(h, LAMBDA e : \E k \in 1..10 : e[1] = TKey(k))
       IN  \A a, b \in 1..Len(tk) : a # b => tk[a][1] # tk[b][1]
=============================================================================
