------------------------------- MODULE Shuffle -------------------------------
(***************************************************************************)
(* Shuffling (property C09): the shuffled formula is the input under ONE   *)
(* bijection of the variables, ONE polarity per variable and ONE           *)
(* permutation of the clause positions, applied to every occurrence.       *)
(*                                                                         *)
(* A formula is a record [nvars |-> N, clauses |-> <<c1, ..., cM>>], a     *)
(* clause a sequence of non-zero integers.  A witness is (f, p, c):        *)
(*   f  flips,  f[i] \in {-1, +1}           (applied first, per variable)  *)
(*   p  a permutation of 1..N, variable i |-> p[i]                         *)
(*   c  a permutation of 0..M-1 written as a sequence of length M: the     *)
(*      clause at position i-1 of F (0-based, as documented) goes to       *)
(*      position c[i] of the result.                                       *)
(* This is the documented meaning of the three arguments of                *)
(* cnfgen.transformations.shuffle.Shuffle.                                 *)
(*                                                                         *)
(* Clauses are compared as multisets of literals: the statement fixes the  *)
(* literals of every clause and the position of every clause, not the      *)
(* order in which a clause lists its literals.                             *)
(***************************************************************************)
EXTENDS CnfSem, TLC

NVars(F)    == F.nvars
NClauses(F) == Len(F.clauses)

ValidFlips(N, f) == Len(f) = N /\ \A i \in 1..N : f[i] = 1 \/ f[i] = -1
ValidPerm(N, p)  == Len(p) = N /\ {p[i] : i \in 1..N} = 1..N
ValidCPerm(M, c) == Len(c) = M /\ {c[i] : i \in 1..M} = 0..(M - 1)
ValidWitness(F, w) == /\ ValidFlips(NVars(F), w.f)
                      /\ ValidPerm(NVars(F), w.p)
                      /\ ValidCPerm(NClauses(F), w.c)

IdFlips(N) == [i \in 1..N |-> 1]
IdPerm(N)  == [i \in 1..N |-> i]
IdCPerm(M) == [i \in 1..M |-> i - 1]

\* flip first, then rename: literal of variable v becomes f[v] * p[v], negated for a negative literal
MapLit(f, p, l)    == IF l > 0 THEN f[l] * p[l] ELSE -(f[-l] * p[-l])
\* (TLCEval is the identity; it only makes TLC compute the value once instead of at every use)
MapClause(f, p, d) == TLCEval([i \in 1..Len(d) |-> MapLit(f, p, d[i])])
\* (1-based) index in F of the clause that lands on 1-based position j
ClauseLandingAt(c, j) == CHOOSE i \in 1..Len(c) : c[i] = j - 1

Apply(F, f, p, c) ==
    [nvars   |-> NVars(F),
     clauses |-> TLCEval([j \in 1..NClauses(F) |-> MapClause(f, p, F.clauses[ClauseLandingAt(c, j)])])]

\* --- equality of formulas up to the order of literals inside a clause --------
Occ(d, l) == Cardinality({i \in 1..Len(d) : d[i] = l})
SameBag(d, e) == Len(d) = Len(e) /\ \A l \in Range(d) \cup Range(e) : Occ(d, l) = Occ(e, l)
SameFormula(G, H) == /\ NVars(G) = NVars(H)
                     /\ NClauses(G) = NClauses(H)
                     /\ \A j \in 1..NClauses(G) : SameBag(G.clauses[j], H.clauses[j])
\* the two clause sequences are the same multiset of clauses
SameClauseBag(A, B) ==
    /\ Len(A) = Len(B)
    /\ \A j \in 1..Len(A) : Cardinality({i \in 1..Len(A) : SameBag(A[i], A[j])})
                          = Cardinality({i \in 1..Len(B) : SameBag(B[i], A[j])})

\* THE PROPERTY
IsSignedRenaming(F, G, w) == SameFormula(G, Apply(F, w.f, w.p, w.c))

\* --- inverse witness (Apply is invertible) ----------------------------------
InvPerm(p)  == [j \in 1..Len(p) |-> CHOOSE i \in 1..Len(p) : p[i] = j]
InvCPerm(c) == [j \in 1..Len(c) |-> (CHOOSE i \in 1..Len(c) : c[i] = j - 1) - 1]
InvWitness(w) == LET q == InvPerm(w.p) IN
                 [f |-> [j \in 1..Len(w.f) |-> w.f[q[j]]], p |-> q, c |-> InvCPerm(w.c)]

\* --- the "hence" part --------------------------------------------------------
Widths(F) == TLCEval([j \in 1..NClauses(F) |-> Len(F.clauses[j])])
\* two sequences are equal as multisets
SameSeqBag(A, B) ==
    /\ Len(A) = Len(B)
    /\ \A x \in Range(A) \cup Range(B) :
          Cardinality({i \in 1..Len(A) : A[i] = x}) = Cardinality({i \in 1..Len(B) : B[i] = x})
SameWidthBag(F, G) == SameSeqBag(Widths(F), Widths(G))
ModelCount(F) == Cardinality(Models(NVars(F), F.clauses))

\* --- arguments of Shuffle ----------------------------------------------------
\* one argument: [k |-> "shuffle" | "fixed" | "explicit" | "wrongtype", v |-> sequence]
\*   explicit : v is the sequence of integers handed over (list, tuple or range)
\*   wrongtype: what was handed over is not a sequence of integers at all
Kinds == {"shuffle", "fixed", "explicit", "wrongtype"}
ArgsWellTagged(args) == args.flips.k \in Kinds /\ args.perm.k \in Kinds /\ args.cperm.k \in Kinds

ArgsInvalid(F, args) ==
    \/ args.flips.k = "explicit" /\ ~ValidFlips(NVars(F), args.flips.v)
    \/ args.perm.k  = "explicit" /\ ~ValidPerm(NVars(F), args.perm.v)
    \/ args.cperm.k = "explicit" /\ ~ValidCPerm(NClauses(F), args.cperm.v)
ArgsWrongType(args) ==
    args.flips.k = "wrongtype" \/ args.perm.k = "wrongtype" \/ args.cperm.k = "wrongtype"

\* Outcome rule.  Valid arguments: the call succeeds.  A sequence of integers
\* that is not a flip vector / permutation of the right length: ValueError
\* (the documented refusal).  Something that is not a sequence of integers:
\* ValueError or TypeError, both count as refusal.
AllowedOutcomes(F, args) ==
    IF ArgsWrongType(args) THEN {"ValueError", "TypeError"}
    ELSE IF ArgsInvalid(F, args) THEN {"ValueError"}
    ELSE {"ok"}

\* the witnesses a (valid) argument triple allows
AdmitsFlips(N, a, f) == CASE a.k = "fixed"    -> f = IdFlips(N)
                          [] a.k = "explicit" -> f = a.v
                          [] a.k = "shuffle"  -> ValidFlips(N, f)
                          [] OTHER -> FALSE
AdmitsPerm(N, a, p)  == CASE a.k = "fixed"    -> p = IdPerm(N)
                          [] a.k = "explicit" -> p = a.v
                          [] a.k = "shuffle"  -> ValidPerm(N, p)
                          [] OTHER -> FALSE
AdmitsCPerm(M, a, c) == CASE a.k = "fixed"    -> c = IdCPerm(M)
                          [] a.k = "explicit" -> c = a.v
                          [] a.k = "shuffle"  -> ValidCPerm(M, c)
                          [] OTHER -> FALSE
Admits(F, args, w) == /\ AdmitsFlips(NVars(F), args.flips, w.f)
                      /\ AdmitsPerm(NVars(F), args.perm, w.p)
                      /\ AdmitsCPerm(NClauses(F), args.cperm, w.c)

\* --- all witnesses (for the search) -------------------------------------------
AllFlips(N)  == [1..N -> {-1, 1}]
AllPerms(N)  == {p \in [1..N -> 1..N] : {p[i] : i \in 1..N} = 1..N}
AllCPerms(M) == {c \in [1..M -> 0..(M - 1)] : {c[i] : i \in 1..M} = 0..(M - 1)}
AllWitnesses(F) == {[f |-> f, p |-> p, c |-> c] :
                       f \in AllFlips(NVars(F)), p \in AllPerms(NVars(F)), c \in AllCPerms(NClauses(F))}

\* what the statement says about a successful call (the direct form)
Explained(F, args, G) ==
    \E w \in AllWitnesses(F) : Admits(F, args, w) /\ IsSignedRenaming(F, G, w)

\* the same, evaluated without enumerating clause permutations: some clause
\* permutation works iff the clauses agree as a multiset (ShuffleMC checks
\* Explained <=> ExplainedFast on a small scope)
CandFlips(N, a) == IF a.k = "shuffle" THEN AllFlips(N) ELSE IF a.k = "fixed" THEN {IdFlips(N)} ELSE {a.v}
CandPerms(N, a) == IF a.k = "shuffle" THEN AllPerms(N) ELSE IF a.k = "fixed" THEN {IdPerm(N)} ELSE {a.v}
ExplainedFast(F, args, G) ==
    LET N == NVars(F)  M == NClauses(F) IN
    /\ NVars(G) = N /\ NClauses(G) = M
    /\ \E f \in CandFlips(N, args.flips), p \in CandPerms(N, args.perm) :
          IF args.cperm.k = "shuffle"
          THEN SameClauseBag(Apply(F, f, p, IdCPerm(M)).clauses, G.clauses)
          ELSE SameFormula(G, Apply(F, f, p, IF args.cperm.k = "fixed" THEN IdCPerm(M) ELSE args.cperm.v))

\* --- invariants implied by the property (used when no witness is recorded and
\*     the formula is too large to search) --------------------------------------
\* a clause up to signed renaming: for every variable of the clause the unordered
\* pair (occurrences with one sign, occurrences with the other), as a multiset
ClauseVars(d) == {Abs(d[i]) : i \in 1..Len(d)}
SignPair(d, v) == <<Min2(Occ(d, v), Occ(d, -v)), Max2(Occ(d, v), Occ(d, -v))>>
Shape(d) == LET V == ClauseVars(d)
                S == {SignPair(d, v) : v \in V}
            IN  TLCEval([s \in S |-> Cardinality({v \in V : SignPair(d, v) = s})])
Shapes(F) == TLCEval([j \in 1..NClauses(F) |-> Shape(F.clauses[j])])
SameShapeBag(F, G) == SameSeqBag(Shapes(F), Shapes(G))
\* occurrences of a literal in the whole formula
RECURSIVE OccFrom(_, _, _)
OccFrom(F, l, j) == IF j > NClauses(F) THEN 0 ELSE Occ(F.clauses[j], l) + OccFrom(F, l, j + 1)
VarProfile(F, v) == LET a == OccFrom(F, v, 1)  b == OccFrom(F, -v, 1) IN <<Min2(a, b), Max2(a, b)>>
Profiles(F) == TLCEval([v \in 1..NVars(F) |-> VarProfile(F, v)])
SameProfileBag(F, G) == SameSeqBag(Profiles(F), Profiles(G))

ImpliedInvariants(F, G) ==
    /\ NVars(F) = NVars(G)
    /\ NClauses(F) = NClauses(G)
    /\ WellFormed(NVars(G), G.clauses)
    /\ SameWidthBag(F, G)
    /\ SameShapeBag(F, G)
    /\ SameProfileBag(F, G)
=============================================================================
