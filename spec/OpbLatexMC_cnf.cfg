SPECIFICATION Spec
CONSTANTS
  Cls = "CNF"
  NVars = 2
  MaxRows = 2
  MaxWidth = 2
  Coefs = {1}
  Degs <- DegsOne
  PageSize = 1
INVARIANT OpbRoundTrip
INVARIANT OpbAsCode
INVARIANT OpbSensitive
INVARIANT OpbCommentsOnly
INVARIANT LatexRoundTrip
INVARIANT LatexAsCode
INVARIANT LatexSensitive
CHECK_DEADLOCK FALSE
