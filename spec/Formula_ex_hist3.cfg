SPECIFICATION Spec
CONSTANTS
  ShapesFirst <- SomeShapes
  ShapesLater <- SomeShapes
  Clauses <- ClausesSome
  Updates = {0, 2, 5}
  MaxSteps = 3
  Export = TRUE
  Closing = FALSE
  Shard = 0
  NShards = 1
CHECK_DEADLOCK FALSE
INVARIANT Emit
