-------------------------- MODULE JudgeProvenance --------------------------
(***************************************************************************)
(* Trace module for C19.  Record kinds:                                    *)
(*  "transform": one application of a transformation T to formula F        *)
(*     [before, after, after_mut: snapshots of the INPUT (before the call, *)
(*      after it, and after the result has been mutated), out_header,      *)
(*      same_object, kind, outcome]                                        *)
(*     snapshot = [nvars, clauses, labels, header(seq of <<key, value>>)]  *)
(*  "args": an argument (graph, list of literals, pattern, charges ...)    *)
(*     handed to a generator or builder [before, after, outcome]           *)
(* Strings that must be compared by prefix are given as code-point lists.  *)
(***************************************************************************)
EXTENDS Integers, Sequences, FiniteSets, TLC, Json, IOUtils

Trace == ndJsonDeserialize(IOEnv.TRACE_FILE)
VARIABLE pos
vars == <<pos>>

IsPrefixOf(s, t) == Len(s) <= Len(t) /\ SubSeq(t, 1, Len(s)) = s
Keys(h) == {h[i][1] : i \in 1..Len(h)}
TKey(k) == "transformation " \o ToString(k)
RECURSIVE LeastUnused(_, _)
LeastUnused(h, k) == IF TKey(k) \in Keys(h) THEN LeastUnused(h, k + 1) ELSE k

\* header rule: earlier entries kept in order (the description may be extended, not
\* replaced), then exactly one new entry "transformation k", k least unused;
\* trailing entries the command line adds later (random seed, command line) are not ours.
HeaderWhy(r) ==
    LET hin == r.before.header
        hout == r.out_header
        n == Len(hin)
    IN  IF Len(hout) < n + 1 THEN "header_entries_lost_or_no_transformation_entry"
        ELSE IF \E i \in 1..n : hout[i][1] # hin[i][1] THEN "earlier_header_entry_replaced_or_reordered"
        ELSE IF \E i \in 1..n : hin[i][1] # "description" /\ hout[i][2] # hin[i][2] THEN "earlier_header_entry_changed"
        ELSE IF ~IsPrefixOf(r.desc_in, r.desc_out) THEN "original_description_not_kept"
        ELSE IF hout[n + 1][1] # TKey(LeastUnused(hin, 1)) THEN "transformation_entry_misnumbered"
        ELSE IF Len(hout) # n + 1 THEN "more_than_one_entry_added"
        ELSE "ok"

VerdictTransform(r) ==
    IF r.outcome # "ok" THEN "unexpected_" \o r.outcome
    ELSE IF r.kind = "none" THEN (IF r.before = r.after THEN "ok" ELSE "input_modified")
    ELSE IF r.same_object THEN "result_is_the_input_object"
    ELSE IF r.before.clauses # r.after.clauses THEN "input_clauses_modified"
    ELSE IF r.before.nvars # r.after.nvars THEN "input_variable_count_modified"
    ELSE IF r.before.labels # r.after.labels THEN "input_names_modified"
    ELSE IF r.before.header # r.after.header THEN "input_header_modified"
    ELSE IF r.before # r.after_mut THEN "input_shares_state_with_result"
    ELSE HeaderWhy(r)

VerdictArgs(r) ==
    IF r.before = r.after THEN "ok"
    ELSE IF r.outcome = "ok" THEN "argument_modified"
    ELSE "argument_modified_when_call_fails"

Verdict(r) == IF r.rk = "transform" THEN VerdictTransform(r) ELSE VerdictArgs(r)

Init == pos = 1
Next == /\ pos <= Len(Trace)
        /\ PrintT(<<"VERDICT", Trace[pos].id, Verdict(Trace[pos])>>)
        /\ pos' = pos + 1
Spec == Init /\ [][Next]_vars
AllJudged == TLCGet("distinct") = Len(Trace) + 1
=============================================================================
