------------------------------ MODULE CnfSem ------------------------------
(***************************************************************************)
(* Shared vocabulary: propositional semantics of CNF and pseudo-Boolean    *)
(* formulas over identifiers 1..n.  A clause is a sequence of non-zero     *)
(* integers (DIMACS literals); a formula is a sequence of clauses.  A PB   *)
(* constraint is a record [terms |-> <<<<coef, lit>>, ...>>, op |-> ">=" | *)
(* "==", deg |-> k].  Everything here is an operator; the state machines   *)
(* that use it live in the other modules.                                  *)
(***************************************************************************)
EXTENDS Integers, Sequences, FiniteSets

Abs(x) == IF x < 0 THEN -x ELSE x
Max2(a, b) == IF a >= b THEN a ELSE b
Min2(a, b) == IF a <= b THEN a ELSE b

Range(s) == {s[i] : i \in DOMAIN s}

RECURSIVE SumSeq(_)
SumSeq(s) == IF s = <<>> THEN 0 ELSE Head(s) + SumSeq(Tail(s))

RECURSIVE SumSet(_, _)
\* sum of f[x] for x in S
SumSet(S, f) == IF S = {} THEN 0
                ELSE LET x == CHOOSE y \in S : TRUE IN f[x] + SumSet(S \ {x}, f)

Assignments(n) == [1..n -> BOOLEAN]

\* truth value of literal l under assignment a
Lit(a, l) == IF l > 0 THEN a[l] ELSE ~a[-l]
Val(a, l) == IF Lit(a, l) THEN 1 ELSE 0

SatClause(a, c) == \E i \in 1..Len(c) : Lit(a, c[i])
SatCNF(a, F)    == \A j \in 1..Len(F) : SatClause(a, F[j])

\* number of positions of lits that are true under a (repetitions count)
CountTrue(a, lits) == Cardinality({i \in 1..Len(lits) : Lit(a, lits[i])})

RECURSIVE PBSum(_, _, _)
PBSum(a, terms, i) == IF i > Len(terms) THEN 0
                      ELSE terms[i][1] * Val(a, terms[i][2]) + PBSum(a, terms, i + 1)

SatPB(a, c) == LET s == PBSum(a, c.terms, 1)
               IN  IF c.op = ">=" THEN s >= c.deg
                   ELSE IF c.op = "==" THEN s = c.deg
                   ELSE IF c.op = "<=" THEN s <= c.deg
                   ELSE IF c.op = "<"  THEN s < c.deg
                   ELSE IF c.op = ">"  THEN s > c.deg
                   ELSE FALSE
SatOPB(a, P) == \A j \in 1..Len(P) : SatPB(a, P[j])

Models(n, F)    == {a \in Assignments(n) : SatCNF(a, F)}
ModelsPB(n, P)  == {a \in Assignments(n) : SatOPB(a, P)}

\* every literal is a non-zero integer whose variable is in 1..n
WellFormedClause(n, c) == \A i \in 1..Len(c) : c[i] # 0 /\ Abs(c[i]) <= n
WellFormed(n, F) == \A j \in 1..Len(F) : WellFormedClause(n, F[j])
WellFormedPB(n, P) == \A j \in 1..Len(P) :
                         \A i \in 1..Len(P[j].terms) :
                            LET l == P[j].terms[i][2] IN l # 0 /\ Abs(l) <= n

\* clause as a set of literals (for comparisons up to literal order / repetition)
ClauseSet(c) == Range(c)
CnfAsSet(F)  == {ClauseSet(F[j]) : j \in 1..Len(F)}

\* k-subsets of a set
Subsets(S, k) == {T \in SUBSET S : Cardinality(T) = k}

\* 2^k
RECURSIVE Pow2(_)
Pow2(k) == IF k <= 0 THEN 1 ELSE 2 * Pow2(k - 1)

\* least k with 2^k >= n  (n >= 1)
RECURSIVE CeilLog2From(_, _)
CeilLog2From(n, k) == IF Pow2(k) >= n THEN k ELSE CeilLog2From(n, k + 1)
CeilLog2(n) == CeilLog2From(n, 0)

\* bit b (0 = least significant) of x
Bit(x, b) == (x \div Pow2(b)) % 2
=============================================================================
