SPECIFICATION Spec
CONSTANT Part = "imagefull"
INVARIANT Shape_Sound
