SPECIFICATION Spec
CONSTANT Part = "cand"
INVARIANT Shape_Complete
