SPECIFICATION Spec
CONSTANT Part = "bip"
INVARIANT Regular_EdgeCount
