--------------------------- MODULE JudgeSampler ---------------------------
(***************************************************************************)
(* Trace module (direction B) for property C13: judges what the real       *)
(* RandomKCNF / RandomKXOR / `cnfgen randkcnf|randkxor [-p]` answered      *)
(* against the result predicates and the outcome rule of Sampler.tla.      *)
(*                                                                         *)
(* One step per record of IOEnv.TRACE_FILE (ndjson), one VERDICT line per  *)
(* step.  A record is                                                      *)
(*   [id, kind: "kcnf"|"kxor", src: "lib"|"cli", k, n, m,                  *)
(*    planted: <<assignment, ...>>   each a sequence of n booleans,        *)
(*    hidden: BOOLEAN   the CLI planted one assignment it does not reveal, *)
(*    outcome: "ok" | name of the exception, nvars, clauses]               *)
(*                                                                         *)
(* Outcome rule: the request is refused (ValueError from the library, a    *)
(* command line error from the CLI) iff k > n or m > |All|; the CLI may    *)
(* moreover refuse k < 1 or n < 1, which its usage text excludes.          *)
(* A result is judged set-wise: clause order, literal order, repeated      *)
(* literals and (for XOR) repeated clauses do not matter.                  *)
(***************************************************************************)
EXTENDS CnfSem, TLC, Json, IOUtils

Trace == ndJsonDeserialize(IOEnv.TRACE_FILE)

VARIABLE i
vars == <<i>>

\* the vocabulary of Sampler.tla; its state machine is not used here
NoMs(Q) == {0}
NoPools(Q) == {{}}
NoPicks(A, mm) == {}
S == INSTANCE Sampler WITH Kind <- "kcnf", K <- 0, N <- 0, Ps <- {{}}, Ms <- NoMs,
                           Pools <- NoPools, DensePicks <- NoPicks, TriesFactor <- 10,
                           P <- i, m <- i, pool <- i, phase <- i, t <- i,
                           seen <- i, acc <- i, result <- i, hist <- i

\* all 2^n assignments are looked at up to this many variables
ModelsMaxN == 10
\* |All| is computed to name a missing refusal up to this many variables
\* (beyond, a missing refusal shows as a shape failure: m distinct items of
\* All cannot exist when m > |All|)
CountMaxN == 6

AllTrue(n) == [x \in 1..n |-> TRUE]

\* planted set used for counting All: by symmetry (lemma AllClosedForm of
\* Sampler.tla) |All| is the same for every single planted assignment
CountP(r) == IF r.hidden THEN {AllTrue(r.n)} ELSE Range(r.planted)

RefusalName(r) == IF r.src = "cli" THEN "CLIError" ELSE "ValueError"

\* parameters the command line grammar excludes (positive <k>, <n>)
MayRefuse(r) == r.src = "cli" /\ (r.k < 1 \/ r.n < 1)

Shape(r) ==
    IF ~r.hidden
    THEN S!ShapeVerdict(r.kind, r.k, r.n, r.m, Range(r.planted), r.nvars, r.clauses,
                        r.n <= ModelsMaxN)
    ELSE LET v == S!ShapeVerdict(r.kind, r.k, r.n, r.m, {}, r.nvars, r.clauses, TRUE)
         IN  IF v # "ok" THEN v
             \* some total assignment satisfies every clause / parity
             ELSE IF Models(r.n, r.clauses) = {} THEN "no_planted_assignment_satisfies_the_formula"
             ELSE "ok"

Verdict(r) ==
    IF r.outcome = RefusalName(r)
    THEN IF r.k > r.n \/ MayRefuse(r) THEN "ok"
         ELSE IF r.m > S!AllCount(r.kind, r.k, r.n, CountP(r)) THEN "ok"
         ELSE "refused_although_k_le_n_and_m_le_All"
    ELSE IF r.outcome # "ok" THEN "unexpected_" \o r.outcome
    ELSE IF r.k > r.n THEN "not_refused_although_k_gt_n"
    ELSE IF r.n <= CountMaxN /\ r.m > S!AllCount(r.kind, r.k, r.n, CountP(r))
         THEN "not_refused_although_m_gt_All"
    ELSE Shape(r)

Init == i = 1
Next == /\ i <= Len(Trace)
        /\ PrintT(<<"VERDICT", Trace[i].id, Verdict(Trace[i])>>)
        /\ i' = i + 1
Spec == Init /\ [][Next]_vars

AllJudged == TLCGet("distinct") = Len(Trace) + 1
=============================================================================
