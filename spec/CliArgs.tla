------------------------------ MODULE CliArgs ------------------------------
(***************************************************************************)
(* Abstract argument vectors for the command line tools (property C18).    *)
(*                                                                         *)
(* For every sub-command: its positional signature (kinds), a clearly      *)
(* valid example, its options.  A vector is the valid example with at most *)
(* one position replaced by a value class (below / at / beyond the legal   *)
(* range, float, word, empty ...; for graph arguments: missing file,       *)
(* directory, empty / garbage / truncated file, malformed specification,   *)
(* wrong graph type ...), or with a structural perturbation (missing or    *)
(* extra argument, unknown option, dangling -T, bad output format, help).  *)
(* Expect(v) says which terminal outcomes (Cli.tla) the vector admits:     *)
(* "must_succeed" for untouched valid examples, "help" for -h, "any" for   *)
(* the rest (success or shielded command line error - never anything else).*)
(* The harness turns classes into concrete tokens.                         *)
(***************************************************************************)
EXTENDS Integers, Sequences, FiniteSets, TLC, Json

\* positional kinds: "nat" (>= 0), "pos" (>= 1), "gs" simple graph, "gb" bipartite, "gd" dag,
\* "word" (keyword), "file" (DIMACS file)
Sub(name, kinds, valid, opts) == [name |-> name, kinds |-> kinds, valid |-> valid, opts |-> opts]

Subcommands == {
  Sub("and", <<"nat", "nat">>, <<"2", "1">>, {}),
  Sub("or", <<"nat", "nat">>, <<"1", "2">>, {}),
  Sub("true", <<>>, <<>>, {}),
  Sub("false", <<>>, <<>>, {}),
  Sub("randkcnf", <<"pos", "pos", "nat">>, <<"3", "6", "5">>, {"--plant"}),
  Sub("randkxor", <<"pos", "pos", "nat">>, <<"3", "6", "4">>, {"--plant"}),
  Sub("php", <<"nat">>, <<"3">>, {"--functional", "--onto"}),
  Sub("php", <<"nat", "nat">>, <<"4", "3">>, {"--functional", "--onto"}),
  Sub("php", <<"nat", "nat", "nat">>, <<"4", "3", "2">>, {"--functional"}),
  Sub("php", <<"gb">>, <<"@gb">>, {"--onto"}),
  Sub("bphp", <<"pos", "pos">>, <<"3", "4">>, {}),
  Sub("cliquecoloring", <<"nat", "pos", "pos">>, <<"4", "2", "2">>, {}),
  Sub("ram", <<"pos", "pos", "nat">>, <<"3", "3", "4">>, {}),
  Sub("vdw", <<"nat", "pos", "pos">>, <<"6", "2", "3">>, {}),
  Sub("vdw", <<"nat", "pos", "pos", "pos">>, <<"5", "2", "2", "3">>, {}),
  Sub("ptn", <<"nat">>, <<"13">>, {}),
  Sub("rphp", <<"nat", "nat", "nat">>, <<"2", "3", "2">>, {}),
  Sub("parity", <<"nat">>, <<"4">>, {}),
  Sub("matching", <<"gs">>, <<"@gs">>, {}),
  Sub("count", <<"nat", "pos">>, <<"5", "2">>, {}),
  Sub("tseitin", <<"pos">>, <<"6">>, {}),
  Sub("tseitin", <<"pos", "pos">>, <<"6", "3">>, {}),
  Sub("tseitin", <<"word", "gs">>, <<"first", "@gs">>, {}),
  Sub("tseitin", <<"word", "gs">>, <<"randomodd", "@gs">>, {}),
  Sub("subsetcard", <<"pos">>, <<"5">>, {"--equal"}),
  Sub("subsetcard", <<"pos", "pos">>, <<"4", "2">>, {"--equal"}),
  Sub("subsetcard", <<"gb">>, <<"@gb">>, {"--equal"}),
  Sub("kcolor", <<"pos", "gs">>, <<"3", "@gs">>, {}),
  Sub("ec", <<"gs">>, <<"@gseven">>, {}),
  Sub("domset", <<"pos", "gs">>, <<"2", "@gs">>, {"--alternative"}),
  Sub("tiling", <<"gs">>, <<"@gs">>, {}),
  Sub("iso", <<"gs">>, <<"@gs">>, {}),
  Sub("iso", <<"gs", "word", "gs">>, <<"@gs", "-e", "@gs">>, {}),
  Sub("kclique", <<"nat", "gs">>, <<"3", "@gs">>, {"--no-symmetry-breaking"}),
  Sub("kcliquebin", <<"nat", "gs">>, <<"2", "@gs">>, {}),
  Sub("ramlb", <<"pos", "pos", "gs">>, <<"2", "2", "@gs">>, {}),
  Sub("subgraph", <<"word", "gs", "word", "gs">>, <<"-G", "@gs", "-H", "@gs">>, {}),
  Sub("op", <<"nat">>, <<"4">>, {"--total", "--smart", "--knuth2", "--knuth3", "--plant"}),
  Sub("op", <<"nat", "pos">>, <<"6", "3">>, {"--plant"}),
  Sub("op", <<"gs">>, <<"@gs">>, {"--total", "--plant"}),
  Sub("peb", <<"gd">>, <<"@gd">>, {}),
  Sub("stone", <<"pos", "gd">>, <<"3", "@gd">>, {}),
  Sub("stone", <<"pos", "gd", "word", "pos">>, <<"3", "@gd", "--sparse", "2">>, {}),
  Sub("cpls", <<"pos", "pos", "pos">>, <<"2", "4", "2">>, {}),
  Sub("pitfall", <<"pos", "pos", "pos", "pos", "pos">>, <<"4", "2", "2", "2", "2">>, {}),
  Sub("dimacs", <<"file">>, <<"@cnf">>, {}) }

IntClasses == {"neg", "zero", "one", "two", "big", "huge", "float", "word", "empty", "plus", "exp", "hex"}
GraphClasses == {"file_ok", "spec_random", "missing_file", "directory", "empty_file", "garbage_file",
                 "truncated_file", "wrong_type_file", "unknown_extension", "bad_spec", "incomplete_spec",
                 "bad_modifier", "impossible_modifier", "save_nowhere", "stdin_closed", "blank_line_file"}
WordClasses == {"other_word", "empty"}
FileClasses == {"missing_file", "directory", "empty_file", "garbage_file", "truncated_file",
                \* well-formed up to some point after the first line: found out late by a reader that streams
                "late_bad_token", "fewer_items_than_declared", "more_items_than_declared", "second_header_line"}
ClassesOf(kind) == CASE kind = "none" -> {}
                     [] kind \in {"nat", "pos"} -> IntClasses
                     [] kind \in {"gs", "gb", "gd"} -> GraphClasses
                     [] kind = "word" -> WordClasses
                     [] kind \in {"file", "gdfile"} -> FileClasses

Structural == {"missing_last", "extra_argument", "unknown_option", "dangling_T", "unknown_transformation",
               "bad_output_format", "help", "sub_help", "seed_word", "no_subcommand", "T_needs_argument",
               "output_to_directory"}
Formats == {"dimacs", "opb", "latex"}
Tools == {"cnfgen", "pbgen"}

\* a vector: which sub-command, which deviation
V(tool, sc, fmt, dev, pos, cls, opts) ==
    [tool |-> tool, name |-> sc.name, valid |-> sc.valid, kinds |-> sc.kinds, fmt |-> fmt,
     dev |-> dev, pos |-> pos, cls |-> cls, opts |-> opts]

Vectors ==
    \* untouched valid examples, in every output format, with every single option
       UNION {{V(t, sc, f, "none", 0, "", o) : t \in Tools, f \in Formats,
                                               o \in {{}} \cup {{x} : x \in sc.opts}} : sc \in Subcommands}
    \* one position replaced by a value class
  \cup UNION {{V(t, sc, "default", "class", p, c, {}) : t \in Tools, c \in ClassesOf(IF p <= Len(sc.kinds) THEN sc.kinds[p] ELSE "none")} :
                 sc \in Subcommands, p \in 1..5}
    \* structural perturbations
  \cup {V(t, sc, "default", d, 0, "", {}) : t \in Tools, sc \in Subcommands, d \in Structural}

\* Command lines that parse but are refused while the formula is built or transformed: the output
\* format is established by then, so the error must carry the marker of THAT format, whether the
\* format was asked for with an option or implied by the extension of the output file.
BuildRefusals == { <<"randkcnf", "3", "2", "1">>, <<"cpls", "2", "3", "2">>, <<"ec", "grid", "2", "3">>,
                   <<"tseitin", "5", "3">>, <<"stone", "2", "pyramid", "1", "--sparse", "3">>,
                   <<"randkxor", "4", "3", "1">>, <<"or", "2", "1", "-T", "xorcomp", "2", "3">> }
FormatSelections == {"option_dimacs", "option_opb", "option_latex", "extension_cnf", "extension_opb", "extension_tex", "default"}
\* ... and the same for kthlist2pebbling, whose transformation is positional (refused while it is applied)
OtherRefusals == { <<"-i", "@gdfile", "xorcomp", "2", "5">>, <<"-i", "@gdfile", "xorcomp", "1">>,
                   <<"-i", "@gdfile", "majcomp", "2">>, <<"-i", "@gdfile", "majcomp", "complete", "2", "4">>,
                   <<"-i", "@gdfile", "xorcomp", "glrd", "9", "3", "2">> }
RefusalVectors ==
    {[tool |-> t, name |-> "", valid |-> a, kinds |-> <<>>, fmt |-> f, dev |-> "build_refusal", pos |-> 0, cls |-> "",
      opts |-> {}] : t \in Tools, a \in BuildRefusals, f \in FormatSelections}
    \cup {[tool |-> "kthlist2pebbling", name |-> "", valid |-> a, kinds |-> <<>>, fmt |-> "default", dev |-> "build_refusal",
           pos |-> 0, cls |-> "", opts |-> {}] : a \in OtherRefusals}

\* Every transformation name with no argument at all, with one argument and with too many: whether that is a
\* legal request depends on the transformation (flip takes none); the run must end in a formula or a clean error.
TNames == {"none", "or", "xor", "and", "lift", "eq", "neq", "maj", "one", "exact", "atleast", "atmost", "anybut",
           "ite", "flip", "shuffle", "xorcomp", "majcomp", "nosuch"}
TArgLists == { <<>>, <<"1">>, <<"2", "1">>, <<"3", "2", "1", "4">>, <<"x">> }
TArityVectors ==
    {[tool |-> "cnfgen", name |-> "", valid |-> <<"php", "3", "2", "-T", t>> \o a, kinds |-> <<>>, fmt |-> "default",
      dev |-> "raw", pos |-> 0, cls |-> "", opts |-> {}] : t \in TNames, a \in TArgLists}
    \cup {[tool |-> "cnfgen", name |-> "", valid |-> <<"php", "3", "2", "-T", "flip", "-T", t>> \o a, kinds |-> <<>>,
           fmt |-> "default", dev |-> "raw", pos |-> 0, cls |-> "", opts |-> {}] : t \in {"xorcomp", "majcomp", "lift"},
                                                                                 a \in {<<>>, <<"1">>}}
    \cup {[tool |-> "kthlist2pebbling", name |-> "", valid |-> <<"-i", "@gdfile", t>> \o a, kinds |-> <<>>,
           fmt |-> "default", dev |-> "raw", pos |-> 0, cls |-> "", opts |-> {}] : t \in TNames, a \in TArgLists}

\* The other help requests of the two generators (graph documentation, tutorial); global options come before
\* the sub-command, after it they may be refused
HelpVectors ==
    {[tool |-> t, name |-> "", valid |-> a, kinds |-> <<>>, fmt |-> "default", dev |-> "raw_help", pos |-> 0, cls |-> "",
      opts |-> {}] : t \in Tools,
                     a \in { <<h>> : h \in {"--help-graph", "--help-bipartite", "--help-dag", "--tutorial", "--help", "-h"} }
                        \cup { <<"-q", h>> : h \in {"--help-graph", "--help-dag"} } }

\* Graph constructions with every combination of small numeric arguments (0 and 1 are where the
\* validators and the samplers meet): the sub-command is the simplest one taking that graph type.
Constructions == { <<"tiling", "gnp", 2>>, <<"tiling", "gnm", 2>>, <<"tiling", "gnd", 2>>, <<"tiling", "grid", 2>>,
                   <<"tiling", "torus", 2>>, <<"tiling", "complete", 1>>, <<"tiling", "complete", 2>>, <<"tiling", "empty", 1>>,
                   <<"tiling", "gnp", 3>>,
                   <<"php", "glrp", 3>>, <<"php", "glrm", 3>>, <<"php", "glrd", 3>>, <<"php", "regular", 3>>,
                   <<"php", "shift", 3>>, <<"php", "complete", 2>>, <<"php", "empty", 2>>,
                   <<"peb", "pyramid", 1>>, <<"peb", "tree", 1>>, <<"peb", "path", 1>> }
SmallArgs == {"0", "1", "2", "3"}
SpecGridVectors ==
    UNION {{[tool |-> "cnfgen", name |-> c[1], valid |-> <<c[2]>> \o a, kinds |-> <<>>, fmt |-> "default",
             dev |-> "graph_spec_grid", pos |-> 0, cls |-> "", opts |-> {}] : a \in [1..c[3] -> SmallArgs]} : c \in Constructions}

\* valid command lines whose formulas have many rows (more than one page of the LaTeX document)
LargeValid == { <<"and", "20", "20">>, <<"or", "30", "30">>, <<"php", "7", "6">>, <<"count", "8", "2">>,
                <<"ram", "3", "3", "7">>, <<"op", "6">>, <<"parity", "10">>, <<"vdw", "12", "3", "3">>,
                <<"cliquecoloring", "5", "3", "2">>, <<"rphp", "4", "4", "3">>, <<"ptn", "40">>,
                <<"kcolor", "3", "grid", "4", "4">>, <<"tseitin", "first", "grid", "4", "4">>,
                <<"peb", "pyramid", "7">>, <<"stone", "3", "pyramid", "3">>, <<"cpls", "2", "4", "4">> }
LargeVectors ==
    {[tool |-> t, name |-> "", valid |-> a, kinds |-> <<>>, fmt |-> f, dev |-> "large_valid", pos |-> 0, cls |-> "",
      opts |-> {}] : t \in Tools, a \in LargeValid, f \in Formats}

\* the two single-purpose tools: no sub-command, an input file option
OtherTools == { [tool |-> "cnfshuffle", sc |-> Sub("", <<"word", "file">>, <<"-i", "@cnf">>,
                                                  {"-p", "-v", "-c", "-q", "--no-polarity-flips"})],
                [tool |-> "kthlist2pebbling", sc |-> Sub("", <<"word", "gdfile">>, <<"-i", "@gdfile">>, {})],
                [tool |-> "kthlist2pebbling", sc |-> Sub("", <<"word", "gdfile", "word", "pos">>,
                                                        <<"-i", "@gdfile", "xor", "2">>, {})] }
OtherVectors ==
       UNION {{V(x.tool, x.sc, "dimacs", "none", 0, "", o) : o \in {{}} \cup {{y} : y \in x.sc.opts}} : x \in OtherTools}
  \cup UNION {{V(x.tool, x.sc, "default", "class", 2, c, o) : c \in FileClasses \cup {"cyclic_graph_file", "stdin_closed"},
                                                               o \in {{}} \cup {{y} : y \in x.sc.opts}} :
                 x \in OtherTools}
  \cup {V(x.tool, x.sc, "default", d, 0, "", {}) : x \in OtherTools,
            d \in {"missing_last", "extra_argument", "unknown_option", "help", "seed_word", "output_to_directory"}}
AllVectors == Vectors \cup OtherVectors \cup RefusalVectors \cup SpecGridVectors \cup LargeVectors \cup TArityVectors \cup HelpVectors

\* dimacs output cannot be asked of pbgen, and transformations are cnfgen's
Expect(v) ==
    IF v.dev = "large_valid" THEN (IF v.tool = "pbgen" /\ v.fmt = "dimacs" THEN "any" ELSE "must_succeed")
    ELSE IF v.dev = "build_refusal" THEN
         \* pbgen refuses '-T' and '--output-format dimacs' while parsing: the format is not established yet
         (IF v.tool = "pbgen" /\ (v.fmt = "option_dimacs" \/ \E k \in 1..Len(v.valid) : v.valid[k] = "-T")
          THEN "any" ELSE "any_strict_marker")
    ELSE IF v.dev \in {"help", "sub_help", "raw_help"} THEN "help"
    ELSE IF v.dev = "none" /\ ~(v.tool = "pbgen" /\ v.fmt = "dimacs") /\ ~(v.tool = "pbgen" /\ v.name = "dimacs")
         THEN "must_succeed"
    ELSE "any"

VARIABLE done
Init == done = 0
Next == /\ done = 0
        /\ PrintT(ToJson({[v |-> v, expect |-> Expect(v)] : v \in AllVectors}))
        /\ done' = 1
Spec == Init /\ [][Next]_done
=============================================================================
