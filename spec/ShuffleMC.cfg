\* theorem, quick scope A: <= 3 variables, <= 2 clauses (width-2 clauses as ordered pairs)
SPECIFICATION Spec
CONSTANTS
  MaxVars = 3
  MaxClauses = 2
  OrderedClauses = TRUE
  Pairs = FALSE
CHECK_DEADLOCK FALSE
INVARIANT Theorem
INVARIANT Identity
