SPECIFICATION Spec
CONSTANTS GraphsDrawnBeforeSeed = TRUE
  FalsySeedSkipped = FALSE
  VersionFromCwd = FALSE
INVARIANT SameOutput
INVARIANT NoUnseededDraw
CHECK_DEADLOCK FALSE
