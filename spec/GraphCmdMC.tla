----------------------------- MODULE GraphCmdMC -----------------------------
(***************************************************************************)
(* "TLC on the model" for C15: machine-checks GraphCmd.tla itself.         *)
(*  - the documented closed forms (orders and sizes of path, tree, pyramid,*)
(*    grid, torus) agree with the explicit constructions;                  *)
(*  - the shape predicates used beyond 7 vertices are sound (every upward  *)
(*    renumbering of the named graph passes) and, on the sizes that can be *)
(*    enumerated, complete (everything that passes is isomorphic to it);   *)
(*  - a graph with the `regular` promise has L*d = R*d' edges, `glrd` L*d; *)
(*  - the modifier predicates accept the intended constructions (planting  *)
(*    a clique on any vertex set, adding any set of missing edges,         *)
(*    subdividing any set of edges) and reject the nearest wrong ones.     *)
(* One initial state per instance, invariants guarded by the instance kind.*)
(***************************************************************************)
EXTENDS GraphCmd

VARIABLE inst
vars == <<inst>>

RECURSIVE SeqsUpTo(_, _)
SeqsUpTo(S, k) == IF k = 0 THEN {<<>>}
                  ELSE SeqsUpTo(S, k - 1) \cup {Append(s, x) : s \in {q \in SeqsUpTo(S, k - 1) : Len(q) = k - 1}, x \in S}

RECURSIVE SeqOf(_)
SeqOf(S) == IF S = {} THEN <<>> ELSE LET x == MinOf(S) IN <<x>> \o SeqOf(S \ {x})

DimLists == SeqsUpTo(1..4, 3) \ {<<>>}

Simple(n, E) == [kind |-> "simple", n |-> n, edges |-> SortedEdgeSeq(E)]
Bip(L, R, E) == [kind |-> "bipartite", L |-> L, R |-> R, edges |-> SortedEdgeSeq(E)]

DagN(c, h) == CASE c = "path" -> PathN(h) [] c = "tree" -> TreeN(h) [] c = "pyramid" -> PyrN(h)
DagM(c, h) == CASE c = "path" -> PathM(h) [] c = "tree" -> TreeM(h) [] c = "pyramid" -> PyrM(h)
DagRef(c, h) == CASE c = "path" -> RefPathE(h) [] c = "tree" -> RefTreeE(h) [] c = "pyramid" -> RefPyramidE(h)
DagShape(c, n, E, h) == CASE c = "path" -> PathShape(n, E, h) [] c = "tree" -> TreeShape(n, E, h)
                          [] c = "pyramid" -> PyramidShape(n, E, h)
DagCases == {<<"path", h>> : h \in 0..6} \cup {<<"tree", h>> : h \in 0..4} \cup {<<"pyramid", h>> : h \in 0..5}
SmallDagCases == {<<"path", h>> : h \in 0..5} \cup {<<"tree", h>> : h \in 0..2} \cup {<<"pyramid", h>> : h \in 0..2}
\* the two enumerations that take minutes run in the thorough tier only
BigCands      == {<<"path", 5>>, <<"tree", 2>>}     \* 6 and 7 vertices

CONSTANT Part     \* which instance set to enumerate (one TLC process per part)

Instances ==
  CASE Part = "closed" ->
       {[k |-> "dag", c |-> t[1], h |-> t[2]] : t \in DagCases}
  \cup {[k |-> "grid", d |-> d] : d \in DimLists}
  \cup {[k |-> "shift", L |-> t[1], R |-> t[2], pat |-> SeqOf(P)] :
                 t \in (1..3) \X (1..4), P \in SUBSET (0..4)}
    [] Part \in {"image", "imagefull"} ->
       \* every renumbering of a small named DAG
       UNION {{[k |-> "image", c |-> t[1], h |-> t[2], f |-> f] : f \in PermSeqs(1..DagN(t[1], t[2]))} :
                 t \in IF Part = "image" THEN SmallDagCases \ BigCands ELSE BigCands}
    [] Part \in {"cand", "candfull"} ->
       \* every upward digraph with the order and size of a small named DAG
       UNION {{[k |-> "cand", c |-> t[1], h |-> t[2], E |-> E] :
                 E \in KSub(Pairs(1..DagN(t[1], t[2])), DagM(t[1], t[2]))} :
                 t \in IF Part = "cand" THEN SmallDagCases \ BigCands ELSE BigCands}
    [] Part = "multi" ->
       \* complete multipartite graphs: all graphs on N*t <= 5 vertices
       UNION {{[k |-> "multi", N |-> t[1], t |-> t[2], E |-> E] : E \in SUBSET Pairs(1..(t[1] * t[2]))} :
                 t \in {x \in (1..5) \X (1..5) : x[1] * x[2] <= 5}}
    [] Part = "multifull" ->
       \* ... and those of the right size on 6 vertices
       UNION {{[k |-> "multi", N |-> t[1], t |-> t[2], E |-> E] :
                 E \in KSub(Pairs(1..6), Cardinality(MultipartiteE(t[1], t[2])))} : t \in {<<2, 3>>, <<3, 2>>}}
    [] Part = "bip" ->
       UNION {{[k |-> "bip", L |-> t[1], R |-> t[2], d |-> d, E |-> E] :
                 E \in SUBSET ((1..t[1]) \X (1..t[2])), d \in 0..3} : t \in (1..3) \X (1..3)}
    [] Part = "mods" ->
       \* modifiers on all graphs with at most 4 vertices
       UNION {{[k |-> "mods", n |-> n, E |-> E, S |-> S] : E \in SUBSET Pairs(1..n), S \in SUBSET (1..n)} : n \in 0..4}
  \cup UNION {{[k |-> "split", n |-> t[1], E |-> t[2], K |-> K] : K \in SUBSET t[2]} :
                 t \in UNION {{<<m, F>> : F \in SUBSET Pairs(1..m)} : m \in 0..4}}
  \cup UNION {{[k |-> "biplant", L |-> t[1], R |-> t[2], E |-> E, A |-> A, B |-> B] :
                 E \in SUBSET ((1..t[1]) \X (1..t[2])), A \in SUBSET (1..t[1]), B \in SUBSET (1..t[2])} :
                 t \in {<<1, 1>>, <<2, 2>>, <<3, 2>>, <<2, 3>>}}

Init == inst \in Instances
Next == UNCHANGED inst
Spec == Init /\ [][Next]_vars

-----------------------------------------------------------------------------
\* documented closed forms = explicit construction; the construction has the shape
Dag_ClosedForms ==
    inst.k = "dag" =>
        LET n == DagN(inst.c, inst.h)
            E == DagRef(inst.c, inst.h) IN
        /\ Cardinality(E) = DagM(inst.c, inst.h)
        /\ E \subseteq Pairs(1..n)
        /\ DagShape(inst.c, n, E, inst.h)
        /\ PromiseDag(inst.c, <<[i |-> inst.h]>>, [kind |-> "digraph", n |-> n, edges |-> SortedEdgeSeq(E)]) = "ok"
        /\ Cardinality(Sinks(n, E)) = 1
        /\ Cardinality(Sources(n, E)) = (CASE inst.c = "path" -> 1 [] inst.c = "tree" -> Pow2(inst.h)
                                           [] inst.c = "pyramid" -> inst.h + 1)

Grid_ClosedForms ==
    inst.k = "grid" =>
        LET d == inst.d
            N == GridN(d) IN
        /\ RefGridE(d) \subseteq Pairs(1..N) /\ RefTorusE(d) \subseteq Pairs(1..N)
        /\ Cardinality(RefGridE(d)) = GridM(d)
        /\ Cardinality(RefTorusE(d)) = TorusM(d)
        /\ ConnectedE(N, RefGridE(d))
        /\ (\A j \in 1..Len(d) : d[j] >= 3) => \A v \in 1..N : DegS(RefTorusE(d), v) = 2 * Len(d)
        /\ (\A j \in 1..Len(d) : d[j] <= 2) => RefTorusE(d) = RefGridE(d)
        /\ GridLikeVerdict(N, RefGridE(d), N, GridM(d), RefGridE(d), "grid") = "ok"

\* soundness: whatever upward numbering the implementation picks, the shape test passes
Shape_Sound ==
    inst.k = "image" =>
        LET n == DagN(inst.c, inst.h)
            E == {<<inst.f[e[1]], inst.f[e[2]]>> : e \in DagRef(inst.c, inst.h)} IN
        Upward(E) => /\ DagShape(inst.c, n, E, inst.h)
                     /\ PromiseDag(inst.c, <<[i |-> inst.h]>>,
                                   [kind |-> "digraph", n |-> n, edges |-> SortedEdgeSeq(E)]) = "ok"

\* completeness on the enumerable sizes: passing the shape test means being the named graph
Shape_Complete ==
    inst.k = "cand" =>
        LET n == DagN(inst.c, inst.h) IN
        DagShape(inst.c, n, inst.E, inst.h) => IsoDi(n, inst.E, DagRef(inst.c, inst.h))

Multipartite_Characterised ==
    inst.k = "multi" =>
        LET n == inst.N * inst.t IN
        MultipartiteShape(n, inst.E, inst.N, inst.t) <=> IsoSimple(n, inst.E, MultipartiteE(inst.N, inst.t))

Multipartite_Balanced ==
    inst.k = "multi" =>
        LET n == inst.N * inst.t IN
        MultipartiteShape(n, inst.E, inst.N, inst.t) => BalancedPartite(n, inst.E, inst.N, inst.t)

Regular_EdgeCount ==
    inst.k = "bip" =>
        LET G == Bip(inst.L, inst.R, inst.E)
            a == <<[i |-> inst.L], [i |-> inst.R], [i |-> inst.d]>> IN
        /\ (inst.d <= inst.R /\ (inst.L * inst.d) % inst.R = 0 /\ PromiseBipartite("regular", a, G) = "ok")
             => /\ Cardinality(inst.E) = inst.L * inst.d
                /\ Cardinality(inst.E) = inst.R * ((inst.L * inst.d) \div inst.R)
        /\ PromiseBipartite("glrd", a, G) = "ok" => Cardinality(inst.E) = inst.L * inst.d
        /\ PromiseBipartite("glrm", a, G) = "ok" <=> Cardinality(inst.E) = inst.d
        \* a request outside the range cannot be promised by any graph
        /\ ConstrClass("bipartite", "regular", a) = "unmeetable" => PromiseBipartite("regular", a, G) # "ok"
        /\ ConstrClass("bipartite", "glrd", a) = "unmeetable" => PromiseBipartite("glrd", a, G) # "ok"

Shift_Degrees ==
    inst.k = "shift" =>
        LET E == ShiftE(inst.L, inst.R, inst.pat) IN
        /\ E \subseteq CompleteBipE(inst.L, inst.R)
        /\ \A u \in 1..inst.L : OutDeg(E, u) = Cardinality({v % inst.R : v \in Range(inst.pat)})

Plant_Intended ==
    inst.k = "mods" =>
        LET G == Simple(inst.n, inst.E)
            H == Simple(inst.n, inst.E \cup Pairs(inst.S))
            k == Cardinality(inst.S) IN
        /\ PlantOK(G, H, k) /\ PlantVerdict(G, H, k) = "ok"
        \* planting nothing is right exactly when the clique is already there
        /\ PlantOK(G, G, k) <=> HasClique(G, k)
        \* a clique request larger than the graph cannot be met
        /\ ~PlantOK(G, H, inst.n + 1)

AddEdges_Intended ==
    inst.k = "mods" =>
        LET G == Simple(inst.n, inst.E)
            A == Pairs(inst.S) \ inst.E
            H == Simple(inst.n, inst.E \cup A) IN
        /\ AddEdgesOK(G, H, Cardinality(A)) /\ AddEdgesVerdict(G, H, Cardinality(A)) = "ok"
        /\ ~AddEdgesOK(G, H, Cardinality(A) + 1)
        /\ A # {} => ~AddEdgesOK(G, H, Cardinality(A) - 1)

\* subdividing the edges K (in sorted order) with new vertices n+1, n+2, ...
SplitOf(n, E, K) ==
    LET ks == SortedEdgeSeq(K) IN
    (E \ K) \cup UNION {{<<ks[j][1], n + j>>, <<ks[j][2], n + j>>} : j \in 1..Len(ks)}

Split_Intended ==
    inst.k = "split" =>
        LET G == Simple(inst.n, inst.E)
            k == Cardinality(inst.K)
            H == Simple(inst.n + k, SplitOf(inst.n, inst.E, inst.K)) IN
        /\ SplitOK(G, H, k) /\ SplitVerdict(G, H, k) = "ok"
        /\ k > 0 => ~SplitOK(G, G, k)
        \* removing the edge without routing it through the new vertex is not a split
        /\ k > 0 => ~SplitOK(G, Simple(inst.n + k, inst.E \ inst.K), k)
        \* hanging the new vertices on other vertices is not a split of edges of G
        /\ (k > 0 /\ inst.E # Pairs(1..inst.n)) =>
               LET e == CHOOSE x \in Pairs(1..inst.n) : x \notin inst.E
                   f == CHOOSE x \in inst.K : TRUE
                   Hw == Simple(inst.n + 1, (inst.E \ {f}) \cup {<<e[1], inst.n + 1>>, <<e[2], inst.n + 1>>}) IN
               ~SplitOK(G, Hw, 1)

BiPlant_Intended ==
    inst.k = "biplant" =>
        LET G == Bip(inst.L, inst.R, inst.E)
            H == Bip(inst.L, inst.R, inst.E \cup (inst.A \X inst.B))
            a == Cardinality(inst.A)
            b == Cardinality(inst.B) IN
        /\ BiPlantOK(G, H, a, b) /\ BiPlantVerdict(G, H, a, b) = "ok"
        /\ ~BiPlantOK(G, H, inst.L + 1, b)
        /\ BiPlantOK(G, G, a, b) <=>
              \E X \in SUBSET (1..inst.L) : \E Y \in SUBSET (1..inst.R) :
                  Cardinality(X) = a /\ Cardinality(Y) = b /\ X \X Y \subseteq inst.E
=============================================================================
