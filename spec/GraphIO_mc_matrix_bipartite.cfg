SPECIFICATION Spec
CONSTANTS
  Fmt = "matrix"
  Type = "bipartite"
  N = 2
  MaxLen = 6
  Mode = "free"
  Prune = TRUE
  Guide = FALSE
  Emit = FALSE
INVARIANT TypeOK
INVARIANT Conforms
INVARIANT Complete
INVARIANT DagAccept
INVARIANT RoundTripOK
CHECK_DEADLOCK FALSE
