SPECIFICATION Spec
CONSTANTS
  Fmt = "dimacs"
  Type = "dag"
  N = 3
  MaxLen = 5
  Mode = "free"
  Prune = TRUE
  Guide = FALSE
  Emit = FALSE
INVARIANT TypeOK
INVARIANT Conforms
INVARIANT Complete
INVARIANT DagAccept
INVARIANT RoundTripOK
CHECK_DEADLOCK FALSE
