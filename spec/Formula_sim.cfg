SPECIFICATION Spec
CONSTANTS
  ShapesFirst <- SimShapes
  ShapesLater <- SimShapes
  Clauses <- ClausesSim
  Updates = {0, 2, 5, 11, 30}
  MaxSteps = 11
  Export = TRUE
  Closing = TRUE
  Shard = 0
  NShards = 1
CHECK_DEADLOCK FALSE
INVARIANT Emit
