SPECIFICATION Spec
CONSTANT Part = "mods"
INVARIANT Plant_Intended
INVARIANT AddEdges_Intended
INVARIANT Split_Intended
INVARIANT BiPlant_Intended
