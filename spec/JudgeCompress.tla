--------------------------- MODULE JudgeCompress ---------------------------
(***************************************************************************)
(* Trace module for C17, compression shortcuts: `-T xorcomp N [d]` and     *)
(* `-T majcomp N [d]` compress the formula through a random bipartite      *)
(* graph that the command line draws and never shows.  The documented      *)
(* library call is VariableCompression(F, B, function) on SOME             *)
(* d-left-regular graph B with F.nvars left and N right vertices (d = 3    *)
(* when left out).  The run is right iff                                    *)
(*   - the result has N variables, named as the library names them, and    *)
(*   - there is such a graph B for which the result has exactly the models *)
(*     of VariableCompression(F, B, function) (Transform.tla: Induced).    *)
(* How the graph is drawn (which random numbers are consumed, in which     *)
(* order) is not part of the property and is not looked at.                *)
(* Record: [id, kind, N, d, base: [outcome, nvars, clauses],               *)
(*          res: [outcome, nvars, clauses, labels], names: labels of the   *)
(*          library result on an arbitrary graph of the same shape]        *)
(***************************************************************************)
EXTENDS Transform, Json, IOUtils, TLC, SequencesExt

Trace == ndJsonDeserialize(IOEnv.TRACE_FILE)
VARIABLE pos
vars == <<pos>>

\* all graphs with L left vertices of degree exactly d into 1..R
RECURSIVE Neigh(_, _, _)
Neigh(L, R, d) ==
    IF L = 0 THEN { <<>> }
    ELSE { Append(s, S) : s \in Neigh(L - 1, R, d), S \in {T \in SUBSET (1..R) : Cardinality(T) = d} }
GraphOf(L, R, nb) == [L |-> L, R |-> R, edges |-> SetToSeq(UNION {{<<u, v>> : v \in nb[u]} : u \in 1..L})]

Explains(r, nb) ==
    LET p == [kind |-> r.kind, k |-> 0, C |-> 0, graph |-> GraphOf(r.base.nvars, r.N, nb)]
    IN  \A a \in Assignments(r.N) : SatCNF(a, r.res.clauses) <=> SatCNF(Induced(p, r.base.nvars, a), r.base.clauses)

Verdict(r) ==
    IF r.base.outcome # "ok" THEN "base_formula_not_built"
    ELSE IF r.d > r.N THEN (IF r.res.outcome = "ok" THEN "degree_above_the_number_of_new_variables_accepted" ELSE "ok")
    ELSE IF r.res.outcome # "ok" THEN "unexpected_" \o r.res.outcome
    ELSE IF r.res.nvars # r.N THEN "wrong_number_of_new_variables"
    ELSE IF ~WellFormed(r.res.nvars, r.res.clauses) THEN "literal_out_of_range"
    ELSE IF r.res.labels # r.names THEN "different_names"
    ELSE IF \E nb \in Neigh(r.base.nvars, r.N, r.d) : Explains(r, nb) THEN "ok"
    ELSE "no_left_regular_graph_of_the_documented_degree_explains_the_result"

Init == pos = 1
Next == /\ pos <= Len(Trace)
        /\ PrintT(<<"VERDICT", Trace[pos].id, Verdict(Trace[pos])>>)
        /\ pos' = pos + 1
Spec == Init /\ [][Next]_vars
AllJudged == TLCGet("distinct") = Len(Trace) + 1
=============================================================================
