\* lemma behind the judge's search: all pairs (F, G) with <= 2 variables, <= 2 clauses
SPECIFICATION Spec
CONSTANTS
  MaxVars = 2
  MaxClauses = 2
  OrderedClauses = FALSE
  Pairs = TRUE
CHECK_DEADLOCK FALSE
INVARIANT Lemma
INVARIANT Fallback
