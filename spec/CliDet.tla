------------------------------- MODULE CliDet -------------------------------
(***************************************************************************)
(* Determinism of the command line tools (property C07) as a product of    *)
(* two runs of the pipeline with the same arguments and seed but different *)
(* ambient values (OS entropy, hash seed, working directory).              *)
(*                                                                         *)
(* One run: Parse (which builds the graph arguments: argparse actions      *)
(* materialise graphs while parsing) -> Seed -> Build -> Transform ->      *)
(* Header -> Write.  Each stage may draw random numbers; a draw yields a   *)
(* value that is a function of the seed if a seed has been installed, and  *)
(* an ambient value otherwise.  The header may contain an ambient value.   *)
(* Three implementation facts are parameters, so that the model describes  *)
(* the code as it is (TRUE) or as the property needs it (FALSE):           *)
(*   GraphsDrawnBeforeSeed   graph arguments are drawn during Parse, i.e.  *)
(*                           before the Seed stage                         *)
(*   FalsySeedSkipped        `if seed:` - seed 0 is not installed          *)
(*   VersionFromCwd          the header's version comes from the cwd       *)
(* TLC: with all three FALSE the invariant SameOutput holds; switching any *)
(* one on yields a counterexample (cfgs CliDet_*.cfg).                     *)
(***************************************************************************)
EXTENDS Integers, Sequences, TLC

CONSTANTS GraphsDrawnBeforeSeed, FalsySeedSkipped, VersionFromCwd

Seeds == {-1, 0, 5}                       \* -1 stands for "--seed absent"
VARIABLES seed,          \* the --seed argument (same in both runs)
          draws,         \* which stages draw: [graph, build, transform] -> BOOLEAN (same in both runs)
          stage,         \* 1..6, both runs advance together (same code, same arguments)
          seeded,        \* has a seed been installed yet?
          out1, out2     \* outputs so far: sequences of values
vars == <<seed, draws, stage, seeded, out1, out2>>

Amb1 == 1001   Amb2 == 2002              \* ambient values differ between the processes
Draw(isSeeded, amb, tag) == IF isSeeded THEN tag ELSE amb + tag

Init == /\ seed \in Seeds
        /\ draws \in [{"graph", "build", "transform"} -> BOOLEAN]
        /\ stage = 1 /\ seeded = FALSE /\ out1 = <<>> /\ out2 = <<>>

Emit(tag, isSeeded) == /\ out1' = Append(out1, Draw(isSeeded, Amb1, tag))
                       /\ out2' = Append(out2, Draw(isSeeded, Amb2, tag))

Parse ==     \* graph arguments are built here when GraphsDrawnBeforeSeed
    /\ stage = 1 /\ stage' = 2 /\ UNCHANGED <<seed, draws, seeded>>
    /\ IF GraphsDrawnBeforeSeed /\ draws["graph"] THEN Emit(10, seeded) ELSE UNCHANGED <<out1, out2>>
SeedStage ==
    /\ stage = 2 /\ stage' = 3 /\ UNCHANGED <<seed, draws, out1, out2>>
    /\ seeded' = (seed # -1 /\ ~(FalsySeedSkipped /\ seed = 0))
Build ==
    /\ stage = 3 /\ stage' = 4 /\ UNCHANGED <<seed, draws, seeded>>
    /\ LET g == ~GraphsDrawnBeforeSeed /\ draws["graph"]
           b == draws["build"] IN
       /\ out1' = out1 \o (IF g THEN <<Draw(seeded, Amb1, 10)>> ELSE <<>>) \o (IF b THEN <<Draw(seeded, Amb1, 20)>> ELSE <<>>)
       /\ out2' = out2 \o (IF g THEN <<Draw(seeded, Amb2, 10)>> ELSE <<>>) \o (IF b THEN <<Draw(seeded, Amb2, 20)>> ELSE <<>>)
Transform ==
    /\ stage = 4 /\ stage' = 5 /\ UNCHANGED <<seed, draws, seeded>>
    /\ IF draws["transform"] THEN Emit(30, seeded) ELSE UNCHANGED <<out1, out2>>
Header ==
    /\ stage = 5 /\ stage' = 6 /\ UNCHANGED <<seed, draws, seeded>>
    /\ out1' = Append(out1, IF VersionFromCwd THEN Amb1 ELSE 7)
    /\ out2' = Append(out2, IF VersionFromCwd THEN Amb2 ELSE 7)
Next == Parse \/ SeedStage \/ Build \/ Transform \/ Header
Spec == Init /\ [][Next]_vars

\* the property: with a seed given, the two outputs are equal
SameOutput == (stage = 6 /\ seed # -1) => out1 = out2
\* what the observed event traces are classified with (JudgeDet): a run is deterministic
\* iff no draw happened while unseeded and no ambient value is in the header
NoUnseededDraw == (stage = 6 /\ seed # -1 /\ out1 # out2) =>
                      (GraphsDrawnBeforeSeed \/ FalsySeedSkipped \/ VersionFromCwd)
=============================================================================
