----------------------------- MODULE OpbLatexMC -----------------------------
(***************************************************************************)
(* Model checking of OpbLatexIO.tla itself (property C12): a formula is    *)
(* built by add_clause / add_constraint steps (every tiny formula is a     *)
(* reachable state); in every state the abstract writers are composed with *)
(* the reading side:                                                       *)
(*   - the denotation of the written OPB text is the formula (round trip), *)
(*     with every combination of header / variable names;                  *)
(*   - the LaTeX rows written in snippet and in document form (split into  *)
(*     pages) are judged LatexOK;                                          *)
(*   - sensitivity: the text written for a mutated formula (row dropped,   *)
(*     duplicated, swapped; literal negated or renamed; coefficient,       *)
(*     relation, degree changed; term order reversed) is judged OK exactly *)
(*     when the mutation left the constraint list the same up to term      *)
(*     order -- so OpbOK / LatexOK are neither vacuous nor over-strict;    *)
(*   - the writers shaped exactly like the code (no `;' after a            *)
(*     constraint, a coefficient shown only when > 1) get the verdicts     *)
(*     constraint_not_terminated / wrong_coefficient precisely on the      *)
(*     formulas with a constraint / a zero coefficient.                    *)
(***************************************************************************)
EXTENDS OpbLatexIO

CONSTANTS Cls,        \* "CNF" | "OPB"
          NVars,      \* 1..3
          MaxRows, MaxWidth,
          Coefs, Degs,        \* coefficients and degrees of stored constraints (OPB)
          PageSize

VARIABLE F
vars == <<F>>
DegsOne   == {1}
DegsTwo   == {2}
DegsSmall == {-1, 2}
DegsWide  == {-2, 0, 1, 3}

Lits == {l \in (-NVars)..NVars : l # 0}
Tuples(S, k) == UNION {[1..n -> S] : n \in 0..k}
ClauseChoices == Tuples(Lits, MaxWidth)
ConsChoices   == [terms : Tuples(Coefs \X Lits, MaxWidth), op : {">=", "=="}, deg : Degs]

Rows(G) == IF G.cls = "CNF" THEN G.clauses ELSE G.constraints
WithRows(G, R) == IF G.cls = "CNF" THEN [G EXCEPT !.clauses = R] ELSE [G EXCEPT !.constraints = R]

Init == F = IF Cls = "CNF" THEN [cls |-> "CNF", nvars |-> NVars, clauses |-> <<>>]
                           ELSE [cls |-> "OPB", nvars |-> NVars, constraints |-> <<>>]
AddClause(c)     == F' = [F EXCEPT !.clauses = Append(@, c)]
AddConstraint(c) == F' = [F EXCEPT !.constraints = Append(@, c)]
Next == /\ Len(Rows(F)) < MaxRows
        /\ IF Cls = "CNF" THEN \E c \in ClauseChoices : AddClause(c)
                          ELSE \E c \in ConsChoices : AddConstraint(c)
Spec == Init /\ [][Next]_vars

-----------------------------------------------------------------------------
(* names: variable 1 is named {p_{1}}^2 (the overline of the code lands     *)
(* inside the group: the lexer reads {p}_{1}^2 back), variable 2 has no     *)
(* name (x2, shown as x_2), variable 3 is named y                           *)
AllLabels == << <<"{", "p", "_", "{", "1", "}", "}", "^", "2">>, <<"x", "2">>, <<"y">> >>
AllNamed  == <<TRUE, FALSE, TRUE>>
AllPos    == << <<"{", "p", "_", "{", "1", "}", "}", "^", "2">>, <<"x", "_", "2">>, <<"y">> >>
AllNeg    == << <<"{", "p", "}", "_", "{", "1", "}", "^", "2">>, <<"x", "_", "2">>, <<"y">> >>
Labels == SubSeq(AllLabels, 1, NVars)
Named  == SubSeq(AllNamed, 1, NVars)
Shown  == [pos |-> SubSeq(AllPos, 1, NVars), neg |-> SubSeq(AllNeg, 1, NVars)]

-----------------------------------------------------------------------------
(* mutants of a formula                                                     *)
Other(l) == IF AbsV(l) = NVars THEN Sgn(l) * 1 ELSE Sgn(l) * (AbsV(l) + 1)
Rev(s) == [h \in 1..Len(s) |-> s[Len(s) + 1 - h]]
Lit1(f(_), row) == IF F.cls = "CNF" THEN [row EXCEPT ![1] = f(@)]
                   ELSE [row EXCEPT !.terms[1] = <<@[1], f(@[2])>>]
Width(row) == IF F.cls = "CNF" THEN Len(row) ELSE Len(row.terms)
RevRow(row) == IF F.cls = "CNF" THEN Rev(row) ELSE [row EXCEPT !.terms = Rev(@)]
Neg(l) == -l

RowMutants(R) ==
       {R}
    \cup (IF Len(R) >= 1 THEN {SubSeq(R, 1, Len(R) - 1), Append(R, R[Len(R)]), Tail(R)} ELSE {})
    \cup (IF Len(R) >= 2 THEN {<<R[2], R[1]>> \o SubSeq(R, 3, Len(R))} ELSE {})
    \cup {[R EXCEPT ![j] = Lit1(Neg, @)]   : j \in {k \in 1..Len(R) : Width(R[k]) >= 1}}
    \cup {[R EXCEPT ![j] = Lit1(Other, @)] : j \in {k \in 1..Len(R) : Width(R[k]) >= 1}}
    \cup {[R EXCEPT ![j] = RevRow(@)]      : j \in 1..Len(R)}
    \cup (IF F.cls = "CNF" THEN {}
          ELSE    {[R EXCEPT ![j].terms[1] = <<@[1] + 1, @[2]>>] : j \in {k \in 1..Len(R) : Width(R[k]) >= 1}}
             \cup {[R EXCEPT ![j].op = IF @ = ">=" THEN "==" ELSE ">="] : j \in 1..Len(R)}
             \cup {[R EXCEPT ![j].deg = @ + 1] : j \in 1..Len(R)})

Mutants == {WithRows(F, R) : R \in RowMutants(Rows(F))} \cup {[F EXCEPT !.nvars = @ + 1]}

SameRows(G, H) == /\ Len(Cons(G)) = Len(Cons(H))
                  /\ \A j \in 1..Len(Cons(G)) : SameCons(Cons(G)[j], Cons(H)[j])

-----------------------------------------------------------------------------
(* invariants                                                               *)

OpbRoundTrip ==
    \A h \in BOOLEAN, v \in BOOLEAN :
        LET t == OpbWrite(F, h, v, 4, TRUE)
        IN  /\ HasOpbDenotation(t)
            /\ OpbDenotes(t).nvars = F.nvars
            /\ OpbDenotes(t).ncons = Len(Cons(F))
            /\ OpbDenotes(t).cons = Cons(F)
            /\ OpbOK(F, t)

\* the writer as the code has it: constraint lines are not terminated
OpbAsCode ==
    \A h \in BOOLEAN, v \in BOOLEAN :
        LET t == OpbWrite(F, h, v, 4, FALSE)
        IN  /\ HasOpbDenotation(t) /\ OpbDenotes(t).cons = Cons(F)
            /\ OpbWhy(F, t) = IF Len(Cons(F)) = 0 THEN "ok" ELSE "constraint_not_terminated"

OpbSensitive ==
    \A G \in Mutants : OpbOK(F, OpbWrite(G, FALSE, TRUE, 0, TRUE)) <=> SameFormula(F, G)

\* a comment line anywhere changes nothing; an exposed non-comment line is never accepted
OpbCommentsOnly ==
    LET t == OpbWrite(F, TRUE, TRUE, 2, TRUE)
        exposed == [k |-> "d", t |-> <<OTok("word", 0, "exposed")>>]
    IN  /\ \A p \in 1..Len(t) : OpbOK(F, SubSeq(t, 1, p) \o <<Comment>> \o SubSeq(t, p + 1, Len(t)))
        /\ \A p \in 1..Len(t) : OpbWhy(F, SubSeq(t, 1, p) \o <<exposed>> \o SubSeq(t, p + 1, Len(t)))
                                 = "line_not_comment_not_constraint"
        /\ OpbWhy(F, <<Comment>> \o t) = "malformed_header_line"

LatexRoundTrip ==
    /\ LatexOK(F, Labels, Named, LatexSnippet(F, Shown, FALSE), "snippet", PageSize)
    /\ LatexOK(F, Labels, Named, LatexDocument(F, Shown, PageSize, FALSE), "document", PageSize)
    \* a document may use shorter or longer pages (typesetting); a snippet is never split
    /\ LatexOK(F, Labels, Named, LatexDocument(F, Shown, 1, FALSE), "document", PageSize)
    /\ LatexOK(F, Labels, Named, LatexDocument(F, Shown, PageSize + 1, FALSE), "document", PageSize)
    /\ LatexWhy(F, Labels, Named, LatexWrite(F, Shown, PageSize, TRUE, FALSE), "snippet", PageSize)
          = IF Len(Cons(F)) > PageSize THEN "snippet_is_split" ELSE "ok"

HasZeroCoef == \E j \in 1..Len(Cons(F)) : \E h \in 1..Len(Cons(F)[j].terms) : Cons(F)[j].terms[h][1] = 0
\* the writer as the code has it: a coefficient is shown only when it is > 1
LatexAsCode ==
    LatexWhy(F, Labels, Named, LatexSnippet(F, Shown, TRUE), "snippet", PageSize)
        = IF HasZeroCoef THEN "wrong_coefficient" ELSE "ok"

LatexSensitive ==
    \A G \in Mutants :
        /\ LatexOK(F, Labels, Named, LatexSnippet(G, Shown, FALSE), "snippet", PageSize) <=> SameRows(F, G)
        /\ LatexOK(F, Labels, Named, LatexDocument(G, Shown, PageSize, FALSE), "document", PageSize) <=> SameRows(F, G)
=============================================================================
