-------------------------- MODULE ContainerTrace --------------------------
(***************************************************************************)
(* Trace validation (code -> spec) for Container.tla: sequences of         *)
(* add_clause / add_clauses_from / update_variable_number calls made on a  *)
(* real formula object, each recorded after it returned (or raised) with   *)
(* its arguments, outcome, number of variables, number of clauses and the  *)
(* four answers of debug(); the last event is the observation of the whole *)
(* listing through iteration, item access and clauses().  A trace is       *)
(* accepted iff it is a behaviour of Container.tla whose views are the     *)
(* recorded ones after every call.  Several traces per run (tid).          *)
(***************************************************************************)
EXTENDS Container, IOUtils, Json

Traces == JsonDeserialize(IOEnv.TRACE_FILE)

VARIABLES tid, l
tvars == <<vars, tid, l>>

Ev == Traces[tid].events[l]
IsEvent(op) == l <= Len(Traces[tid].events) /\ Ev.op = op /\ l' = l + 1 /\ tid' = tid

TraceInit == tid \in 1..Len(Traces) /\ l = 1 /\ Init

\* dbg = answers of debug(ao, ar) for (F,F), (F,T), (T,F), (T,T)
Flags == << <<FALSE, FALSE>>, <<FALSE, TRUE>>, <<TRUE, FALSE>>, <<TRUE, TRUE>> >>
Logged == /\ res' = Ev.res
          /\ numvar' = Ev.n
          /\ Len(cls') = Ev.m
          /\ \A q \in 1..4 : Ev.dbg[q] \in DebugAnswers(numvar', cls', Flags[q][1], Flags[q][2])

TraceAdd     == IsEvent("add_clause") /\ AddClause(Ev.c, Ev.check) /\ Logged
TraceAddFrom == IsEvent("add_clauses_from") /\ AddClausesFrom(Ev.cs, Ev.check) /\ Logged
TraceUpdate  == IsEvent("update_variable_number") /\ Update(Ev.k) /\ Logged
TraceFinal   == /\ IsEvent("final")
                /\ Ev.iter = cls /\ Ev.items = cls /\ Ev.view = cls
                /\ PrintT(<<"ACCEPTED", Traces[tid].id>>)
                /\ UNCHANGED vars

TraceNext == TraceAdd \/ TraceAddFrom \/ TraceUpdate \/ TraceFinal
TraceSpec == TraceInit /\ [][TraceNext]_tvars
=============================================================================
