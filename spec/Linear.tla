------------------------------- MODULE Linear -------------------------------
(***************************************************************************)
(* Linear, parity and mapping constraint builders (property C04).          *)
(*                                                                         *)
(*  - Meaning...: what a constraint *means* (arithmetic on the positions   *)
(*    of the literal list: a repeated literal counts twice).               *)
(*  - Blast, ParityEnc, Normalize: the encodings the library documents,    *)
(*    transcribed, so that TLC can check the *design* (LinearMC).          *)
(*  - Map...: meanings of complete / functional / injective / surjective / *)
(*    non-decreasing for unary, sparse and binary mappings.                *)
(***************************************************************************)
EXTENDS CnfSem

Ops == {"<=", ">=", "<", ">", "==", "!="}

Cmp(x, op, k) ==
    CASE op = "<=" -> x <= k
      [] op = ">=" -> x >= k
      [] op = "<"  -> x < k
      [] op = ">"  -> x > k
      [] op = "==" -> x = k
      [] op = "!=" -> x # k

\* the stated arithmetic condition on the given literals
MeaningLinear(a, lits, op, k) == Cmp(CountTrue(a, lits), op, k)
MeaningParity(a, lits, odd)   == (CountTrue(a, lits) % 2 = 1) <=> odd
\* the named calls
MeaningCall(a, call, lits, k) ==
    LET s == CountTrue(a, lits)  n == Len(lits) IN
    CASE call = "cardinality_geq"     -> s >= k
      [] call = "cardinality_leq"     -> s <= k
      [] call = "cardinality_eq"      -> s = k
      [] call = "cardinality_neq"     -> s # k
      [] call = "add_loose_majority"  -> 2 * s >= n
      [] call = "add_loose_minority"  -> 2 * s <= n
      [] call = "add_strict_majority" -> 2 * s > n
      [] call = "add_strict_minority" -> 2 * s < n

-----------------------------------------------------------------------------
(* The documented clause encodings, as sets of clauses (a clause = sequence)*)

NegSeq(lits) == [i \in 1..Len(lits) |-> -lits[i]]
\* subsequence of lits at the positions in S, in order
RECURSIVE Pick(_, _, _)
Pick(lits, S, i) == IF i > Len(lits) THEN <<>>
                    ELSE (IF i \in S THEN <<lits[i]>> ELSE <<>>) \o Pick(lits, S, i + 1)

\* sum >= k : every (n-k+1)-subset of the positions contains a true literal
BlastGeq(lits, k) ==
    LET n == Len(lits) IN
    IF k <= 0 THEN {}
    ELSE IF k > n THEN {<<>>}
    ELSE {Pick(lits, S, 1) : S \in Subsets(1..n, n - k + 1)}

RECURSIVE Blast(_, _, _)
Blast(lits, op, k) ==
    CASE op = ">=" -> BlastGeq(lits, k)
      [] op = "<=" -> BlastGeq(NegSeq(lits), Len(lits) - k)
      [] op = "<"  -> Blast(lits, "<=", k - 1)
      [] op = ">"  -> Blast(lits, ">=", k + 1)
      [] op = "==" -> Blast(lits, "<=", k) \cup Blast(lits, ">=", k)
      [] op = "!=" -> IF k < 0 \/ k > Len(lits) THEN {}
                      ELSE {[i \in 1..Len(lits) |-> IF i \in S THEN -lits[i] ELSE lits[i]] :
                               S \in Subsets(1..Len(lits), k)}

\* parity: forbid every sign pattern with the wrong parity
ParityEnc(lits, odd) ==
    {[i \in 1..Len(lits) |-> IF i \in S THEN -lits[i] ELSE lits[i]] :
        S \in {T \in SUBSET (1..Len(lits)) : (Cardinality(T) % 2 = 1) # odd}}

SatClauses(a, Cs) == \A c \in Cs : SatClause(a, c)

-----------------------------------------------------------------------------
(* Normalisation of pseudo-Boolean constraints (documented steps)           *)

Normalize(c) ==
    LET \* strict -> loose
        v1  == IF c.op = "<" THEN c.deg - 1 ELSE IF c.op = ">" THEN c.deg + 1 ELSE c.deg
        op1 == IF c.op = "<" THEN "<=" ELSE IF c.op = ">" THEN ">=" ELSE c.op
        \* <= -> >= by changing all signs
        flip == op1 = "<="
        t2  == [i \in 1..Len(c.terms) |-> <<(IF flip THEN -c.terms[i][1] ELSE c.terms[i][1]), c.terms[i][2]>>]
        v2  == IF flip THEN -v1 ELSE v1
        op2 == IF flip THEN ">=" ELSE op1
        \* negative coefficient: c*l = |c| * (not l) - |c|
        t3  == [i \in 1..Len(t2) |-> IF t2[i][1] < 0 THEN <<-t2[i][1], -t2[i][2]>> ELSE t2[i]]
        v3  == v2 + SumSeq([i \in 1..Len(t2) |-> IF t2[i][1] < 0 THEN -t2[i][1] ELSE 0])
    IN  [terms |-> t3, op |-> op2, deg |-> v3]

IsNormal(c) == /\ c.op \in {">=", "=="}
               /\ \A i \in 1..Len(c.terms) : c.terms[i][1] >= 0

-----------------------------------------------------------------------------
(* Mappings.  A unary / sparse mapping is a relation M(i,j) on the pairs of *)
(* a bipartite graph B (complete for new_mapping); a binary mapping gives   *)
(* each i a code h(i) in 0..2^bits-1.                                       *)

BEdge(B) == Range(B.edges)
BRight(B, i) == {j \in 1..B.R : <<i, j>> \in BEdge(B)}
BLeft(B, j)  == {i \in 1..B.L : <<i, j>> \in BEdge(B)}

MapComplete(B, M(_, _))   == \A i \in 1..B.L : \E j \in BRight(B, i) : M(i, j)
MapFunctional(B, M(_, _)) == \A i \in 1..B.L : \A j1, j2 \in BRight(B, i) : (M(i, j1) /\ M(i, j2)) => j1 = j2
MapInjective(B, M(_, _))  == \A j \in 1..B.R : \A i1, i2 \in BLeft(B, j) : (M(i1, j) /\ M(i2, j)) => i1 = i2
MapSurjective(B, M(_, _)) == \A j \in 1..B.R : \E i \in BLeft(B, j) : M(i, j)
MapNonDecreasing(B, M(_, _)) ==
    \A i1, i2 \in 1..B.L : \A j1 \in BRight(B, i1) : \A j2 \in BRight(B, i2) :
        (i1 < i2 /\ M(i1, j1) /\ M(i2, j2)) => j1 <= j2

\* binary: n elements, range 0..m-1, codes h(i)
BinComplete(n, m, h(_))   == \A i \in 1..n : h(i) < m
BinFunctional(n, m, h(_)) == TRUE
BinInjective(n, m, h(_))  == \A i1, i2 \in 1..n : (i1 # i2 /\ h(i1) < m) => h(i1) # h(i2)
BinNonDecreasing(n, m, h(_)) ==
    \A i1, i2 \in 1..n : (i1 < i2 /\ h(i1) < m /\ h(i2) < m) => h(i1) <= h(i2)
=============================================================================
