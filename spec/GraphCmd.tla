------------------------------ MODULE GraphCmd ------------------------------
(***************************************************************************)
(* C15 - what a graph specification on the command line promises.          *)
(*                                                                         *)
(*   <construction> <arg> ...  [plantclique k | plantbiclique a b |        *)
(*                              addedges m | splitedges k |                *)
(*                              save [<format>] <file>] ...                *)
(*                                                                         *)
(* The grammar and the argument ranges are the documented ones             *)
(* (clitools/graph_docs.py, the usage messages of clitools/graph_build.py, *)
(* docs/graphs.rst).  Pure operators:                                      *)
(*   ConstrClass(gtype, constr, args)  "must" | "may" | "loose" |          *)
(*                                     "unmeetable"                        *)
(*   PromiseVerdict(gtype, constr, args, G)  first broken clause or "ok"   *)
(*   Promise(...)            == PromiseVerdict(...) = "ok"                 *)
(*   PlantOK, BiPlantOK, AddEdgesOK, SplitOK, SaveOK                       *)
(* plus explicit reference constructions of the named graphs (RefPathE,    *)
(* RefTreeE, RefPyramidE, RefGridE, RefTorusE, ShiftE, ...) and the closed *)
(* forms of their orders and sizes.  GraphCmdMC machine-checks the closed  *)
(* forms and the shape characterisations against the constructions.        *)
(*                                                                         *)
(* Graphs are the projections of harness/project.py:                       *)
(*   [kind |-> "simple",    n, edges]   edges <<u,v>> with u < v           *)
(*   [kind |-> "bipartite", L, R, edges] edges <<left, right>>             *)
(*   [kind |-> "digraph",   n, edges]   edges <<u,v>> meaning u -> v       *)
(* Arguments are tokens of the command line, projected as                  *)
(*   [i |-> k]              Python's int() reads the token as k            *)
(*   [f |-> text, milli |-> k]   only float() reads it, value k/1000       *)
(*   [w |-> text]           neither (a word, nan, inf)                     *)
(***************************************************************************)
EXTENDS Families

Has(r, f) == f \in DOMAIN r

-----------------------------------------------------------------------------
(* Tokens                                                                   *)

IsInt(t)         == Has(t, "i")
IsNum(t)         == Has(t, "i") \/ Has(t, "milli")
Milli(t)         == IF Has(t, "i") THEN 1000 * t.i ELSE t.milli
\* "3.0", "1e1": a whole number that is not written as an integer
IsIntegralNum(t) == ~Has(t, "i") /\ Has(t, "milli") /\ t.milli % 1000 = 0
AllInt(a)        == \A k \in 1..Len(a) : IsInt(a[k])
Ints(a)          == [k \in 1..Len(a) |-> a[k].i]

\* class of one token in an integer position / in a probability position
IntTok(t)  == IF IsInt(t) THEN "int" ELSE IF IsIntegralNum(t) THEN "loose" ELSE "bad"
ProbTok(t) == IF IsNum(t) THEN "int" ELSE "bad"

-----------------------------------------------------------------------------
(* Arithmetic                                                               *)

RECURSIVE Prod(_)
Prod(s) == IF s = <<>> THEN 1 ELSE Head(s) * Prod(Tail(s))
MaxOf(S) == CHOOSE x \in S : \A y \in S : y <= x
MinOf(S) == CHOOSE x \in S : \A y \in S : x <= y
Choose2(n) == (n * (n - 1)) \div 2

-----------------------------------------------------------------------------
(* Degrees over explicit edge sets                                          *)

DegS(E, v) == Cardinality({e \in E : e[1] = v \/ e[2] = v})   \* simple graph (no loops)
OutDeg(E, v) == Cardinality({e \in E : e[1] = v})             \* = degree of left vertex v
InDeg(E, v)  == Cardinality({e \in E : e[2] = v})             \* = degree of right vertex v
NbrS(E, v) == {e[2] : e \in {x \in E : x[1] = v}} \cup {e[1] : e \in {x \in E : x[2] = v}}
NormE(u, v) == IF u < v THEN <<u, v>> ELSE <<v, u>>
Pairs(S) == {<<u, v>> \in S \X S : u < v}
Upward(E) == \A e \in E : e[1] < e[2]

\* k-subsets without enumerating the whole powerset
RECURSIVE KSub(_, _)
KSub(S, k) == IF k = 0 THEN {{}}
              ELSE IF k < 0 \/ Cardinality(S) < k THEN {}
              ELSE LET x == CHOOSE y \in S : TRUE IN
                   {T \cup {x} : T \in KSub(S \ {x}, k - 1)} \cup KSub(S \ {x}, k)

RECURSIVE PermSeqs(_)
PermSeqs(S) == IF S = {} THEN {<<>>}
               ELSE UNION {{<<x>> \o p : p \in PermSeqs(S \ {x})} : x \in S}

\* isomorphism of two graphs on 1..n given by their edge sets
IsoSimple(n, E1, E2) == /\ Cardinality(E1) = Cardinality(E2)
                        /\ \E f \in PermSeqs(1..n) : \A e \in E1 : NormE(f[e[1]], f[e[2]]) \in E2
IsoDi(n, E1, E2)     == /\ Cardinality(E1) = Cardinality(E2)
                        /\ \E f \in PermSeqs(1..n) : \A e \in E1 : <<f[e[1]], f[e[2]]>> \in E2
IsoLimit == 7     \* named graphs are compared up to isomorphism up to this order

SameDegreesS(n, E1, E2) ==
    \A k \in 0..n : Cardinality({v \in 1..n : DegS(E1, v) = k}) = Cardinality({v \in 1..n : DegS(E2, v) = k})
SameDegreesDi(n, E1, E2) ==
    \A k \in 0..n : /\ Cardinality({v \in 1..n : OutDeg(E1, v) = k}) = Cardinality({v \in 1..n : OutDeg(E2, v) = k})
                    /\ Cardinality({v \in 1..n : InDeg(E1, v) = k}) = Cardinality({v \in 1..n : InDeg(E2, v) = k})

RECURSIVE ReachE(_, _)
ReachE(E, S) == LET T == S \cup UNION {NbrS(E, v) : v \in S} IN IF T = S THEN S ELSE ReachE(E, T)
ConnectedE(n, E) == n = 0 \/ ReachE(E, {1}) = 1..n

-----------------------------------------------------------------------------
(* Well-shaped results                                                      *)

KindOf(gtype) == IF gtype = "simple" THEN "simple"
                 ELSE IF gtype = "bipartite" THEN "bipartite" ELSE "digraph"

WellShaped(G, gtype) ==
    /\ G.kind = KindOf(gtype)
    /\ Cardinality(EdgeSet(G)) = Len(G.edges)
    /\ IF G.kind = "bipartite"
       THEN G.L >= 0 /\ G.R >= 0 /\ \A e \in EdgeSet(G) : e[1] \in 1..G.L /\ e[2] \in 1..G.R
       ELSE G.n >= 0 /\ \A e \in EdgeSet(G) : e[1] \in 1..G.n /\ e[2] \in 1..G.n /\ e[1] # e[2]
    /\ G.kind = "simple" => Upward(EdgeSet(G))        \* the projection lists u < v
    /\ gtype = "dag" => Upward(EdgeSet(G))

SameGraph(G, H) ==
    /\ G.kind = H.kind
    /\ IF G.kind = "bipartite" THEN G.L = H.L /\ G.R = H.R ELSE G.n = H.n
    /\ EdgeSet(G) = EdgeSet(H)

-----------------------------------------------------------------------------
(* Reference constructions of the named graphs, written from their         *)
(* definitions (not from the implementation's numbering)                   *)

\* directed path of length L: L + 1 vertices
PathN(L) == L + 1
PathM(L) == L
RefPathE(L) == {<<i, i + 1>> : i \in 1..L}

\* complete binary tree of height h, edges towards the root; heap numbering
\* (children of i are 2i, 2i+1) mirrored so that edges go upward
TreeN(h) == Pow2(h + 1) - 1
TreeM(h) == Pow2(h + 1) - 2
RefTreeE(h) == LET n == TreeN(h) IN
               {<<n + 1 - 2 * i, n + 1 - i>> : i \in 1..(Pow2(h) - 1)} \cup
               {<<n - 2 * i, n + 1 - i>> : i \in 1..(Pow2(h) - 1)}

\* pyramid of height h: layer j (0..h) has h + 1 - j vertices, vertex p of
\* layer j + 1 has predecessors p and p + 1 of layer j
PyrN(h) == ((h + 1) * (h + 2)) \div 2
PyrM(h) == h * (h + 1)
RECURSIVE PyrOff(_, _)
PyrOff(h, j) == IF j = 0 THEN 0 ELSE PyrOff(h, j - 1) + (h + 1 - (j - 1))
RefPyramidE(h) == UNION {{<<PyrOff(h, j) + p, PyrOff(h, j + 1) + p>>,
                          <<PyrOff(h, j) + p + 1, PyrOff(h, j + 1) + p>>} :
                         <<j, p>> \in {t \in (0..(h - 1)) \X (1..h) : t[2] <= h - t[1]}}

\* d1 x ... x dk grid / torus; vertex i has coordinate ((i-1) div stride(j)) mod d[j]
GridN(d) == Prod(d)
Stride(d, j) == Prod(SubSeq(d, 1, j - 1))
Coord(d, i, j) == ((i - 1) \div Stride(d, j)) % d[j]
GridM(d) == LET N == Prod(d) IN
            SumSeq([j \in 1..Len(d) |-> (d[j] - 1) * (N \div d[j])])
RefGridE(d) == {<<t[1], t[1] + Stride(d, t[2])>> :
                  t \in {x \in (1..Prod(d)) \X (1..Len(d)) : Coord(d, x[1], x[2]) <= d[x[2]] - 2}}
\* cycle factors: length >= 3 closes with one more edge per line, length 2 is a
\* single edge (no multi-edges in a simple graph), length 1 would be a loop
TorusM(d) == LET N == Prod(d) IN
             SumSeq([j \in 1..Len(d) |-> (IF d[j] >= 3 THEN d[j] ELSE d[j] - 1) * (N \div d[j])])
RefTorusE(d) == RefGridE(d) \cup
                {<<t[1], t[1] + (d[t[2]] - 1) * Stride(d, t[2])>> :
                  t \in {x \in (1..Prod(d)) \X (1..Len(d)) : d[x[2]] >= 3 /\ Coord(d, x[1], x[2]) = 0}}

\* shift graph: left i is joined to 1 + (i - 1 + v) mod R for every v of the pattern
ShiftE(L, R, pat) == {<<t[1], 1 + ((t[1] - 1 + t[2]) % R)>> : t \in (1..L) \X Range(pat)}

CompleteE(n)       == Pairs(1..n)
CompleteBipE(L, R) == (1..L) \X (1..R)
\* complete t-partite graph with blocks of N consecutive vertices
MultipartiteE(N, t) == {e \in Pairs(1..(N * t)) : (e[1] - 1) \div N # (e[2] - 1) \div N}

-----------------------------------------------------------------------------
(* Shapes by invariants (used beyond IsoLimit vertices, and machine-checked *)
(* against isomorphism with the reference constructions in GraphCmdMC)      *)

Sources(n, E) == {v \in 1..n : InDeg(E, v) = 0}
Sinks(n, E)   == {v \in 1..n : OutDeg(E, v) = 0}

\* a directed path: upward, in/out-degree at most 1, n - 1 edges  (complete)
PathShape(n, E, L) ==
    /\ n = PathN(L) /\ Cardinality(E) = PathM(L) /\ Upward(E)
    /\ \A v \in 1..n : OutDeg(E, v) <= 1 /\ InDeg(E, v) <= 1

\* number of steps from v to a sink following the (unique) out-edge
RECURSIVE Climb(_, _, _)
Climb(E, v, fuel) == LET S == {e[2] : e \in {x \in E : x[1] = v}} IN
                     IF S = {} \/ fuel = 0 THEN 0 ELSE 1 + Climb(E, CHOOSE w \in S : TRUE, fuel - 1)

\* complete binary in-tree of height h  (complete characterisation)
TreeShape(n, E, h) ==
    /\ n = TreeN(h) /\ Cardinality(E) = TreeM(h) /\ Upward(E)
    /\ Cardinality(Sinks(n, E)) = 1
    /\ \A v \in 1..n : OutDeg(E, v) <= 1 /\ InDeg(E, v) \in {0, 2}
    /\ \A v \in Sources(n, E) : Climb(E, v, n) = h

\* layer of v = length of the longest path from a source (E upward)
RECURSIVE Layer(_, _)
Layer(E, v) == LET P == {e[1] : e \in {x \in E : x[2] = v}} IN
               IF P = {} THEN 0 ELSE 1 + MaxOf({Layer(E, u) : u \in P})

\* pyramid of height h by invariants: order, size, layers of sizes h+1, h, ..,1,
\* every inner vertex has its two predecessors in the layer just below, two
\* vertices share at most one predecessor, out-degrees 1 (layer ends) or 2
PyramidShape(n, E, h) ==
    /\ n = PyrN(h) /\ Cardinality(E) = PyrM(h) /\ Upward(E)
    /\ Cardinality(Sources(n, E)) = h + 1 /\ Cardinality(Sinks(n, E)) = 1
    /\ \A v \in 1..n : InDeg(E, v) \in {0, 2} /\ OutDeg(E, v) <= 2
    /\ Cardinality({v \in 1..n : OutDeg(E, v) = 1}) = 2 * h
    /\ LET lay == [v \in 1..n |-> Layer(E, v)] IN
       /\ \A j \in 0..h : Cardinality({v \in 1..n : lay[v] = j}) = h + 1 - j
       /\ \A e \in E : lay[e[2]] = lay[e[1]] + 1

\* complete t-partite with all blocks of size N: "equal or non-adjacent" is an
\* equivalence with classes of size N   (complete characterisation)
MultipartiteShape(n, E, N, t) ==
    /\ n = N * t
    /\ \A u \in 1..n : Cardinality(NbrS(E, u)) = n - N
    /\ \A p \in Pairs(1..n) : p \notin E => NbrS(E, p[1]) = NbrS(E, p[2])

\* the vertices split into t independent blocks of N vertices each
BalancedPartite(n, E, N, t) ==
    \E c \in [1..n -> 1..t] : /\ \A e \in E : c[e[1]] # c[e[2]]
                              /\ \A k \in 1..t : Cardinality({v \in 1..n : c[v] = k}) = N
PartiteSearchLimit == 9

GridLikeVerdict(n, E, N, M, RefE, name) ==
    IF n # N THEN name \o "_wrong_number_of_vertices"
    ELSE IF Cardinality(E) # M THEN name \o "_wrong_number_of_edges"
    ELSE IF n <= IsoLimit THEN (IF IsoSimple(n, E, RefE) THEN "ok" ELSE name \o "_not_isomorphic_to_the_named_graph")
    ELSE IF ~SameDegreesS(n, E, RefE) THEN name \o "_wrong_degree_sequence"
    ELSE IF ~ConnectedE(n, E) THEN name \o "_not_connected"
    ELSE "ok"

-----------------------------------------------------------------------------
(* Which constructions exist for which graph type, and file formats         *)

Constructions(gtype) ==
    IF gtype = "simple" THEN {"gnp", "gnm", "gnd", "grid", "torus", "complete", "empty"}
    ELSE IF gtype = "bipartite" THEN {"glrp", "glrm", "glrd", "regular", "shift", "complete", "empty"}
    ELSE {"path", "tree", "pyramid"}

Modifiers(gtype) ==
    IF gtype = "simple" THEN {"plantclique", "addedges", "splitedges"}
    ELSE IF gtype = "bipartite" THEN {"plantbiclique", "addedges"}
    ELSE {}

Formats(gtype) == IF gtype = "bipartite" THEN {"kthlist", "gml", "dot", "matrix"}
                  ELSE {"kthlist", "gml", "dot", "dimacs"}

\* samplers may decline; these must deliver whenever the request is in range
Deterministic(constr) == constr \in {"grid", "torus", "complete", "empty", "shift", "path", "tree", "pyramid"}
MustDeliver(constr)   == Deterministic(constr) \/ constr = "glrm"

-----------------------------------------------------------------------------
(* Legal(constr, args): the four classes of a request                       *)
(*   "must"       documented range, deterministic construction or glrm:     *)
(*                a graph with the promise must come out                    *)
(*   "may"        a graph with the promise, or a refusal                    *)
(*   "loose"      degenerate or not covered by the documentation (order 0,  *)
(*                "3.0" for 3, torus side 1, no dimensions): a refusal or   *)
(*                any well-shaped graph                                     *)
(*   "unmeetable" no graph is named (wrong arity, words, fractions, values  *)
(*                outside the documented range): must be refused            *)

ArityOK(gtype, constr, k) ==
    IF gtype = "simple" THEN
        CASE constr = "gnp" -> k \in {2, 3}
          [] constr \in {"gnm", "gnd"} -> k = 2
          [] constr \in {"grid", "torus"} -> TRUE
          [] constr = "complete" -> k \in {1, 2}
          [] constr = "empty" -> k = 1
          [] OTHER -> FALSE
    ELSE IF gtype = "bipartite" THEN
        CASE constr \in {"glrp", "glrm", "glrd", "regular"} -> k = 3
          [] constr = "shift" -> k >= 2
          [] constr \in {"complete", "empty"} -> k = 2
          [] OTHER -> FALSE
    ELSE k = 1

ProbPos(gtype, constr) == IF constr = "gnp" THEN 2 ELSE IF constr = "glrp" THEN 3 ELSE 0

\* positions that are numbers of vertices (0 there is the degenerate case)
SizePos(gtype, constr, k) ==
    IF gtype = "simple" THEN
        CASE constr = "gnp" -> {1, 3} \cap (1..k)
          [] constr \in {"grid", "torus", "complete"} -> 1..k
          [] OTHER -> {1}
    ELSE IF gtype = "bipartite" THEN {1, 2}
    ELSE {}

\* range conditions beyond "sizes are positive", all positions integer
InRange(gtype, constr, args) ==
    LET a == [k \in 1..Len(args) |-> IF IsInt(args[k]) THEN args[k].i ELSE 0] IN
    IF gtype = "simple" THEN
        CASE constr = "gnp" -> 0 <= Milli(args[2]) /\ Milli(args[2]) <= 1000
          [] constr = "gnm" -> 0 <= a[2] /\ a[2] <= Choose2(a[1])
          [] constr = "gnd" -> 0 <= a[2] /\ a[2] < a[1] /\ (a[1] * a[2]) % 2 = 0
          [] OTHER -> TRUE
    ELSE IF gtype = "bipartite" THEN
        CASE constr = "glrp" -> 0 <= Milli(args[3]) /\ Milli(args[3]) <= 1000
          [] constr = "glrm" -> 0 <= a[3] /\ a[3] <= a[1] * a[2]
          [] constr = "glrd" -> 0 <= a[3] /\ a[3] <= a[2]
          [] constr = "regular" -> 0 <= a[3] /\ a[3] <= a[2] /\ (a[1] * a[3]) % a[2] = 0
          [] OTHER -> TRUE
    ELSE a[1] >= 0

\* requests the documentation words as errors but that still name a graph
Optional(gtype, constr, args) ==
    LET a == [k \in 1..Len(args) |-> IF IsInt(args[k]) THEN args[k].i ELSE 0] IN
    /\ gtype = "bipartite" /\ constr = "shift"
    /\ \/ \E k \in 3..Len(a) : a[k] < 0 \/ a[k] > a[2]
       \/ \E k, l \in 3..Len(a) : k # l /\ a[k] = a[l]

Degenerate(gtype, constr, args) ==
    LET a == [k \in 1..Len(args) |-> IF IsInt(args[k]) THEN args[k].i ELSE 0] IN
    \/ \E k \in SizePos(gtype, constr, Len(args)) : a[k] = 0
    \/ constr \in {"grid", "torus"} /\ Len(args) = 0
    \/ constr = "torus" /\ \E k \in 1..Len(a) : a[k] = 1

ConstrClass(gtype, constr, args) ==
    LET k  == Len(args)
        pp == ProbPos(gtype, constr)
        tc == [j \in 1..k |-> IF j = pp THEN ProbTok(args[j]) ELSE IntTok(args[j])]
        a  == [j \in 1..k |-> IF IsInt(args[j]) THEN args[j].i ELSE 0]
    IN
    IF constr \notin Constructions(gtype) THEN "unmeetable"
    ELSE IF ~ArityOK(gtype, constr, k) THEN "unmeetable"
    ELSE IF \E j \in 1..k : tc[j] = "bad" THEN "unmeetable"
    ELSE IF \E j \in 1..k : tc[j] = "loose" THEN "loose"
    ELSE IF \E j \in SizePos(gtype, constr, k) : a[j] < 0 THEN "unmeetable"
    ELSE IF Degenerate(gtype, constr, args) THEN "loose"
    ELSE IF ~InRange(gtype, constr, args) THEN "unmeetable"
    ELSE IF Optional(gtype, constr, args) THEN "may"
    ELSE IF MustDeliver(constr) THEN "must"
    ELSE "may"

Legal(gtype, constr, args) == ConstrClass(gtype, constr, args) \in {"must", "may"}

-----------------------------------------------------------------------------
(* Promise(constr, args, G): evaluated only for classes "must" and "may"    *)

PromiseSimple(constr, args, G) ==
    LET a == [k \in 1..Len(args) |-> IF IsInt(args[k]) THEN args[k].i ELSE 0]
        n == G.n
        E == EdgeSet(G)
    IN
    CASE constr = "gnm" ->
           IF n # a[1] THEN "gnm_wrong_number_of_vertices"
           ELSE IF Cardinality(E) # a[2] THEN "gnm_wrong_number_of_edges" ELSE "ok"
      [] constr = "gnd" ->
           IF n # a[1] THEN "gnd_wrong_number_of_vertices"
           ELSE IF \E v \in 1..n : DegS(E, v) # a[2] THEN "gnd_not_regular_of_the_requested_degree" ELSE "ok"
      [] constr = "gnp" ->
           LET N == a[1]
               t == IF Len(a) = 3 THEN a[3] ELSE 1
               p == Milli(args[2])
           IN  IF n # N * t THEN "gnp_wrong_number_of_vertices"
               ELSE IF p = 0 /\ E # {} THEN "gnp_edges_with_probability_zero"
               ELSE IF Cardinality(E) > Choose2(t) * N * N + (IF t = 1 THEN Choose2(N) ELSE 0)
                    THEN "gnp_more_edges_than_between_the_parts"
               ELSE IF p = 1000 /\ Cardinality(E) # (IF t = 1 THEN Choose2(N) ELSE Choose2(t) * N * N)
                    THEN "gnp_missing_edges_with_probability_one"
               ELSE IF t > 1 /\ n <= PartiteSearchLimit /\ ~BalancedPartite(n, E, N, t)
                    THEN "gnp_not_multipartite"
               ELSE "ok"
      [] constr = "complete" ->
           IF Len(a) = 1
           THEN (IF n # a[1] THEN "complete_wrong_number_of_vertices"
                 ELSE IF E # CompleteE(n) THEN "complete_graph_misses_edges" ELSE "ok")
           ELSE (IF n # a[1] * a[2] THEN "multipartite_wrong_number_of_vertices"
                 ELSE IF ~MultipartiteShape(n, E, a[1], a[2]) THEN "not_the_complete_multipartite_graph"
                 ELSE "ok")
      [] constr = "empty" ->
           IF n # a[1] THEN "empty_wrong_number_of_vertices"
           ELSE IF E # {} THEN "empty_graph_has_edges" ELSE "ok"
      [] constr = "grid"  -> GridLikeVerdict(n, E, GridN(a), GridM(a), RefGridE(a), "grid")
      [] constr = "torus" -> GridLikeVerdict(n, E, GridN(a), TorusM(a), RefTorusE(a), "torus")

PromiseBipartite(constr, args, G) ==
    LET a == [k \in 1..Len(args) |-> IF IsInt(args[k]) THEN args[k].i ELSE 0]
        E == EdgeSet(G)
    IN
    IF G.L # a[1] \/ G.R # a[2] THEN constr \o "_wrong_sides"
    ELSE
    CASE constr = "glrm" -> IF Cardinality(E) # a[3] THEN "glrm_wrong_number_of_edges" ELSE "ok"
      [] constr = "glrd" -> IF \E u \in 1..G.L : OutDeg(E, u) # a[3] THEN "glrd_not_left_regular" ELSE "ok"
      [] constr = "regular" ->
           IF \E u \in 1..G.L : OutDeg(E, u) # a[3] THEN "regular_wrong_left_degree"
           ELSE IF \E v \in 1..G.R : InDeg(E, v) # (a[1] * a[3]) \div a[2] THEN "regular_wrong_right_degree"
           ELSE "ok"
      [] constr = "glrp" ->
           LET p == Milli(args[3]) IN
           IF p = 0 /\ E # {} THEN "glrp_edges_with_probability_zero"
           ELSE IF p = 1000 /\ E # CompleteBipE(G.L, G.R) THEN "glrp_missing_edges_with_probability_one"
           ELSE "ok"
      [] constr = "shift" ->
           IF E # ShiftE(a[1], a[2], SubSeq(a, 3, Len(a))) THEN "shift_edges_differ_from_the_pattern" ELSE "ok"
      [] constr = "complete" -> IF E # CompleteBipE(G.L, G.R) THEN "complete_bipartite_misses_edges" ELSE "ok"
      [] constr = "empty" -> IF E # {} THEN "empty_bipartite_has_edges" ELSE "ok"

PromiseDag(constr, args, G) ==
    LET h == args[1].i
        n == G.n
        E == EdgeSet(G)
        N == CASE constr = "path" -> PathN(h) [] constr = "tree" -> TreeN(h) [] constr = "pyramid" -> PyrN(h)
        M == CASE constr = "path" -> PathM(h) [] constr = "tree" -> TreeM(h) [] constr = "pyramid" -> PyrM(h)
        RefE == CASE constr = "path" -> RefPathE(h) [] constr = "tree" -> RefTreeE(h)
                  [] constr = "pyramid" -> RefPyramidE(h)
    IN
    IF n # N THEN constr \o "_wrong_number_of_vertices"
    ELSE IF Cardinality(E) # M THEN constr \o "_wrong_number_of_edges"
    ELSE IF ~Upward(E) THEN constr \o "_not_acyclic_upward"
    ELSE IF n <= IsoLimit /\ ~IsoDi(n, E, RefE) THEN constr \o "_not_isomorphic_to_the_named_graph"
    ELSE IF ~SameDegreesDi(n, E, RefE) THEN constr \o "_wrong_degree_sequence"
    ELSE IF Cardinality(Sources(n, E)) # Cardinality(Sources(n, RefE)) \/ Cardinality(Sinks(n, E)) # 1
         THEN constr \o "_wrong_number_of_sources_or_sinks"
    ELSE CASE constr = "path"    -> IF PathShape(n, E, h) THEN "ok" ELSE "path_wrong_shape"
           [] constr = "tree"    -> IF TreeShape(n, E, h) THEN "ok" ELSE "tree_wrong_shape"
           [] constr = "pyramid" -> IF PyramidShape(n, E, h) THEN "ok" ELSE "pyramid_wrong_shape"

PromiseVerdict(gtype, constr, args, G) ==
    IF gtype = "simple" THEN PromiseSimple(constr, args, G)
    ELSE IF gtype = "bipartite" THEN PromiseBipartite(constr, args, G)
    ELSE PromiseDag(constr, args, G)

Promise(gtype, constr, args, G) == PromiseVerdict(gtype, constr, args, G) = "ok"

-----------------------------------------------------------------------------
(* Modifiers: G before, H after                                             *)

\* plantclique k: same vertices, nothing removed, some k-set S is a clique and
\* every added edge lies inside S ("add a randomly chosen k-clique")
PlantOK(G, H, k) ==
    LET E == EdgeSet(G)
        F == EdgeSet(H)
        T == UNION {{e[1], e[2]} : e \in F \ E}                  \* ends of the new edges
        C == {v \in (1..H.n) \ T : \A u \in T : NormE(u, v) \in F}
    IN  /\ H.n = G.n /\ E \subseteq F
        /\ k >= 0 /\ Cardinality(T) <= k
        /\ Pairs(T) \subseteq F
        /\ \E X \in KSub(C, k - Cardinality(T)) : Pairs(X) \subseteq F
PlantVerdict(G, H, k) ==
    IF H.n # G.n THEN "plantclique_changed_the_vertices"
    ELSE IF ~(EdgeSet(G) \subseteq EdgeSet(H)) THEN "plantclique_removed_edges"
    ELSE IF ~PlantOK(G, H, k) THEN "plantclique_no_clique_of_the_requested_size_was_added"
    ELSE "ok"

\* plantbiclique a b
BiPlantOK(G, H, a, b) ==
    LET E  == EdgeSet(G)
        F  == EdgeSet(H)
        TL == {e[1] : e \in F \ E}
        TR == {e[2] : e \in F \ E}
        CL == {u \in (1..H.L) \ TL : \A v \in TR : <<u, v>> \in F}
        CR == {v \in (1..H.R) \ TR : \A u \in TL : <<u, v>> \in F}
    IN  /\ H.L = G.L /\ H.R = G.R /\ E \subseteq F
        /\ a >= 0 /\ b >= 0 /\ Cardinality(TL) <= a /\ Cardinality(TR) <= b
        /\ \E X \in KSub(CL, a - Cardinality(TL)) : \E Y \in KSub(CR, b - Cardinality(TR)) :
              (TL \cup X) \X (TR \cup Y) \subseteq F
BiPlantVerdict(G, H, a, b) ==
    IF H.L # G.L \/ H.R # G.R THEN "plantbiclique_changed_the_vertices"
    ELSE IF ~(EdgeSet(G) \subseteq EdgeSet(H)) THEN "plantbiclique_removed_edges"
    ELSE IF ~BiPlantOK(G, H, a, b) THEN "plantbiclique_no_biclique_of_the_requested_size_was_added"
    ELSE "ok"

\* addedges m: exactly m new edges
AddEdgesOK(G, H, m) ==
    /\ IF G.kind = "bipartite" THEN H.L = G.L /\ H.R = G.R ELSE H.n = G.n
    /\ EdgeSet(G) \subseteq EdgeSet(H)
    /\ Cardinality(EdgeSet(H)) = Cardinality(EdgeSet(G)) + m
AddEdgesVerdict(G, H, m) ==
    IF ~(IF G.kind = "bipartite" THEN H.L = G.L /\ H.R = G.R ELSE H.n = G.n) THEN "addedges_changed_the_vertices"
    ELSE IF ~(EdgeSet(G) \subseteq EdgeSet(H)) THEN "addedges_removed_edges"
    ELSE IF Cardinality(EdgeSet(H)) # Cardinality(EdgeSet(G)) + m THEN "addedges_wrong_number_of_new_edges"
    ELSE "ok"

\* splitedges k: k new vertices n+1..n+k of degree 2 whose contraction gives back G
Contract(H, n) ==
    LET F == EdgeSet(H) IN
    {e \in F : e[2] <= n} \cup
    {<<MinOf(NbrS(F, x)), MaxOf(NbrS(F, x))>> : x \in (n + 1)..H.n}
SplitOK(G, H, k) ==
    LET F == EdgeSet(H) IN
    /\ k >= 0 /\ H.n = G.n + k
    /\ Cardinality(F) = Cardinality(EdgeSet(G)) + k
    /\ \A x \in (G.n + 1)..H.n : Cardinality(NbrS(F, x)) = 2 /\ \A u \in NbrS(F, x) : u <= G.n
    /\ Contract(H, G.n) = EdgeSet(G)
SplitVerdict(G, H, k) ==
    LET F == EdgeSet(H) IN
    IF k < 0 \/ H.n # G.n + k THEN "splitedges_wrong_number_of_new_vertices"
    ELSE IF Cardinality(F) # Cardinality(EdgeSet(G)) + k THEN "splitedges_wrong_number_of_new_edges"
    ELSE IF ~SplitOK(G, H, k) THEN "splitedges_new_vertices_do_not_subdivide_edges_of_the_graph"
    ELSE "ok"

\* save: the file read back is the graph handed on
SaveOK(saved, G) == SameGraph(saved, G)

\* static class of a modifier's arguments ("may" | "loose" | "unmeetable")
ModClass(gtype, name, args) ==
    LET want == IF name = "plantbiclique" THEN 2 ELSE 1 IN
    IF name \notin Modifiers(gtype) THEN "unmeetable"
    ELSE IF Len(args) # want THEN "unmeetable"
    ELSE IF \E j \in 1..Len(args) : IntTok(args[j]) = "bad" THEN "unmeetable"
    ELSE IF \E j \in 1..Len(args) : IntTok(args[j]) = "loose" THEN "loose"
    ELSE IF \E j \in 1..Len(args) : args[j].i < 0 THEN "unmeetable"
    ELSE "may"

ModVerdict(name, args, G, H) ==
    CASE name = "plantclique"   -> PlantVerdict(G, H, args[1].i)
      [] name = "plantbiclique" -> BiPlantVerdict(G, H, args[1].i, args[2].i)
      [] name = "addedges"      -> AddEdgesVerdict(G, H, args[1].i)
      [] name = "splitedges"    -> SplitVerdict(G, H, args[1].i)

\* save <file> | save <format> <file>
SaveClass(gtype, s) ==
    IF s.fmt = "autodetect" THEN (IF s.ext \in Formats(gtype) THEN "may" ELSE "unmeetable")
    ELSE IF s.fmt \in Formats(gtype) THEN "may" ELSE "unmeetable"
=============================================================================
