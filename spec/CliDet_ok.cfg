SPECIFICATION Spec
CONSTANTS GraphsDrawnBeforeSeed = FALSE
  FalsySeedSkipped = FALSE
  VersionFromCwd = FALSE
INVARIANT SameOutput
INVARIANT NoUnseededDraw
CHECK_DEADLOCK FALSE
