-------------------------------- MODULE Cli --------------------------------
(***************************************************************************)
(* The command line pipeline as a state machine (C18, C07); the LibCall    *)
(* table, outcome vocabulary and determinism operators are in CliTable.    *)
(***************************************************************************)
EXTENDS CliTable

VARIABLES stage,    \* index into Stages
          fmt,      \* output format: "unknown" until parsed
          written,  \* what reached stdout / the output file: "nothing" | "partial" | "complete"
          outcome,  \* "running" or one of Outcomes
          marker,   \* prefix of the error lines, if any
          tool
pvars == <<stage, fmt, written, outcome, marker, tool>>

PInit == /\ stage = 1 /\ fmt = "unknown" /\ written = "nothing" /\ outcome = "running"
         /\ marker = "" /\ tool \in {"cnfgen", "pbgen", "cnfshuffle", "kthlist2pebbling"}

\* one pipeline stage completes
Advance ==
    /\ outcome = "running" /\ stage < 7
    /\ stage' = stage + 1
    /\ IF Stages[stage] = "parse" THEN fmt' \in Formats ELSE fmt' = fmt
    /\ written' = IF Stages[stage] = "write" THEN "complete" ELSE written
    /\ outcome' = IF stage' = 7 THEN "success" ELSE "running"
    /\ UNCHANGED <<marker, tool>>

\* the stage fails with a command line error (bad arguments, refused parameters, unreadable input)
Fail ==
    /\ outcome = "running" /\ stage < 7
    /\ outcome' = "clierror"
    \* errors raised while parsing may carry the tool's default marker: the format is not established yet
    /\ marker' = IF fmt = "unknown" THEN DefaultMarker(tool) ELSE Marker(fmt)
    /\ UNCHANGED <<stage, fmt, written, tool>>

Help ==
    /\ outcome = "running" /\ Stages[stage] = "parse"
    /\ outcome' = "help"
    /\ UNCHANGED <<stage, fmt, written, marker, tool>>

PNext == Advance \/ Fail \/ Help
PSpec == PInit /\ [][PNext]_pvars

\* nothing is written before the Write stage, and Write is atomic with respect to failure
NoPartialFormula == written # "partial" /\ (written = "complete" => outcome \in {"running", "success"} /\ stage = 7)
ErrorIsShielded  == outcome = "clierror" => marker \in {"c ", "* ", "% "} /\ written = "nothing"
SuccessIsComplete == outcome = "success" <=> (stage = 7 /\ written = "complete")
Terminal == outcome \in Outcomes


CheckLemma == DeterminismLemma
=============================================================================
