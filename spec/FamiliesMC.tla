----------------------------- MODULE FamiliesMC -----------------------------
(***************************************************************************)
(* "TLC on the model": machine-checks, by brute force over all valuations  *)
(* of the named variables, that the reference semantics in Families.tla    *)
(* have the closed-form corollaries the documentation states (pigeonhole   *)
(* unsatisfiable iff more pigeons than holes, counting satisfiable iff p   *)
(* divides M, ...).  This guards the specification itself; the binding to  *)
(* the code is JudgeFamilies.                                              *)
(***************************************************************************)
EXTENDS Families

CONSTANT Scope   \* "C01" | "C02" | "C03": which instance set to enumerate

VARIABLE inst
vars == <<inst>>

Vals(K) == [K -> BOOLEAN]
RECURSIVE Fact(_)
Fact(n) == IF n <= 1 THEN 1 ELSE n * Fact(n - 1)
Falling(n, m) == IF m > n THEN 0 ELSE Fact(n) \div Fact(n - m)

B4 == {FALSE, TRUE}

InstancesC01 ==
       {[fam |-> "php", m |-> m, n |-> n, fun |-> f, onto |-> o] :
            m \in 0..3, n \in 0..3, f \in B4, o \in B4}
  \cup {[fam |-> "bphp", m |-> m, n |-> n] : m \in 0..3, n \in 0..5}
  \cup {[fam |-> "rphp", m |-> m, r |-> r, n |-> n] : m \in 0..2, r \in 0..2, n \in 0..2}
  \cup {[fam |-> "count", M |-> M, p |-> p] : M \in 0..5, p \in 1..3}
  \cup {[fam |-> "cliquecol", n |-> n, k |-> k, c |-> c] : n \in 0..3, k \in 0..2, c \in 0..2}

RECURSIVE SeqOfSet(_)
SeqOfSet(S) == IF S = {} THEN <<>> ELSE LET x == CHOOSE y \in S : TRUE IN <<x>> \o SeqOfSet(S \ {x})
PairsUpTo(n) == {<<u, v>> \in (1..n) \X (1..n) : u < v}
AllGraphs(n) == {[n |-> n, edges |-> SeqOfSet(S)] : S \in SUBSET PairsUpTo(n)}
GraphsUpTo(n) == UNION {AllGraphs(k) : k \in 0..n}

InstancesC02 ==
       {[fam |-> "tseitin", G |-> G, ch |-> ch] : G \in GraphsUpTo(4), ch \in [1..4 -> BOOLEAN]}
  \cup {[fam |-> "evencol", G |-> G] : G \in GraphsUpTo(4)}
  \cup {[fam |-> "kclique", G |-> G, k |-> k] : G \in GraphsUpTo(4), k \in 0..3}
  \cup {[fam |-> "domset", G |-> G, d |-> d] : G \in GraphsUpTo(3), d \in 1..3}

AllDags(n) == AllGraphs(n)      \* edges <<u,v>> with u < v, read as u -> v
InstancesC03 ==
       {[fam |-> "gop", G |-> G, total |-> t, smart |-> FALSE, plant |-> p, knuth |-> k] :
            G \in GraphsUpTo(4), t \in B4, p \in B4, k \in {0, 2, 3}}
  \cup {[fam |-> "gop", G |-> G, total |-> FALSE, smart |-> TRUE, plant |-> p, knuth |-> 0] :
            G \in GraphsUpTo(4), p \in B4}
  \cup {[fam |-> "peb", D |-> D] : D \in UNION {AllDags(n) : n \in 1..4}}
  \cup {[fam |-> "stone", D |-> D, ns |-> ns] : D \in UNION {AllDags(n) : n \in 1..3}, ns \in 0..2}
  \cup {[fam |-> "cpls", a |-> t[1], b |-> t[2], c |-> t[3]] :
            t \in {<<1, 1, 1>>, <<1, 2, 2>>, <<2, 1, 2>>, <<2, 2, 1>>, <<2, 2, 2>>, <<3, 2, 1>>, <<1, 2, 4>>, <<3, 1, 4>>}}

Instances == CASE Scope = "C01" -> InstancesC01
               [] Scope = "C02" -> InstancesC02
               [] Scope = "C03" -> InstancesC03

Init == inst \in Instances
Next == UNCHANGED inst
Spec == Init /\ [][Next]_vars

-----------------------------------------------------------------------------
PHPObjects(m, n, f, o) ==
    {val \in Vals(PHPGroups(m, n)[1]) : PHPObj(m, n, f, o, LAMBDA i, j : val[<<i, j>>])}

PHP_Sat_iff ==
    inst.fam = "php" =>
      LET m == inst.m  n == inst.n
          S == PHPObjects(m, n, inst.fun, inst.onto)
      IN  /\ (S # {}) <=> CASE inst.fun /\ inst.onto  -> m = n
                            [] ~inst.fun /\ inst.onto -> m <= n /\ (n = 0 \/ m >= 1)
                            [] OTHER                  -> m <= n
          \* the headline: unsatisfiable iff more pigeons than holes
          /\ ~inst.onto => ((S = {}) <=> m > n)
          /\ (inst.fun /\ ~inst.onto) => Cardinality(S) = Falling(n, m)
          /\ (inst.fun /\ inst.onto /\ m = n) => Cardinality(S) = Fact(n)

BPHP_Sat_iff ==
    inst.fam = "bphp" =>
      LET m == inst.m  n == inst.n
          S == {val \in Vals(BPHPGroups(m, n)[1]) : BPHPObj(m, n, LAMBDA i, b : val[<<i, b>>])}
      IN  Cardinality(S) = Falling(n, m)

RPHP_Sat_iff ==
    inst.fam = "rphp" =>
      LET m == inst.m  r == inst.r  n == inst.n
          G == RPHPGroups(m, r, n)
          S == {t \in Vals(G[1]) \X Vals(G[2]) \X Vals(G[3]) :
                  RPHPObj(m, r, n, LAMBDA u, v : t[1][<<u, v>>],
                          LAMBDA v, w : t[2][<<v, w>>], LAMBDA v : t[3][<<v>>])}
      IN  (S # {}) <=> (m <= r /\ m <= n)

Count_Sat_iff ==
    inst.fam = "count" =>
      LET M == inst.M  p == inst.p
          S == {val \in Vals(CountGroups(M, p)[1]) : CountObj(M, p, LAMBDA t : val[t])}
      IN  /\ (S # {}) <=> (M % p = 0)
          /\ (M % p = 0) => Cardinality(S) * Fact(M \div p) * (Fact(p) ^ (M \div p)) = Fact(M)

CliqueCol_Sat_iff ==
    inst.fam = "cliquecol" =>
      LET n == inst.n  k == inst.k  c == inst.c
          G == CliqueColGroups(n, k, c)
          ok(t) == CliqueColObj(n, k, c, LAMBDA u, v : t[1][<<u, v>>],
                                LAMBDA i, v : t[2][<<i, v>>], LAMBDA v, l : t[3][<<v, l>>])
      IN  (\E t \in Vals(G[1]) \X Vals(G[2]) \X Vals(G[3]) : ok(t))
             <=> (k <= n /\ k <= c /\ (n = 0 \/ c >= 1))
-----------------------------------------------------------------------------
(* C03: the documented axiom sets are contradictory (and the planted        *)
(* ordering principle is satisfiable exactly on connected graphs)           *)

\* keys of the named variables of a sequence of groups, and satisfaction of a
\* set of named clauses by a valuation of those keys
GroupKeys(G) == UNION {{<<g>> \o t : t \in G[g]} : g \in 1..Len(G)}
SatNamed(val, Ax) == \A C \in Ax : \E L \in C : (L[1] = 1) = val[SubSeq(L, 2, Len(L))]
Satisfiable(G, Ax) == \E val \in Vals(GroupKeys(G)) : SatNamed(val, Ax)

GOP_Unsat_or_Planted ==
    inst.fam = "gop" =>
      LET G == inst.G
          sat == Satisfiable(GOPGroups(G, inst.smart),
                             GOPAxioms(G, inst.total, inst.smart, inst.plant, inst.knuth))
      IN  IF G.n = 0 THEN sat       \* empty domain: no axioms at all (degenerate, see DESIGN)
          ELSE sat <=> (inst.plant /\ Connected(G))

Peb_Unsat ==
    inst.fam = "peb" => ~Satisfiable(PebGroups(inst.D), PebAxioms(inst.D))

Stone_Unsat ==
    inst.fam = "stone" =>
      LET B == CompleteBip(inst.D.n, inst.ns)
      IN  ~Satisfiable(StoneGroups(inst.D, B), StoneAxioms(inst.D, B))

CPLS_Unsat ==
    inst.fam = "cpls" =>
      ~Satisfiable(CPLSGroups(inst.a, inst.b, inst.c), CPLSAxioms(inst.a, inst.b, inst.c))

-----------------------------------------------------------------------------
(* C02 *)

\* Tseitin: 2^(|E|-|V|+components) solutions when every component has even total
\* charge, none otherwise (charges beyond the vertex count are ignored).
Tseitin_Count ==
    inst.fam = "tseitin" =>
      LET G == inst.G
          ch == [v \in 1..4 |-> inst.ch[v]]
          S == {val \in Vals(EdgeSet(G)) :
                  TseitinObj(G, "list", ch, LAMBDA u, v : val[<<u, v>>])}
          evenComp(C) == Cardinality({v \in C : ch[v]}) % 2 = 0
          comps == Components(G)
      IN  Cardinality(S) = IF \A C \in comps : evenComp(C)
                           THEN Pow2(Cardinality(EdgeSet(G)) - G.n + Cardinality(comps))
                           ELSE 0

\* Even colouring (all degrees even): satisfiable iff every connected component has
\* an even number of edges.
EvenCol_Sat_iff ==
    (inst.fam = "evencol" /\ EvenColDefined(inst.G)) =>
      LET G == inst.G
          edgesIn(C) == Cardinality({e \in EdgeSet(G) : e[1] \in C})
      IN  (\E val \in Vals(EdgeSet(G)) : EvenColObj(G, LAMBDA u, v : val[<<u, v>>]))
            <=> \A C \in Components(G) : edgesIn(C) % 2 = 0

\* k-clique: with symmetry breaking one object per k-clique (as a set), without it k! per clique
Clique_Count ==
    inst.fam = "kclique" =>
      LET G == inst.G  k == inst.k
          K == CliqueGroups(G, k)[1]
          cliques == {S \in SUBSET (1..G.n) : Cardinality(S) = k /\ \A u, v \in S : u # v => Adj(G, u, v)}
          count(sb) == Cardinality({val \in Vals(K) : CliqueObj(G, k, sb, LAMBDA i, j : val[<<i, j>>])})
      IN  /\ count(TRUE) = Cardinality(cliques)
          /\ count(FALSE) = Fact(k) * Cardinality(cliques)
          /\ (cliques # {}) <=> HasClique(G, k)

\* dominating set: witnesses exist iff the domination number is at most d; monotone in d
Domset_Monotone ==
    inst.fam = "domset" =>
      LET G == inst.G  d == inst.d
      IN  /\ DomWitnesses(G, d) \subseteq DomWitnesses(G, d + 1)
          /\ (G.n <= d) => (1..G.n) \in DomWitnesses(G, d)
          /\ \A S \in DomWitnesses(G, d) : \A v \in 1..G.n : v \in S \/ \E u \in S : Adj(G, u, v)
=============================================================================
