----------------------------- MODULE OpbLatexIO -----------------------------
(***************************************************************************)
(* Property C12: the OPB text and the LaTeX rendering of a formula denote  *)
(* the formula held in memory.  Pure operators (no state machine here; the *)
(* machine that enumerates tiny formulas is OpbLatexMC.tla, the judge of   *)
(* recorded artefacts is JudgeOpbLatex.tla).                               *)
(*                                                                         *)
(* IN-MEMORY FORMULA                                                       *)
(*   [cls |-> "CNF", nvars, clauses     |-> << <<lit, ...>>, ... >>]       *)
(*   [cls |-> "OPB", nvars, constraints |-> << [terms |-> << <<c,l>>,..>>, *)
(*                                             op |-> ">=" | "==", deg]>>] *)
(* Cons(F) is the constraint list both renderings must show: a clause is   *)
(* the constraint with unit coefficients, relation >= and degree 1; a      *)
(* stored pseudo-Boolean constraint is itself.  A term is <<c, l>> with l  *)
(* a signed identifier: "the same coefficients and literals" is equality   *)
(* of the terms <<c, l>> (so `-1 x3' is NOT a way of writing <<1, -3>>;    *)
(* `+1 ~x3' is).  The order of the terms inside one constraint is not part *)
(* of the property (bags are compared); the order of the constraints is.   *)
(*                                                                         *)
(* OPB TEXT (as lexed by harness/c12.py): a sequence of lines              *)
(*   [k |-> "c" | "b" | "d", t |-> tokens]                                 *)
(* "c": first non-blank character is `*' (tokens kept for the first line   *)
(* of the text only), "b": blank, "d": anything else.  A token is          *)
(*   [k |-> "int", i |-> v]            [+-]digits                          *)
(*   [k |-> "var" | "nvar", i |-> k]   x<k> | ~x<k>,  k >= 1 without       *)
(*                                     leading zero                        *)
(*   [k |-> "rel", w |-> ">=" | "="]                                       *)
(*   [k |-> "semi"]                    `;' (split off the preceding token) *)
(*   [k |-> "word", w |-> s]           anything else                       *)
(*                                                                         *)
(* LATEX (as lexed by harness/c12.py): a sequence of pages (one per align  *)
(* environment), a page is a sequence of rows (separated by \\ at brace    *)
(* depth 0), a row is a sequence of tokens [k, i, n]:                      *)
(*   "pos" / "neg"  a literal, n = its name as a sequence of characters    *)
(*                  ({X} | plain X  /  \overline{X} | {\overline{A}B},     *)
(*                  name AB)                                               *)
(*   "int"          i = value;   "lor", "plus", "geq", "eq", "square",     *)
(*   "top";  "deco" (&, \land, \left(, \right), parentheses: no meaning);  *)
(*   "junk"         anything else.                                         *)
(***************************************************************************)
EXTENDS Integers, Sequences, FiniteSets, TLC

AbsV(x) == IF x < 0 THEN -x ELSE x
Sgn(x)  == IF x < 0 THEN -1 ELSE 1

RECURSIVE Concat(_)
Concat(ss) == IF ss = <<>> THEN <<>> ELSE Head(ss) \o Concat(Tail(ss))

CountIn(s, x) == Cardinality({j \in 1..Len(s) : s[j] = x})
\* the two sequences are equal as bags
BagEq(a, b) == /\ Len(a) = Len(b)
               /\ \A i \in 1..Len(a) : CountIn(a, a[i]) = CountIn(b, a[i])

-----------------------------------------------------------------------------
(* The constraint list of a formula                                         *)

ClauseAsCons(c) == [terms |-> [h \in 1..Len(c) |-> <<1, c[h]>>], op |-> ">=", deg |-> 1]
StoredAsCons(c) == [terms |-> c.terms, op |-> (IF c.op = "==" THEN "=" ELSE c.op), deg |-> c.deg]
Cons(F) == IF F.cls = "CNF"
           THEN [j \in 1..Len(F.clauses) |-> ClauseAsCons(F.clauses[j])]
           ELSE [j \in 1..Len(F.constraints) |-> StoredAsCons(F.constraints[j])]

SameCons(c, d) == c.op = d.op /\ c.deg = d.deg /\ BagEq(c.terms, d.terms)
SameFormula(F, G) == /\ F.nvars = G.nvars
                     /\ Len(Cons(F)) = Len(Cons(G))
                     /\ \A j \in 1..Len(Cons(F)) : SameCons(Cons(F)[j], Cons(G)[j])

-----------------------------------------------------------------------------
(* OPB: denotation of a lexed text                                          *)

OTok(k, i, w) == [k |-> k, i |-> i, w |-> w]
IsW(t, s) == t.k = "word" /\ t.w = s

\* `* #variable= n #constraint= m' (further fields of later format versions tolerated)
HeaderOK(l) == /\ l.k = "c"
               /\ Len(l.t) >= 5
               /\ IsW(l.t[1], "*")
               /\ IsW(l.t[2], "#variable=")  /\ l.t[3].k = "int"
               /\ IsW(l.t[4], "#constraint=") /\ l.t[5].k = "int"

Terminated(t) == Len(t) >= 1 /\ t[Len(t)].k = "semi"
Body(t)       == IF Terminated(t) THEN SubSeq(t, 1, Len(t) - 1) ELSE t

\* (int [~]x<k>)* rel int [;]
IsConstraint(t) ==
    LET b == Body(t)
        m == Len(b)
    IN  /\ m >= 2 /\ m % 2 = 0
        /\ b[m].k = "int" /\ b[m - 1].k = "rel" /\ b[m - 1].w \in {">=", "="}
        /\ \A j \in 1..((m - 2) \div 2) :
              /\ b[2 * j - 1].k = "int"
              /\ b[2 * j].k \in {"var", "nvar"} /\ b[2 * j].i >= 1

ConsOf(t) ==
    LET b == Body(t)
        m == Len(b)
    IN  [terms |-> [j \in 1..((m - 2) \div 2) |->
                      <<b[2 * j - 1].i, IF b[2 * j].k = "var" THEN b[2 * j].i ELSE -b[2 * j].i>>],
         op |-> b[m - 1].w, deg |-> b[m].i]

DataLines(lines) == SelectSeq(lines, LAMBDA l : l.k = "d")

HasOpbDenotation(lines) == /\ Len(lines) >= 1 /\ HeaderOK(lines[1])
                           /\ \A j \in 1..Len(lines) : lines[j].k = "d" => IsConstraint(lines[j].t)

\* only used on texts with a denotation
OpbDenotes(lines) ==
    LET D == DataLines(lines)
    IN  [nvars |-> lines[1].t[3].i, ncons |-> lines[1].t[5].i,
         cons  |-> [j \in 1..Len(D) |-> ConsOf(D[j].t)]]

\* first constraint that differs, as a verdict name
ConsWhy(want, got) ==
    IF want.op # got.op THEN "wrong_relation"
    ELSE IF want.deg # got.deg THEN "wrong_degree"
    ELSE IF BagEq(want.terms, got.terms) THEN "ok"
    ELSE IF Len(want.terms) # Len(got.terms) THEN "wrong_number_of_terms"
    ELSE IF BagEq([h \in 1..Len(want.terms) |-> want.terms[h][2]],
                  [h \in 1..Len(got.terms) |-> got.terms[h][2]]) THEN "wrong_coefficient"
    ELSE IF BagEq([h \in 1..Len(want.terms) |-> AbsV(want.terms[h][2])],
                  [h \in 1..Len(got.terms) |-> AbsV(got.terms[h][2])]) THEN "wrong_polarity"
    ELSE "wrong_variable"

\* "ok" or the name of the first failing clause of the property
OpbWhy(F, lines) ==
    IF Len(lines) = 0 THEN "no_header_line"
    ELSE IF ~HeaderOK(lines[1]) THEN "malformed_header_line"
    ELSE IF \E j \in 1..Len(lines) : lines[j].k = "d" /\ ~IsConstraint(lines[j].t)
         THEN "line_not_comment_not_constraint"
    ELSE LET den  == OpbDenotes(lines)
             want == Cons(F)
             bad  == {j \in 1..Len(want) : j <= Len(den.cons) /\ ConsWhy(want[j], den.cons[j]) # "ok"}
         IN  IF den.nvars # F.nvars THEN "wrong_variable_count"
             ELSE IF den.ncons # Len(want) THEN "wrong_constraint_count"
             ELSE IF bad # {} THEN LET j == CHOOSE x \in bad : \A y \in bad : x <= y
                                   IN  ConsWhy(want[j], den.cons[j])
             ELSE IF Len(den.cons) < Len(want) THEN "constraint_missing"
             ELSE IF Len(den.cons) > Len(want) THEN "extra_constraint"
             ELSE IF \E j \in 1..Len(lines) : lines[j].k = "d" /\ ~Terminated(lines[j].t)
                  THEN "constraint_not_terminated"
             ELSE "ok"

OpbOK(F, lines) == OpbWhy(F, lines) = "ok"

-----------------------------------------------------------------------------
(* LaTeX: denotation of a lexed row                                         *)

LTok(k, i, n) == [k |-> k, i |-> i, n |-> n]
IsLitTok(t) == t.k \in {"pos", "neg"}
ShownLit(c, t) == [c |-> c, s |-> (IF t.k = "pos" THEN 1 ELSE -1), n |-> t.n]

Sig(row) == SelectSeq(row, LAMBDA t : t.k # "deco")

TopRow       == [kind |-> "top",  terms |-> <<>>, op |-> ">=", deg |-> 1]
BadRow       == [kind |-> "bad",  terms |-> <<>>, op |-> ">=", deg |-> 1]
ConsRow(ts, op, deg) == [kind |-> "cons", terms |-> ts, op |-> op, deg |-> deg]

\* a clause row:  \square  |  lit (\lor lit)*
ClauseRow(row) ==
    LET s == Sig(row) IN
    IF Len(s) = 1 /\ s[1].k = "top" THEN TopRow
    ELSE IF Len(s) = 1 /\ s[1].k = "square" THEN ConsRow(<<>>, ">=", 1)
    ELSE IF /\ Len(s) % 2 = 1
            /\ \A h \in 1..Len(s) : IF h % 2 = 1 THEN IsLitTok(s[h]) ELSE s[h].k = "lor"
         THEN ConsRow([h \in 1..((Len(s) + 1) \div 2) |-> ShownLit(1, s[2 * h - 1])], ">=", 1)
    ELSE BadRow

\* term (+ term)*  with  term = [int] lit;  result [ok, terms]
RECURSIVE TermsFrom(_, _, _)
TermsFrom(lhs, i, acc) ==
    IF i > Len(lhs) THEN [ok |-> FALSE, terms |-> acc]
    ELSE LET two  == lhs[i].k = "int" /\ i + 1 <= Len(lhs) /\ IsLitTok(lhs[i + 1])
             one  == IsLitTok(lhs[i])
             nxt  == IF two THEN i + 2 ELSE i + 1
             acc2 == IF two THEN Append(acc, ShownLit(lhs[i].i, lhs[i + 1]))
                            ELSE Append(acc, ShownLit(1, lhs[i]))
         IN  IF ~(two \/ one) THEN [ok |-> FALSE, terms |-> acc]
             ELSE IF nxt > Len(lhs) THEN [ok |-> TRUE, terms |-> acc2]
             ELSE IF lhs[nxt].k = "plus" THEN TermsFrom(lhs, nxt + 1, acc2)
             ELSE [ok |-> FALSE, terms |-> acc2]

\* a constraint row:  (0 | nothing | term (+ term)*) (\geq | =) int
ConstraintRow(row) ==
    LET s == Sig(row)
        m == Len(s)
    IN  IF m = 1 /\ s[1].k = "top" THEN TopRow
        ELSE IF m >= 2 /\ s[m].k = "int" /\ s[m - 1].k \in {"geq", "eq"}
        THEN LET lhs == SubSeq(s, 1, m - 2)
                 op  == IF s[m - 1].k = "geq" THEN ">=" ELSE "="
             IN  IF lhs = <<>> \/ (Len(lhs) = 1 /\ lhs[1].k = "int" /\ lhs[1].i = 0)
                 THEN ConsRow(<<>>, op, s[m].i)
                 ELSE LET p == TermsFrom(lhs, 1, <<>>)
                      IN  IF p.ok THEN ConsRow(p.terms, op, s[m].i) ELSE BadRow
        ELSE BadRow

RowDenotes(cls, row) == IF cls = "CNF" THEN ClauseRow(row) ELSE ConstraintRow(row)

(* Names.  A name is a sequence of characters.  Blanks and the braces of a   *)
(* group that is not the argument of a sub/superscript are typesetting, not *)
(* identity (the writer splits a name inside \overline{..}, which moves such *)
(* braces): they are removed before names are compared.  The braces of a    *)
(* script argument are identity: a_{2^k} and a_{2}^k are different names.   *)
(* A variable without a name of its own (the formula calls it x<id>) may    *)
(* also be shown with its identifier as a subscript (x_<id>, x_{<id>}).     *)
Strip(n) == SelectSeq(n, LAMBDA ch : ch \notin {"{", "}", " "})
NoUs(n)  == SelectSeq(n, LAMBDA ch : ch # "_")
RECURSIVE CloseAt(_, _, _)
\* position of the brace closing the group whose inside starts at position p (depth d), 0 if none
CloseAt(s, p, d) == IF p > Len(s) THEN 0
                    ELSE IF s[p] = "{" THEN CloseAt(s, p + 1, d + 1)
                    ELSE IF s[p] = "}" THEN (IF d = 1 THEN p ELSE CloseAt(s, p + 1, d - 1))
                    ELSE CloseAt(s, p + 1, d)
RECURSIVE Shape(_)
Shape(s) ==
    IF s = <<>> THEN <<>>
    ELSE IF s[1] = " " THEN Shape(Tail(s))
    ELSE IF s[1] \in {"_", "^"} /\ Len(s) >= 2 /\ s[2] = "{" /\ CloseAt(s, 3, 1) > 0
         THEN LET e == CloseAt(s, 3, 1)
              IN  <<s[1], "{">> \o Shape(SubSeq(s, 3, e - 1)) \o <<"}">> \o Shape(SubSeq(s, e + 1, Len(s)))
    ELSE IF s[1] = "{" /\ CloseAt(s, 2, 1) > 0
         THEN LET e == CloseAt(s, 2, 1)
              IN  Shape(SubSeq(s, 2, e - 1)) \o Shape(SubSeq(s, e + 1, Len(s)))
    ELSE IF s[1] \in {"{", "}"} THEN Shape(Tail(s))
    ELSE <<s[1]>> \o Shape(Tail(s))
Unnamed(labels, named) == {Strip(labels[v]) : v \in {w \in 1..Len(labels) : ~named[w]}}
Canon(n, U) == LET u == NoUs(Strip(n))
               IN  IF u \in U THEN u ELSE Shape(n)

\* what row j must show: coefficient, polarity, name of every term
WantRow(c, labels, U) ==
    [h \in 1..Len(c.terms) |->
        [c |-> c.terms[h][1], s |-> Sgn(c.terms[h][2]), n |-> Canon(labels[AbsV(c.terms[h][2])], U)]]
GotRow(r, U) == [h \in 1..Len(r.terms) |-> [c |-> r.terms[h].c, s |-> r.terms[h].s, n |-> Canon(r.terms[h].n, U)]]

RowWhy(c, r, labels, U) ==
    LET want == WantRow(c, labels, U)
        got  == GotRow(r, U)
    IN  IF Len(want) # Len(got) THEN "wrong_number_of_literals"
        ELSE IF c.op # r.op THEN "wrong_relation"
        ELSE IF c.deg # r.deg THEN "wrong_bound"
        ELSE IF BagEq(want, got) THEN "ok"
        ELSE IF BagEq([h \in 1..Len(want) |-> <<want[h].s, want[h].n>>],
                      [h \in 1..Len(got) |-> <<got[h].s, got[h].n>>]) THEN "wrong_coefficient"
        ELSE IF BagEq([h \in 1..Len(want) |-> want[h].n],
                      [h \in 1..Len(got) |-> got[h].n]) THEN "wrong_polarity"
        ELSE "wrong_name"

WellLabelled(F, labels, named) ==
    /\ Len(labels) = F.nvars /\ Len(named) = F.nvars
    /\ \A j \in 1..Len(Cons(F)) : \A h \in 1..Len(Cons(F)[j].terms) :
          LET l == Cons(F)[j].terms[h][2] IN l # 0 /\ AbsV(l) <= F.nvars

\* form = "snippet": one block, not split; form = "document": any number of blocks (how many rows the
\* writer puts on a page is typesetting; pagesize is kept for the abstract writer of the model only)
LatexWhy(F, labels, named, pages, form, pagesize) ==
    LET want == Cons(F)
        rows == Concat(pages)
        U    == Unnamed(labels, named)
        den  == [j \in 1..Len(rows) |-> RowDenotes(F.cls, rows[j])]
        bad  == {j \in 1..Len(want) : j <= Len(rows) /\ den[j].kind = "cons"
                                      /\ RowWhy(want[j], den[j], labels, U) # "ok"}
    IN  IF ~WellLabelled(F, labels, named) THEN "formula_not_well_labelled"
        ELSE IF Len(pages) = 0 THEN "no_formula_block"
        ELSE IF form = "snippet" /\ Len(pages) # 1 THEN "snippet_is_split"
        ELSE IF \E p \in 1..Len(pages) : Len(pages[p]) = 0 THEN "empty_block"
        ELSE IF Len(want) = 0
             THEN (IF Len(rows) = 1 /\ den[1].kind = "top" THEN "ok" ELSE "empty_formula_not_top")
        ELSE IF \E j \in 1..Len(rows) : den[j].kind = "top" THEN "top_in_nonempty_formula"
        ELSE IF \E j \in 1..Len(rows) : den[j].kind = "bad" THEN "malformed_row"
        ELSE IF bad # {} THEN LET j == CHOOSE x \in bad : \A y \in bad : x <= y
                              IN  RowWhy(want[j], den[j], labels, U)
        ELSE IF Len(rows) < Len(want) THEN "row_missing"
        ELSE IF Len(rows) > Len(want) THEN "extra_row"
        ELSE "ok"

LatexOK(F, labels, named, pages, form, pagesize) ==
    LatexWhy(F, labels, named, pages, form, pagesize) = "ok"

-----------------------------------------------------------------------------
(* Abstract writers, shaped like cnfgen.utils.opb.to_opb_file and           *)
(* cnfgen.utils.latexoutput._print_latex / to_latex_document, producing     *)
(* texts in lexed form.  They exist to check the reading side above on all  *)
(* tiny formulas (OpbLatexMC.tla).                                          *)

Comment == [k |-> "c", t |-> <<>>]
HeaderLine(F) == [k |-> "c", t |-> <<OTok("word", 0, "*"), OTok("word", 0, "#variable="),
                                     OTok("int", F.nvars, ""), OTok("word", 0, "#constraint="),
                                     OTok("int", Len(Cons(F)), "")>>]
TermToks(t) == <<OTok("int", t[1], ""),
                 IF t[2] > 0 THEN OTok("var", t[2], "") ELSE OTok("nvar", -t[2], "")>>
ConsLine(c, semi) ==
    [k |-> "d", t |-> Concat([h \in 1..Len(c.terms) |-> TermToks(c.terms[h])])
                      \o <<OTok("rel", 0, c.op), OTok("int", c.deg, "")>>
                      \o (IF semi THEN <<OTok("semi", 0, "")>> ELSE <<>>)]

\* nfields: number of header fields; semi: constraint lines end with `;'
OpbWrite(F, header, varnames, nfields, semi) ==
       <<HeaderLine(F)>>
    \o (IF header THEN [f \in 1..nfields |-> Comment] \o <<Comment>> ELSE <<>>)
    \o (IF varnames THEN [v \in 1..F.nvars |-> Comment] \o <<Comment>> ELSE <<>>)
    \o [j \in 1..Len(Cons(F)) |-> ConsLine(Cons(F)[j], semi)]

Deco == LTok("deco", 0, <<>>)
Sym(k) == LTok(k, 0, <<>>)
\* shown = [pos |-> names, neg |-> names]: what the lexer reads back for each literal
LitTok(l, shown) == IF l > 0 THEN LTok("pos", 0, shown.pos[l]) ELSE LTok("neg", 0, shown.neg[-l])

RECURSIVE Join(_, _)
Join(ss, sep) == IF Len(ss) = 0 THEN <<>>
                 ELSE IF Len(ss) = 1 THEN ss[1]
                 ELSE ss[1] \o <<sep>> \o Join(Tail(ss), sep)

\* write_clause: `&' [`\land'] [`\left('] lits joined by \lor [`\right)']  |  \square
ClauseRowWrite(c, first, compact, shown) ==
       <<Deco>> \o (IF compact /\ ~first THEN <<Deco>> ELSE <<>>)
    \o (IF Len(c.terms) = 0 THEN <<Sym("square")>>
        ELSE (IF compact THEN <<Deco>> ELSE <<>>)
             \o Join([h \in 1..Len(c.terms) |-> <<LitTok(c.terms[h][2], shown)>>], Sym("lor"))
             \o (IF compact THEN <<Deco>> ELSE <<>>))

\* write_constraint: coefficient shown when it is not 1 (asCode: when it is > 1, as the code does)
CoefToks(c, asCode) == IF (asCode /\ c > 1) \/ (~asCode /\ c # 1) THEN <<LTok("int", c, <<>>)>> ELSE <<>>
ConstraintRowWrite(c, shown, asCode) ==
       <<Deco>>
    \o (IF Len(c.terms) = 0 THEN <<LTok("int", 0, <<>>)>>
        ELSE Join([h \in 1..Len(c.terms) |-> CoefToks(c.terms[h][1], asCode)
                                              \o <<LitTok(c.terms[h][2], shown)>>], Sym("plus")))
    \o <<Sym(IF c.op = ">=" THEN "geq" ELSE "eq"), LTok("int", c.deg, <<>>)>>

RowWrite(F, j, first, compact, shown, asCode) ==
    IF F.cls = "CNF" THEN ClauseRowWrite(Cons(F)[j], first, compact, shown)
    ELSE ConstraintRowWrite(Cons(F)[j], shown, asCode)

\* _print_latex(F, split_every, compact): a new align block every `split' rows (split <= 0: never)
LatexWrite(F, shown, split, compact, asCode) ==
    LET m  == Len(Cons(F))
        np == IF split <= 0 THEN 1 ELSE (m + split - 1) \div split
        lo(p) == IF split <= 0 THEN 1 ELSE (p - 1) * split + 1
        hi(p) == IF split <= 0 \/ p * split > m THEN m ELSE p * split
    IN  IF m = 0 THEN << << <<Sym("top")>> >> >>
        ELSE [p \in 1..np |-> [j \in 1..(hi(p) - lo(p) + 1) |->
                 RowWrite(F, lo(p) + j - 1, j = 1, compact, shown, asCode)]]

\* to_latex(): snippet = compact, never split; to_file(latex): document = not compact, split
LatexSnippet(F, shown, asCode)            == LatexWrite(F, shown, -1, TRUE, asCode)
LatexDocument(F, shown, pagesize, asCode) == LatexWrite(F, shown, pagesize, FALSE, asCode)
=============================================================================
