SPECIFICATION Spec
CONSTANTS
  ShapesFirst <- NoShapes
  ShapesLater <- ShapesBlock
  Clauses <- ClausesOne
  Updates = {0, 3}
  MaxSteps = 2
  Export = TRUE
  Closing = FALSE
  Shard = 0
  NShards = 1
CHECK_DEADLOCK FALSE
INVARIANT Emit
