------------------------------- MODULE Store -------------------------------
(***************************************************************************)
(* The variable store of a formula as callers see it (property C10).       *)
(*                                                                         *)
(* State: numvar (declared number of variables), maxm (largest variable    *)
(* any inserted clause mentions), zeros (count of literals that are 0 or   *)
(* not integers).  Actions = the three ways a caller touches the store:    *)
(*   Insert(maxvar, bad, checked)  clause / constraint insertion           *)
(*   NewGroup(len)                 a variable group of len fresh ids       *)
(*   Raise(k)                      update_variable_number(k)               *)
(* The *disciplined* store (every insertion checked) keeps InRange and     *)
(* Fresh; with unchecked insertions TLC exhibits both violations, which is *)
(* why C10 is a property of the callers and is checked on their traces     *)
(* (JudgeStore.tla replays recorded events through these same actions).    *)
(***************************************************************************)
EXTENDS Integers, Sequences, FiniteSets, TLC, Json

CONSTANTS MaxVar,        \* variables mentioned by clauses range over 0..MaxVar
          Discipline,    \* TRUE: callers always insert with check=True
          Depth          \* export: print every behaviour with Depth calls (0 = no export)

VARIABLES numvar, maxm, bad, lastfirst, lastact, hist
vars == <<numvar, maxm, bad, lastfirst, lastact, hist>>

Max(a, b) == IF a >= b THEN a ELSE b

Init == numvar = 0 /\ maxm = 0 /\ bad = 0 /\ lastfirst = 0 /\ lastact = "init" /\ hist = <<>>

\* history of calls with the counter expected after each (export only)
Log(call) == hist' = IF Depth = 0 THEN hist ELSE Append(hist, call)

\* one clause whose largest variable is mv (0 = empty clause); z = it contains a 0 / non-integer
Insert(mv, z, checked) ==
    /\ ~(checked /\ z)                       \* a checked insertion of a bad literal is refused (ValueError)
    /\ maxm' = Max(maxm, mv)
    /\ bad' = bad + (IF z THEN 1 ELSE 0)
    /\ numvar' = IF checked THEN Max(numvar, mv) ELSE numvar
    /\ lastact' = "insert" /\ UNCHANGED lastfirst
    /\ Log([act |-> "insert", mv |-> mv, zero |-> z, checked |-> checked, len |-> 0, k |-> 0, nv |-> numvar'])

NewGroup(len) ==
    /\ len > 0
    /\ lastfirst' = numvar + 1
    /\ numvar' = numvar + len
    /\ lastact' = "group" /\ UNCHANGED <<maxm, bad>>
    /\ Log([act |-> "group", mv |-> 0, zero |-> FALSE, checked |-> FALSE, len |-> len, k |-> 0, nv |-> numvar'])

Raise(k) ==
    /\ numvar' = Max(numvar, k)
    /\ lastact' = "raise" /\ UNCHANGED <<maxm, bad, lastfirst>>
    /\ Log([act |-> "raise", mv |-> 0, zero |-> FALSE, checked |-> FALSE, len |-> 0, k |-> k, nv |-> numvar'])

Next == /\ (Depth = 0 \/ Len(hist) < Depth)
        /\ \/ \E mv \in 0..MaxVar, z \in BOOLEAN, c \in BOOLEAN : (Discipline => c) /\ Insert(mv, z, c)
           \/ \E len \in 1..2 : NewGroup(len)
           \/ \E k \in 0..MaxVar : Raise(k)

Bounded == numvar <= MaxVar + 2 /\ bad <= 1
Spec == Init /\ [][Next]_vars

-----------------------------------------------------------------------------
InRange  == maxm <= numvar /\ bad = 0
Monotone == [][numvar' >= numvar]_vars
\* a new group never hands out an identifier that an earlier clause mentioned
Fresh    == [][lastact' = "group" => lastfirst' > maxm]_vars
ModelView == <<numvar, maxm, bad, lastfirst, lastact>>
Emit == (Depth > 0 /\ Len(hist) = Depth) => PrintT(ToJson(hist))
=============================================================================
