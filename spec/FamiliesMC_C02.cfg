SPECIFICATION Spec
CONSTANT Scope = "C02"
INVARIANT Tseitin_Count
INVARIANT EvenCol_Sat_iff
INVARIANT Clique_Count
INVARIANT Domset_Monotone
