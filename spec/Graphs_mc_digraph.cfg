SPECIFICATION Spec
CONSTANTS Kind = "digraph"
  MaxN = 3
  NegArgs = 2
  Depth = 0
  Batches <- AllBatches
INVARIANT TypeOK
INVARIANT ViewsAgree
PROPERTY RefusalIsNoop
PROPERTY EdgesOnlyGrowByAdd
VIEW ModelView
CHECK_DEADLOCK FALSE
