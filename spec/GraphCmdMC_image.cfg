SPECIFICATION Spec
CONSTANT Part = "image"
INVARIANT Shape_Sound
