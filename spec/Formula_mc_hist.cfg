SPECIFICATION Spec
CONSTANTS
  ShapesFirst <- SomeShapes
  ShapesLater <- SomeShapes
  Clauses <- ClausesSome
  Updates = {0, 2, 5}
  MaxSteps = 4
  Export = FALSE
  Closing = FALSE
  Shard = 0
  NShards = 1
CHECK_DEADLOCK FALSE
INVARIANT TypeOK
INVARIANT ClosedFormsAgree
INVARIANT MutuallyInverse
INVARIANT IndicesInIdOrder
INVARIANT PatternsInIdOrder
INVARIANT Layout
INVARIANT NamesAligned
PROPERTY Fresh
PROPERTY GroupsImmutable
PROPERTY Monotone
VIEW ModelView
