----------------------------- MODULE JudgeStore -----------------------------
(***************************************************************************)
(* Trace validation for C10: the event log of one formula object (clause   *)
(* insertions aggregated, variable-group creations, explicit raises of the *)
(* variable count - recorded by wrappers around the real store methods) is *)
(* replayed through the actions of Store.tla; the logged counter must be a *)
(* legal successor at every step, every new group must be fresh and        *)
(* contiguous, and at the end all literals are in range and the declared   *)
(* count is the documented one (Families.tla / Transform.tla).             *)
(* Record: [id, fam, par, graph?, graph2?, chain, events, final, outcome]  *)
(*   event "i": [t, maxvar, bad, checked, nv]   "g": [t, first, len, nv]   *)
(*         "r": [t, k, nv]                                                 *)
(***************************************************************************)
EXTENDS JudgeFamilies, Transform

Max(a, b) == IF a >= b THEN a ELSE b

\* one step of the store machine, bound to the logged values; returns the
\* new state or a failure name
\* e.pre = the declared count just before the call (when logged).  A count that grew between two recorded
\* calls without a recorded call (a builder registering its literals before it inserts anything, say) is a
\* Raise action of Store.tla - legal at any time; a count that shrank is not.
Pre(s, e) == IF "pre" \in DOMAIN e THEN e.pre ELSE s.nv
Step(s0, e) ==
    LET s == IF s0.fail = "ok" /\ Pre(s0, e) > s0.nv THEN [s0 EXCEPT !.nv = Pre(s0, e)] ELSE s0 IN
    IF s.fail # "ok" THEN s
    ELSE IF Pre(s, e) < s.nv \/ e.nv < s.nv THEN [s EXCEPT !.fail = "variable_count_decreased"]
    ELSE CASE e.t = "i" ->      \* Insert(maxvar, bad, checked)
               IF e.checked /\ e.nv < e.maxvar THEN [s EXCEPT !.fail = "checked_insertion_did_not_raise_the_count"]
               ELSE [nv |-> e.nv, mm |-> Max(s.mm, e.maxvar), bad |-> s.bad + e.bad, fail |-> "ok"]
           [] e.t = "g" ->      \* NewGroup(len)
               IF e.len = 0 THEN [s EXCEPT !.nv = e.nv]
               ELSE IF e.first <= s.mm THEN [s EXCEPT !.fail = "new_group_reuses_an_identifier_already_mentioned"]
               ELSE IF e.first # s.nv + 1 THEN [s EXCEPT !.fail = "new_group_not_contiguous_with_declared_count"]
               ELSE IF e.nv # s.nv + e.len THEN [s EXCEPT !.fail = "group_creation_did_not_declare_its_variables"]
               ELSE [s EXCEPT !.nv = e.nv]
           [] e.t = "r" ->      \* Raise(k)
               IF e.nv # Max(s.nv, e.k) THEN [s EXCEPT !.fail = "raise_of_the_count_misapplied"]
               ELSE [s EXCEPT !.nv = e.nv]

RECURSIVE Run(_, _, _)
Run(s, es, k) == IF k > Len(es) THEN s ELSE Run(Step(s, es[k]), es, k + 1)

\* documented number of variables
FamilyCount(r) ==
    IF r.fam = "pitfall"
    THEN LET p == r.par  nx == (p.v * p.d) \div 2 IN p.k * (2 * nx + p.ny + 2 * p.nz + 3)
    ELSE IF r.fam = "none" THEN r.par.n0
    ELSE LET G == Groups(r) IN SumSeq([g \in 1..Len(G) |-> Cardinality(G[g])])
RECURSIVE ChainCount(_, _, _)
ChainCount(n, chain, k) == IF k > Len(chain) THEN n ELSE ChainCount(NewVarCount(chain[k], n), chain, k + 1)
ExpectedCount(r) == ChainCount(FamilyCount(r), r.chain, 1)

VerdictStore(r) ==
    IF r.outcome # "ok" THEN "unexpected_" \o r.outcome
    ELSE LET s == Run([nv |-> 0, mm |-> 0, bad |-> 0, fail |-> "ok"], r.events, 1) IN
         IF s.fail # "ok" THEN s.fail
         ELSE IF s.nv > r.final THEN "variable_count_decreased"
         ELSE IF s.bad > 0 THEN "zero_or_non_integer_literal"
         ELSE IF s.mm > r.final THEN "literal_out_of_range"
         \* the final formula as it lists itself, whatever route its clauses took into it
         ELSE IF Has(r, "listed") /\ r.listed.bad > 0 THEN "zero_or_non_integer_literal"
         ELSE IF Has(r, "listed") /\ r.listed.mm > r.final THEN "literal_out_of_range"
         ELSE IF r.final # ExpectedCount(r) THEN "declared_count_differs_from_documented"
         ELSE "ok"

NextStore == /\ pos <= Len(Trace)
             /\ PrintT(<<"VERDICT", Trace[pos].id, VerdictStore(Trace[pos])>>)
             /\ pos' = pos + 1
SpecStore == Init /\ [][NextStore]_vars
=============================================================================
