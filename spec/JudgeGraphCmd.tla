--------------------------- MODULE JudgeGraphCmd ---------------------------
(***************************************************************************)
(* Trace module for C15 (direction B): judges what the real command-line   *)
(* graph constructions delivered against GraphCmd.tla.  One step and one   *)
(* VERDICT line per record of IOEnv.TRACE_FILE (ndjson).  A record is      *)
(*   [id, kind: "lib" | "cli" | "libcall", gtype, constr, args: tokens,    *)
(*    given: <<[name, args]>> modifiers in command-line order,             *)
(*    save?: [fmt, ext], seed, rng,                                        *)
(*    outcome: "ok" | "refused" | <exception class>, msglen,               *)
(*    graph: what came back,                                               *)
(*    stages: <<[name, args, before]>> modifiers in the order they were    *)
(*            applied, each with the graph it received,                    *)
(*    saved?: [outcome, graph?] the saved file read back,                  *)
(*    fam?, fedges? | clauses?, nvars?  (cli: read off the formula built)] *)
(* Verdict = name of the first failing clause.                             *)
(***************************************************************************)
EXTENDS GraphCmd, Json, IOUtils

Trace == ndJsonDeserialize(IOEnv.TRACE_FILE)

VARIABLE pos
vars == <<pos>>

Names(s) == {s[i].name : i \in 1..Len(s)}

CClass(r)    == ConstrClass(r.gtype, r.constr, r.args)
MClass(r, i) == ModClass(r.gtype, r.given[i].name, r.given[i].args)
SClass(r)    == IF Has(r, "save") THEN SaveClass(r.gtype, r.save) ELSE "may"

Unmeetable(r) == \/ CClass(r) = "unmeetable"
                 \/ \E i \in 1..Len(r.given) : MClass(r, i) = "unmeetable"
                 \/ SClass(r) = "unmeetable"
\* the same modifier twice: the grammar does not say
DupMods(r) == Cardinality(Names(r.given)) # Len(r.given)

\* refusing is wrong only where delivery is demanded: glrm and the deterministic
\* constructions inside their documented ranges, with nothing but `save` appended
MustSucceed(r) == CClass(r) = "must" /\ r.given = <<>> /\ SClass(r) = "may"

After(r, i) == IF i = Len(r.stages) THEN r.graph ELSE r.stages[i + 1].before

RECURSIVE ModsVerdict(_, _)
ModsVerdict(r, i) ==
    IF i > Len(r.stages) THEN "ok"
    ELSE LET s == r.stages[i]
             v == IF ModClass(r.gtype, s.name, s.args) = "may"
                  THEN ModVerdict(s.name, s.args, s.before, After(r, i)) ELSE "ok"
         IN  IF v # "ok" THEN v ELSE ModsVerdict(r, i + 1)

SaveVerdict(r) ==
    IF ~Has(r, "save") THEN "ok"
    ELSE IF r.saved.outcome # "ok" THEN "saved_graph_" \o r.saved.outcome
    ELSE IF ~WellShaped(r.saved.graph, r.gtype) THEN "saved_file_is_not_a_graph_of_the_requested_type"
    ELSE IF ~SaveOK(r.saved.graph, r.graph) THEN "saved_graph_differs_from_the_graph_handed_on"
    ELSE "ok"

\* the graph a formula was built on, read off the formula
PebEdges(r) == UNION {{<<-r.clauses[j][a], r.clauses[j][b]>> :
                          <<a, b>> \in {t \in (1..Len(r.clauses[j])) \X (1..Len(r.clauses[j])) :
                                          r.clauses[j][t[1]] < 0 /\ r.clauses[j][t[2]] > 0}} :
                      j \in 1..Len(r.clauses)}
FormulaVerdict(r) ==
    IF r.kind # "cli" THEN "ok"
    ELSE IF r.fam = "peb"
         THEN (IF r.nvars # r.graph.n \/ PebEdges(r) # EdgeSet(r.graph)
               THEN "formula_built_on_another_graph" ELSE "ok")
    ELSE IF Range(r.fedges) # EdgeSet(r.graph) THEN "formula_built_on_another_graph"
    ELSE "ok"

OkVerdict(r) ==
    IF Unmeetable(r) THEN "accepted_a_request_that_cannot_be_met"
    ELSE IF ~WellShaped(r.graph, r.gtype) THEN "result_is_not_a_graph_of_the_requested_type"
    ELSE IF DupMods(r) THEN "ok"
    ELSE IF Len(r.stages) # Len(r.given) \/ Names(r.stages) # Names(r.given)
         THEN "modifiers_applied_differ_from_the_modifiers_requested"
    ELSE IF \E i \in 1..Len(r.stages) : ~WellShaped(r.stages[i].before, r.gtype)
         THEN "intermediate_result_is_not_a_graph_of_the_requested_type"
    ELSE LET base == IF r.stages = <<>> THEN r.graph ELSE r.stages[1].before
             pv   == IF CClass(r) \in {"must", "may"}
                     THEN PromiseVerdict(r.gtype, r.constr, r.args, base) ELSE "ok"
         IN  IF pv # "ok" THEN pv
             ELSE LET mv == ModsVerdict(r, 1) IN
                  IF mv # "ok" THEN mv
                  ELSE LET sv == SaveVerdict(r) IN
                       IF sv # "ok" THEN sv ELSE FormulaVerdict(r)

\* direct calls of the library constructors: only "promise or refusal, never an
\* internal failure"; what the library does outside the documented ranges of
\* the command line follows its own docstrings and is not judged here
LibCallVerdict(r) ==
    IF r.outcome \notin {"ok", "refused"} THEN "internal_failure_" \o r.outcome
    ELSE IF r.outcome = "refused" THEN "ok"
    ELSE IF ~WellShaped(r.graph, r.gtype) THEN "result_is_not_a_graph_of_the_requested_type"
    ELSE IF CClass(r) \in {"must", "may"} THEN PromiseVerdict(r.gtype, r.constr, r.args, r.graph)
    ELSE "ok"

Verdict(r) ==
    IF r.kind = "libcall" THEN LibCallVerdict(r)
    ELSE IF r.outcome \notin {"ok", "refused"} THEN "internal_failure_" \o r.outcome
    ELSE IF r.outcome = "refused"
         THEN (IF r.msglen = 0 THEN "refused_without_an_error_message"
               ELSE IF MustSucceed(r) THEN "refused_a_request_that_must_be_met"
               ELSE "ok")
    ELSE OkVerdict(r)

Init == pos = 1
Next == /\ pos <= Len(Trace)
        /\ PrintT(<<"VERDICT", Trace[pos].id, Verdict(Trace[pos])>>)
        /\ pos' = pos + 1
Spec == Init /\ [][Next]_vars
AllJudged == TLCGet("distinct") = Len(Trace) + 1
=============================================================================
