--------------------------- MODULE JudgeFamilies ---------------------------
(***************************************************************************)
(* Trace module (direction B): judges formulas recorded from the real      *)
(* generators against the reference semantics in Families.tla.             *)
(*                                                                         *)
(* One step per record of IOEnv.TRACE_FILE (ndjson), one VERDICT line per  *)
(* step.  A record is                                                      *)
(*   [id, fam, par, graph?, cls, outcome, nvars, clauses|constraints,      *)
(*    grp, idx, cand?]                                                     *)
(* grp/idx bind identifier v to the named variable <<grp[v]>> \o idx[v]    *)
(* (decoded from the variable's label).  With cand present only those     *)
(* assignments are evaluated (large scope), else all 2^nvars.              *)
(***************************************************************************)
EXTENDS Families, Json, IOUtils

Trace == ndJsonDeserialize(IOEnv.TRACE_FILE)

VARIABLE pos
vars == <<pos>>

Has(r, f) == f \in DOMAIN r

-----------------------------------------------------------------------------
(* Binding identifiers to named variables                                   *)

Key(r, v)  == <<r.grp[v]>> \o r.idx[v]
Keys(r)    == {Key(r, v) : v \in 1..r.nvars}
\* The recorded group numbers follow the order in which the implementation created its (non-empty)
\* groups; the property does not fix that order.  A *matching* sends every non-empty documented
\* group to a recorded group with the same index set, injectively.  The formula is right if it is
\* right under some matching (there is exactly one unless two documented groups have the same
\* index set, e.g. p and q of the relativized PHP with m = r = n).
NonEmpty(G) == {h \in 1..Len(G) : G[h] # {}}
ObsGroups(r) == {r.grp[v] : v \in 1..r.nvars}
ObsIdx(r, g) == {r.idx[v] : v \in {w \in 1..r.nvars : r.grp[w] = g}}
\* built group by group (a matching is a sequence indexed by documented group, 0 for empty groups).
\* Three or more documented groups with the same index set (the k copies of Pitfall) are taken in
\* creation order: trying all k! permutations of interchangeable copies is pointless.
RECURSIVE MatchSeqs(_, _, _)
MatchSeqs(G, OI, acc) ==
    LET h == Len(acc) + 1 IN
    IF h > Len(G) THEN {acc}
    ELSE IF G[h] = {} THEN MatchSeqs(G, OI, Append(acc, 0))
    ELSE LET big == Cardinality({k \in 1..Len(G) : G[k] = G[h]}) >= 3
             cands == {x \in DOMAIN OI :
                          /\ OI[x] = G[h]
                          /\ \A k \in 1..(h - 1) : acc[k] # x
                          /\ big => \A k \in 1..(h - 1) : G[k] = G[h] => acc[k] < x}
         IN  UNION {MatchSeqs(G, OI, Append(acc, x)) : x \in cands}
Matchings(r, G) == MatchSeqs(G, [g \in ObsGroups(r) |-> ObsIdx(r, g)], <<>>)
\* every recorded variable belongs to a documented group
Covered(r, G) == Cardinality(NonEmpty(G)) = Cardinality(ObsGroups(r))
VarTable(r) == [k \in Keys(r) |-> CHOOSE v \in 1..r.nvars : Key(r, v) = k]
\* identifier of the named variable <<documented group>> \o index under matching M
WTable(r, G, M) ==
    LET V == VarTable(r)
    IN  [k \in UNION {{<<g>> \o t : t \in G[g]} : g \in NonEmpty(G)} |-> V[<<M[k[1]]>> \o Tail(k)]]

Sat(r, a) == IF r.cls = "CNF" THEN SatCNF(a, r.clauses) ELSE SatOPB(a, r.constraints)
WF(r)     == IF r.cls = "CNF" THEN WellFormed(r.nvars, r.clauses)
                              ELSE WellFormedPB(r.nvars, r.constraints)
Cands(r)  == IF Has(r, "cand") THEN Range(r.cand) ELSE Assignments(r.nvars)

-----------------------------------------------------------------------------
(* Family dispatch                                                          *)

CompleteGraph(n) == [n |-> n, edges |-> SortedEdgeSeq({t \in (1..n) \X (1..n) : t[1] < t[2]})]
\* Pitfall: the regular graph the generator drew is read off its first edge-variable group
Gamma(r) == [n |-> r.par.v,
             edges |-> SortedEdgeSeq({r.idx[w] : w \in {x \in 1..r.nvars : r.grp[x] = 1}})]

Groups(r) ==
    LET p == r.par IN
    CASE r.fam = "php"        -> PHPGroups(p.m, p.n)
      [] r.fam = "gphp"       -> GPHPGroups(r.graph)
      [] r.fam = "bphp"       -> BPHPGroups(p.m, p.n)
      [] r.fam = "rphp"       -> RPHPGroups(p.m, p.r, p.n)
      [] r.fam = "count"      -> CountGroups(p.M, p.p)
      [] r.fam = "matching"   -> MatchGroups(r.graph)
      [] r.fam = "subsetcard" -> SubsetCardGroups(r.graph)
      [] r.fam = "cliquecol"  -> CliqueColGroups(p.n, p.k, p.c)
      [] r.fam = "tseitin"    -> TseitinGroups(r.graph)
      [] r.fam = "kcolor"     -> KColorGroups(r.graph, p.k)
      [] r.fam = "evencol"    -> EvenColGroups(r.graph)
      [] r.fam = "domset"     -> DomGroups(r.graph, p.d)
      [] r.fam = "tiling"     -> TilingGroups(r.graph)
      [] r.fam = "iso"        -> IsoGroups(r.graph, r.graph2)
      [] r.fam = "auto"       -> IsoGroups(r.graph, r.graph)
      [] r.fam = "subgraph"   -> SubgraphGroups(r.graph, r.graph2)
      [] r.fam = "kclique"    -> CliqueGroups(r.graph, p.k)
      [] r.fam = "binclique"  -> BinCliqueGroups(r.graph, p.k)
      [] r.fam = "ramlb"      -> << {<< >>}, CliqueGroups(r.graph, p.k)[1] >>
      [] r.fam = "op"         -> GOPGroups(CompleteGraph(p.n), p.smart)
      [] r.fam = "gop"        -> GOPGroups(r.graph, p.smart)
      [] r.fam = "peb"        -> PebGroups(r.graph)
      [] r.fam = "stone"      -> StoneGroups(r.graph, CompleteBip(r.graph.n, p.nstones))
      [] r.fam = "sstone"     -> StoneGroups(r.graph, r.graph2)
      [] r.fam = "cpls"       -> CPLSGroups(p.a, p.b, p.c)
      [] r.fam = "pitfall"    -> PitfallGroups(Gamma(r), p.ny, p.nz, p.k)
      [] r.fam = "ram"        -> RamGroups(p.N)
      [] r.fam = "vdw"        -> VdwGroups(p.N, p.K)
      [] r.fam = "ptn"        -> PtnGroups(p.N)

\* Obj(r, V, a): the valuation that assignment a induces on the named
\* variables (through table V) is an object of the documented kind.
Obj(r, V, a) ==
    LET p == r.par
        G == Groups(r)
        X1(g, x)       == a[V[<<g, x>>]]
        X2(g, x, y)    == a[V[<<g, x, y>>]]
        XT(g, t)       == a[V[<<g>> \o t]]
    IN
    CASE r.fam = "php"        -> PHPObj(p.m, p.n, p.fun, p.onto, LAMBDA x, y : X2(1, x, y))
      [] r.fam = "gphp"       -> GPHPObj(r.graph, p.fun, p.onto, LAMBDA x, y : X2(1, x, y))
      [] r.fam = "bphp"       -> BPHPObj(p.m, p.n, LAMBDA x, y : X2(1, x, y))
      [] r.fam = "rphp"       -> RPHPObj(p.m, p.r, p.n, LAMBDA x, y : X2(1, x, y),
                                         LAMBDA x, y : X2(2, x, y), LAMBDA x : X1(3, x))
      [] r.fam = "count"      -> CountObj(p.M, p.p, LAMBDA t : XT(1, t))
      [] r.fam = "matching"   -> MatchObj(r.graph, LAMBDA x, y : X2(1, x, y))
      [] r.fam = "subsetcard" -> SubsetCardObj(r.graph, p.eq, LAMBDA x, y : X2(1, x, y))
      [] r.fam = "cliquecol"  -> CliqueColObj(p.n, p.k, p.c, LAMBDA x, y : X2(1, x, y),
                                              LAMBDA x, y : X2(2, x, y), LAMBDA x, y : X2(3, x, y))
      [] r.fam = "tseitin"    -> TseitinObj(r.graph, p.chmode, p.ch, LAMBDA x, y : X2(1, x, y))
      [] r.fam = "kcolor"     -> KColorObj(r.graph, p.k, p.fun, LAMBDA x, y : X2(1, x, y))
      [] r.fam = "evencol"    -> EvenColObj(r.graph, LAMBDA x, y : X2(1, x, y))
      [] r.fam = "tiling"     -> TilingObj(r.graph, LAMBDA x : X1(1, x))
      [] r.fam = "iso"        -> IsoObj(r.graph, r.graph2, LAMBDA x, y : X2(1, x, y))
      [] r.fam = "auto"       -> AutoObj(r.graph, LAMBDA x, y : X2(1, x, y))
      [] r.fam = "subgraph"   -> SubgraphObj(r.graph, r.graph2, p.induced, p.sb, LAMBDA x, y : X2(1, x, y))
      [] r.fam = "kclique"    -> CliqueObj(r.graph, p.k, p.sb, LAMBDA x, y : X2(1, x, y))
      [] r.fam = "binclique"  -> BinCliqueObj(r.graph, p.k, p.sb, LAMBDA x, y : X2(1, x, y))
      [] r.fam = "ram"        -> RamObj(p.s, p.k, p.N, LAMBDA x, y : X2(1, x, y))
      [] r.fam = "ptn"        -> PtnObj(p.N, LAMBDA x : X1(1, x))
      [] r.fam = "vdw"        -> IF Len(p.K) = 2 THEN FALSE   \* two colours: see ObjVariant
                                 ELSE VdwColObj(p.N, p.K, LAMBDA x, c : X2(1, x, c))

\* Families where the documentation does not fix a polarity convention: the
\* formula must be pointwise right under one of the listed conventions.
Variants(r) == IF r.fam = "vdw" /\ Len(r.par.K) = 2 THEN {1, 2} ELSE {0}
ObjVariant(r, V, a, w) ==
    IF w = 0 THEN Obj(r, V, a)
    ELSE LET G == Groups(r)
             x(i) == a[V[<<1, i>>]]
         IN  \* w = 1: "x(i) true" means colour 1; w = 2: it means colour 2
             VdwColObj(r.par.N, r.par.K, LAMBDA i, c : IF (c = w) THEN x(i) ELSE ~x(i))

\* Families whose documented variables are more than the witness: the witness is
\* a projection of the assignment.
Mode(r) == CASE r.fam = "domset" -> "projection"
             [] r.fam = "ramlb"  -> "satonly"
             [] r.fam \in {"op", "gop", "peb", "stone", "sstone", "cpls", "pitfall"} -> "axioms"
             [] OTHER            -> "pointwise"

\* documented axioms, with group positions turned into the dense group numbers
DenseLit(M, L) == <<L[1], M[L[2]]>> \o SubSeq(L, 3, Len(L))
Axioms(r) ==
    LET p == r.par IN
    CASE r.fam = "op"      -> GOPAxioms(CompleteGraph(p.n), p.total, p.smart, p.plant, p.knuth)
      [] r.fam = "gop"     -> GOPAxioms(r.graph, p.total, p.smart, p.plant, p.knuth)
      [] r.fam = "peb"     -> PebAxioms(r.graph)
      [] r.fam = "stone"   -> StoneAxioms(r.graph, CompleteBip(r.graph.n, p.nstones))
      [] r.fam = "sstone"  -> StoneAxioms(r.graph, r.graph2)
      [] r.fam = "cpls"    -> CPLSAxioms(p.a, p.b, p.c)
      [] r.fam = "pitfall" -> PitfallAxioms(Gamma(r), p.ny, p.nz, p.k)
NamedAxioms(r, M) == {{DenseLit(M, L) : L \in C} : C \in Axioms(r)}
ImplNamed(r) == {{<<IF l > 0 THEN 1 ELSE -1>> \o Key(r, Abs(l)) : l \in Range(c)} : c \in Range(r.clauses)}
\* documented satisfiability of the "axioms" families
ExpectedSat(r) ==
    CASE r.fam = "op"  -> r.par.plant
      [] r.fam = "gop" -> r.par.plant /\ Connected(r.graph)
      [] OTHER         -> FALSE
\* extra structural promise on what the generator drew
DrawOK(r) == r.fam = "pitfall" => IsRegular(Gamma(r), r.par.d)
Proj(r, V, a) ==
    CASE r.fam = "domset" -> {v \in 1..r.graph.n : a[V[<<1, v>>]]}
Witnesses(r) ==
    CASE r.fam = "domset" -> DomWitnesses(r.graph, r.par.d)
IsWitness(r, P) ==
    CASE r.fam = "domset" -> IsDominating(r.graph, P) /\ Cardinality(P) <= r.par.d
HasWitness(r) ==
    CASE r.fam = "ramlb" -> HasClique(r.graph, r.par.k) \/ HasIndep(r.graph, r.par.s)

-----------------------------------------------------------------------------
(* Refusals.  A generator may (MayRefuse) or must (MustRefuse) answer       *)
(* ValueError for parameters its documentation excludes.                    *)
MayRefuse(r) ==
    LET p == r.par IN
    CASE r.fam = "bphp" -> p.m < 1 \/ p.n < 1      \* "size of the domain/range must be > 0"
      [] r.fam = "binclique" -> p.k < 1 \/ r.graph.n < 1
      [] OTHER -> FALSE
IsDag(D) == \A e \in EdgeSet(D) : e[1] < e[2]
MustRefuse(r) ==
    CASE r.fam = "evencol" -> ~EvenColDefined(r.graph)   \* documented: all degrees must be even
      [] r.fam \in {"peb", "stone", "sstone"} -> ~IsDag(r.graph)   \* must be acyclic, topologically sorted
      [] OTHER -> FALSE

VerdictWith(r, G, M) ==
         LET V == WTable(r, G, M)
             C == Cands(r)
         IN  CASE Mode(r) = "pointwise" ->
                    IF \E w \in Variants(r) : \A a \in C : Sat(r, a) <=> ObjVariant(r, V, a, w) THEN "ok"
                    ELSE LET w == CHOOSE x \in Variants(r) : TRUE IN
                         IF \E a \in C : Sat(r, a) /\ ~ObjVariant(r, V, a, w) THEN "model_is_not_an_object"
                         ELSE "object_is_not_a_model"
               [] Mode(r) = "axioms" ->
                    IF r.cls # "CNF" THEN
                        (IF Has(r, "cand") \/ ((\E a \in C : Sat(r, a)) <=> ExpectedSat(r)) THEN "ok"
                         ELSE "documented_satisfiability_differs")
                    ELSE IF ~DrawOK(r) THEN "drawn_graph_not_regular"
                    ELSE IF NamedAxioms(r, M) \ ImplNamed(r) # {} THEN "axiom_missing"
                    ELSE IF ImplNamed(r) \ NamedAxioms(r, M) # {} THEN "extra_clause"
                    ELSE IF Has(r, "cand") THEN "ok"
                    ELSE IF (\E a \in C : Sat(r, a)) <=> ExpectedSat(r) THEN "ok"
                    ELSE "documented_satisfiability_differs"
               [] Mode(r) = "projection" ->
                    IF Has(r, "cand")
                    THEN (IF \A a \in C : Sat(r, a) => IsWitness(r, Proj(r, V, a)) THEN "ok"
                          ELSE "model_is_not_an_object")
                    ELSE LET P == {Proj(r, V, a) : a \in {b \in C : Sat(r, b)}}
                         IN  IF P = Witnesses(r) THEN "ok"
                             ELSE IF P \ Witnesses(r) # {} THEN "model_is_not_an_object"
                             ELSE "object_is_not_a_model"
               [] Mode(r) = "satonly" ->
                    IF Has(r, "cand") THEN "ok"
                    ELSE IF (\E a \in C : Sat(r, a)) <=> HasWitness(r) THEN "ok"
                    ELSE IF HasWitness(r) THEN "unsatisfiable_but_witness_exists"
                    ELSE "satisfiable_without_witness"

\* the verdict once the formula is known to be well formed, under the binding r.grp / r.idx
VerdictBound(r) ==
    IF Cardinality(Keys(r)) # r.nvars THEN "names_not_distinct"
    ELSE LET G == Groups(r)
             Ms == Matchings(r, G)
         IN  IF Ms = {} \/ ~Covered(r, G) THEN "variables_differ_from_documented"
             ELSE IF \E M \in Ms : VerdictWith(r, G, M) = "ok" THEN "ok"
             ELSE VerdictWith(r, G, CHOOSE M \in Ms : TRUE)

\* Several bindings of identifiers to named variables are recorded: the primary one through the formula's
\* variable groups (grp, idx) and alternatives (alt) through the variable names (non-digit skeleton of the
\* name / its numbers) or through names for some families of names and groups for the others.  The property
\* speaks about named variables, not about how the implementation groups them internally: the formula is
\* right if it is right under one of the recorded bindings.
Verdict(r) ==
    IF r.outcome = "ValueError"
    THEN (IF MayRefuse(r) \/ MustRefuse(r) THEN "ok" ELSE "unexpected_ValueError")
    ELSE IF r.outcome # "ok" THEN "unexpected_" \o r.outcome
    ELSE IF MustRefuse(r) THEN "should_have_been_refused"
    ELSE IF ~WF(r) THEN "literal_out_of_range"
    ELSE LET v1 == VerdictBound(r)
         IN  IF v1 = "ok" \/ ~Has(r, "alt") THEN v1
             ELSE IF \E k \in 1..Len(r.alt) :
                        VerdictBound([r EXCEPT !.grp = r.alt[k].grp, !.idx = r.alt[k].idx]) = "ok" THEN "ok"
             ELSE v1

Init == pos = 1
Next == /\ pos <= Len(Trace)
        /\ PrintT(<<"VERDICT", Trace[pos].id, Verdict(Trace[pos])>>)
        /\ pos' = pos + 1
Spec == Init /\ [][Next]_vars

AllJudged == TLCGet("distinct") = Len(Trace) + 1
=============================================================================
