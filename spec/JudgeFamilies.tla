--------------------------- MODULE JudgeFamilies ---------------------------
(***************************************************************************)
(* Trace module (direction B): judges formulas recorded from the real      *)
(* generators against the reference semantics in Families.tla.             *)
(*                                                                         *)
(* One step per record of IOEnv.TRACE_FILE (ndjson), one VERDICT line per  *)
(* step.  A record is                                                      *)
(*   [id, fam, par, graph?, cls, outcome, nvars, clauses|constraints,      *)
(*    grp, idx, cand?]                                                     *)
(* grp/idx bind identifier v to the named variable <<grp[v]>> \o idx[v]    *)
(* (decoded from the variable's label).  With cand present only those     *)
(* assignments are evaluated (large scope), else all 2^nvars.              *)
(***************************************************************************)
EXTENDS Families, Json, IOUtils

Trace == ndJsonDeserialize(IOEnv.TRACE_FILE)

VARIABLE i
vars == <<i>>

Has(r, f) == f \in DOMAIN r

-----------------------------------------------------------------------------
(* Binding identifiers to named variables                                   *)

Key(r, v)  == <<r.grp[v]>> \o r.idx[v]
Keys(r)    == {Key(r, v) : v \in 1..r.nvars}
\* groups are numbered by first appearance, so empty groups get no number
Dense(G, g) == 1 + Cardinality({h \in 1..(g - 1) : G[h] # {}})
ExpKeys(G) == UNION {{<<Dense(G, g)>> \o t : t \in G[g]} : g \in 1..Len(G)}
VarTable(r) == [k \in Keys(r) |-> CHOOSE v \in 1..r.nvars : Key(r, v) = k]

Sat(r, a) == IF r.cls = "CNF" THEN SatCNF(a, r.clauses) ELSE SatOPB(a, r.constraints)
WF(r)     == IF r.cls = "CNF" THEN WellFormed(r.nvars, r.clauses)
                              ELSE WellFormedPB(r.nvars, r.constraints)
Cands(r)  == IF Has(r, "cand") THEN Range(r.cand) ELSE Assignments(r.nvars)

-----------------------------------------------------------------------------
(* Family dispatch                                                          *)

Groups(r) ==
    LET p == r.par IN
    CASE r.fam = "php"        -> PHPGroups(p.m, p.n)
      [] r.fam = "gphp"       -> GPHPGroups(r.graph)
      [] r.fam = "bphp"       -> BPHPGroups(p.m, p.n)
      [] r.fam = "rphp"       -> RPHPGroups(p.m, p.r, p.n)
      [] r.fam = "count"      -> CountGroups(p.M, p.p)
      [] r.fam = "matching"   -> MatchGroups(r.graph)
      [] r.fam = "subsetcard" -> SubsetCardGroups(r.graph)
      [] r.fam = "cliquecol"  -> CliqueColGroups(p.n, p.k, p.c)
      [] r.fam = "tseitin"    -> TseitinGroups(r.graph)
      [] r.fam = "kcolor"     -> KColorGroups(r.graph, p.k)
      [] r.fam = "evencol"    -> EvenColGroups(r.graph)
      [] r.fam = "domset"     -> DomGroups(r.graph, p.d)
      [] r.fam = "tiling"     -> TilingGroups(r.graph)
      [] r.fam = "iso"        -> IsoGroups(r.graph, r.graph2)
      [] r.fam = "auto"       -> IsoGroups(r.graph, r.graph)
      [] r.fam = "subgraph"   -> SubgraphGroups(r.graph, r.graph2)
      [] r.fam = "kclique"    -> CliqueGroups(r.graph, p.k)
      [] r.fam = "binclique"  -> BinCliqueGroups(r.graph, p.k)
      [] r.fam = "ramlb"      -> << {<< >>}, CliqueGroups(r.graph, p.k)[1] >>

\* Obj(r, V, a): the valuation that assignment a induces on the named
\* variables (through table V) is an object of the documented kind.
Obj(r, V, a) ==
    LET p == r.par
        G == Groups(r)
        X1(g, x)       == a[V[<<Dense(G, g), x>>]]
        X2(g, x, y)    == a[V[<<Dense(G, g), x, y>>]]
        XT(g, t)       == a[V[<<Dense(G, g)>> \o t]]
    IN
    CASE r.fam = "php"        -> PHPObj(p.m, p.n, p.fun, p.onto, LAMBDA x, y : X2(1, x, y))
      [] r.fam = "gphp"       -> GPHPObj(r.graph, p.fun, p.onto, LAMBDA x, y : X2(1, x, y))
      [] r.fam = "bphp"       -> BPHPObj(p.m, p.n, LAMBDA x, y : X2(1, x, y))
      [] r.fam = "rphp"       -> RPHPObj(p.m, p.r, p.n, LAMBDA x, y : X2(1, x, y),
                                         LAMBDA x, y : X2(2, x, y), LAMBDA x : X1(3, x))
      [] r.fam = "count"      -> CountObj(p.M, p.p, LAMBDA t : XT(1, t))
      [] r.fam = "matching"   -> MatchObj(r.graph, LAMBDA x, y : X2(1, x, y))
      [] r.fam = "subsetcard" -> SubsetCardObj(r.graph, p.eq, LAMBDA x, y : X2(1, x, y))
      [] r.fam = "cliquecol"  -> CliqueColObj(p.n, p.k, p.c, LAMBDA x, y : X2(1, x, y),
                                              LAMBDA x, y : X2(2, x, y), LAMBDA x, y : X2(3, x, y))
      [] r.fam = "tseitin"    -> TseitinObj(r.graph, p.chmode, p.ch, LAMBDA x, y : X2(1, x, y))
      [] r.fam = "kcolor"     -> KColorObj(r.graph, p.k, p.fun, LAMBDA x, y : X2(1, x, y))
      [] r.fam = "evencol"    -> EvenColObj(r.graph, LAMBDA x, y : X2(1, x, y))
      [] r.fam = "tiling"     -> TilingObj(r.graph, LAMBDA x : X1(1, x))
      [] r.fam = "iso"        -> IsoObj(r.graph, r.graph2, LAMBDA x, y : X2(1, x, y))
      [] r.fam = "auto"       -> AutoObj(r.graph, LAMBDA x, y : X2(1, x, y))
      [] r.fam = "subgraph"   -> SubgraphObj(r.graph, r.graph2, p.induced, p.sb, LAMBDA x, y : X2(1, x, y))
      [] r.fam = "kclique"    -> CliqueObj(r.graph, p.k, p.sb, LAMBDA x, y : X2(1, x, y))
      [] r.fam = "binclique"  -> BinCliqueObj(r.graph, p.k, p.sb, LAMBDA x, y : X2(1, x, y))

\* Families whose documented variables are more than the witness: the witness is
\* a projection of the assignment.
Mode(r) == CASE r.fam = "domset" -> "projection"
             [] r.fam = "ramlb"  -> "satonly"
             [] OTHER            -> "pointwise"
Proj(r, V, a) ==
    CASE r.fam = "domset" -> {v \in 1..r.graph.n : a[V[<<1, v>>]]}
Witnesses(r) ==
    CASE r.fam = "domset" -> DomWitnesses(r.graph, r.par.d)
IsWitness(r, P) ==
    CASE r.fam = "domset" -> IsDominating(r.graph, P) /\ Cardinality(P) <= r.par.d
HasWitness(r) ==
    CASE r.fam = "ramlb" -> HasClique(r.graph, r.par.k) \/ HasIndep(r.graph, r.par.s)

-----------------------------------------------------------------------------
(* Refusals.  A generator may (MayRefuse) or must (MustRefuse) answer       *)
(* ValueError for parameters its documentation excludes.                    *)
MayRefuse(r) ==
    LET p == r.par IN
    CASE r.fam = "bphp" -> p.m < 1 \/ p.n < 1      \* "size of the domain/range must be > 0"
      [] r.fam = "binclique" -> p.k < 1 \/ r.graph.n < 1
      [] OTHER -> FALSE
MustRefuse(r) ==
    CASE r.fam = "evencol" -> ~EvenColDefined(r.graph)   \* documented: all degrees must be even
      [] OTHER -> FALSE

Verdict(r) ==
    IF r.outcome = "ValueError"
    THEN (IF MayRefuse(r) \/ MustRefuse(r) THEN "ok" ELSE "unexpected_ValueError")
    ELSE IF r.outcome # "ok" THEN "unexpected_" \o r.outcome
    ELSE IF MustRefuse(r) THEN "should_have_been_refused"
    ELSE IF ~WF(r) THEN "literal_out_of_range"
    ELSE IF Cardinality(Keys(r)) # r.nvars THEN "names_not_distinct"
    ELSE IF Keys(r) # ExpKeys(Groups(r)) THEN "variables_differ_from_documented"
    ELSE LET V == VarTable(r)
             C == Cands(r)
         IN  CASE Mode(r) = "pointwise" ->
                    IF \A a \in C : Sat(r, a) <=> Obj(r, V, a) THEN "ok"
                    ELSE IF \E a \in C : Sat(r, a) /\ ~Obj(r, V, a) THEN "model_is_not_an_object"
                    ELSE "object_is_not_a_model"
               [] Mode(r) = "projection" ->
                    IF Has(r, "cand")
                    THEN (IF \A a \in C : Sat(r, a) => IsWitness(r, Proj(r, V, a)) THEN "ok"
                          ELSE "model_is_not_an_object")
                    ELSE LET P == {Proj(r, V, a) : a \in {b \in C : Sat(r, b)}}
                         IN  IF P = Witnesses(r) THEN "ok"
                             ELSE IF P \ Witnesses(r) # {} THEN "model_is_not_an_object"
                             ELSE "object_is_not_a_model"
               [] Mode(r) = "satonly" ->
                    IF Has(r, "cand") THEN "ok"
                    ELSE IF (\E a \in C : Sat(r, a)) <=> HasWitness(r) THEN "ok"
                    ELSE IF HasWitness(r) THEN "unsatisfiable_but_witness_exists"
                    ELSE "satisfiable_without_witness"

Init == i = 1
Next == /\ i <= Len(Trace)
        /\ PrintT(<<"VERDICT", Trace[i].id, Verdict(Trace[i])>>)
        /\ i' = i + 1
Spec == Init /\ [][Next]_vars

AllJudged == TLCGet("distinct") = Len(Trace) + 1
=============================================================================
