SPECIFICATION Spec
CONSTANT Part = "candfull"
INVARIANT Shape_Complete
