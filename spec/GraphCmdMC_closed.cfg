SPECIFICATION Spec
CONSTANT Part = "closed"
INVARIANT Dag_ClosedForms
INVARIANT Grid_ClosedForms
INVARIANT Shift_Degrees
