------------------------------ MODULE ShuffleMC ------------------------------
(***************************************************************************)
(* TLC on the model of C09.                                                *)
(*                                                                         *)
(* ShuffleMC.cfg (theorem): for every formula with at most MaxVars         *)
(* variables and MaxClauses clauses of width <= 2 (empty clause, repeated  *)
(* and opposite literals, unused variables included) and EVERY valid       *)
(* witness (f, p, c): Apply keeps the number of variables, the number of   *)
(* clauses, the multiset of clause widths and the number of satisfying     *)
(* assignments; its literals stay in range; it is undone by the inverse    *)
(* witness; and the invariants the judge falls back to are implied.        *)
(*                                                                         *)
(* ShuffleMC_search.cfg (lemma used by the judge): for every pair of       *)
(* formulas (F, G) of a smaller scope and every argument shape, "some      *)
(* admissible witness explains G" (direct form, all clause permutations    *)
(* enumerated) is equivalent to the form the judge evaluates (clause       *)
(* multiset comparison).                                                   *)
(*                                                                         *)
(* States are formulas, built clause by clause (so that TLC's workers      *)
(* share the work); the second variable is the partner formula G of the    *)
(* lemma (a dummy in the theorem configuration).                           *)
(***************************************************************************)
EXTENDS Shuffle, TLC
CONSTANTS MaxVars, MaxClauses,
          OrderedClauses,   \* TRUE: width-2 clauses as ordered pairs; FALSE: one representative per unordered pair
          Pairs             \* TRUE: lemma configuration (states are pairs F, G)
VARIABLES F, G
vars == <<F, G>>

Lits(n) == (-n..n) \ {0}
ClausesOver(n) == {<<>>} \cup {<<l>> : l \in Lits(n)}
                  \cup {d \in {<<l1, l2>> : l1 \in Lits(n), l2 \in Lits(n)} : OrderedClauses \/ d[1] <= d[2]}
RECURSIVE ClauseSeqs(_, _)
ClauseSeqs(n, m) == IF m = 0 THEN {<<>>}
                    ELSE {Append(s, d) : s \in ClauseSeqs(n, m - 1), d \in ClausesOver(n)}
Formulas(n) == {[nvars |-> n, clauses |-> s] : s \in UNION {ClauseSeqs(n, m) : m \in 0..MaxClauses}}
Empty(n) == [nvars |-> n, clauses |-> <<>>]

Init == \E n \in 0..MaxVars :
           /\ F = Empty(n)
           /\ G \in (IF Pairs THEN Formulas(n) ELSE {Empty(n)})
Next == /\ NClauses(F) < MaxClauses
        /\ \E d \in ClausesOver(NVars(F)) : F' = [F EXCEPT !.clauses = Append(@, d)]
        /\ UNCHANGED G
Spec == Init /\ [][Next]_vars

\* ---- theorem ---------------------------------------------------------------
TheoremAt(w, mc) ==
    LET H == Apply(F, w.f, w.p, w.c)
        u == InvWitness(w)
    IN  /\ NVars(H) = NVars(F)
        /\ NClauses(H) = NClauses(F)
        /\ WellFormed(NVars(H), H.clauses)
        /\ SameWidthBag(F, H)
        /\ ModelCount(H) = mc
        /\ ValidWitness(H, u)
        /\ Apply(H, u.f, u.p, u.c) = F
        /\ IsSignedRenaming(F, H, w)
        /\ ImpliedInvariants(F, H)
Theorem == Pairs \/ LET mc == ModelCount(F) IN \A w \in AllWitnesses(F) : TheoremAt(w, mc)

\* the identity witness is valid and changes nothing
Identity == Pairs \/ LET N == NVars(F)  M == NClauses(F) IN
                     /\ ValidWitness(F, [f |-> IdFlips(N), p |-> IdPerm(N), c |-> IdCPerm(M)])
                     /\ Apply(F, IdFlips(N), IdPerm(N), IdCPerm(M)) = F

\* ---- lemma -----------------------------------------------------------------
Arg(k, v) == [k |-> k, v |-> v]
ArgShapes ==
    LET N == NVars(F)  M == NClauses(F)
        fp == {<<Arg("shuffle", <<>>), Arg("shuffle", <<>>)>>, <<Arg("fixed", <<>>), Arg("fixed", <<>>)>>,
               <<Arg("shuffle", <<>>), Arg("fixed", <<>>)>>, <<Arg("fixed", <<>>), Arg("shuffle", <<>>)>>}
              \cup {<<Arg("explicit", [i \in 1..N |-> -1]), Arg("explicit", [i \in 1..N |-> N + 1 - i])>>}
        cc == {Arg("shuffle", <<>>), Arg("fixed", <<>>)} \cup {Arg("explicit", c) : c \in AllCPerms(M)}
    IN  {[flips |-> x[1], perm |-> x[2], cperm |-> y] : x \in fp, y \in cc}
\* Explained(F, args, G) is  \E w : Admits(F, args, w) /\ IsSignedRenaming(F, G, w);  the witnesses that
\* rename F into G are computed once and shared by all argument shapes
Renamers == {w \in AllWitnesses(F) : IsSignedRenaming(F, G, w)}
AllShuffle == [flips |-> Arg("shuffle", <<>>), perm |-> Arg("shuffle", <<>>), cperm |-> Arg("shuffle", <<>>)]
Lemma == ~Pairs \/ LET W == Renamers IN
                    /\ Explained(F, AllShuffle, G) <=> W # {}
                    /\ \A args \in ArgShapes : (\E w \in W : Admits(F, args, w)) <=> ExplainedFast(F, args, G)
\* the fallback invariants never reject an explained output
Fallback == ~Pairs \/ (Renamers # {} => ImpliedInvariants(F, G))
=============================================================================
