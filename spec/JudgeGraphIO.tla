---------------------------- MODULE JudgeGraphIO ----------------------------
(***************************************************************************)
(* Trace module (direction B) for property C14: judges what the real       *)
(* writeGraph / readGraph / Graph.from_file / graph command line arguments *)
(* of cnfgen did, against the denotations of GraphIO.tla.                   *)
(*                                                                         *)
(* One step and one VERDICT line per record of IOEnv.TRACE_FILE (ndjson).  *)
(*                                                                         *)
(*  kind "rt"   [id, type, fmt, graph, outcome, read, lines?]               *)
(*       `graph` was written in format fmt and read back; `read` is what   *)
(*       came back; `lines` is the written text as token lines (in-house   *)
(*       formats only).                                                     *)
(*  kind "text" [id, type, fmt, outcome, read, lines?]                      *)
(*       an arbitrary text (token lines `lines`) was given to the reader.  *)
(*                                                                         *)
(*  outcome: "accept" | "ValueError" | <name of any other exception class> *)
(*  graphs:  [n, r, edges (list of pairs), m (number_of_edges(), read only)]*)
(*           r = 0 unless bipartite, where n = left and r = right order.   *)
(***************************************************************************)
EXTENDS GraphIO, IOUtils

Trace == ndJsonDeserialize(IOEnv.TRACE_FILE)

VARIABLE i

Has(r, f) == f \in DOMAIN r

GraphOf(type, j) == Gr(j.n, j.r, {Norm(type, <<e[1], e[2]>>) : e \in Elems(j.edges)})

\* the projected graph object is one graph: every edge once, the edge counter
\* agrees, endpoints are vertices, no loop in a simple graph
ReadOK(type, j) ==
    /\ j.n >= 0 /\ j.r >= 0
    /\ Cardinality(GraphOf(type, j).E) = Len(j.edges)
    /\ j.m = Len(j.edges)
    /\ \A e \in Elems(j.edges) :
          /\ e[1] \in 1..j.n
          /\ e[2] \in 1..(IF type = "bipartite" THEN j.r ELSE j.n)
          /\ (type = "simple") => e[1] # e[2]

\* --- write, then read ------------------------------------------------------
RoundTripVerdict(r) ==
    LET g == GraphOf(r.type, r.graph)
        textual == InHouse(r.fmt) /\ Has(r, "lines")
    IN
    \* the file itself (in-house formats): it must denote the graph that was written
    IF textual /\ ~HasDen(r.fmt, r.type, r.lines)
        THEN "written_text_has_no_denotation"
    ELSE IF textual /\ Den(r.fmt, r.type, r.lines) # g
        THEN "written_text_denotes_another_graph"
    \* a file declared acyclic is accepted only if every edge goes upward
    ELSE IF r.type = "dag" /\ ~Upward(g.E)
        THEN (IF r.outcome = "ValueError" THEN "ok"
              ELSE IF r.outcome = "accept" THEN "backward_edge_accepted_as_dag"
              ELSE "unexpected_" \o r.outcome)
    ELSE IF r.outcome # "accept" THEN "unexpected_" \o r.outcome
    ELSE IF ~ReadOK(r.type, r.read) THEN "graph_read_is_inconsistent"
    ELSE IF r.read.n # g.n \/ r.read.r # g.r THEN "vertex_count_differs"
    ELSE IF GraphOf(r.type, r.read).E # g.E THEN "edges_differ"
    ELSE "ok"

\* --- read an arbitrary text -------------------------------------------------
TextVerdict(r) ==
    IF r.outcome = "ValueError" THEN "ok"
    ELSE IF r.outcome # "accept" THEN "unexpected_" \o r.outcome
    ELSE IF ~ReadOK(r.type, r.read) THEN "graph_read_is_inconsistent"
    ELSE IF r.type = "dag" /\ ~Upward(GraphOf(r.type, r.read).E) THEN "backward_edge_accepted_as_dag"
    ELSE IF ~(InHouse(r.fmt) /\ Has(r, "lines")) THEN "ok"       \* gml / dot: a graph or ValueError
    ELSE IF ~HasDen(r.fmt, r.type, r.lines) THEN "accepted_text_without_denotation"
    ELSE IF GraphOf(r.type, r.read) # Den(r.fmt, r.type, r.lines) THEN "accepted_graph_differs_from_text"
    ELSE IF ~Allowed(r.fmt, r.type, r.lines, [o |-> "accept", g |-> GraphOf(r.type, r.read)])
        THEN "not_allowed"
    ELSE "ok"

Verdict(r) == IF r.kind = "rt" THEN RoundTripVerdict(r) ELSE TextVerdict(r)

\* GraphIO's own variables play no role here
JInit == i = 1 /\ text = <<>> /\ st = 0 /\ pending = <<>> /\ goal = 0
JNext == /\ i <= Len(Trace)
         /\ PrintT(<<"VERDICT", Trace[i].id, Verdict(Trace[i])>>)
         /\ i' = i + 1
         /\ UNCHANGED vars
JudgeSpec == JInit /\ [][JNext]_<<i, vars>>

AllJudged == TLCGet("distinct") = Len(Trace) + 1
=============================================================================
