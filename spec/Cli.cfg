SPECIFICATION PSpec
INVARIANT NoPartialFormula
INVARIANT ErrorIsShielded
INVARIANT SuccessIsComplete
INVARIANT CheckLemma
CHECK_DEADLOCK FALSE
