SPECIFICATION Spec
CONSTANTS
  Cls = "OPB"
  NVars = 2
  MaxRows = 2
  MaxWidth = 1
  Coefs = {0, 1, 3}
  Degs <- DegsSmall
  PageSize = 1
INVARIANT OpbRoundTrip
INVARIANT OpbAsCode
INVARIANT OpbSensitive
INVARIANT OpbCommentsOnly
INVARIANT LatexRoundTrip
INVARIANT LatexAsCode
INVARIANT LatexSensitive
CHECK_DEADLOCK FALSE
