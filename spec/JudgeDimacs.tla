---------------------------- MODULE JudgeDimacs ----------------------------
(***************************************************************************)
(* (Verdict lines must stay below 80 characters or TLC wraps them: ids    *)
(* and verdict names are kept short.)                                      *)
(* Trace module (direction B) for property C06: judges artefacts recorded  *)
(* from the real DIMACS reader and writer against DimacsText.tla.          *)
(*                                                                         *)
(* One step per record of IOEnv.TRACE_FILE (ndjson), one VERDICT line per  *)
(* step.  Two kinds of record:                                             *)
(*                                                                         *)
(*  kind = "read"   [id, enc, lines, outcome, result]                      *)
(*      lines   : the text given to CNF.from_file, lexed (DimacsText);     *)
(*      enc     : "ok", or "undecodable" when the bytes are not a text;    *)
(*      outcome : "accept" | "ValueError" | name of any other exception;   *)
(*      result  : [nvars, clauses] of the formula returned (if accepted).  *)
(*    verdict: outcome \in Allowed(text), and an accepted result is the    *)
(*    denotation of the text.                                              *)
(*                                                                         *)
(*  kind = "write"  [id, wrote, formula, options, lines, reread]           *)
(*      wrote   : "ok" or the name of the exception the writer raised;     *)
(*      formula : [nvars, clauses] of the formula that was written;        *)
(*      lines   : the writer's output, lexed;                              *)
(*      reread  : [outcome, nvars, clauses] of from_file on that output.   *)
(*    verdict: IsCanonical(formula, lines) and the re-read result is the   *)
(*    formula.                                                             *)
(***************************************************************************)
EXTENDS DimacsText, Json, IOUtils

Trace == ndJsonDeserialize(IOEnv.TRACE_FILE)

VARIABLE i
vars == <<i>>

ReadVerdict(r) ==
    LET text == r.lines
        isText == r.enc = "ok"
    IN  IF r.outcome = "ValueError" THEN "ok"                      \* always allowed
        ELSE IF r.outcome # "accept" THEN "unexpected_" \o r.outcome
        ELSE IF ~isText THEN "misread_undecodable"
        \* accepted a text without denotation: misread_structure | misread_literal_range |
        \* misread_unterminated | misread_clause_count
        ELSE IF ~HasDenotation(text) THEN "misread_" \o WhyNoDenotation(text)
        ELSE IF r.result.nvars # Denotation(text).nvars THEN "wrong_nvars"
        ELSE IF r.result.clauses # Denotation(text).clauses THEN "wrong_clauses"
        ELSE "ok"

WriteVerdict(r) ==
    LET F == r.formula
        c == CanonWhy(F, r.lines)
    IN  IF r.wrote # "ok" THEN "writer_raised_" \o r.wrote
        ELSE IF c # "ok" THEN c
        ELSE IF r.reread.outcome # "accept" THEN "reread_" \o r.reread.outcome
        ELSE IF r.reread.nvars # F.nvars THEN "reread_nvars_differ"
        ELSE IF r.reread.clauses # F.clauses THEN "reread_clauses_differ"
        ELSE "ok"

Verdict(r) == IF r.kind = "read" THEN ReadVerdict(r)
              ELSE IF r.kind = "write" THEN WriteVerdict(r)
              ELSE "unknown_record_kind"

Init == i = 1
Next == /\ i <= Len(Trace)
        /\ PrintT(<<"VERDICT", Trace[i].id, Verdict(Trace[i])>>)
        /\ i' = i + 1
Spec == Init /\ [][Next]_vars

AllJudged == TLCGet("distinct") = Len(Trace) + 1
=============================================================================
