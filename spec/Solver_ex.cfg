\* behaviour export, quick scope: every terminal state as one JSON line (-workers 1)
SPECIFICATION Spec
CONSTANTS
  Fams = {"resolve", "auto", "parse", "doc", "rfile", "fault", "isat"}
  Kinds = {"c", "blank", "sSAT", "sUNSAT", "sOTHER", "sSHORT", "v", "junk", "vjunk"}
  MaxLines = 3
  MaxV = 2
  IsatLines = 2
  WideResolve = FALSE
  Export = TRUE
INVARIANT Emit
CHECK_DEADLOCK FALSE
