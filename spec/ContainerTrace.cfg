SPECIFICATION TraceSpec
CONSTANTS
  Alphabet <- SmallAlphabet
  MaxK = 0
  MaxLen = 0
INVARIANT DisciplinedInRange
INVARIANT DocImpliesImpl
CHECK_DEADLOCK FALSE
