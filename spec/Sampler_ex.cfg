\* Behaviour export (run with -simulate num=.. -depth 400 -workers 1): random
\* walks whose draws are confined to one or two items, printed as JSON.
SPECIFICATION Spec
CONSTANTS
  Kind = "kcnf"
  K = 2
  N = 3
  Ps <- PsUpTo2
  Ms <- MsAll
  Pools <- PoolSmall
  DensePicks <- OnePick
  TriesFactor = 10
INVARIANT Emit
CHECK_DEADLOCK FALSE
