SPECIFICATION Spec
CONSTANTS
  Alphabet <- SmallAlphabet
  MaxK = 1
  MaxLen = 2
PROPERTY RefusalIsNoop
CHECK_DEADLOCK FALSE
