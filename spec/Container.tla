----------------------------- MODULE Container -----------------------------
(***************************************************************************)
(* The clause container of a formula (cnfgen/formula/basecnf.py: BaseCNF), *)
(* the mechanism under property C10: what add_clause / add_clauses_from /  *)
(* update_variable_number do to the list of clauses and to the declared    *)
(* number of variables, and what the views (len, listing, item access,     *)
(* debug) must answer.  Written to be bound: one action per public call,   *)
(* the deviations of the code named.                                       *)
(*                                                                         *)
(* Deviations of the implementation that the specification admits next to  *)
(* the documented behaviour (neither is demanded, both are accepted by the *)
(* trace specification, the model checker exhibits each):                  *)
(*  - RefusedButKept: add_clause(check=True) appends the clause before it  *)
(*    looks at it, so a clause refused with ValueError (a literal 0) stays *)
(*    in the formula;                                                      *)
(*  - DebugImpl: debug() sorts a clause by |literal| (stable) and compares *)
(*    neighbours only, so with exactly one of allow_opposite /             *)
(*    allow_repetition it misses a repetition (resp. an opposition) that   *)
(*    is separated by the other kind, e.g. [1,-1,1].                       *)
(***************************************************************************)
EXTENDS Integers, Sequences, FiniteSets, SequencesExt, TLC

CONSTANTS Alphabet,     \* clauses the model checker inserts (sequences of integers, 0 allowed)
          MaxK,         \* update_variable_number arguments range over -1..MaxK
          MaxLen        \* the model checker stops inserting at MaxLen clauses

VARIABLES numvar,       \* declared number of variables
          cls,          \* the clauses, in insertion order
          res,          \* outcome of the last call
          act,          \* name of the last call
          clean         \* every insertion so far was checked and accepted
vars == <<numvar, cls, res, act, clean>>

AbsV(x) == IF x < 0 THEN -x ELSE x
Max2(a, b) == IF a >= b THEN a ELSE b
MaxAbs(c) == IF c = <<>> THEN 0 ELSE CHOOSE x \in {AbsV(c[j]) : j \in 1..Len(c)} :
                                         \A y \in {AbsV(c[j]) : j \in 1..Len(c)} : y <= x
Bad(c) == \E j \in 1..Len(c) : c[j] = 0

St(nv, cl) == [numvar |-> nv, cls |-> cl]

\* inserting one clause: the set of possible << state, outcome >>
InsertOutcomes(s, c, checked) ==
    IF c = <<>> THEN { << St(s.numvar, Append(s.cls, c)), "ok" >> }
    ELSE IF checked /\ Bad(c)
         THEN { << s, "ValueError" >>,                                     \* RefusedClean
                << St(s.numvar, Append(s.cls, c)), "ValueError" >> }      \* RefusedButKept
    ELSE { << St(IF checked THEN Max2(s.numvar, MaxAbs(c)) ELSE s.numvar, Append(s.cls, c)), "ok" >> }

RECURSIVE FoldOutcomes(_, _, _)
FoldOutcomes(s, cs, checked) ==     \* add_clauses_from: successive insertions, stops at the first refusal
    IF cs = <<>> THEN { << s, "ok" >> }
    ELSE UNION { IF o[2] = "ok" THEN FoldOutcomes(o[1], Tail(cs), checked) ELSE {o}
                 : o \in InsertOutcomes(s, Head(cs), checked) }

Init == numvar = 0 /\ cls = <<>> /\ res = "init" /\ act = "init" /\ clean = TRUE

AddClause(c, checked) ==
    /\ \E o \in InsertOutcomes(St(numvar, cls), c, checked) :
          numvar' = o[1].numvar /\ cls' = o[1].cls /\ res' = o[2]
    /\ act' = "add_clause"
    /\ clean' = (clean /\ checked /\ res' = "ok")

AddClausesFrom(cs, checked) ==
    /\ \E o \in FoldOutcomes(St(numvar, cls), cs, checked) :
          numvar' = o[1].numvar /\ cls' = o[1].cls /\ res' = o[2]
    /\ act' = "add_clauses_from"
    /\ clean' = (clean /\ (cs = <<>> \/ (checked /\ res' = "ok")))

Update(k) ==
    /\ IF k < 0 THEN numvar' = numvar /\ res' = "ValueError"
                ELSE numvar' = Max2(numvar, k) /\ res' = "ok"
    /\ act' = "update_variable_number"
    /\ UNCHANGED <<cls, clean>>

Next == \/ /\ Len(cls) < MaxLen
           /\ \/ \E c \in Alphabet, b \in BOOLEAN : AddClause(c, b)
              \/ \E c, d \in Alphabet, b \in BOOLEAN : AddClausesFrom(<<c, d>>, b)
        \/ \E k \in (-1)..MaxK : Update(k)
Spec == Init /\ [][Next]_vars

-----------------------------------------------------------------------------
(* views *)
InRangeAll(nv, cl) == \A j \in 1..Len(cl) : \A h \in 1..Len(cl[j]) : cl[j][h] # 0 /\ AbsV(cl[j][h]) <= nv
HasRep(c) == \E a, b \in 1..Len(c) : a < b /\ c[a] = c[b]
HasOpp(c) == \E a, b \in 1..Len(c) : a # b /\ c[a] = -c[b] /\ c[a] # 0
\* debug(allow_opposite, allow_repetition) as documented
DebugDoc(nv, cl, ao, ar) ==
    /\ InRangeAll(nv, cl)
    /\ \A j \in 1..Len(cl) : (ar \/ ~HasRep(cl[j])) /\ (ao \/ ~HasOpp(cl[j]))
\* ... and as implemented: stable sort by |literal|, neighbours only
SortedByAbs(c) ==
    LET idx == SetToSortSeq(1..Len(c), LAMBDA a, b : AbsV(c[a]) < AbsV(c[b]) \/ (AbsV(c[a]) = AbsV(c[b]) /\ a < b))
    IN  [j \in 1..Len(c) |-> c[idx[j]]]
DebugImpl(nv, cl, ao, ar) ==
    /\ InRangeAll(nv, cl)
    /\ \A j \in 1..Len(cl) :
          LET s == SortedByAbs(cl[j])
          IN  \A p \in 1..(Len(s) - 1) : (ar \/ s[p] # s[p + 1]) /\ (ao \/ s[p] # -s[p + 1])
DebugAnswers(nv, cl, ao, ar) == {DebugDoc(nv, cl, ao, ar), DebugImpl(nv, cl, ao, ar)}

-----------------------------------------------------------------------------
(* properties the model checker establishes on the machine *)
TypeOK == numvar \in Nat /\ res \in {"init", "ok", "ValueError"} /\ clean \in BOOLEAN
\* the disciplined caller of C10: checked, accepted insertions only => everything in range
DisciplinedInRange == clean => InRangeAll(numvar, cls)
\* the implementation's debug never says False where the documentation says True
DocImpliesImpl == \A ao, ar \in BOOLEAN : DebugDoc(numvar, cls, ao, ar) => DebugImpl(numvar, cls, ao, ar)
\* with both flags equal the two coincide
AgreeOnEqualFlags == \A b \in BOOLEAN : DebugDoc(numvar, cls, b, b) = DebugImpl(numvar, cls, b, b)
\* expected to FAIL (TLC exhibits [1,-1,1]): the two coincide for all flags
AgreeAlways == \A ao, ar \in BOOLEAN : DebugDoc(numvar, cls, ao, ar) = DebugImpl(numvar, cls, ao, ar)
\* expected to FAIL (RefusedButKept): a refused call changes nothing
RefusalIsNoop == [][res' = "ValueError" => UNCHANGED <<numvar, cls>>]_vars
Monotone == [][numvar' >= numvar /\ Len(cls') >= Len(cls)]_vars
AppendOnly == [][IsPrefix(cls, cls')]_vars

\* alphabets for the configs
SmallAlphabet == { <<>>, <<1>>, <<-2, 1>>, <<0>>, <<1, 0, -2>>, <<1, 1>>, <<2, -2>>, <<1, -1, 1>>, <<-3, 3, -3>>, <<4, 2>> }
=============================================================================
