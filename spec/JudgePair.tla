------------------------------ MODULE JudgePair ------------------------------
(***************************************************************************)
(* Trace module for C08: the formula built as a CNF (cnfgen / library with *)
(* the CNF class) and the one built as a pseudo-Boolean formula (pbgen /   *)
(* library with the OPB class) from the same arguments are the same        *)
(* formula: same number of variables, same names in the same order, same   *)
(* satisfying assignments.                                                 *)
(* Record: [id, a: side, b: side] with side = [outcome, cls, nvars, labels,*)
(* clauses | constraints]; optional cand = assignments to evaluate.        *)
(***************************************************************************)
EXTENDS CnfSem, Json, IOUtils, TLC

Trace == ndJsonDeserialize(IOEnv.TRACE_FILE)
VARIABLE pos
vars == <<pos>>

SatSide(s, x) == IF s.cls = "CNF" THEN SatCNF(x, s.clauses) ELSE SatOPB(x, s.constraints)
WFSide(s) == IF s.cls = "CNF" THEN WellFormed(s.nvars, s.clauses) ELSE WellFormedPB(s.nvars, s.constraints)
Cands(r) == IF "cand" \in DOMAIN r THEN Range(r.cand) ELSE Assignments(r.a.nvars)

\* Strict comparison (C17): same formula class, same variables and names, and the same
\* clauses / constraints as multisets (clause = set of literals; constraint = set of
\* <<coefficient, literal>> terms with relation and degree).
Item(s, j) == IF s.cls = "CNF" THEN ClauseSet(s.clauses[j])
              ELSE <<Range(s.constraints[j].terms), s.constraints[j].op, s.constraints[j].deg>>
Size(s) == IF s.cls = "CNF" THEN Len(s.clauses) ELSE Len(s.constraints)
Items(s) == {Item(s, j) : j \in 1..Size(s)}
Mult(s, x) == Cardinality({j \in 1..Size(s) : Item(s, j) = x})
SameBag(s, t) == Size(s) = Size(t) /\ Items(s) = Items(t) /\ \A x \in Items(s) : Mult(s, x) = Mult(t, x)

VerdictStrict(r) ==
    IF r.a.outcome # r.b.outcome THEN "command_line_and_library_call_end_differently"
    ELSE IF r.a.outcome # "ok" THEN "ok"
    ELSE IF r.a.cls # r.b.cls THEN "different_formula_class"
    ELSE IF r.a.nvars # r.b.nvars THEN "different_number_of_variables"
    ELSE IF r.a.labels # r.b.labels THEN "different_variable_names"
    ELSE IF ~SameBag(r.a, r.b) THEN "different_clauses"
    ELSE "ok"

Verdict(r) ==
    IF "strict" \in DOMAIN r THEN VerdictStrict(r) ELSE
    IF r.a.outcome # r.b.outcome THEN "one_tool_fails_where_the_other_succeeds"
    ELSE IF r.a.outcome # "ok" THEN "ok"          \* both refuse alike: nothing to compare
    ELSE IF r.a.nvars # r.b.nvars THEN "different_number_of_variables"
    ELSE IF r.a.labels # r.b.labels THEN "different_variable_names"
    ELSE IF ~WFSide(r.a) \/ ~WFSide(r.b) THEN "literal_out_of_range"
    ELSE IF \A x \in Cands(r) : SatSide(r.a, x) <=> SatSide(r.b, x) THEN "ok"
    ELSE "different_satisfying_assignments"

Init == pos = 1
Next == /\ pos <= Len(Trace)
        /\ PrintT(<<"VERDICT", Trace[pos].id, Verdict(Trace[pos])>>)
        /\ pos' = pos + 1
Spec == Init /\ [][Next]_vars
AllJudged == TLCGet("distinct") = Len(Trace) + 1
=============================================================================
