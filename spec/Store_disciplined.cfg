SPECIFICATION Spec
CONSTANTS MaxVar = 4
  Discipline = TRUE
INVARIANT InRange
PROPERTY Monotone
PROPERTY Fresh
CONSTRAINT Bounded
CHECK_DEADLOCK FALSE
