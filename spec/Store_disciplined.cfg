SPECIFICATION Spec
CONSTANTS MaxVar = 4
  Depth = 0
  Discipline = TRUE
INVARIANT InRange
PROPERTY Monotone
PROPERTY Fresh
CONSTRAINT Bounded
VIEW ModelView
CHECK_DEADLOCK FALSE
