SPECIFICATION Spec
CONSTANTS
  Alphabet <- SmallAlphabet
  MaxK = 1
  MaxLen = 2
INVARIANT AgreeAlways
CHECK_DEADLOCK FALSE
