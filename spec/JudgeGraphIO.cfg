SPECIFICATION JudgeSpec
CONSTANTS
  Fmt = "none"
  Type = "none"
  N = 0
  MaxLen = 0
  Mode = "judge"
  Prune = TRUE
  Guide = FALSE
  Emit = FALSE
CHECK_DEADLOCK FALSE
POSTCONDITION AllJudged
