SPECIFICATION Spec
CONSTANTS
  Mode = "roundtrip"
  MaxN = 2
  MaxM = 0
  MaxLit = 0
  Depth = 0
  ShardN = 99
  MaxClauses = 1
  MaxWidth = 2
  Exposures <- Exposed
  Export = FALSE
INVARIANT TypeOK
INVARIANT LoopInvariant
INVARIANT AcceptSound
INVARIANT NoDenotationRejected
INVARIANT RejectsOnlyMeaningless
INVARIANT WriterCanonical
INVARIANT RoundTrip
CHECK_DEADLOCK FALSE
