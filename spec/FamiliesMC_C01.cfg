SPECIFICATION Spec
CONSTANT Scope = "C01"
INVARIANT PHP_Sat_iff
INVARIANT BPHP_Sat_iff
INVARIANT RPHP_Sat_iff
INVARIANT Count_Sat_iff
INVARIANT CliqueCol_Sat_iff
