SPECIFICATION Spec
CONSTANTS
  Mode = "paths"
  MaxN = 2
  MaxM = 2
  MaxLit = 3
  Depth = 7
  ShardN = 99
  MaxClauses = 0
  MaxWidth = 0
  Exposures <- Clean
  Export = FALSE
INVARIANT TypeOK
INVARIANT LoopInvariant
INVARIANT AcceptSound
INVARIANT NoDenotationRejected
INVARIANT RejectsOnlyMeaningless
INVARIANT RefusalReason
CHECK_DEADLOCK FALSE
