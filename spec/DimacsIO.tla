------------------------------ MODULE DimacsIO ------------------------------
(***************************************************************************)
(* The DIMACS reader of cnfgen (utils/parsedimacs.py: parse_dimacs +       *)
(* from_dimacs_file) as a token state machine, and the round trip through  *)
(* the writer (property C06).                                              *)
(*                                                                         *)
(* The machine is fed one SYMBOL at a time and reacts at once, like the    *)
(* loop of parse_dimacs:                                                   *)
(*     C        a comment line              -> `continue'                  *)
(*     NL       end of a data line / a blank line  -> `continue'           *)
(*     P(toks)  a line whose first character is p  -> the spec branch      *)
(*     T(tok)   one token of a data line    -> the literal loop            *)
(* and finally EndText (the checks after the loop).  Reader state, exactly *)
(* the locals of parse_dimacs plus what from_dimacs_file accumulates:      *)
(*     n, m (-1 = None), buf = literal_buffer, cnt = clauses_count,        *)
(*     out = clauses handed to add_clause, phase, why (which raise).       *)
(* One abstraction: the code converts all tokens of a data line with int() *)
(* before looking at any of them; here a word token is met in its turn.    *)
(* The difference is not observable through from_file (the formula under   *)
(* construction is dropped when ValueError is raised).                     *)
(*                                                                         *)
(* Mode "paths": the environment offers every symbol of a small alphabet   *)
(* at every step, up to Depth symbols: all token paths.  `hist' is the     *)
(* path; LinesOf(hist) is the text it spells (an independent, recursive    *)
(* grouping of symbols into lines) and DimacsText!Denotation is evaluated  *)
(* on that whole text -- the reader's variables are not consulted.  A text *)
(* refused inside the loop may go on (action Unread) so that the explored  *)
(* and exported texts include what follows the point of refusal.           *)
(* Mode "roundtrip": the initial state picks a formula F, the two writer   *)
(* options and what line breaks in header fields / variable names expose;  *)
(* the symbols of Write(F, ...) are fed to the same machine.               *)
(***************************************************************************)
EXTENDS DimacsText, Json

CONSTANTS Mode,         \* "paths" | "roundtrip"
          MaxN, MaxM,   \* paths: problem lines `p cnf a b' with a in 0..MaxN, b in 0..MaxM
          MaxLit,       \* paths: integer tokens -MaxLit..MaxLit
          Depth,        \* paths: number of symbols
          ShardN,       \* paths: 99 = no sharding, else only first problem lines declaring n = ShardN (malformed ones: shard 1)
          MaxClauses, MaxWidth,   \* roundtrip: formulas with nvars <= MaxN
          Exposures,    \* roundtrip: what line breaks in a header field / a name may expose
          Export        \* print every finished path as JSON (export runs only)

VARIABLES src,    \* roundtrip: [F, header, varnames, H, N]; paths: a constant record
          todo,   \* roundtrip: symbols not yet fed
          hist,   \* symbols fed so far
          phase,  \* "pre" (no spec line yet) | "body" | "accepted" | "rejected"
          n, m, buf, cnt, out,
          why     \* which check refused
vars == <<src, todo, hist, phase, n, m, buf, cnt, out, why>>
reader == <<n, m, buf, cnt, out>>

-----------------------------------------------------------------------------
(* symbols                                                                  *)
SC     == [s |-> "C"]
SNL    == [s |-> "NL"]
SP(t)  == [s |-> "P", t |-> t]
ST(t)  == [s |-> "T", t |-> t]

\* --- the text spelled by a symbol sequence (does not look at the reader) ---
TokenRun(h) ==      \* length of the maximal prefix of T symbols
    LET other == {j \in 1..Len(h) : h[j].s # "T"}
    IN  IF other = {} THEN Len(h) ELSE (CHOOSE j \in other : \A g \in other : j <= g) - 1
RECURSIVE LinesOf(_)
LinesOf(h) ==
    IF h = <<>> THEN <<>>
    ELSE CASE h[1].s = "C"  -> <<Ln("c", <<>>)>> \o LinesOf(Tail(h))
           [] h[1].s = "NL" -> <<Ln("b", <<>>)>> \o LinesOf(Tail(h))
           [] h[1].s = "P"  -> <<Ln("p", h[1].t)>> \o LinesOf(Tail(h))
           [] h[1].s = "T"  ->
                LET k    == TokenRun(h)
                    rest == SubSeq(h, k + 1, Len(h))
                    \* the NL that closes the data line is not a blank line
                    more == IF rest # <<>> /\ rest[1].s = "NL" THEN Tail(rest) ELSE rest
                IN  <<Ln("d", [j \in 1..k |-> h[j].t])>> \o LinesOf(more)

SymbolsOfLine(l) ==
    CASE l.k = "c" -> <<SC>>
      [] l.k = "b" -> <<SNL>>
      [] l.k = "p" -> <<SP(l.t)>>
      [] l.k = "d" -> [j \in 1..Len(l.t) |-> ST(l.t[j])] \o <<SNL>>
SymbolsOf(lines) == FlattenSeq([j \in 1..Len(lines) |-> SymbolsOfLine(lines[j])])

Text == LinesOf(hist)

-----------------------------------------------------------------------------
(* the alphabet of the paths mode                                           *)
PLine(a, b) == <<TW("p"), TW("cnf"), TI(a), TI(b)>>
PGood    == {PLine(a, b) : a \in 0..MaxN, b \in 0..MaxM}
PLenient == { <<TW("p"), TW("foo"), TI(1), TI(1)>>,          \* other format word
              <<TW("pcnf"), TI(7), TI(1), TI(1)>> }         \* first token merely starts with p
PBad     == { <<TW("p")>>, <<TW("p"), TW("cnf")>>,
              <<TW("p"), TW("cnf"), TI(1)>>,                 \* three tokens
              <<TW("p"), TW("cnf"), TI(1), TI(1), TI(0)>>,   \* five tokens
              <<TW("p"), TW("cnf"), TI(-1), TI(1)>>, <<TW("p"), TW("cnf"), TI(1), TI(-1)>>,
              <<TW("p"), TW("cnf"), TW("x"), TI(1)>>, <<TW("p"), TW("cnf"), TI(1), TW("x")>> }
PFirst   == IF ShardN = 99 THEN PGood \cup PLenient \cup PBad
            ELSE {t \in PGood : t[3].i = ShardN} \cup (IF ShardN = 1 THEN PLenient \cup PBad ELSE {})
PSecond  == {PLine(1, 1), <<TW("p")>>}    \* a further problem line is refused unread: two variants

Alphabet == {SC, SNL}
            \cup {ST(TI(v)) : v \in (-MaxLit)..MaxLit} \cup {ST(TW("x"))}
            \cup {SP(t) : t \in (IF phase = "pre" THEN PFirst ELSE PSecond)}

-----------------------------------------------------------------------------
(* the sources of the roundtrip mode                                        *)
LitsOver(k)    == (-k..k) \ {0}
ClausesOver(k) == BoundedSeq(LitsOver(k), MaxWidth)
TinyFormulas   == UNION {{[nvars |-> k, clauses |-> cs] : cs \in BoundedSeq(ClausesOver(k), MaxClauses)}
                         : k \in 0..MaxN}
Clean     == {<<>>}
Exposed   == { <<>>, <<Ln("c", <<>>)>>, <<Ln("b", <<>>)>>,
               <<Ln("d", <<TW("x")>>)>>,                        \* "... \n x"
               <<Ln("d", <<TI(1), TI(0)>>)>>,                   \* "... \n 1 0"
               <<Ln("p", PLine(1, 1))>>,                         \* "... \n p cnf 1 1"
               <<Ln("d", <<TW("x")>>), Ln("c", <<>>)>> }
Sources ==
    {[F |-> F, header |-> hd, varnames |-> vn, H |-> <<<<>>, eh>>,
      N |-> [v \in 1..F.nvars |-> IF v = 1 THEN en ELSE <<>>]]
       : F \in TinyFormulas, hd \in BOOLEAN, vn \in BOOLEAN, eh \in Exposures, en \in Exposures}
Written(s) == Write(s.F, s.header, s.varnames, s.H, s.N)
\* a line break exposes something other than a comment or a blank line
ExposesNonComment(s) ==
    \/ s.header   /\ \E f \in 1..Len(s.H) : \E j \in 1..Len(s.H[f]) : s.H[f][j].k \notin {"b", "c"}
    \/ s.varnames /\ \E v \in 1..s.F.nvars : \E j \in 1..Len(s.N[v]) : s.N[v][j].k \notin {"b", "c"}
\* options that are off make the exposure irrelevant: keep one representative
Relevant(s) == /\ (~s.header => s.H[2] = <<>>)
               /\ ((~s.varnames \/ s.F.nvars = 0) => \A v \in 1..s.F.nvars : s.N[v] = <<>>)

-----------------------------------------------------------------------------
Init ==
    /\ IF Mode = "paths"
       THEN src = [F |-> [nvars |-> 0, clauses |-> <<>>]] /\ todo = <<>>
       ELSE src \in {s \in Sources : Relevant(s)} /\ todo = SymbolsOf(Written(src))
    /\ hist = <<>> /\ phase = "pre"
    /\ n = -1 /\ m = -1 /\ buf = <<>> /\ cnt = 0 /\ out = <<>> /\ why = "none"

Running == phase \in {"pre", "body"}
Ended   == phase \in {"accepted", "rejected"}

Offered == IF Mode = "paths"
           THEN (IF Len(hist) < Depth THEN Alphabet ELSE {})
           ELSE (IF todo = <<>> THEN {} ELSE {Head(todo)})
Consume(sym) == /\ hist' = Append(hist, sym)
                /\ todo' = IF Mode = "paths" THEN todo ELSE Tail(todo)
                /\ src' = src

Refuse(reason) == phase' = "rejected" /\ why' = reason /\ UNCHANGED reader

\* `if len(line) == 0 or line[0] == 'c': continue'
Comment == UNCHANGED <<phase, why>> /\ UNCHANGED reader
EndLine == UNCHANGED <<phase, why>> /\ UNCHANGED reader

\* `if line[0] == 'p':'
Problem(t) ==
    IF n # -1 THEN Refuse("another_spec")
    ELSE IF Len(t) # 4 THEN Refuse("bad_spec")                      \* unpacking fails
    ELSE IF ~IsInt(t[3]) \/ ~IsInt(t[4]) THEN Refuse("bad_spec")    \* int() fails
    ELSE IF t[3].i < 0 \/ t[4].i < 0 THEN Refuse("bad_spec")
    ELSE /\ n' = t[3].i /\ m' = t[4].i /\ phase' = "body"
         /\ UNCHANGED <<buf, cnt, out, why>>

\* `if n is None: raise', then the loop over the literals of the line
IntTok(v) ==
    IF n = -1 THEN Refuse("data_before_spec")
    ELSE IF v = 0
         THEN /\ cnt' = cnt + 1 /\ out' = Append(out, buf) /\ buf' = <<>>
              /\ UNCHANGED <<n, m, phase, why>>
    ELSE IF 1 <= AbsV(v) /\ AbsV(v) <= n
         THEN /\ buf' = Append(buf, v) /\ UNCHANGED <<n, m, cnt, out, phase, why>>
    ELSE Refuse("invalid_literal")

WordTok ==
    IF n = -1 THEN Refuse("data_before_spec") ELSE Refuse("invalid_literal")

\* the checks after the loop
EndText ==
    /\ Running
    /\ IF Mode = "paths" THEN TRUE ELSE todo = <<>>
    /\ UNCHANGED <<src, todo, hist>>
    /\ IF Len(buf) > 0 THEN Refuse("last_clause_incomplete")
       ELSE IF n = -1 THEN Refuse("missing_spec")
       ELSE IF m # cnt THEN Refuse("clause_count")
       ELSE phase' = "accepted" /\ UNCHANGED <<why>> /\ UNCHANGED reader

\* A refusal inside the loop (ValueError raised) does not end the TEXT: whatever
\* follows is never looked at.  To have such texts in the explored set, a text
\* refused early may go on with zeros -- the continuation most likely to be
\* accepted by a reader that fails to refuse (closes the clause, fills the count).
RaisedInLoop == why \in {"another_spec", "bad_spec", "data_before_spec", "invalid_literal"}
Unread ==
    /\ Mode = "paths" /\ phase = "rejected" /\ RaisedInLoop /\ Len(hist) < Depth
    /\ hist' = Append(hist, ST(TI(0)))
    /\ UNCHANGED <<src, todo, phase, why>> /\ UNCHANGED reader

Next ==
    \/ /\ Running /\ \E sym \in Offered : sym.s = "C"  /\ Consume(sym) /\ Comment
    \/ /\ Running /\ \E sym \in Offered : sym.s = "NL" /\ Consume(sym) /\ EndLine
    \/ /\ Running /\ \E sym \in Offered : sym.s = "P"  /\ Consume(sym) /\ Problem(sym.t)
    \/ /\ Running /\ \E sym \in Offered : sym.s = "T" /\ IsInt(sym.t)  /\ Consume(sym) /\ IntTok(sym.t.i)
    \/ /\ Running /\ \E sym \in Offered : sym.s = "T" /\ ~IsInt(sym.t) /\ Consume(sym) /\ WordTok
    \/ EndText
    \/ Unread

Spec == Init /\ [][Next]_vars

-----------------------------------------------------------------------------
(* invariants                                                               *)
TypeOK ==
    /\ phase \in {"pre", "body", "accepted", "rejected"}
    /\ n \in Int /\ m \in Int /\ cnt \in Nat
    /\ (phase = "pre" => n = -1 /\ m = -1 /\ buf = <<>> /\ out = <<>> /\ cnt = 0)
    /\ (phase \in {"body", "accepted"} => n >= 0 /\ m >= 0)

\* what the loop maintains
LoopInvariant ==
    phase # "pre" =>
        /\ cnt = Len(out)
        /\ \A j \in 1..Len(buf) : 1 <= AbsV(buf[j]) /\ AbsV(buf[j]) <= n
        /\ \A c \in 1..Len(out) : \A j \in 1..Len(out[c]) : 1 <= AbsV(out[c][j]) /\ AbsV(out[c][j]) <= n

\* C06, reader half: an accepted text has a denotation and the formula built is that denotation
AcceptSound ==
    phase = "accepted" =>
        /\ HasDenotation(Text)
        /\ n = Denotation(Text).nvars
        /\ out = Denotation(Text).clauses
        /\ cnt = m
        /\ \A c \in 1..Len(out) : \A j \in 1..Len(out[c]) : out[c][j] # 0 /\ AbsV(out[c][j]) <= n
\* ... and a text without denotation ends in a refusal
NoDenotationRejected == (Ended /\ ~HasDenotation(Text)) => phase = "rejected"
\* this reader is exact (not demanded by C06, which lets a reader refuse more):
\* it refuses only texts that have no denotation, already when it refuses early
RejectsOnlyMeaningless == phase = "rejected" => ~HasDenotation(Text)
\* each refusal is for the reason the denotation names (coarsely)
RefusalReason ==
    phase = "rejected" =>
        CASE why \in {"another_spec", "bad_spec", "data_before_spec", "missing_spec"}
                 -> WhyNoDenotation(Text) = "structure"
          [] why = "invalid_literal" -> WhyNoDenotation(Text) \in {"structure", "literal_range"}
          [] why = "last_clause_incomplete" -> WhyNoDenotation(Text) = "unterminated"
          [] why = "clause_count" -> WhyNoDenotation(Text) = "clause_count"

\* C06, writer half (roundtrip mode)
WriterCanonical ==      \* evaluated on initial states
    (Mode = "roundtrip" /\ hist = <<>>) =>
        /\ (IsCanonical(src.F, Written(src)) <=> ~ExposesNonComment(src))
        /\ LinesOf(todo) = Written(src)
RoundTrip ==
    (Mode = "roundtrip" /\ Ended) =>
        /\ (phase = "accepted" <=> ~ExposesNonComment(src))
        /\ (phase = "accepted" => n = src.F.nvars /\ out = src.F.clauses)

-----------------------------------------------------------------------------
(* export of the paths (direction A): one JSON object per finished path     *)
PathRecord ==
    [lines   |-> Text,
     hasden  |-> HasDenotation(Text),
     den     |-> IF HasDenotation(Text) THEN Denotation(Text) ELSE NoDen,
     allowed |-> IF HasDenotation(Text) THEN <<"ValueError", "accept">> ELSE <<"ValueError">>,
     model   |-> phase,
     why     |-> why]
Emit == (Export /\ Ended) => PrintT(ToJson(PathRecord))
=============================================================================
