SPECIFICATION Spec
CONSTANT Part = "multi"
INVARIANT Multipartite_Characterised
INVARIANT Multipartite_Balanced
