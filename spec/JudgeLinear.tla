---------------------------- MODULE JudgeLinear ----------------------------
(***************************************************************************)
(* Trace module for C04: judges what the real constraint builders added to *)
(* a formula (CNF clause encoding or pseudo-Boolean encoding) against the  *)
(* meanings in Linear.tla, for all assignments.  Record kinds:             *)
(*   lin    [cls, call, op?, lits, k, nvars, clauses|constraints, outcome] *)
(*   parity [cls, lits, odd, nvars, clauses|constraints, outcome]          *)
(*   norm   [cons, out, nvars]                                             *)
(*   map    [cls, shape: unary|sparse|binary, n, m, graph?, forces, nvars, *)
(*           clauses|constraints, grp, idx, outcome]                       *)
(***************************************************************************)
EXTENDS Linear, Json, IOUtils, TLC

Trace == ndJsonDeserialize(IOEnv.TRACE_FILE)
VARIABLE pos
vars == <<pos>>

Sat(r, a) == IF r.cls = "CNF" THEN SatCNF(a, r.clauses) ELSE SatOPB(a, r.constraints)
WF(r)     == IF r.cls = "CNF" THEN WellFormed(r.nvars, r.clauses)
                              ELSE WellFormedPB(r.nvars, r.constraints)
\* what BaseOPB stores must be in normal form with positive coefficients
StoredNormal(r) == r.cls = "CNF" \/
                   \A j \in 1..Len(r.constraints) :
                      /\ IsNormal(r.constraints[j])
                      /\ \A t \in 1..Len(r.constraints[j].terms) : r.constraints[j].terms[t][1] > 0

MaxVar(lits) == IF lits = <<>> THEN 0 ELSE CHOOSE m \in {Abs(lits[i]) : i \in 1..Len(lits)} :
                                              \A i \in 1..Len(lits) : Abs(lits[i]) <= m

VerdictLin(r) ==
    IF r.outcome # "ok" THEN "unexpected_" \o r.outcome
    ELSE IF ~WF(r) \/ r.nvars < MaxVar(r.lits) THEN "literal_out_of_range"
    ELSE IF ~StoredNormal(r) THEN "stored_constraint_not_normalised"
    ELSE LET M(a) == IF r.call = "add_linear" THEN MeaningLinear(a, r.lits, r.op, r.k)
                     ELSE MeaningCall(a, r.call, r.lits, r.k)
         IN  IF \A a \in Assignments(r.nvars) : Sat(r, a) <=> M(a) THEN "ok"
             ELSE IF \E a \in Assignments(r.nvars) : Sat(r, a) /\ ~M(a) THEN "accepts_assignment_violating_the_condition"
             ELSE "rejects_assignment_satisfying_the_condition"

VerdictParity(r) ==
    IF r.outcome # "ok" THEN "unexpected_" \o r.outcome
    ELSE IF ~WF(r) \/ r.nvars < MaxVar(r.lits) THEN "literal_out_of_range"
    ELSE IF \A a \in Assignments(r.nvars) : Sat(r, a) <=> MeaningParity(a, r.lits, r.odd) THEN "ok"
    ELSE "parity_constraint_wrong"

VerdictNorm(r) ==
    IF r.outcome # "ok" THEN "unexpected_" \o r.outcome
    ELSE IF ~IsNormal(r.out) THEN "operator_not_normalised"
    ELSE IF \E t \in 1..Len(r.out.terms) : r.out.terms[t][1] <= 0 THEN "non_positive_coefficient"
    ELSE IF \A a \in Assignments(r.nvars) : SatPB(a, r.cons) <=> SatPB(a, r.out) THEN "ok"
    ELSE "normalisation_changed_the_models"

\* --- mappings ---------------------------------------------------------------
Key(r, v)  == <<r.grp[v]>> \o r.idx[v]
Keys(r)    == {Key(r, v) : v \in 1..r.nvars}
VarTable(r) == [k \in Keys(r) |-> CHOOSE v \in 1..r.nvars : Key(r, v) = k]
CompleteB(n, m) == [L |-> n, R |-> m, edges |-> [k \in 1..(n * m) |-> <<((k - 1) \div m) + 1, ((k - 1) % m) + 1>>]]
MapB(r) == IF r.shape = "sparse" THEN r.graph ELSE CompleteB(r.n, r.m)
Bits(r) == IF r.m <= 1 THEN 0 ELSE CeilLog2(r.m)
ExpMapKeys(r) ==
    IF r.shape = "binary" THEN {<<1, i, b>> : i \in 1..r.n, b \in 0..(Bits(r) - 1)}
    ELSE {<<1>> \o e : e \in BEdge(MapB(r))}

RECURSIVE CodeOf(_, _, _, _)
CodeOf(a, V, i, b) == IF b < 0 THEN 0 ELSE (IF a[V[<<1, i, b>>]] THEN Pow2(b) ELSE 0) + CodeOf(a, V, i, b - 1)

MapMeaning(r, V, a, force) ==
    IF r.shape = "binary"
    THEN LET h(i) == CodeOf(a, V, i, Bits(r) - 1) IN
         CASE force = "complete"      -> BinComplete(r.n, r.m, h)
           [] force = "functional"    -> BinFunctional(r.n, r.m, h)
           [] force = "injective"     -> BinInjective(r.n, r.m, h)
           [] force = "nondecreasing" -> BinNonDecreasing(r.n, r.m, h)
    ELSE LET B == MapB(r)
             M(i, j) == a[V[<<1, i, j>>]] IN
         CASE force = "complete"      -> MapComplete(B, M)
           [] force = "functional"    -> MapFunctional(B, M)
           [] force = "injective"     -> MapInjective(B, M)
           [] force = "surjective"    -> MapSurjective(B, M)
           [] force = "nondecreasing" -> MapNonDecreasing(B, M)

\* the documentation restricts surjectivity to unary representations
MapMayRefuse(r) == r.shape = "binary" /\ \E f \in 1..Len(r.forces) : r.forces[f] = "surjective"

VerdictMap(r) ==
    IF r.outcome = "ValueError" /\ MapMayRefuse(r) THEN "ok"
    ELSE IF r.outcome # "ok" THEN "unexpected_" \o r.outcome
    ELSE IF MapMayRefuse(r) THEN "ok"      \* outside the documented domain: nothing is promised
    ELSE IF ~WF(r) THEN "literal_out_of_range"
    ELSE IF Keys(r) # ExpMapKeys(r) \/ Cardinality(Keys(r)) # r.nvars THEN "variables_differ_from_documented"
    ELSE LET V == VarTable(r)
             Want(a) == \A f \in 1..Len(r.forces) : MapMeaning(r, V, a, r.forces[f])
         IN  IF \A a \in Assignments(r.nvars) : Sat(r, a) <=> Want(a) THEN "ok"
             ELSE IF \E a \in Assignments(r.nvars) : Sat(r, a) /\ ~Want(a) THEN "accepts_mapping_violating_the_requirement"
             ELSE "rejects_mapping_satisfying_the_requirement"

Verdict(r) ==
    CASE r.kind = "lin"    -> VerdictLin(r)
      [] r.kind = "parity" -> VerdictParity(r)
      [] r.kind = "norm"   -> VerdictNorm(r)
      [] r.kind = "map"    -> VerdictMap(r)

Init == pos = 1
Next == /\ pos <= Len(Trace)
        /\ PrintT(<<"VERDICT", Trace[pos].id, Verdict(Trace[pos])>>)
        /\ pos' = pos + 1
Spec == Init /\ [][Next]_vars
AllJudged == TLCGet("distinct") = Len(Trace) + 1
=============================================================================
