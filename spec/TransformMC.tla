----------------------------- MODULE TransformMC -----------------------------
(* Composition theorem for the documented construction, on all tiny CNFs.   *)
EXTENDS Transform, TLC
VARIABLE inst
vars == <<inst>>

LitSet == {-2, -1, 1, 2}
Clauses == UNION {[1..w -> LitSet] : w \in 0..2}
Formulas == UNION {[1..m -> Clauses] : m \in 0..2}

Params ==
       {[kind |-> kd, k |-> k, C |-> 0] : kd \in {"xor", "or", "maj", "eq", "neq", "one"}, k \in 1..3}
  \cup {[kind |-> kd, k |-> k, C |-> C] : kd \in {"exact", "atleast", "atmost", "anybut"}, k \in 1..3, C \in 0..4}
  \cup {[kind |-> "ite", k |-> 1, C |-> 0], [kind |-> "flip", k |-> 1, C |-> 0]}
  \cup {[kind |-> "lift", k |-> k, C |-> 0] : k \in 1..2}

Init == inst \in {[p |-> p, F |-> F] : p \in Params, F \in Formulas}
Next == UNCHANGED inst
Spec == Init /\ [][Next]_vars

N == 2
Composition ==
    LET p == inst.p
        TF == ApplySubstitution(p, N, inst.F)
        nv == NewVarCount(p, N)
    IN  \A a \in Assignments(nv) :
           SatClauses(a, TF) <=> (SideCondition(p, N, a) /\ SatCNF(Induced(p, N, a), inst.F))
=============================================================================
