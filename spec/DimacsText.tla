----------------------------- MODULE DimacsText -----------------------------
(***************************************************************************)
(* DIMACS CNF texts as token lines (property C06): the vocabulary shared   *)
(* by the reader machine (DimacsIO.tla) and the judge (JudgeDimacs.tla).   *)
(* Nothing here is a state machine; nothing here looks at the reader.      *)
(*                                                                         *)
(* A text is a sequence of lines.  A line is [k |-> kind, t |-> tokens]    *)
(* with kind                                                               *)
(*     "b"  blank line (no token),                                         *)
(*     "c"  first character of the stripped line is `c'  (comment),        *)
(*     "p"  first character of the stripped line is `p'  (problem line),   *)
(*     "d"  anything else                                  (data line);    *)
(* a token is [i |-> v] for an integer written in the text or [w |-> s]    *)
(* for any other whitespace-delimited word.  The tokens of comment lines   *)
(* are not looked at (the lexer may drop them).                            *)
(*                                                                         *)
(* DENOTATION (DESIGN.md section 4, C06, Interpretation).  A text has a    *)
(* denotation iff, ignoring blank and comment lines,                       *)
(*   - its first line is a problem line of exactly four tokens whose third *)
(*     and fourth tokens are integers n >= 0 and m >= 0,                   *)
(*   - every other line consists of integer tokens only (so there is no    *)
(*     second problem line and no data before the problem line),           *)
(*   - every non-zero integer v of the data has 1 <= |v| <= n,             *)
(*   - the data is empty or ends with 0, and contains exactly m zeros.     *)
(* Its denotation is then n together with the list of maximal zero-free    *)
(* runs of the data, in order.  The format word (second token) and the     *)
(* spelling of the first token beyond its first character are not          *)
(* constrained: a reader may accept `p foo 3 2' or refuse it.              *)
(***************************************************************************)
EXTENDS Integers, Sequences, FiniteSets, SequencesExt, TLC

IsInt(t) == "i" \in DOMAIN t
TI(v)    == [i |-> v]
TW(s)    == [w |-> s]
Ln(k, t) == [k |-> k, t |-> t]
IsWord(t, s) == ~IsInt(t) /\ t.w = s
AbsV(x)  == IF x < 0 THEN -x ELSE x

-----------------------------------------------------------------------------
(* Denotation: a function of the whole text                                 *)

\* concatenation of a sequence of sequences, left to right without recursion (FlattenSeq of SequencesExt
\* recurses once per element: texts of more than about 12 000 lines overflow TLC's stack)
Flat(seqs) == FoldLeft(LAMBDA acc, x : acc \o x, <<>>, seqs)

Significant(text) == SelectSeq(text, LAMBDA l : l.k \notin {"b", "c"})

GoodProblem(l) == /\ l.k = "p"
                  /\ Len(l.t) = 4
                  /\ IsInt(l.t[3]) /\ IsInt(l.t[4])
                  /\ l.t[3].i >= 0 /\ l.t[4].i >= 0

IntsOnly(l) == l.k = "d" /\ \A j \in 1..Len(l.t) : IsInt(l.t[j])

WellStructured(text) ==
    LET S == Significant(text)
    IN  /\ Len(S) >= 1
        /\ GoodProblem(S[1])
        /\ \A j \in 2..Len(S) : IntsOnly(S[j])

\* the following are only used on well structured texts
DeclN(text) == Significant(text)[1].t[3].i
DeclM(text) == Significant(text)[1].t[4].i
DataInts(text) ==
    LET S == Significant(text)
    IN  Flat([j \in 1..(Len(S) - 1) |-> [h \in 1..Len(S[j + 1].t) |-> S[j + 1].t[h].i]])

ZeroPositions(x) == SetToSortSeq({j \in 1..Len(x) : x[j] = 0}, <)
\* maximal zero-free runs that are closed by a zero, in order
SplitAtZeros(x) ==
    LET z == ZeroPositions(x)
    IN  [k \in 1..Len(z) |-> SubSeq(x, (IF k = 1 THEN 1 ELSE z[k - 1] + 1), z[k] - 1)]

AllInRange(x, n) == \A j \in 1..Len(x) : x[j] # 0 => AbsV(x[j]) <= n
Terminated(x)    == x = <<>> \/ x[Len(x)] = 0
NumZeros(x)      == Cardinality({j \in 1..Len(x) : x[j] = 0})

\* name of the first reason why a text has no denotation, or "none"
WhyNoDenotation(text) ==
    IF ~WellStructured(text) THEN "structure"
    ELSE LET x == DataInts(text) IN
         IF ~AllInRange(x, DeclN(text)) THEN "literal_range"
         ELSE IF ~Terminated(x) THEN "unterminated"
         ELSE IF NumZeros(x) # DeclM(text) THEN "clause_count"
         ELSE "none"

HasDenotation(text) == WhyNoDenotation(text) = "none"
Denotation(text)    == [nvars |-> DeclN(text), clauses |-> SplitAtZeros(DataInts(text))]
NoDen               == [nvars |-> -1, clauses |-> <<>>]

\* outcomes a reader may produce on a text
Allowed(text) == IF HasDenotation(text) THEN {"accept", "ValueError"} ELSE {"ValueError"}

-----------------------------------------------------------------------------
(* The writer, as cnfgen.utils.parsedimacs.to_dimacs_file emits lines.      *)
(*                                                                         *)
(* F = [nvars, clauses].  A header field is written as one string          *)
(* "c <key>: <value>\n" and a variable name as "c varname <id> <label>\n": *)
(* only the FIRST physical line of such a string is shielded by the `c'.   *)
(* What a line break inside key, value or label exposes is given here as   *)
(* the sequence of lines (in lexed form) that follow the shielded one:     *)
(* H[f] for header field f, N[v] for variable v (<<>> = no line break).    *)

ClauseLine(c) == Ln("d", [h \in 1..(Len(c) + 1) |-> IF h <= Len(c) THEN TI(c[h]) ELSE TI(0)])
ProblemLine(F) == Ln("p", <<TW("p"), TW("cnf"), TI(F.nvars), TI(Len(F.clauses))>>)
Shielded == Ln("c", <<>>)

Write(F, header, varnames, H, N) ==
       (IF header
        THEN FlattenSeq([f \in 1..Len(H) |-> <<Shielded>> \o H[f]]) \o <<Shielded>>
        ELSE <<>>)
    \o (IF varnames
        THEN FlattenSeq([v \in 1..F.nvars |-> <<Shielded>> \o N[v]]) \o <<Shielded>>
        ELSE <<>>)
    \o <<ProblemLine(F)>>
    \o [j \in 1..Len(F.clauses) |-> ClauseLine(F.clauses[j])]

-----------------------------------------------------------------------------
(* What the property demands of a written text: exactly one problem line,  *)
(* stating the true counts; every other line is a comment (blank lines are *)
(* tolerated) or clause data; the clause data denotes the clause list in   *)
(* order.  Value: "ok" or the name of the first failing clause.            *)

CanonWhy(F, lines) ==
    LET P == {j \in 1..Len(lines) : lines[j].k = "p"} IN
    IF P = {} THEN "no_problem_line"
    ELSE IF Cardinality(P) > 1 THEN "several_problem_lines"
    ELSE LET p  == CHOOSE j \in P : TRUE
             pl == lines[p] IN
         IF ~(/\ Len(pl.t) = 4 /\ IsWord(pl.t[1], "p") /\ IsWord(pl.t[2], "cnf")
              /\ IsInt(pl.t[3]) /\ IsInt(pl.t[4]))
         THEN "malformed_problem_line"
         ELSE IF pl.t[3].i # F.nvars THEN "wrong_variable_count"
         ELSE IF pl.t[4].i # Len(F.clauses) THEN "wrong_clause_count"
         ELSE IF \E j \in 1..Len(lines) : lines[j].k = "d" /\ ~IntsOnly(lines[j])
              THEN "non_comment_non_clause_line"
         ELSE IF \E j \in 1..(p - 1) : lines[j].k = "d" THEN "data_before_problem_line"
         ELSE IF ~HasDenotation(lines) THEN "data_" \o WhyNoDenotation(lines)
         ELSE IF Denotation(lines).clauses # F.clauses THEN "clauses_differ"
         ELSE "ok"

IsCanonical(F, lines) == CanonWhy(F, lines) = "ok"
=============================================================================
