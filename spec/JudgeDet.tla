------------------------------ MODULE JudgeDet ------------------------------
(***************************************************************************)
(* Trace module for C07: two or three fresh processes ran the same command *)
(* line with the same --seed under different ambient conditions (hash      *)
(* seed, working directory, environment size); library generators were     *)
(* called twice with the same seed argument.  The record carries whether   *)
(* the outputs are byte-identical and, per run, what the wrapped random    *)
(* module saw.  A difference is a violation; the events classify it with   *)
(* the vocabulary of CliDet.tla (which of the three facts shows).          *)
(* Record: [id, seed_given, same_output, same_body, runs: seq of           *)
(*          [seed_calls, draws_before_seed, draws_after_seed]]             *)
(***************************************************************************)
EXTENDS Integers, Sequences, TLC, Json, IOUtils

Trace == ndJsonDeserialize(IOEnv.TRACE_FILE)
VARIABLE pos
vars == <<pos>>

Verdict(r) ==
    IF r.same_output THEN "ok"
    ELSE IF ~r.seed_given THEN "ok"            \* nothing is promised without a seed
    ELSE IF \E k \in 1..Len(r.runs) : r.runs[k].seed_calls = 0 THEN "seed_was_never_installed"
    ELSE IF \E k \in 1..Len(r.runs) : r.runs[k].draws_before_seed > 0 THEN "random_draw_before_the_seed_is_installed"
    ELSE IF r.same_body THEN "ambient_value_in_the_comment_header"
    ELSE "output_depends_on_the_process"

Init == pos = 1
Next == /\ pos <= Len(Trace)
        /\ PrintT(<<"VERDICT", Trace[pos].id, Verdict(Trace[pos])>>)
        /\ pos' = pos + 1
Spec == Init /\ [][Next]_vars
AllJudged == TLCGet("distinct") = Len(Trace) + 1
=============================================================================
