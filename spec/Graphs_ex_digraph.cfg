SPECIFICATION Spec
CONSTANTS Kind = "digraph"
  MaxN = 3
  Depth = 2
  Batches <- SomeBatches
INVARIANT Emit
CHECK_DEADLOCK FALSE
